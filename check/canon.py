"""Canonical text of an implementation answer (JSON body) — the same text the Lean driver prints
(TrVerif/Model/Render.lean).  Identifiers are decoded from the UUIDs; every rendered name / code /
coordinate is checked against the integer it must belong to (a mismatch is made visible in the
canonical text, so the comparison with the model fails)."""
import json

MODES = ["tram", "tramTrain", "transferable"]
MODE_NAMES = ["Tram/LRT", "Tram Train", "Transferable"]
ROUTE_FIELDS = ["departureTime", "arrivalTime", "totalTravelTime", "totalDistance", "totalInVehicleTime",
                "totalInVehicleDistance", "totalNonTransitTravelTime", "totalNonTransitDistance",
                "numberOfBoardings", "numberOfTransfers", "transferWalkingTime", "transferWalkingDistance",
                "accessTravelTime", "accessDistance", "egressTravelTime", "egressDistance",
                "transferWaitingTime", "firstWaitingTime", "totalWaitingTime"]


def line_short(i):
    """short name the harnesses give line i - deliberately not unique (harness/*.cpp verifLineShortname)"""
    return "" if i % 4 == 3 else "L%d" % (i % 2)


def uid(u, kind):
    # 00000000-0000-0000-kkkk-iiiiiiiiiiii
    parts = u.split("-")
    if len(parts) != 5 or int(parts[3], 16) != kind:
        return -1
    return int(parts[4], 16)


def _ride(st, bad):
    trip = uid(st["tripUuid"], 7); line = uid(st["lineUuid"], 4); path = uid(st["pathUuid"], 5)
    agency = uid(st["agencyUuid"], 2); stop = uid(st["nodeUuid"], 1)
    mode = MODES.index(st["mode"]) if st["mode"] in MODES else -1
    if (st["nodeCode"] != "c%d" % stop or st["nodeName"] != "n%d" % stop or st["lineShortname"] != line_short(line)
            or st["lineLongname"] != "Line%d" % line or st["agencyAcronym"] != "A%d" % agency
            or st["agencyName"] != "Agency%d" % agency or mode < 0 or st["modeName"] != MODE_NAMES[mode]
            or st["nodeCoordinates"] != [float(stop), 0.0]):
        bad.append("names")
    return "t%d l%d p%d a%d m%d %d %d n%d" % (trip, line, path, agency, mode, st["legSequenceInTrip"],
                                            st["stopSequenceInTrip"], stop)


def canon_step(st, bad):
    a = st["action"]
    if a == "walking":
        kind = {"access": 0, "transfer": 1, "egress": 2}[st["type"]]
        s = "W%d %d %d %d %d" % (kind, st["travelTime"], st["distance"], st["departureTime"], st["arrivalTime"])
        if kind != 2:
            s += " %d" % st["readyToBoardAt"]
        elif "readyToBoardAt" in st:
            bad.append("egress-ready")
        return s
    if a == "boarding":
        return "B %s %d %d" % (_ride(st, bad), st["departureTime"], st["waitingTime"])
    if a == "unboarding":
        return "U %s %d %d %d" % (_ride(st, bad), st["arrivalTime"], st["inVehicleTime"], st["inVehicleDistance"])
    bad.append("action")
    return "?"


def canon_route(r, bad):
    return " ".join(str(r[f]) for f in ROUTE_FIELDS) + " ; " + ", ".join(canon_step(s, bad) for s in r["steps"])


def canon(kind, j):
    """kind: route | summary | accessibility; j: parsed JSON body"""
    bad = []
    st = j.get("status")
    if st == "query_error":
        return "%s query_error %s" % (kind, j.get("type", j.get("errorCode")))
    if st == "exception":
        return "%s exception" % kind
    if st == "updated":
        return "updated"
    if st == "no_routing_found":
        return "%s no_routing_found %s" % (kind, j.get("reason"))
    if st != "success":
        return "%s status=%s" % (kind, st)
    res = j["result"]
    if kind == "route":
        out = "route success n=%d ## " % res["totalRoutesCalculated"] + " ## ".join(canon_route(r, bad) for r in res["routes"])
    elif kind == "summary":
        ls = []
        for l in res["lines"]:
            line = uid(l["lineUuid"], 4); ag = uid(l["agencyUuid"], 2)
            if l["lineShortname"] != line_short(line) or l["lineLongname"] != "Line%d" % line or \
               l["agencyAcronym"] != "A%d" % ag or l["agencyName"] != "Agency%d" % ag:
                bad.append("names")
            ls.append((line, "l%d a%d %d" % (line, ag, l["alternativeCount"])))
        out = "summary success nb=%d ## " % res["nbRoutes"] + ", ".join(x[1] for x in ls)
    else:
        ns = []
        for n in res["nodes"]:
            stop = uid(n["nodeUuid"], 1)
            if n["nodeCode"] != "c%d" % stop or n["nodeName"] != "n%d" % stop or n["nodeCoordinates"] != [float(stop), 0.0]:
                bad.append("names")
            ns.append((stop, "n%d %d %d %d" % (stop, n["nodeTime"], n["totalTravelTime"], n["numberOfTransfers"])))
        ns.sort()
        out = "accessibility success total=%d ## " % res["totalNodeCount"] + ", ".join(x[1] for x in ns)
    if bad:
        out += " !!INCONSISTENT:" + ",".join(sorted(set(bad)))
    return out


def canon_model_exception(s):
    """model lines `route exception <what>` are compared as `route exception`"""
    ws = s.split(" ")
    if len(ws) >= 2 and ws[1] == "exception":
        return " ".join(ws[:2])
    return s


# ---------- parsing the canonical text back (used by projections and oracles) ----------

def parse_route(txt):
    head, steps = txt.split(" ; ", 1) if " ; " in txt else (txt.rstrip(" ;"), "")
    vals = [int(x) for x in head.split()]
    r = dict(zip(ROUTE_FIELDS, vals))
    out = []
    for s in [x for x in steps.split(", ") if x]:
        w = s.split()
        if w[0].startswith("W"):
            d = dict(action="walking", kind=int(w[0][1:]), travelTime=int(w[1]), distance=int(w[2]),
                     departureTime=int(w[3]), arrivalTime=int(w[4]))
            if len(w) > 5:
                d["readyToBoardAt"] = int(w[5])
        else:
            d = dict(action="boarding" if w[0] == "B" else "unboarding", trip=int(w[1][1:]), line=int(w[2][1:]),
                     path=int(w[3][1:]), agency=int(w[4][1:]), mode=int(w[5][1:]), legSeq=int(w[6]),
                     stopSeq=int(w[7]), stop=int(w[8][1:]))
            if w[0] == "B":
                d.update(departureTime=int(w[9]), waitingTime=int(w[10]))
            else:
                d.update(arrivalTime=int(w[9]), inVehicleTime=int(w[10]), inVehicleDistance=int(w[11]))
        out.append(d)
    r["steps"] = out
    return r


def parse_answer(txt):
    """canonical text -> dict(kind, status, reason | routes,n | nodes,total | lines,nb)"""
    ws = txt.split(" ", 2)
    kind, status = ws[0], ws[1] if len(ws) > 1 else ""
    a = dict(kind=kind, status=status, raw=txt)
    if "!!INCONSISTENT" in txt:
        a["inconsistent"] = True
        txt = txt.split(" !!INCONSISTENT")[0]
        ws = txt.split(" ", 2)
    if status == "no_routing_found":
        a["reason"] = ws[2]
    elif status == "query_error":
        a["type"] = ws[2]
    elif status == "success":
        parts = ws[2].split(" ## ")
        head = parts[0]
        body = parts[1:] if len(parts) > 1 else []
        if kind == "route":
            a["n"] = int(head.split("=")[1])
            a["routes"] = [parse_route(p) for p in body]
        elif kind == "summary":
            a["nb"] = int(head.split("=")[1])
            a["lines"] = {}
            for p in (body[0].split(", ") if body and body[0] else []):
                l, ag, c = p.split()
                a["lines"][int(l[1:])] = (int(ag[1:]), int(c))
        else:
            a["total"] = int(head.split("=")[1])
            a["nodes"] = {}
            for p in (body[0].split(", ") if body and body[0] else []):
                n, t, tt, nt = p.split()
                a["nodes"][int(n[1:])] = (int(t), int(tt), int(nt))
    return a
