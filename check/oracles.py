"""Direct evaluation of the properties on implementation answers (failing-input search).

These are *specifications in executable form*, written from the property statements, not from the
code: an itinerary validator (C01), the limit clauses (C02), the totals identities (C06), a
label-correcting reference for earliest arrival / latest departure (C03 C04 C05 C08 C09) and the
reason table (C07).  They never decide a property by themselves - the theorems do - they look for
a concrete input on which an implementation answer violates the statement.
"""
import collections

INF = 10 ** 12
MAX_INT = 2 ** 31 - 1


def norm(q):
    """parameters after parsing (documented defaults; <= 0 means no limit)"""
    def geti(k, d):
        return int(q[k]) if k in q else d
    n = dict(time=int(q["time_of_trip"]), forward=q.get("time_type", "0") != "1" and q.get("time_type", 0) != 1,
             scenario=int(q.get("scenario", 0)))
    mw = geti("min_waiting_time", 180); n["mw"] = 0 if mw < 0 else mw
    for k, key, d in (("maxT", "max_travel_time", MAX_INT), ("maxA", "max_access_travel_time", 1200),
                      ("maxE", "max_egress_travel_time", 1200), ("maxX", "max_transfer_travel_time", 1200)):
        v = geti(key, d); n[k] = MAX_INT if v <= 0 else v
    cap = geti("max_first_waiting_time", 1800); n["cap"] = -1 if cap <= 0 else cap
    n["alt"] = str(q.get("alternatives", "")) in ("1", "true")
    return n


def admitted(d, sc, trip):
    p, sv, tid, arr, dep, cb, cu = trip
    line = d["paths"][p][0]; agency, mode = d["lines"][line]
    if sc["services"] and sv not in sc["services"]: return False
    if sc["onlyLines"] and line not in sc["onlyLines"]: return False
    if sc["onlyModes"] and mode not in sc["onlyModes"]: return False
    if sc["onlyAgencies"] and agency not in sc["onlyAgencies"]: return False
    if line in sc["exceptLines"] or mode in sc["exceptModes"] or agency in sc["exceptAgencies"]: return False
    return True


def trip_view(d, n):
    """admitted trips as (stops, arr, dep, cb, cu, effective min wait, id, line)"""
    sc = d["scenarios"][n["scenario"]]
    out = []
    for t in d["trips"]:
        if admitted(d, sc, t):
            p, sv, tid, arr, dep, cb, cu = t
            line = d["paths"][p][0]
            mw = 0 if d["lines"][line][1] == 2 else n["mw"]
            out.append((d["paths"][p][1], arr, dep, cb, cu, mw, tid, line))
    return out


def foot_map(d):
    m = {}
    for a, b, t, x in d["foot"]:
        m.setdefault((a, b), (t, x))
    return m


# ------------------------------------------------------------------ C01

def check_itinerary(d, n, r):
    errs = []
    fm = foot_map(d)
    trips = {t[2]: t for t in d["trips"]}
    sc = d["scenarios"][n["scenario"]]
    steps = r["steps"]
    if len(steps) < 4 or steps[0].get("kind") != 0 or steps[-1].get("kind") != 2:
        return ["shape: must start with an access walk and end with an egress walk"]
    acc = {s: t for s, t, x in d["acc"]}; egr = {s: t for s, t, x in d["egr"]}
    cur_t = steps[0]["arrivalTime"]; cur_stop = None; walk_t = steps[0]["travelTime"]
    if steps[0]["arrivalTime"] != steps[0]["departureTime"] + walk_t: errs.append("access walk clock")
    i = 1; first = True
    while i < len(steps) - 1:
        if i + 1 >= len(steps) - 0 or steps[i]["action"] != "boarding" or steps[i + 1]["action"] != "unboarding":
            return errs + ["shape: boarding/unboarding pair expected at step %d" % i]
        b, u = steps[i], steps[i + 1]
        t = trips.get(b["trip"])
        if t is None or u["trip"] != b["trip"]:
            return errs + ["ride names an unknown trip or two trips"]
        p, sv, tid, arr, dep, cb, cu = t
        st = d["paths"][p][1]; line = d["paths"][p][0]
        bi = b["stopSeq"] - 1; uj = u["stopSeq"] - 1
        if not (0 <= bi < uj < len(st)):
            errs.append("ride order: boards at index %d alights at %d (path length %d)" % (bi, uj, len(st))); break
        if st[bi] != b["stop"] or st[uj] != u["stop"]: errs.append("ride stop is not the stop of the trip at that index")
        if dep[bi] != b["departureTime"] or arr[uj] != u["arrivalTime"]: errs.append("ride time differs from the schedule")
        if not cb[bi]: errs.append("boarding where it is forbidden")
        if not cu[uj]: errs.append("alighting where it is forbidden")
        if b["line"] != line or u["line"] != line: errs.append("line of the trip misreported")
        if not admitted(d, sc, t): errs.append("C02: trip not admitted by the scenario")
        mw = 0 if d["lines"][line][1] == 2 else n["mw"]
        if first:
            if acc.get(b["stop"]) != walk_t: errs.append("access walk %s is not the router's time to stop %d (%s)" % (walk_t, b["stop"], acc.get(b["stop"])))
        else:
            w = fm.get((cur_stop, b["stop"]))
            if w is None or w[0] != walk_t:
                errs.append("transfer walk %d->%d reported %s, footpath data %s" % (cur_stop, b["stop"], walk_t, w))
            if walk_t == 0 and cur_stop != b["stop"] and (w is None or w[0] != 0):
                errs.append("0 s walk between different stops")
        if b["departureTime"] < cur_t + mw:
            errs.append("boards at %d before arrival %d + minimum waiting %d" % (b["departureTime"], cur_t, mw))
        first = False; cur_stop = u["stop"]; i += 2
        if i < len(steps) - 1:
            if steps[i]["action"] != "walking" or steps[i].get("kind") != 1:
                return errs + ["shape: transfer walk expected at step %d" % i]
            walk_t = steps[i]["travelTime"]; cur_t = u["arrivalTime"] + walk_t; i += 1
            if not i < len(steps) - 1:
                return errs + ["shape: a transfer walk must be followed by a boarding, not by the egress walk"]
        else:
            cur_t = u["arrivalTime"]
    eg = steps[-1]
    if cur_stop is None: return errs + ["no ride"]
    if egr.get(cur_stop) != eg["travelTime"]: errs.append("egress walk %s is not the router's time from stop %d (%s)" % (eg["travelTime"], cur_stop, egr.get(cur_stop)))
    return errs


# ------------------------------------------------------------------ C02

def check_limits(d, n, r):
    errs = []
    T = n["time"]; steps = r["steps"]
    if n["forward"]:
        if r["departureTime"] < T: errs.append("leaves at %d before the requested departure %d" % (r["departureTime"], T))
        if r["arrivalTime"] - T > n["maxT"]: errs.append("span %d > max_travel_time %d" % (r["arrivalTime"] - T, n["maxT"]))
    else:
        if r["arrivalTime"] > T: errs.append("arrives at %d after the requested arrival %d" % (r["arrivalTime"], T))
        if T - r["departureTime"] > n["maxT"]: errs.append("span %d > max_travel_time %d" % (T - r["departureTime"], n["maxT"]))
    if steps and steps[0].get("kind") == 0 and steps[0]["travelTime"] > n["maxA"]: errs.append("access walk exceeds its maximum")
    if steps and steps[-1].get("kind") == 2 and steps[-1]["travelTime"] > n["maxE"]: errs.append("egress walk exceeds its maximum")
    for s in steps:
        if s["action"] == "walking" and s["kind"] == 1 and s["travelTime"] > n["maxX"]: errs.append("transfer walk %d exceeds its maximum %d" % (s["travelTime"], n["maxX"]))
    if n["forward"] and n["cap"] > 0 and len(steps) > 1 and steps[1]["action"] == "boarding":
        fw = steps[1]["departureTime"] - (T + steps[0]["travelTime"])
        trips = {t[2]: t for t in d["trips"]}
        t = trips.get(steps[1]["trip"])
        mw = n["mw"]
        if t is not None and d["lines"][d["paths"][t[0]][0]][1] == 2: mw = 0
        # the cap cannot be smaller than the minimum waiting time in force (the code lets such a boarding through
        # on purpose: parameters.getMaxFirstWaitingTimeSeconds() < connectionMinWaitingTimeSeconds)
        if fw > n["cap"] and not n["cap"] < mw: errs.append("first wait %d > max_first_waiting_time %d" % (fw, n["cap"]))
    return errs


# ------------------------------------------------------------------ C06

def check_totals(d, n, r):
    errs = []
    steps = r["steps"]
    if not steps: return ["no steps"]
    modes = {t[2]: d["lines"][d["paths"][t[0]][0]][1] for t in d["trips"]}
    trips = {t[2]: t for t in d["trips"]}
    clock = r["departureTime"]; walk = wait = veh = 0; nb = 0; twalk = 0; twait = 0; fwait = None; has_xfer = False
    prev_arr = None
    for i, s in enumerate(steps):
        if s["action"] == "walking":
            if s["departureTime"] != clock: errs.append("step %d: walk starts at %d, previous step ended at %d" % (i, s["departureTime"], clock))
            if s["arrivalTime"] != s["departureTime"] + s["travelTime"]: errs.append("step %d: walk clock" % i)
            clock = s["arrivalTime"]; walk += s["travelTime"]; prev_arr = clock
            if s["kind"] == 1: twalk += s["travelTime"]
            if s["kind"] != 2 and i + 1 < len(steps) and steps[i + 1]["action"] == "boarding":
                t = trips.get(steps[i + 1]["trip"]); mw = 0 if t is not None and modes.get(steps[i + 1]["trip"]) == 2 else n["mw"]
                if s.get("readyToBoardAt") != s["arrivalTime"] + mw: errs.append("step %d: readyToBoardAt %s != %d + %d" % (i, s.get("readyToBoardAt"), s["arrivalTime"], mw))
        elif s["action"] == "boarding":
            if prev_arr is None: errs.append("boarding without preceding walk"); prev_arr = clock
            if s["waitingTime"] != s["departureTime"] - prev_arr: errs.append("step %d: waitingTime %d != %d - %d" % (i, s["waitingTime"], s["departureTime"], prev_arr))
            wait += s["waitingTime"]; nb += 1
            if fwait is None: fwait = s["waitingTime"]
            else: twait += s["waitingTime"]
            clock = s["departureTime"]
            if modes.get(s["trip"]) == 2: has_xfer = True
        else:
            if s["inVehicleTime"] != s["arrivalTime"] - clock: errs.append("step %d: inVehicleTime" % i)
            veh += s["inVehicleTime"]; clock = s["arrivalTime"]; prev_arr = clock
    if r["arrivalTime"] != clock: errs.append("arrivalTime != end of last step")
    if r["totalTravelTime"] != r["arrivalTime"] - r["departureTime"]: errs.append("totalTravelTime != arrival - departure")
    if r["totalTravelTime"] != walk + wait + veh: errs.append("totalTravelTime %d != walks %d + waits %d + in-vehicle %d" % (r["totalTravelTime"], walk, wait, veh))
    if r["totalWaitingTime"] != r["firstWaitingTime"] + r["transferWaitingTime"]: errs.append("totalWaitingTime != first + transfer")
    if r["totalWaitingTime"] != wait or r["firstWaitingTime"] != fwait or r["transferWaitingTime"] != twait: errs.append("waiting totals")
    if r["totalInVehicleTime"] != veh: errs.append("totalInVehicleTime != sum")
    if r["accessTravelTime"] != steps[0]["travelTime"] or r["egressTravelTime"] != steps[-1]["travelTime"]: errs.append("access/egress time")
    if not has_xfer:
        if r["numberOfBoardings"] != nb: errs.append("numberOfBoardings %d != %d" % (r["numberOfBoardings"], nb))
        if r["numberOfTransfers"] != max(nb - 1, 0): errs.append("numberOfTransfers")
        if r["totalNonTransitTravelTime"] != walk: errs.append("totalNonTransitTravelTime != sum of walks")
        if r["transferWalkingTime"] != twalk: errs.append("transferWalkingTime != sum of transfer walks")
    return errs


# ------------------------------------------------------------------ reference solvers

def ref_earliest(d, n, all_nodes=False):
    """min arrival over admissible journeys (departure queries, first-wait cap ignored)"""
    T = n["time"]
    fp = collections.defaultdict(list)
    for (a, b), (t, x) in foot_map(d).items():
        if t <= n["maxX"]: fp[a].append((b, t))
    tr = trip_view(d, n)
    acc = {}
    for s, t, x in d["acc"]:
        if t <= n["maxA"]: acc.setdefault(s, t)
    egr = {}
    for s, t, x in d["egr"]:
        if t <= n["maxE"]: egr.setdefault(s, t)
    lab = collections.defaultdict(lambda: INF); al = collections.defaultdict(lambda: INF)
    for s, t in acc.items(): lab[s] = min(lab[s], T + t)
    ch = True
    while ch:
        ch = False
        for st, arr, dep, cb, cu, mw, tid, line in tr:
            for i in range(len(st) - 1):
                if cb[i] and lab[st[i]] + mw <= dep[i]:
                    for j in range(i + 1, len(st)):
                        if cu[j]:
                            if arr[j] < al[st[j]]: al[st[j]] = arr[j]; ch = True
                            for y, w in fp[st[j]]:
                                if arr[j] + w < lab[y]: lab[y] = arr[j] + w; ch = True
    nodes = {s: a for s, a in al.items() if a < INF and a - T <= n["maxT"]}
    cands = [al[e] + t for e, t in egr.items() if al[e] < INF and al[e] + t - T <= n["maxT"]]
    return (min(cands) if cands else None), nodes, bool(acc), bool(egr)


def ref_latest(d, n, not_before=None):
    """max over admissible journeys arriving by T of (first boarding - min wait - access walk);
    per-stop latest (boarding - min wait) for the accessibility map"""
    T = n["time"]
    fp = collections.defaultdict(list)
    for (a, b), (t, x) in foot_map(d).items():
        if t <= n["maxX"]: fp[a].append((b, t))
    tr = trip_view(d, n)
    acc = {}
    for s, t, x in d["acc"]:
        if t <= n["maxA"]: acc.setdefault(s, t)
    egr = {}
    for s, t, x in d["egr"]:
        if t <= n["maxE"]: egr.setdefault(s, t)
    lat = collections.defaultdict(lambda: -INF); bd = collections.defaultdict(lambda: -INF)
    ch = True
    while ch:
        ch = False
        for st, arr, dep, cb, cu, mw, tid, line in tr:
            for j in range(1, len(st)):
                if not cu[j]: continue
                ok = (st[j] in egr and arr[j] <= T - egr[st[j]]) or any(arr[j] + w <= lat[y] for y, w in fp[st[j]])
                if ok:
                    for i in range(j):
                        if cb[i]:
                            v = dep[i] - mw
                            if v > bd[st[i]]: bd[st[i]] = v; ch = True
                            if v > lat[st[i]]: lat[st[i]] = v; ch = True
    lo = 0 if not_before is None else not_before
    cands = [bd[a] - t for a, t in acc.items() if bd[a] > -INF and bd[a] - t >= lo and T - (bd[a] - t) <= n["maxT"]]
    nodes = {s: v for s, v in bd.items() if v > -INF and T - v <= n["maxT"]}
    return (max(cands) if cands else None), nodes, bool(acc), bool(egr)


# ------------------------------------------------------------------ C07

def reason_spec(d, n, accessibility=False):
    T = n["time"]
    acc = {}
    for s, t, x in d["acc"]:
        if t <= n["maxA"]: acc.setdefault(s, t)
    egr = {}
    for s, t, x in d["egr"]:
        if t <= n["maxE"]: egr.setdefault(s, t)
    if accessibility:
        if n["forward"] and not acc: return "NO_ACCESS_AT_PLACE"
        if not n["forward"] and not egr: return "NO_ACCESS_AT_PLACE"
    else:
        if not acc and not egr: return "NO_ACCESS_AT_ORIGIN_AND_DESTINATION"
        if not acc: return "NO_ACCESS_AT_ORIGIN"
        if not egr: return "NO_ACCESS_AT_DESTINATION"
    conns = []
    for st, arr, dep, cb, cu, mw, tid, line in trip_view(d, n):
        for i in range(len(st) - 1):
            conns.append((st[i], st[i + 1], dep[i], arr[i + 1], mw))
    if n["forward"]:
        ok = any(a in acc and T + acc[a] + mw <= td and td - T <= n["maxT"] and (n["cap"] <= 0 or td - T - acc[a] <= n["cap"])
                 for a, b, td, ta, mw in conns)
        if not ok: return "NO_SERVICE_AT_PLACE" if accessibility else "NO_SERVICE_FROM_ORIGIN"
    else:
        ok = any(b in egr and ta <= T - egr[b] and T - ta <= n["maxT"] for a, b, td, ta, mw in conns)
        if not ok: return "NO_SERVICE_AT_PLACE" if accessibility else "NO_SERVICE_TO_DESTINATION"
    return "NO_ROUTING_FOUND"


# ------------------------------------------------------------------ domains

def pos_hops(d):
    for p, sv, tid, arr, dep, cb, cu in d["trips"]:
        for i in range(len(arr) - 1):
            if not dep[i] < arr[i + 1]: return False
    return True


def uniform_wait(d):
    return all(m != 2 for a, m in d["lines"])
