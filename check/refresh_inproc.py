"""C15, in-process part: refresh histories through TransitData::updateSchedules / updateScenarios of the harness
(`update <kinds> swap`, harness/core_harness.cpp) against the Lean refresh model (Model/Refresh.lean, Model/Block.lean).

history  = phase0 ; update ; phase1 [; update ; phase2]     (a phase = 3-5 requests from a pool, scenarios repeated on purpose)
reference = for every phase after an update, a FRESH block whose trips are the set now "on disk", same requests.
direct violation  : implementation answer after the refresh != implementation answer of the fresh block   (the property itself)
correspondence    : implementation answer != model answer, at any position of the history
"""
import random, copy
from . import gen, canon

# `swap` first: the harness processes the words in order (a swap after the kinds would only show at the next update)
UPDATES = ["update swap schedules", "update swap scenarios schedules", "update swap schedules scenarios",
           "update swap agencies services nodes lines paths scenarios schedules"]


def alt_trips(rng, d):
    """a second timetable on the same paths: trips dropped, shifted, or kept (same ids on purpose: staleness shows)"""
    out = []
    for p, sv, tid, arr, dep, cb, cu in d["trips"]:
        r = rng.random()
        if r < 0.25:
            continue
        if r < 0.75:
            lo = min(arr + dep)
            delta = rng.choice([-900, -300, -60, 60, 300, 900, 1800])
            if lo + delta < 0: delta = abs(delta)
            out.append((p, sv, tid, [x + delta for x in arr], [x + delta for x in dep], cb, cu))
        else:
            out.append((p, sv, tid, arr, dep, cb, cu))
    if not out and d["trips"]:
        out.append(d["trips"][0])
    return out


def plan(seed, k):
    rng = random.Random("C15-inproc-%s-%d" % (seed, k))
    stream = rng.choice(["sparse", "dense", "overlap", "xfer", "parallel", "closer", "tmpl"])
    d = gen.gen_dataset(rng, stream)
    d = copy.deepcopy(d)
    d["cacheall"] = rng.choice([0, 1])
    t2 = alt_trips(rng, d)
    pool = []
    for _ in range(6):
        kind = rng.choice(["route", "route", "accessibility", "summary"])
        q = gen.gen_query(rng, d, alt=(kind != "accessibility" and rng.random() < 0.25), limits=False)
        pool.append((kind, q))
    phases, ups = [], []
    nph = rng.choice([2, 2, 3])
    for ph in range(nph):
        phases.append([rng.randrange(len(pool)) for _ in range(rng.randint(3, 5))])
        if ph < nph - 1:
            ups.append(rng.choice(UPDATES))
    return dict(did="R%s-%d" % (seed, k), d=d, t2=t2, pool=pool, phases=phases, ups=ups, stream=stream)


def blocks(h):
    """[(did, text, kinds, meta)] : the history block and one fresh block per phase after an update"""
    d, t2, pool = h["d"], h["t2"], h["pool"]
    lines, kinds, pos = [], [], []
    for ph, idxs in enumerate(h["phases"]):
        for i in idxs:
            lines.append(gen.fmt_query(*pool[i])); kinds.append(pool[i][0]); pos.append((ph, i))
        if ph < len(h["ups"]):
            lines.append(h["ups"][ph]); kinds.append("update"); pos.append((ph, None))
    out = [(h["did"], gen.write_dataset(d, h["did"], lines, t2), kinds, dict(role="history", pos=pos))]
    cur = [d["trips"], t2]
    for ph in range(1, len(h["phases"])):
        cur = [cur[1], cur[0]]          # every update line swaps
        dd = dict(d); dd["trips"] = cur[0]
        did = "%s.f%d" % (h["did"], ph)
        ql = [gen.fmt_query(*pool[i]) for i in h["phases"][ph]]
        out.append((did, gen.write_dataset(dd, did, ql), [pool[i][0] for i in h["phases"][ph]], dict(role="fresh", phase=ph)))
    return out


def evaluate(h, res, rep, stats, dd_add):
    bl = blocks(h)
    hist = res[bl[0][0]]
    text = bl[0][1]
    if hist["impl_fail"]:
        dd_add("inproc-crash-after-refresh", "in-process refresh history crashed / hung: " + hist["impl_fail"][:300], text); return
    if hist["model_fail"]:
        rep.corr.append(("model-driver", hist["model_fail"], text)); return
    pos = bl[0][3]["pos"]
    # correspondence along the whole history
    for j, (ia, ma) in enumerate(zip(hist["impl"], hist["model"])):
        rep.evaluations += 1
        if ia != ma:
            stats["inproc corr-mismatch"] += 1
            rep.corr.append(("refresh-history(model)", "model and implementation disagree at position %d of a refresh history: impl=%s model=%s" % (j, str(ia)[:160], str(ma)[:160]), text))
            return
    # the property on the implementation: after-refresh answers == fresh answers
    changed = False
    for (did, ftext, kinds, meta) in bl[1:]:
        fr = res[did]
        if fr["impl_fail"] or fr["model_fail"]:
            continue
        ph = meta["phase"]
        mine = [hist["impl"][j] for j, (p, i) in enumerate(pos) if p == ph and i is not None]
        for a, b, i in zip(mine, fr["impl"], h["phases"][ph]):
            rep.evaluations += 1
            stats["inproc after-refresh answers compared"] += 1
            if a != b:
                stats["inproc direct-fail"] += 1
                dd_add("inproc-stale-after-refresh", "after `%s` the in-process TransitData answers %s, a fresh one on the new trips answers %s" % (h["ups"][ph - 1], str(a)[:160], str(b)[:160]), text + ftext)
                return
        # non-trivial: some request of this phase is answered differently than before the refresh
        before = {}
        for j, (p, i) in enumerate(pos):
            if i is None: continue
            if p < ph: before[i] = hist["impl"][j]
            elif p == ph and i in before and before[i] != hist["impl"][j]:
                changed = True
    if changed:
        rep.nontrivial.add("inproc:" + h["did"])
        stats["inproc histories where the refresh changes an answer of a repeated request"] += 1
    stats["inproc histories %s" % h["stream"]] += 1
