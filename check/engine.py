"""Run implementation harness and Lean model on the same protocol text and align their answers."""
import json, os, subprocess, sys, shutil, tempfile, time
from concurrent.futures import ThreadPoolExecutor
from . import canon

VERIF = os.path.dirname(os.path.dirname(os.path.abspath(__file__)))
WORK = os.path.join(VERIF, "work")
JOBS = int(os.environ.get("VERIF_JOBS", "16"))


def workdir():
    d = os.path.join(WORK, "run-%d" % os.getpid())
    os.makedirs(d, exist_ok=True)
    return d


def cleanup():
    shutil.rmtree(os.path.join(WORK, "run-%d" % os.getpid()), ignore_errors=True)


def _parse_lines(text, is_json):
    out = {}
    for line in text.splitlines():
        if not line.startswith("A "):
            continue
        _, did, idx, payload = line.split(" ", 3)
        out.setdefault(did, {})[int(idx)] = payload
    return out


def _run(cmd, path, timeout):
    try:
        r = subprocess.run(cmd + [path], capture_output=True, text=True, timeout=timeout)
        return r.returncode, r.stdout, r.stderr
    except subprocess.TimeoutExpired as e:
        return -999, (e.stdout or b"").decode(errors="replace") if isinstance(e.stdout, bytes) else (e.stdout or ""), "TIMEOUT"


def run_cases(cases, impl_exe, model_exe, timeout_per_case=20, chunk=25, env_impl=None):
    """cases: list of (did, protocol_text, request_kinds).  Returns dict did -> dict(impl=[canonical|None],
    model=[canonical|None], impl_fail=None|'crash: …'|'timeout', raw=[json text])."""
    wd = workdir()
    chunks = [cases[i:i + chunk] for i in range(0, len(cases), chunk)]
    res = {}

    def do_chunk(ci):
        cs = chunks[ci]
        path = os.path.join(wd, "chunk_%d.txt" % ci)
        with open(path, "w") as f:
            for did, text, kinds in cs:
                f.write(text)
        out = {}
        rc, so, se = _run([impl_exe], path, timeout_per_case * len(cs))
        impl = _parse_lines(so, True)
        bad_impl = {}
        if rc != 0:
            # isolate the failing case(s)
            for did, text, kinds in cs:
                p1 = os.path.join(wd, "one_%d_%s.txt" % (ci, did))
                open(p1, "w").write(text)
                rc1, so1, se1 = _run([impl_exe], p1, timeout_per_case)
                impl[did] = _parse_lines(so1, True).get(did, {})
                if rc1 != 0:
                    bad_impl[did] = "timeout" if rc1 == -999 else "crash rc=%d: %s" % (rc1, se1[-1200:])
                os.remove(p1)
        rc2, so2, se2 = _run([model_exe], path, timeout_per_case * len(cs) * 3)
        model = _parse_lines(so2, False)
        bad_model = None
        if rc2 != 0:
            bad_model = "model driver rc=%d %s" % (rc2, se2[-300:])
        for did, text, kinds in cs:
            n = len(kinds)
            im, raw = [], []
            for i in range(n):
                p = impl.get(did, {}).get(i)
                raw.append(p)
                if p is None:
                    im.append(None)
                else:
                    try:
                        im.append(canon.canon(kinds[i], json.loads(p)))
                    except Exception as e:  # malformed body is a finding of its own
                        im.append("%s unparsable %r" % (kinds[i], str(e)[:80]))
            mo = [model.get(did, {}).get(i) for i in range(n)]
            mo = [None if m is None else canon.canon_model_exception(m) for m in mo]
            out[did] = dict(impl=im, model=mo, raw=raw, impl_fail=bad_impl.get(did), model_fail=bad_model)
        os.remove(path)
        return out

    with ThreadPoolExecutor(max_workers=JOBS) as ex:
        for o in ex.map(do_chunk, range(len(chunks))):
            res.update(o)
    return res


def run_model_only(cases, model_exe, timeout=600):
    wd = workdir()
    path = os.path.join(wd, "model_only_%d.txt" % int(time.time() * 1e6))
    with open(path, "w") as f:
        for did, text, kinds in cases:
            f.write(text)
    rc, so, se = _run([model_exe], path, timeout)
    os.remove(path)
    model = _parse_lines(so, False)
    return {did: [canon.canon_model_exception(model.get(did, {}).get(i)) if model.get(did, {}).get(i) is not None else None
                  for i in range(len(kinds))] for did, text, kinds in cases}, (rc, se)
