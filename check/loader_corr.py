"""Record-level loader correspondence (C16 valid directories, C17 cross-file inconsistencies).

  dataset --cachegen--> cache directory --decode--> RECORDS --Lean `trmodel --load`--> LOADED (model)
                                       \\--loader_harness (real CacheFetcher + TransitData, ASan)--> LOADED (implementation)

and, for the unbroken directory, RECORDS == `trmodel --encode dataset` (cachegen implements the Lean `encode`).
Formats: notes/loader-protocol.md.  The Lean theorems of Props/C16Load.lean / Props/C17Load.lean speak about
`Load.loadAll` and `Load.encode`; this run is what ties those two functions to /repo's loaders.
"""
import os, random, subprocess, collections, shutil, time
from concurrent.futures import ThreadPoolExecutor
from . import core, engine, gen

N_VALID = {"quick": 120, "thorough": 1500}
N_BROKEN = {"quick": 30, "thorough": 300}          # datasets; each gets every --break kind at two targets
STREAMS = ["dense", "sparse", "xfer", "overlap", "zero", "hours", "ties", "parallel", "twoends", "tmpl", "closer"]


def _tidy(text):
    return [" ".join(l.split()) for l in text.splitlines() if l.strip()]


def _run(cmd, timeout=60):
    try:
        r = subprocess.run(cmd, capture_output=True, text=True, timeout=timeout)
        return r.returncode, r.stdout, r.stderr
    except subprocess.TimeoutExpired:
        return -999, "", "TIMEOUT"


def list_breaks(cachegen):
    rc, so, se = _run([cachegen, "--list-breaks"])
    return [l.split("\t")[0] for l in so.splitlines() if l.strip()]


def one_case(tools, wd, did, text, brk):
    """returns dict(kind='ok'|'corr'|'direct'|'skip', sig, desc, replay, stats)"""
    cachegen, decode, loader, model = tools
    d = os.path.join(wd, "ld-" + did + ("-" + brk.replace(":", "_") if brk else ""))
    os.makedirs(d, exist_ok=True)
    ds_path = os.path.join(d, "dataset.txt")
    open(ds_path, "w").write(text)
    cdir = os.path.join(d, "cache")
    replay = "#!loader break=%s\n%s" % (brk or "-", text)
    out = dict(kind="ok", stats=collections.Counter())
    try:
        rc, so, se = _run([cachegen, ds_path, cdir] + (["--break", brk] if brk else []))
        if rc != 0:
            return dict(kind="skip", desc="cachegen: " + se[-200:], stats=out["stats"])
        rc, rec, se = _run([decode, cdir])
        if rc != 0:
            return dict(kind="corr", sig="decode", desc="decode failed rc=%d %s" % (rc, se[-300:]), replay=replay, stats=out["stats"])
        rec_path = os.path.join(d, "records.txt")
        open(rec_path, "w").write(rec)
        rc_i, impl, err_i = _run([loader, cdir])
        rc_m, mod, err_m = _run([model, "--load", rec_path])
        if rc_m != 0:
            return dict(kind="corr", sig="model-driver", desc="trmodel --load failed rc=%d %s" % (rc_m, err_m[-300:]), replay=replay, stats=out["stats"])
        mt = _tidy(mod)
        if rc_i != 0:
            ub = "UB" in mt
            return dict(kind="direct", sig="loader-crash", desc="the real loader died on %s (rc=%d; model %s): %s" % (
                "a valid generated directory" if not brk else "cachegen --break " + brk, rc_i,
                "predicts undefined behaviour" if ub else "loads it", err_i[-600:].replace("\n", " | ")), replay=replay, stats=out["stats"])
        it = _tidy(impl)
        st = next((l for l in it if l.startswith("datastatus ")), "datastatus ?")
        out["stats"][st] += 1
        out["stats"]["conns %s" % ("0" if not any(l.startswith("conn ") for l in it) else ">0")] += 1
        if "UB" in mt:
            return dict(kind="corr", sig="model-ub", desc="the model reaches an unchecked out-of-range access, the real loader survived (%s)" % (brk or "valid"), replay=replay, stats=out["stats"])
        if it != mt:
            diff = next(((a, b) for a, b in zip(it, mt) if a != b), (it[len(mt):len(mt) + 1] or ["<end>"], mt[len(it):len(it) + 1] or ["<end>"]))
            return dict(kind="corr", sig="loader-model", desc="loaded data differs from the Lean loader model (%s): impl `%s` model `%s`" % (
                brk or "valid directory", str(diff[0])[:160], str(diff[1])[:160]), replay=replay, stats=out["stats"])
        if not brk:
            rc_e, enc, err_e = _run([model, "--encode", ds_path])
            if rc_e != 0 or _tidy(enc) != _tidy(rec):
                a, b = _tidy(rec), _tidy(enc)
                diff = next(((x, y) for x, y in zip(a, b) if x != y), ("<len %d>" % len(a), "<len %d>" % len(b)))
                return dict(kind="corr", sig="encode-cachegen", desc="records written by cachegen differ from the Lean `encode`: files `%s` encode `%s`" % (
                    str(diff[0])[:160], str(diff[1])[:160]), replay=replay, stats=out["stats"])
        out["nontrivial"] = hash((rec, brk))
        return out
    finally:
        shutil.rmtree(d, ignore_errors=True)


def plan(seed, tier, mode):
    cases = []
    n = (N_VALID if mode == "valid" else N_BROKEN)["thorough" if tier == "thorough" else "quick"]
    k = 0
    tries = 0
    while len(cases) < n and tries < 4 * n:
        tries += 1
        rng = random.Random(seed * 7000003 + 31 * tries + (0 if mode == "valid" else 17))
        stream = rng.choice(STREAMS)
        try:
            d = gen.gen_dataset(rng, stream)
        except Exception:
            continue
        if d["ns"] > 60 or any(not (-32768 <= t <= 32767 and -32768 <= x <= 32767) for a, b, t, x in d["foot"]):
            continue
        if mode == "valid" and rng.random() < 0.3:
            # zero-length segments and missing trailing distances: an index shift in the distance list shows only with them
            paths = []
            for l, st, di in d["paths"]:
                di = list(di)
                if di and rng.random() < 0.5:
                    di[rng.randrange(len(di))] = 0
                paths.append((l, st, di))
            d["paths"] = paths
        did = "LD%d-%d" % (seed, len(cases))
        cases.append((did, gen.write_dataset(d, did, []), stream))
    return cases


def run_leg(rep, model, seed, tier, mode, replay_text=None):
    """adds obligations / corr / direct entries to `rep`; mode = 'valid' (C16) | 'broken' (C17)"""
    cachegen = core.harness_phase(rep, "cachegen", "plain")
    decode = core.harness_phase(rep, "decode", "plain")
    loader = core.harness_phase(rep, "loader", "asan")
    if not (cachegen and decode and loader and model):
        return
    tools = (cachegen, decode, loader, model)
    wd = engine.workdir()
    jobs = []
    if replay_text is not None:
        head = replay_text.splitlines()[0]
        brk = head.split("break=")[1].strip() if "break=" in head else "-"
        body = "\n".join(l for l in replay_text.splitlines() if not l.startswith("#")) + "\n"
        jobs.append(("replay", body, None if brk == "-" else brk))
    else:
        cases = plan(seed, tier, mode)
        if mode == "valid":
            jobs = [(did, text, None) for did, text, st in cases]
        else:
            kinds = list_breaks(cachegen)
            rng = random.Random(seed)
            for did, text, st in cases:
                for kind in kinds:
                    jobs.append((did, text, kind + ":" + str(rng.randrange(0, 6))))
                    jobs.append((did, text, kind + ":all"))
    stats = collections.Counter()
    t0 = time.time()
    ncorr0 = len(rep.corr)
    with ThreadPoolExecutor(max_workers=engine.JOBS) as ex:
        results = list(ex.map(lambda j: one_case(tools, wd, j[0], j[1], j[2]), jobs))
    for (did, text, brk), r in zip(jobs, results):
        stats.update(r.get("stats", {}))
        if r["kind"] == "skip":
            stats["skipped"] += 1; continue
        rep.evaluations += 1
        if brk: stats["break " + brk.split(":")[0]] += 1
        if r["kind"] == "corr":
            rep.corr.append(("loader:" + r["sig"], r["desc"], r["replay"]))
        elif r["kind"] == "direct":
            rep.direct.append((r["sig"], r["desc"], r["replay"]))
        else:
            rep.nontrivial.add(r.get("nontrivial"))
        if replay_text is not None:
            print("replay loader leg: %s %s" % (r["kind"], r.get("desc", "model and real loader agree")))
    rep.cov["loader_record_level"] = dict(mode=mode, cases=len(jobs), seconds=round(time.time() - t0, 1), distribution=dict(stats))
    rep.obligation("correspondence:loader-model(%s)" % mode, len(rep.corr) == ncorr0, "%d disagreement(s)" % (len(rep.corr) - ncorr0))


# ------------------------------------------------------------------ C15: refresh at record level

N_REFRESH = {"quick": 60, "thorough": 600}
REFRESH_NAMES = ["all", "schedules", "scenarios,schedules", "schedules,scenarios", "all,schedules"]


def _second_timetable(rng, d):
    """a copy of d with another timetable: trips removed, shifted, re-timed, one added; for the `all` / scenarios cases also other scenario lists"""
    import copy
    d1 = copy.deepcopy(d)
    trips = []
    nid = max([t[2] for t in d["trips"]] + [0]) + 1
    for t in d["trips"]:
        r = rng.random()
        if r < 0.2 and len(d["trips"]) > 1: continue
        p, sv, tid, arr, dep, cb, cu = t
        if r < 0.7:
            k = rng.choice([-120, 60, 420, 3600])
            arr = [max(0, x + k) for x in arr]; dep = [max(0, x + k) for x in dep]
        if r > 0.85:
            tid = nid; nid += 1
        trips.append((p, sv if rng.random() < 0.8 else rng.randrange(d["nsv"]), tid, arr, dep, list(cb), list(cu)))
    if not trips: trips = list(d["trips"])
    d1["trips"] = trips
    return d1


def refresh_case(tools, wd, did, text0, text1, names):
    cachegen, decode, loader, model = tools
    d = os.path.join(wd, "rf-" + did + "-" + names.replace(",", "_"))
    os.makedirs(d, exist_ok=True)
    replay = "#!refresh names=%s\n%s#!second\n%s" % (names, text0, text1)
    try:
        for i, text in ((0, text0), (1, text1)):
            open(os.path.join(d, "ds%d.txt" % i), "w").write(text)
            rc, so, se = _run([cachegen, os.path.join(d, "ds%d.txt" % i), os.path.join(d, "c%d" % i)])
            if rc != 0: return dict(kind="skip", desc="cachegen: " + se[-200:])
            rc, rec, se = _run([decode, os.path.join(d, "c%d" % i)])
            if rc != 0: return dict(kind="corr", sig="decode", desc="decode failed: " + se[-200:], replay=replay)
            open(os.path.join(d, "r%d.txt" % i), "w").write(rec)
        rc_i, impl, err_i = _run([loader, os.path.join(d, "c0"), "--update", names, "../c1"])
        rc_f, fresh, err_f = _run([loader, os.path.join(d, "c1")])
        rc_m, mod, err_m = _run([model, "--load", os.path.join(d, "r0.txt"), "--update", names, os.path.join(d, "r1.txt")])
        if rc_m != 0: return dict(kind="corr", sig="model-driver", desc="trmodel --load --update failed: " + err_m[-300:], replay=replay)
        if rc_i != 0:
            return dict(kind="direct", sig="crash-after-refresh-inproc", desc="TransitData died in the update calls of `names=%s` (rc=%d): %s" % (names, rc_i, err_i[-500:].replace("\n", " | ")), replay=replay)
        it, mt, ft = _tidy(impl), _tidy(mod), _tidy(fresh)
        if it != mt:
            diff = next(((a, b) for a, b in zip(it, mt) if a != b), ("<len %d>" % len(it), "<len %d>" % len(mt)))
            return dict(kind="corr", sig="refresh-model", desc="tables after `names=%s` differ from the Lean loader model: impl `%s` model `%s`" % (names, str(diff[0])[:150], str(diff[1])[:150]), replay=replay)
        if rc_f == 0 and it != ft:
            diff = next(((a, b) for a, b in zip(it, ft) if a != b), ("<len %d>" % len(it), "<len %d>" % len(ft)))
            return dict(kind="direct", sig="refreshed-tables-differ-from-fresh", desc="tables after `names=%s` differ from those of a fresh TransitData on the new files: refreshed `%s` fresh `%s`" % (
                names, str(diff[0])[:150], str(diff[1])[:150]), replay=replay)
        return dict(kind="ok", nontrivial=hash((text0, text1, names)))
    finally:
        shutil.rmtree(d, ignore_errors=True)


def run_refresh_leg(rep, model, seed, tier, replay_text=None):
    """C15 at record level: real TransitData::update* on a loaded TransitData vs the Lean `updateNames` vs a fresh TransitData"""
    cachegen = core.harness_phase(rep, "cachegen", "plain")
    decode = core.harness_phase(rep, "decode", "plain")
    loader = core.harness_phase(rep, "loader", "asan")
    if not (cachegen and decode and loader and model): return
    tools = (cachegen, decode, loader, model)
    wd = engine.workdir()
    jobs = []
    if replay_text is not None:
        head = replay_text.splitlines()[0]
        names = head.split("names=")[1].strip()
        a, b = replay_text.split("#!second\n", 1)
        jobs.append(("replay", "\n".join(l for l in a.splitlines() if not l.startswith("#")) + "\n", b, names))
    else:
        n = N_REFRESH["thorough" if tier == "thorough" else "quick"]
        k = 0
        while len(jobs) < n and k < 4 * n:
            k += 1
            rng = random.Random(seed * 9000011 + k)
            try: d = gen.gen_dataset(rng, rng.choice(["dense", "sparse", "xfer", "overlap", "parallel", "ties"]))
            except Exception: continue
            if any(not (-32768 <= t <= 32767 and -32768 <= x <= 32767) for a_, b_, t, x in d["foot"]): continue
            d1 = _second_timetable(rng, d)
            names = rng.choice(REFRESH_NAMES)
            if "scenarios" in names or "all" in names:
                if rng.random() < 0.5 and len(d1["scenarios"]) > 0 and len(d1["lines"]) > 1:
                    d1["scenarios"][0] = dict(d1["scenarios"][0], exceptLines=[rng.randrange(len(d1["lines"]))])
            did = "RF%d-%d" % (seed, len(jobs))
            jobs.append((did, gen.write_dataset(d, did, []), gen.write_dataset(d1, did, []), names))
    stats = collections.Counter()
    n0 = len(rep.corr)
    with ThreadPoolExecutor(max_workers=engine.JOBS) as ex:
        results = list(ex.map(lambda j: refresh_case(tools, wd, j[0], j[1], j[2], j[3]), jobs))
    for (did, t0, t1, names), r in zip(jobs, results):
        if r["kind"] == "skip": stats["skipped"] += 1; continue
        rep.evaluations += 1; stats["refresh " + names] += 1
        if r["kind"] == "corr": rep.corr.append(("loader:" + r["sig"], r["desc"], r["replay"]))
        elif r["kind"] == "direct": rep.direct.append((r["sig"], r["desc"], r["replay"]))
        else: rep.nontrivial.add(r["nontrivial"])
        if replay_text is not None: print("replay refresh leg: %s %s" % (r["kind"], r.get("desc", "model, refreshed and fresh tables agree")))
    rep.cov["refresh_record_level"] = dict(cases=len(jobs), distribution=dict(stats))
    rep.obligation("correspondence:loader-model(refresh)", len(rep.corr) == n0, "%d disagreement(s)" % (len(rep.corr) - n0))
