"""Driving the REAL trRouting binary over sockets: build, cache directories, server processes, raw HTTP, router stub.

Everything lives under /verif/work/http-<pid>/ (removed by cleanup()); nothing depends on /tmp.  Processes are
started with subprocess.Popen and are only ever killed by PID (never by name).

Coordinate conventions (see harness/osrm_stub.py): stop i at lon -73, lat 45 + i*1e-6; ACCESS point
"-73.000001,45.000005" (origin / place of a departure query), EGRESS point "-72.999999,45.000005" (destination /
place of an arrival query).
"""
import json, os, re, shutil, signal, socket, subprocess, sys, threading, time
from . import engine, gen

VERIF = engine.VERIF
sys.path.insert(0, VERIF)
from harness import build as hbuild          # noqa: E402
from harness import osrm_stub                # noqa: E402

ACCESS_POINT = osrm_stub.ACCESS_POINT
EGRESS_POINT = osrm_stub.EGRESS_POINT
SANITIZER_RE = re.compile(r"ERROR: (Address|Leak|Thread)Sanitizer|runtime error:|SUMMARY: \w*Sanitizer|AddressSanitizer:DEADLYSIGNAL|"
                          r"terminate called|Assertion .* failed|pure virtual method called")
_lock = threading.Lock()
_live = set()          # handles of running servers / stubs (for kill_all)


def workdir(sub=None):
    d = os.path.join(engine.WORK, "http-%d" % os.getpid())
    if sub:
        d = os.path.join(d, sub)
    os.makedirs(d, exist_ok=True)
    return d


def cleanup():
    kill_all()
    shutil.rmtree(os.path.join(engine.WORK, "http-%d" % os.getpid()), ignore_errors=True)


def uuid(kind, i):
    return "00000000-0000-0000-%04x-%012x" % (kind, i)


# ------------------------------------------------------------------ builds

def build_server(variant="asan"):
    """path of the real server binary compiled from /repo's current tree (raises harness.build.BuildError)"""
    return hbuild.build("server", variant)


def build_cachegen(variant="plain"):
    return hbuild.build("cachegen", variant)


# ------------------------------------------------------------------ cache directories

def make_cache(d, path, brk=None, did="0", cachegen=None, trips2=None):
    """dataset dict (gen.gen_dataset format) -> cache directory `path` (created / replaced).  Returns path.
    brk: a `cachegen --break` kind ("trip_path", "foot_unknown:2", "line_mode:all", ...)"""
    exe = cachegen or build_cachegen()
    if os.path.isdir(path):
        shutil.rmtree(path)
    os.makedirs(path)
    txt = os.path.join(path, "dataset.txt")
    with open(txt, "w") as f:
        f.write(gen.write_dataset(d, did, [], trips2))
    cmd = [exe, txt, path] + (["--break", brk] if brk else [])
    r = subprocess.run(cmd, capture_output=True, text=True, timeout=60)
    if r.returncode != 0:
        raise RuntimeError("cachegen failed (rc=%d): %s" % (r.returncode, r.stderr[-400:]))
    return path


def cachegen_breaks(cachegen=None):
    exe = cachegen or build_cachegen()
    r = subprocess.run([exe, "--list-breaks"], capture_output=True, text=True, timeout=20)
    return [l.split("\t")[0] for l in r.stdout.splitlines() if l.strip()]


# ------------------------------------------------------------------ ports, raw HTTP

def free_port():
    s = socket.socket(socket.AF_INET, socket.SOCK_STREAM)
    s.bind(("127.0.0.1", 0))
    p = s.getsockname()[1]
    s.close()
    return p


def http_get(port, path_and_query, timeout=10.0, host="127.0.0.1", grace=0.05, extra_headers=""):
    """One GET over a raw socket.  Returns (status_code | None, headers dict (lower-case keys), body bytes, raw bytes).
    body is EVERYTHING after the first blank line (so len(body) can be compared with Content-Length and a second
    response on the same connection would show up as surplus bytes).  status None = nothing parsable arrived;
    headers then carries "_error": "timeout" | "closed" | "refused" | "garbage".  headers["_elapsed"] = seconds.
    The request says `Connection: close`; reading ends at EOF, or `grace` seconds after a complete body, or at `timeout`."""
    t0 = time.time()
    raw = b""
    err = None
    try:
        s = socket.create_connection((host, port), timeout=timeout)
    except OSError as e:
        return None, {"_error": "refused", "_detail": str(e), "_elapsed": time.time() - t0}, b"", b""
    try:
        req = "GET %s HTTP/1.1\r\nHost: %s:%d\r\nConnection: close\r\n%s\r\n" % (path_and_query, host, port, extra_headers)
        s.sendall(req.encode("latin-1", "replace"))
        complete_at = None
        while True:
            now = time.time()
            if now - t0 > timeout:
                err = "timeout"; break
            if complete_at is not None and now - complete_at > grace:
                break
            s.settimeout(max(0.005, min(timeout - (now - t0), grace if complete_at is not None else 0.25)))
            try:
                chunk = s.recv(65536)
            except socket.timeout:
                continue
            except OSError as e:
                err = "closed"; break
            if not chunk:
                if not raw:
                    err = "closed"
                break
            raw += chunk
            if complete_at is None:
                i = raw.find(b"\r\n\r\n")
                if i >= 0:
                    m = re.search(rb"(?im)^content-length:\s*(\d+)\s*$", raw[:i + 2])
                    if m and len(raw) - (i + 4) >= int(m.group(1)):
                        complete_at = time.time()
    finally:
        try: s.close()
        except OSError: pass
    hdr = {"_elapsed": time.time() - t0}
    i = raw.find(b"\r\n\r\n")
    if i < 0:
        hdr["_error"] = err or ("garbage" if raw else "closed")
        return None, hdr, b"", raw
    head = raw[:i].decode("latin-1").split("\r\n")
    body = raw[i + 4:]
    m = re.match(r"HTTP/1\.[01] (\d{3})\b", head[0])
    if not m:
        hdr["_error"] = "garbage"
        return None, hdr, body, raw
    hdr["_status_line"] = head[0]
    for l in head[1:]:
        k, _, v = l.partition(":")
        k = k.strip().lower()
        hdr[k] = (hdr[k] + ", " + v.strip()) if k in hdr else v.strip()
    if err == "timeout":
        hdr["_error"] = "timeout-after-headers"
    return int(m.group(1)), hdr, body, raw


# ------------------------------------------------------------------ the real server

class Server:
    def __init__(self, proc, port, log, cmd):
        self.proc, self.port, self.log, self.cmd = proc, port, log, cmd
        self.pid = proc.pid
        self._rc = None

    def alive(self):
        return self.proc.poll() is None

    def output(self):
        try:
            return open(self.log, errors="replace").read()
        except OSError:
            return ""

    def sanitizer_output(self):
        out = self.output()
        m = SANITIZER_RE.search(out)
        if not m:
            return ""
        return out[max(0, m.start() - 200):m.start() + 3000]

    def get(self, path_and_query, timeout=10.0):
        return http_get(self.port, path_and_query, timeout)

    def stop(self, wait=5.0):
        """SIGTERM by PID (SIGKILL after `wait` s).  Returns (exit code, sanitizer output).  The exit code is the one
        the process had ALREADY if it died by itself (crash), else -15 / -9 from our own signal."""
        with _lock:
            _live.discard(self)
        rc = self.proc.poll()
        if rc is None:
            try:
                os.kill(self.pid, signal.SIGTERM)
            except ProcessLookupError:
                pass
            try:
                rc = self.proc.wait(timeout=wait)
            except subprocess.TimeoutExpired:
                try: os.kill(self.pid, signal.SIGKILL)
                except ProcessLookupError: pass
                rc = self.proc.wait(timeout=10)
        self._rc = rc
        return rc, self.sanitizer_output()


def start_server(cache_dir, port=None, threads=1, cache_all=False, osrm_port=None, euclid=False, variant="asan",
                 exe=None, ready_timeout=30.0, tag=None, osrm_host="127.0.0.1"):
    """Start the real binary on `cache_dir`; returns a Server handle once it answers HTTP (or has died: check .alive()).
    port None = pick a free one (retried when the bind loses a race).  stdout+stderr go to work/http-<pid>/srv-<port>.log"""
    exe = exe or build_server(variant)
    last = None
    for attempt in range(4):
        p = port or free_port()
        log = os.path.join(workdir("logs"), "srv-%s-%d.log" % (tag or "x", p))
        cmd = [exe, "--port", str(p), "--cachePath", cache_dir, "--threads", str(threads)]
        if cache_all:
            cmd += ["--cacheAllConnectionSets", "1"]
        if euclid:
            cmd += ["--useEuclideanDistance", "1"]
        if osrm_port:
            cmd += ["--osrmWalkingPort", str(osrm_port), "--osrmWalkingHost", osrm_host]
        env = dict(os.environ)
        env["ASAN_OPTIONS"] = "detect_leaks=0:abort_on_error=0:exitcode=99:allocator_may_return_null=1"
        env["UBSAN_OPTIONS"] = "print_stacktrace=1:halt_on_error=1:exitcode=98"
        env["TSAN_OPTIONS"] = "exitcode=97"
        f = open(log, "w")
        proc = subprocess.Popen(cmd, stdout=f, stderr=subprocess.STDOUT, stdin=subprocess.DEVNULL, env=env, cwd=workdir())
        f.close()
        h = Server(proc, p, log, cmd)
        with _lock:
            _live.add(h)
        t0 = time.time()
        ok = False
        while time.time() - t0 < ready_timeout:
            if proc.poll() is not None:
                break
            st, hd, body, raw = http_get(p, "/verif-ready-probe", timeout=1.0, grace=0.0)
            if st == 200 and b"missing params" in body:      # answered by the default resource of OUR server
                ok = True; break
            if st is not None:                                # somebody else's server on that port
                break
            time.sleep(0.05)
        if ok:
            # the probe may have been answered by ANOTHER trRouting server that owns this port (a concurrently
            # running check): our own process then dies a few milliseconds later with "bind: Address already in use"
            time.sleep(0.08)
            if proc.poll() is None:
                h.ready_s = time.time() - t0
                return h
            if port is None and re.search(r"[Aa]ddress already in use|bind", h.output()):
                h.stop(); last = h
                continue
            h.ready_s = None
            return h
        out = h.output()
        if port is None and (proc.poll() is None or re.search(r"[Aa]ddress already in use|bind", out)):
            h.stop(); last = h
            continue
        h.ready_s = None
        return h          # died during start-up (e.g. corrupt cache): the caller inspects .alive() / .stop()
    return last


def kill_all():
    with _lock:
        hs = list(_live)
    for h in hs:
        try:
            h.stop()
        except Exception:
            pass


# ------------------------------------------------------------------ the router stub

def start_stub(access, egress, port=None):
    """in-process scripted walking router (harness/osrm_stub.Stub), already listening; .port, .set_fault(kind, where,
    count), .set_script([...]), .log, .clear_log(), .stop()"""
    s = osrm_stub.Stub(access, egress, port=port or 0).start()
    with _lock:
        _live.add(s)
    _orig_stop = s.stop

    def stop():
        with _lock:
            _live.discard(s)
        _orig_stop()
    s.stop = stop
    return s


# ------------------------------------------------------------------ request building

PASS_KEYS = ("time_of_trip", "time_type", "min_waiting_time", "max_travel_time", "max_access_travel_time",
             "max_egress_travel_time", "max_transfer_travel_time", "max_first_waiting_time", "alternatives")


def route_query(q, kind):
    """request dict (gen.gen_query format, `scenario` = integer) -> "/v2/<kind>?..." with the coordinates of the stub
    convention.  Keys origin / destination / place / scenario_id already present in q are passed through unchanged."""
    ps = []
    if kind == "accessibility":
        if "place" in q:
            ps.append(("place", q["place"]))
        else:
            ps.append(("place", ACCESS_POINT if str(q.get("time_type", 0)) != "1" else EGRESS_POINT))
    else:
        ps.append(("origin", q.get("origin", ACCESS_POINT)))
        ps.append(("destination", q.get("destination", EGRESS_POINT)))
    if "scenario_id" in q:
        ps.append(("scenario_id", q["scenario_id"]))
    elif "scenario" in q:
        ps.append(("scenario_id", uuid(6, int(q["scenario"]))))
    for k, v in q.items():
        if k in PASS_KEYS:
            ps.append((k, v))
        elif k not in ("scenario", "scenario_id", "origin", "destination", "place"):
            ps.append((k, v))
    return "/v2/%s?%s" % (kind, "&".join("%s=%s" % (k, v) for k, v in ps))


# ------------------------------------------------------------------ JSON bodies -> canonical text

def normalise_coordinates(j):
    """The in-process harness places stop i at [i, 0]; the cache places it at [-73, 45 + i*1e-6].  Rewrite every
    nodeCoordinates of a parsed body to the in-process value IF it is exactly the encoded position of the stop named
    by nodeUuid (so canon.canon's names/codes/coordinates consistency check keeps its meaning); anything else is
    replaced by a marker that canon.canon flags as inconsistent."""
    def fix(o):
        if isinstance(o, dict):
            if "nodeCoordinates" in o and "nodeUuid" in o:
                try:
                    i = int(o["nodeUuid"].split("-")[4], 16)
                    c = o["nodeCoordinates"]
                    ok = len(c) == 2 and abs(c[0] - (-73.0)) < 1e-9 and abs(c[1] - (45.0 + i * 1e-6)) < 1e-9
                except Exception:
                    ok = False; i = -1
                o["nodeCoordinates"] = [float(i), 0.0] if ok else ["wrong-coordinates", o.get("nodeCoordinates")]
            for v in o.values():
                fix(v)
        elif isinstance(o, list):
            for v in o:
                fix(v)
    fix(j)
    return j
