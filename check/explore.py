"""development helper: raw model/implementation diff over generated streams"""
import sys, random, collections, os
sys.path.insert(0, os.path.dirname(os.path.dirname(os.path.abspath(__file__))))
from check import gen, engine
from harness import build

def main():
    stream = sys.argv[1]; n = int(sys.argv[2]); seed = int(sys.argv[3]) if len(sys.argv) > 3 else 1
    impl = build.build("core", "asan")
    model = os.path.join(engine.VERIF, "lean/.lake/build/bin/trmodel")
    cases = []
    for k in range(n):
        rng = random.Random(seed * 100003 + k)
        d = gen.gen_dataset(rng, stream)
        reqs, kinds = [], []
        for _ in range(5):
            q = gen.gen_query(rng, d)
            reqs.append(gen.fmt_query("route", q)); kinds.append("route")
            reqs.append(gen.fmt_query("accessibility", q)); kinds.append("accessibility")
        q = gen.gen_query(rng, d, alt=True)
        reqs.append(gen.fmt_query("route", q)); kinds.append("route")
        reqs.append(gen.fmt_query("summary", q)); kinds.append("summary")
        cases.append(("%s-%d-%d" % (stream, seed, k), gen.write_dataset(d, "%s-%d-%d" % (stream, seed, k), reqs), kinds))
    res = engine.run_cases(cases, impl, model)
    stats = collections.Counter(); shown = 0
    texts = {c[0]: c[1] for c in cases}
    for did, r in res.items():
        if r["impl_fail"]: stats["impl_fail"] += 1; print(did, r["impl_fail"][:300])
        if r["model_fail"]: stats["model_fail"] += 1; print(did, r["model_fail"])
        for i, (a, b) in enumerate(zip(r["impl"], r["model"])):
            stats["total"] += 1
            if a is not None:
                stats[" ".join(a.split()[:2])] += 1
            if a != b:
                stats["MISMATCH"] += 1
                if shown < 4:
                    shown += 1
                    print("MISMATCH", did, i, "\n impl ", a, "\n model", b)
                    open(os.path.join(engine.WORK, "mismatch_%d.txt" % shown), "w").write(texts[did])
    print(dict(stats))
    engine.cleanup()
main()
