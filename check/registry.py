"""property id -> check implementation, Lean module + theorem list, and the claim written to MANIFEST.json"""
from . import inproc

HOOK_COMMITS = ["afa3aa0"]

# property -> (Lean module, [theorems that decide it]); audited with `#print axioms` on every run
THEOREMS = {
    "C01": ("TrVerif.Props.C01", ["Tr.C01", "Tr.C01_with", "Tr.C01_modulo_cleanup", "Tr.cleanupPreserves", "Tr.revScanList_inv", "Tr.reconLoop_valid", "Tr.emit_valid"]),
    "C02": ("TrVerif.Props.C02", ["Tr.C02_partial", "Tr.C02_times", "Tr.stepsOfLegs_transfer"]),
    "C06": ("TrVerif.Props.C06", ["Tr.C06_totals", "Tr.C06_route"]),
    "C07": ("TrVerif.Props.C07", ["Tr.C07_route_strings", "Tr.C07_accessibility_strings", "Tr.C07_enum_order", "Tr.C07_access"]),
    "C10": ("TrVerif.Props.C10", ["Tr.C10_alternatives"]),
    "C11": ("TrVerif.Props.C11", ["Tr.C11_connSet", "Tr.C11_restrict", "Tr.C11_answers", "Tr.C11_route"]),
    "C13": ("TrVerif.Props.C13", ["Tr.C13_history_independent", "Tr.C13_cache_kind_irrelevant", "Tr.C13_structure"]),
    "C14": ("TrVerif.Props.C14", ["Tr.C14_interleavings", "Tr.C14_progress", "Tr.C14_structure"]),
    "C18": ("TrVerif.Props.C18", ["Tr.C18_index_safe", "Tr.C18_forward_guard", "Tr.C18_codes_documented", "Tr.C18_codes_specific", "Tr.C18_defaults", "Tr.C18_update_names"]),
    "C19": ("TrVerif.Props.C19", ["Tr.C19_summary", "Tr.C19_handlers_mirror"]),
}

_CORR = ("Residual risk = model != code, measured on every run by the correspondence (seeded generators -> C++ harness built from "
         "/repo's working tree -> diff with the compiled Lean model on the projection the property is about) and by direct evaluation "
         "of the property on every implementation answer; trusted base in evidence.coverage.trusted_base.")


def _claim(pid, text, technique, partial=False, note=None):
    has = bool(THEOREMS.get(pid, (None, []))[1])
    return dict(category="proof" if has else "exploration", text=text, technique=technique, note=note or _CORR)


CLAIMS = {}


def _reg(pid, text, technique, note=None):
    CLAIMS[pid] = _claim(pid, text, technique, note=note)


for _pid in ("C01", "C02", "C03", "C04", "C05", "C06", "C07", "C08", "C09", "C10", "C11", "C12", "C13", "C19"):
    _reg(_pid,
         "PROVISIONAL (theorems in progress): executable Lean model of the calculation, validated against the implementation on generated "
         "inputs (full-answer / projected equality), plus direct evaluation of the property statement on every implementation answer.",
         "Lean 4 model + differential correspondence + executable specification oracles")

_reg("C16", "PROVISIONAL: generated datasets are written as Cap'n Proto cache directories with the repository's own schemas, loaded by the real "
     "server binary (ASan) behind a scripted walking-router stub, and every HTTP answer is compared with the in-memory calculation on the "
     "same dataset (direct violation when they differ) and with the Lean model.",
     "differential: real binary on generated cache files vs in-memory calculation vs Lean model")
_reg("C18", "PARTIAL proof: index safety of both hour look-ups for every time value and connection list, documented error codes and defaults "
     "(tables regenerated from the source) are Lean theorems; the transport-level clauses (exactly one response, Content-Length, JSON body, "
     "classification of generated malformed requests, no crash/hang) are checked over raw sockets against the real ASan binary.",
     "Lean 4 theorems (index safety, tables) + raw-socket request enumeration against the real binary")

NOT_APPLICABLE = [
    {"property_id": p, "reason": "check under construction in this session (HTTP-level / fault / concurrency harness not built yet); not claimed until it runs"}
    for p in ("C14", "C15", "C17", "C20")
]


def run(pid, tier, seed, replay=None):
    if pid in ("C16", "C18"):
        from . import http_checks
        mod, ths = THEOREMS.get(pid, (None, []))
        return getattr(http_checks, "run_" + pid.lower())(tier, seed, replay, theorems=ths, module=mod)
    if pid in inproc.PROPS:
        mod, ths = THEOREMS.get(pid, (None, []))
        return inproc.run(pid, tier, seed, replay, theorems=ths, module=mod)
    print("unknown property", pid)
    return 2
