"""property id -> check implementation, Lean module + theorem list, and the claim written to MANIFEST.json"""
from . import inproc

HOOK_COMMITS = ["afa3aa0"]

# property -> (Lean module, [theorems that decide it]); audited with `#print axioms` on every run
THEOREMS = {
    "C01": ("TrVerif.Props.C01", ["Tr.C01", "Tr.C01_with", "Tr.C01_modulo_cleanup", "Tr.cleanupPreserves", "Tr.revScanList_inv", "Tr.reconLoop_valid", "Tr.emit_valid"]),
    "C02": ("TrVerif.Props.C02", ["Tr.C02_partial", "Tr.C02_times", "Tr.C02_arrival", "Tr.C02_first_wait", "Tr.stepsOfLegs_transfer", "Tr.bestEgress_spec"]),
    "C03": ("TrVerif.Props.NonVacuity", ["Tr.C07_scan_start", "Tr.C03_optimal", "Tr.forwardSingle_optimal", "Tr.FwdDomain_dataset", "Tr.fwdStep1_FCβ", "Tr.fwdScanList1_FCβ", "Tr.bestEgress_le", "Tr.bestEgress_sound",
                                         "Tr.reach_reverse", "Tr.singleReverse_gen", "Tr.Reach.usable", "Tr.journeyOK_arrival", "Tr.fwdScanList_inv", "Tr.C01", "Tr.C02_times", "Tr.C02_arrival",
                                         "Tr.C03_attained", "Tr.journeyOK_admFwd", "Tr.calculateSingleWith_emits_allowed",
                                         "Tr.C03_answer", "Tr.calculateSingle_no_exception", "Tr.optimizeJourney_terminates", "Tr.reconLoop_terminates", "Tr.reverseJourney_no_exception", "Tr.betweenOK_dataset",
                                         "Tr.nv_hypotheses", "Tr.nv_hypotheses_complete", "Tr.nv_admissible_forward", "Tr.nv_results"]),
    "C04": ("TrVerif.Props.NonVacuity", ["Tr.C07_scan_start", "Tr.C04_optimal", "Tr.singleReverse_optimal", "Tr.revStep1_RCθ", "Tr.revScanList1_RCθ", "Tr.bestAccess_ge", "Tr.init_RCθ",
                                         "Tr.revIndex_spec", "Tr.C01", "Tr.C02_times", "Tr.C02_arrival", "Tr.C04_attained", "Tr.journeyOK_admRev", "Tr.calculateSingleWith_emits_allowed",
                                         "Tr.C04_answer", "Tr.calculateSingle_no_exception", "Tr.optimizeJourney_terminates", "Tr.reconLoop_terminates", "Tr.reverseJourney_no_exception", "Tr.betweenOK_dataset",
                                         "Tr.nv_hypotheses", "Tr.nv_hypotheses_complete", "Tr.nv_hypotheses_reverse", "Tr.nv_admissible", "Tr.nv_results"]),
    "C05": ("TrVerif.Props.NonVacuity", ["Tr.C07_scan_start", "Tr.C03_optimal", "Tr.C05_attained", "Tr.forwardSingle_optimal", "Tr.rreach_usable", "Tr.RReach.arrT_mono", "Tr.singleReverse_gen",
                                         "Tr.journeyOK_exact", "Tr.journeyOK_admRev", "Tr.calculateSingleWith_emits_allowed", "Tr.FwdDomain_dataset",
                                         "Tr.C03_answer", "Tr.calculateSingle_no_exception", "Tr.optimizeJourney_terminates", "Tr.reconLoop_terminates",
                                         "Tr.nv_hypotheses", "Tr.nv_hypotheses_complete", "Tr.nv_admissible_forward", "Tr.nv_results"]),
    "C06": ("TrVerif.Props.C06", ["Tr.C06_totals", "Tr.C06_route"]),
    "C07": ("TrVerif.Props.NonVacuity", ["Tr.C07_scan_start", "Tr.C07_route_no_service_to_destination", "Tr.revScan_count_zero", "Tr.revIndex_spec", "Tr.C07_route_strings", "Tr.C07_accessibility_strings", "Tr.C07_enum_order", "Tr.C07_access",
                                      "Tr.C07_route_no_service_from_origin", "Tr.C07_no_service_from_origin_data", "Tr.C07_no_service_from_origin",
                                      "Tr.C07_no_service_at_place_forward", "Tr.fwdScan_count_zero", "Tr.fwdIndex_spec", "Tr.before_start_early",
                                      "Tr.C07_departure_never_to_destination", "Tr.secondPass_counts", "Tr.C07_arrival_never_from_origin",
                                      "Tr.C07_no_service_at_place_reverse", "Tr.C07_no_access_at_place", "Tr.nv_hypotheses", "Tr.nv_results"]),
    # module NonVacuity imports C08Complete and C09Complete (hence C02, C07Data, C08, C09, C18): a concrete dataset meeting every hypothesis, on which all four calculations succeed
    "C08": ("TrVerif.Props.NonVacuity", ["Tr.C07_scan_start", "Tr.C08_sound", "Tr.C08_complete", "Tr.C08_earliest", "Tr.forwardNode_sound", "Tr.fwdScanList_inv", "Tr.fwdStep_inv", "Tr.init_FInv",
                                         "Tr.fwdScanList_FC", "Tr.fwdStep_FC", "Tr.init_FC", "Tr.FW_dataset", "Tr.fwdIndex_spec",
                                         "Tr.calculateAllNodes_no_exception", "Tr.forwardNode_no_exception", "Tr.fwdChain_terminates", "Tr.fwdScanList_FCh",
                                         "Tr.nv_hypotheses", "Tr.nv_hypotheses_complete", "Tr.nv_hypotheses_reverse", "Tr.nv_nonneg", "Tr.nv_results"]),
    "C09": ("TrVerif.Props.NonVacuity", ["Tr.C07_scan_start", "Tr.C09_sound", "Tr.C09_complete", "Tr.C09_latest", "Tr.reverseNode_sound", "Tr.collectNodes_sorted", "Tr.collectNodes_mem",
                                         "Tr.revScanList_RC", "Tr.revStep_RC", "Tr.init_RC", "Tr.RW_dataset", "Tr.revIndex_spec",
                                         "Tr.calculateAllNodes_no_exception", "Tr.reverseNode_no_exception", "Tr.reconLoop_terminates", "Tr.optimizeJourney_terminates'", "Tr.applyFound_shape",
                                         "Tr.nv_hypotheses", "Tr.nv_hypotheses_complete", "Tr.nv_hypotheses_reverse", "Tr.nv_nonneg", "Tr.nv_results"]),
    "C10": ("TrVerif.Props.NonVacuity", ["Tr.C10_alternatives", "Tr.C10_no_better_forward", "Tr.C10_no_better_reverse", "Tr.C10_alt_times", "Tr.C10_alt_limits", "Tr.C10_alt_first_wait", "Tr.C10_alt_totals", "Tr.alternatives_from", "Tr.altLoop_from",
                                         "Tr.calcWith_attained_fwd", "Tr.calcWith_attained_rev", "Tr.AdmFwd.ctxLe", "Tr.AdmRev.ctxLe", "Tr.C03_optimal", "Tr.C04_optimal", "Tr.C01_with",
                                         "Tr.nv_hypotheses", "Tr.nv_hypotheses_complete", "Tr.nv_results"]),
    "C11": ("TrVerif.Props.C11", ["Tr.C11_connSet", "Tr.C11_restrict", "Tr.C11_answers", "Tr.C11_route"]),
    "C12": ("TrVerif.Props.NonVacuity", ["Tr.C12_full_accessibility_departure", "Tr.C12_full_accessibility_departure_indexed", "Tr.fwdStep_shift", "Tr.fwdFoot_shift", "Tr.forwardNode_shift",
                                  "Tr.fwd_list_shift", "Tr.nv_full_shift", "Tr.C12_full_accessibility_arrival", "Tr.C12_full_accessibility_arrival_indexed", "Tr.revStep_shift", "Tr.revFoot_shift",
                                  "Tr.reconLoop_shift", "Tr.optimizeJourney_shift", "Tr.applyFound_shift", "Tr.reverseNode_shift", "Tr.nv_full_shift_rev",
                                  "Tr.C12_full_route_arrival", "Tr.C12_full_route_arrival_indexed", "Tr.emit_shift", "Tr.bestAccess_shift", "Tr.revStep_shift1", "Tr.reverseJourney_shift",
                                  "Tr.emitsShaped_of_inv", "Tr.nv_full_route_arrival",
                                  "Tr.C12_full_route_departure", "Tr.C12_full_route_departure_indexed", "Tr.C12_full_route", "Tr.fwdStep_shift1", "Tr.bestEgress_shift", "Tr.reversePass_shift",
                                  "Tr.nv_full_route_departure", "Tr.C12_full_alternatives", "Tr.alternativesRouting_shift", "Tr.altLoop_shift", "Tr.nv_full_alternatives",
                                  "Tr.C12_window_route", "Tr.C12_window_alternatives", "Tr.C12_window_accessibility", "Tr.window_rev", "Tr.window_fwd", "Tr.nv_window",
                                  "Tr.C12_index_transparent_route", "Tr.C12_index_transparent_accessibility", "Tr.fwdScan_from_start", "Tr.revScan_from_start",
                                  "Tr.singleReverse_eq0", "Tr.before_start_early", "Tr.before_start_late", "Tr.fwdIndex_spec", "Tr.revIndex_spec", "Tr.C18_index_safe", "Tr.C07_scan_start",
                                  "Tr.C12_departure", "Tr.C12_arrival", "Tr.C12_map_departure", "Tr.C12_map_arrival", "Tr.C12_departure_query", "Tr.C12_arrival_query",
                                  "Tr.C12_accessibility_departure", "Tr.C12_accessibility_arrival", "Tr.AdmFwd.shift", "Tr.AdmRev.shift", "Tr.Reach.shift", "Tr.RReach.shift",
                                  "Tr.conns_shift", "Tr.wfData_shift", "Tr.C12_departure_reason", "Tr.C12_arrival_reason", "Tr.C12_map_status_departure", "Tr.C12_map_status_arrival",
                                  "Tr.CaughtF.shift", "Tr.CaughtR.shift", "Tr.allNodes_ok_iff_forward", "Tr.allNodes_ok_iff_reverse",
                                  "Tr.nv_shift", "Tr.nv_shift_maps", "Tr.nv_shift_nonneg", "Tr.nv_nonneg", "Tr.nv_results"]),
    "C16": ("TrVerif.Props.C16All", ["Tr.Load.C16_roundtrip", "Tr.Load.C16_loaded_conns", "Tr.Load.C16_loadTrips_perm", "Tr.Load.C16_loaded_conns_perm", "Tr.Load.C16_loaded_sorted",
                                      "Tr.Load.getNodes_enc", "Tr.Load.schedLoop_enc", "Tr.Load.connLoop_enc", "Tr.Load.nv_enc", "Tr.Load.nv_loaded", "Tr.C16_connections", "Tr.C16_reverse_footpaths", "Tr.C16_sorted_lists", "Tr.C16_trip_lists", "Tr.C16_scenario_set", "Tr.C16_comparators"]),
    "C13": ("TrVerif.Props.C13", ["Tr.C13_history_independent", "Tr.C13_cache_kind_irrelevant", "Tr.C13_structure"]),
    "C14": ("TrVerif.Props.C14", ["Tr.C14_interleavings", "Tr.C14_progress", "Tr.C14_structure"]),
    "C15": ("TrVerif.Props.C15All", ["Tr.Load.C15_refresh_all_record_level", "Tr.Load.C15_refresh_schedules_record_level", "Tr.Load.C16_roundtrip", "Tr.C15_answers", "Tr.C15_all", "Tr.C15_schedules", "Tr.C15_old_state_irrelevant", "Tr.C15_status", "Tr.C15_structure", "Tr.C15_order"]),
    "C17": ("TrVerif.Props.C17All", ["Tr.Load.C17_no_ub", "Tr.Load.C17_conn_forward", "Tr.Load.C17_foot_nonneg", "Tr.Load.C17_missing_not_ready", "Tr.Load.C17_ready_all_nonempty",
                                      "Tr.Load.C17_guard_needed", "Tr.Load.C17_guard_rejects", "Tr.Load.C17_validation_source", "Tr.Load.C17_insert_source", "Tr.Load.connLoop_val", "Tr.C17_ready_iff", "Tr.C17_names_empty", "Tr.C17_missing_file_not_ready", "Tr.C17_every_request_data_error", "Tr.C17_ready_serves", "Tr.C17_codes", "Tr.C17_tables_cover", "Tr.C17_structure"]),
    "C18": ("TrVerif.Props.C18All", ["Tr.Par.C18_defect_present", "Tr.Par.C18_query_error_documented", "Tr.Par.C18_not_ready_data_error", "Tr.Par.C18_calc_meets_contract",
                                      "Tr.Par.createCommon_spec", "Tr.Par.C18_unique_keys_values", "Tr.Par.C18_default_values", "Tr.Par.C18_params_source", "Tr.Par.C18_stoi_examples", "Tr.Par.C18_params_examples", "Tr.C18_index_safe", "Tr.C18_forward_guard", "Tr.C18_codes_documented", "Tr.C18_codes_specific", "Tr.C18_defaults", "Tr.C18_update_names"]),
    "C19": ("TrVerif.Props.C19", ["Tr.C19_summary", "Tr.C19_handlers_mirror"]),
    "C20": ("TrVerif.Props.C20", ["Tr.C20_recovery", "Tr.C20_faulted_answer", "Tr.C20_fault_lookup", "Tr.C20_classes", "Tr.C20_structure"]),
}

_CORR = ("Residual risk = model != code, measured on every run by the correspondence (seeded generators -> C++ harness built from "
         "/repo's working tree -> diff with the compiled Lean model on the projection the property is about) and by direct evaluation "
         "of the property on every implementation answer; trusted base in evidence.coverage.trusted_base.")


def _claim(pid, text, technique, note=None, category=None):
    has = bool(THEOREMS.get(pid, (None, []))[1])
    return dict(category="proof" if has else (category or "exploration"), text=text, technique=technique, note=note or _CORR)


CLAIMS = {}


def _reg(pid, text, technique, note=None, category=None):
    CLAIMS[pid] = _claim(pid, text, technique, note=note, category=category)


_M = ("The Lean model is executable; on every run it is compiled and driven with the same generated datasets and requests as a C++ harness "
      "built (ASan+UBSan) from /repo's working tree, and the canonical answers are compared")
_O = "the property statement itself is also evaluated on every implementation answer by an independent executable oracle (check/oracles.py)"

_reg("C01", "PROOF (full, over the model): Tr.C01 - for every well-formed dataset (WFData: times monotone along a trip, non-negative footpaths, "
     "self footpath 0), scenario and query, every route the calculation returns is a ValidItinerary (access walk offered by the router, rides of one "
     "scheduled trip each at scheduled times with boarding/alighting permitted, walks with the footpath's duration, every boarding after the minimum "
     "wait); Tr.C01_with gives the same for every recalculation of the alternatives search. Proved by a reverse-scan invariant, validity of the "
     "reconstruction, preservation by the four clean-up rewrites and the emission pass. " + _M + "; " + _O + ".",
     "Lean 4 theorem (invariant + refinement chain) over a hand-written model + differential correspondence")
_reg("C02", "PROOF (all clauses, over the model): Tr.C02_partial - every ridden trip is admitted by the scenario, access and egress entries and every transfer walk lie within their "
     "maxima; Tr.C02_times - never leaves before the requested departure nor before 0:00, arrival-time span <= max_travel_time; Tr.C02_arrival - never arrives after the requested arrival, "
     "departure-time span <= max_travel_time (hypothesis: the router lists each stop at most once around the destination); Tr.C02_first_wait - the first boarding, counted from requested "
     "departure + access walk, is within max_first_waiting_time unless the cap is below the minimum waiting time in force (documented reading, DESIGN 0.5). Carried through the reverse-scan "
     "invariant, the reconstruction, the four clean-up rewrites and the emission. " + _M + "; " + _O + " (check_limits).",
     "Lean 4 theorems (invariant + refinement chain) + differential correspondence + executable oracle")
_reg("C03", "PROOF (full, over the model, on the property's own domain): Tr.C03_answer / Tr.C03_optimal - for every well-formed dataset with positive hop times (lines of the `transferable` mode "
     "allowed), scenario and departure-time query with the first-waiting cap disabled: (1) a returned route arrives no later than ANY admissible journey (AdmFwd: a permitted boarding of an "
     "admitted trip that a traveller leaving the place at the requested time can reach - inductive Reach -, a permitted alighting of that trip at a stop the router offers, arrival = alighting + "
     "egress walk within max_travel_time); Tr.C03_attained - the returned route itself IS such an admissible journey and arrives exactly at the reported time (no hypothesis beyond well-formedness), so the reported arrival IS the minimum; (2) when an admissible journey exists the answer is never "
     "no_routing_found. (2) was FALSE on the code as found - the second pass could stop before the only acceptable first boarding; the failing input came out of this proof (fix a7932ab, corpus/). "
     "Proved by: completeness of the single forward scan up to an upper cut line (Tr.fwdStep1_FCβ), best-egress selection, forward soundness (a journey J* realises the chosen time), the journey "
     "reversal Tr.reach_reverse (J* is an admissible journey of the second pass, all its trips flagged usable), and the general single reverse pass Tr.singleReverse_gen. The third outcome of "
     "the model - `exception`: a reconstruction or clean-up loop that does not end, an out-of-range map::at, an hour index read out of bounds - is excluded for EVERY route query by "
     "Tr.calculateSingle_no_exception (stop numbers are stops of the data; the chain of stored steps visits stops with strictly increasing labels; every continuing clean-up iteration shortens "
     "the journey or ignores a new stop, and its look-ups cannot fail - Tr.reconLoop_terminates, Tr.optimizeJourney_terminates), so with an admissible journey the calculation RETURNS a route (Tr.C03_answer). " + _M + "; the brute-force reference solver is still run on every answer.",
     "Lean 4 theorems (forward + reverse completeness invariants, journey reversal, selection lemmas; attainment by the returned journey) + differential correspondence + reference solver")
_reg("C05", "PROOF (full, over the model, on the domain of C03): third clause of Tr.C03_optimal / Tr.C03_answer - for every well-formed dataset with positive hop times, scenario and departure-time "
     "query with the first-waiting cap disabled, when an admissible forward journey exists: NO admissible journey of the reverse kind that meets the REPORTED arrival time (AdmRev with the "
     "context's arrival set to r.arrivalTime: access entry, permitted boarding of an admitted trip, permitted alighting from which the place is reached by the reported arrival - inductive "
     "RReach) and leaves at or after the requested time leaves later than the reported departure; Tr.C05_attained - the returned route IS such a journey, leaving at the reported departure "
     "(>= the requested time) and meeting its own reported arrival (no hypothesis beyond well-formedness and a duplicate-free egress list). Together: the reported departure is the LATEST "
     "one that still meets the reported arrival. Proved by carrying every such journey into the second pass (Tr.rreach_usable: all its trips were flagged usable by the forward pass, "
     "Tr.RReach.arrT_mono) and the general single reverse pass Tr.singleReverse_gen; the model's `exception` outcome is excluded by Tr.calculateSingle_no_exception (a route IS returned: Tr.C03_answer). "
     "Outside the theorem: queries with an active first-waiting cap (checked by the reference solver only). " + _M + "; the brute-force backward reference solver from the reported arrival is still run on every answer.",
     "Lean 4 theorems (second-pass completeness for the reported arrival, usable-flag transfer, attainment by the returned journey) + differential correspondence + reference solver")
_reg("C04", "PROOF (full, over the model, on the property's own domain): Tr.C04_answer / Tr.C04_optimal - for every well-formed dataset with positive hop times (lines of the `transferable` mode "
     "allowed: the property's 'one minimum waiting time' restriction is not needed after fix a7932ab), scenario and arrival-time query: (1) a returned route departs no earlier than ANY admissible journey (AdmRev: access entry, permitted boarding of an admitted trip "
     "at its stop, permitted alighting from which the place is still reached by the requested time - inductive RReach -, departure at or after 0:00, span within max_travel_time); Tr.C04_attained - the "
     "returned route itself IS such an admissible journey leaving at the reported departure time (with Tr.C02_times for 0:00 and the span), so the reported departure IS the maximum; (2) when an admissible journey exists the answer "
     "is never no_routing_found (any reason). Proved by a completeness invariant of the single reverse scan relative to a cut line taken from the final state (max_travel_time; once an access "
     "stop is reached, its departure minus the longest access walk - Tr.revStep1_RCθ), the keep rule, the best-access selection (Tr.bestAccess_ge) and the transparency of the reverse hour "
     "index. The model's third outcome `exception` (a loop of the reconstruction or clean-up that does not end, an out-of-range map::at, an hour index read out of bounds) is excluded for every "
     "route query by Tr.calculateSingle_no_exception (Tr.reconLoop_terminates, Tr.optimizeJourney_terminates), so with an admissible journey a route IS returned (Tr.C04_answer). The first "
     "proof attempt needed uniform waiting at one step; the real code was wrong at the excluded point (a genuine C03 violation, repaired by a7932ab; inputs kept in corpus/). " + _M + "; the brute-force reference solver is still run on every answer.",
     "Lean 4 theorems (completeness invariant of the single reverse scan + best-access selection; attainment by the returned journey) + differential correspondence + reference solver")
_reg("C06", "PROOF (full, over the model): Tr.C06_totals - the clock chain and every total/identity of the property hold for every journey value the emission pass "
     "can produce; Tr.C06_route lifts it to every route returned on a well-formed dataset. " + _M + "; " + _O + ".",
     "Lean 4 theorem over the emission model + differential correspondence")
_reg("C07", "PROOF (over the model; every clause of the classification): Tr.C07_access - the NO_ACCESS_* trichotomy is returned exactly when the router offers no stop at both ends / origin / destination; "
     "Tr.C07_route_no_service_from_origin - for every dataset, scenario and departure-time query inside [0, 32 h) with non-negative access walks, /v2/route answers NO_SERVICE_FROM_ORIGIN exactly "
     "when NO connection of an admitted trip can be caught from an access stop within the limits (CaughtF: leaves no earlier than request + shortest access walk, trip not excluded, within "
     "max_travel_time, boarding stop reached by the access walk no later than departure - minimum waiting, first-waiting cap); Tr.C07_departure_never_to_destination - a departure-time query NEVER "
     "answers NO_SERVICE_TO_DESTINATION (the alighting that realises the arrival chosen by the first pass is caught by the second pass: usable flag, exact label, inside the scanned part; "
     "Tr.secondPass_counts), so every other failed departure-time query answers NO_ROUTING_FOUND; Tr.C07_route_no_service_to_destination - an arrival-time query answers NO_SERVICE_TO_DESTINATION "
     "exactly when no connection of an admitted trip arrives at an offered stop early enough to walk to the destination by the requested time within max_travel_time (CaughtR); "
     "Tr.C07_arrival_never_from_origin - it never answers NO_SERVICE_FROM_ORIGIN, so every other failed arrival-time query answers NO_ROUTING_FOUND. Accessibility: Tr.C07_no_access_at_place "
     "(NO_ACCESS_AT_PLACE exactly when the router offers nothing), Tr.C07_no_service_at_place_forward / _reverse (NO_SERVICE_AT_PLACE exactly when nothing can be caught / nothing arrives in time). "
     "Alternatives: same reason as the plain query (Tr.C10_alternatives (a)). Proved via 'a pass counts nothing iff no scanned connection is caught' and the transparency of both hour indexes. Both "
     "reason-to-string switches and the enum order are regenerated from the source. Hypotheses of the individual theorems are subsets of the property's domain (well-formed data, non-negative "
     "walks, clock in [0, 32 h), router lists each stop once). " + _M + "; the oracle reason_spec evaluates the classification on every answer.",
     "Lean 4 theorems (complete reason classification for route and accessibility, both time types; hour-index transparency) + regenerated tables + differential correspondence + executable oracle")
_reg("C08", "PROOF (full, over the model, on the property's own domain): Tr.C08_sound - every listed stop is reachable with the reported time (inductive specification Reach: access walk, or a ride "
     "of one admitted trip with permitted boarding after the minimum waiting time and permitted alighting followed by one footpath within the transfer maximum); Tr.C08_complete - every stop "
     "where such a traveller can alight within max_travel_time is listed; Tr.C08_earliest - the listed nodeTime is no later than ANY such alighting at that stop; totalTravelTime = nodeTime - "
     "requested time, each stop once ascending, totalNodeCount = number of stops. Hypotheses = the property's domain: well-formed data, positive hop times, every stop transferable to itself in "
     "0 s, non-negative walks, first-waiting cap disabled, clock values in [0, 32 h), router lists each stop once (all satisfiable: Tr.nv_hypotheses*). Proved by a soundness and a completeness "
     "invariant of the forward scan (Tr.fwdStep_inv, Tr.fwdStep_FC) and the transparency of the hour index (Tr.fwdIndex_spec). The theorems speak about a returned map; that a map (or "
     "no_routing_found) IS returned for every accessibility query - never the model's `exception` outcome, i.e. the chain walk that counts transfers ends and no index is read out of bounds - is "
     "Tr.calculateAllNodes_no_exception (tentative times strictly decrease along the chain: invariant Tr.fwdScanList_FCh, Tr.fwdChain_terminates). " + _M + "; the brute-force reference solver is still run on every answer.",
     "Lean 4 theorems (soundness + completeness invariants of the forward scan, hour-index transparency) + differential correspondence + reference solver")
_reg("C09", "PROOF (full, over the model, on the property's own domain - in fact without the 'uniform minimum waiting' restriction): Tr.C09_sound - every listed stop is usable with the reported time "
     "(a chain of scheduled rides boards there at nodeTime + minimum waiting and reaches an offered stop in time); Tr.C09_complete - every stop with a boarding from which the place can still be "
     "reached by the requested time within max_travel_time (inductive specification RReach) is listed; Tr.C09_latest - nodeTime is at least departure - minimum waiting of ANY such boarding at "
     "that stop; totalTravelTime = requested - nodeTime <= max_travel_time, each stop once ascending, totalNodeCount. Hypotheses: well-formed data, positive hop times, non-negative egress walks, "
     "router lists each stop once, request time >= 0 (satisfiable: Tr.nv_hypotheses*). Proved by a soundness and a completeness invariant of the reverse scan (Tr.revStep_inv, Tr.revStep_RC) and the "
     "transparency of the reverse hour index (Tr.revIndex_spec). The theorems speak about a returned map; that a map (or no_routing_found) IS returned for every accessibility query - never the model's "
     "`exception` outcome: the reconstruction chain and the clean-up loop end, the last stop is one the router offers, no index is read out of bounds - is Tr.calculateAllNodes_no_exception "
     "(Tr.reverseNode_no_exception; the clean-up runs here on a journey without access step: Tr.applyFound_shape, Tr.optimizeJourney_terminates'; needs arrival times >= 0). " + _M + "; the brute-force reference solver is still run on every answer.",
     "Lean 4 theorems (soundness + completeness invariants of the reverse scan, hour-index transparency) + differential correspondence + reference solver")
_reg("C10", "PROOF (full over the model; clause (e) on the domains of C03 / C04 as the property says): Tr.C10_alternatives - (a) same success/failure and reason as without alternatives, (b) routes[0] is the plain answer, (d) pairwise distinct "
     "sorted line lists, (f) at most 50 routes and totalRoutesCalculated >= their number, for ALL datasets and queries. (e) Tr.C10_no_better_forward / Tr.C10_no_better_reverse - on the domains of "
     "C03 / C04 no route of the answer arrives earlier / departs later than routes[0]: every further route is the answer of a recalculation with more excluded lines and the reduced max_travel_time "
     "(Tr.alternatives_from, loop invariant Tr.altLoop_from), hence an admissible journey of that recalculation (attainment, Tr.calcWith_attained_*), hence - excluding fewer lines and allowing a longer "
     "journey keeps it admissible (Tr.AdmFwd.ctxLe / Tr.AdmRev.ctxLe) - an admissible journey of the original query, which routes[0] is optimal among (Tr.C03_optimal / Tr.C04_optimal). "
     "(c) Tr.C01_with - every further route is a ValidItinerary; Tr.C10_alt_times - every route keeps the ORIGINAL query's time limits (not before the requested departure, within max_travel_time "
     "of it / not after the requested arrival, within max_travel_time before it, not before 0:00) although it was calculated with another max_travel_time; C06 holds of every emitted route value "
     "(Tr.C06_totals). Tr.C10_alt_limits - every route rides only hops of the scenario's connection set, walks what the router offers within the access / egress maxima and makes no transfer walk "
     "beyond the transfer maximum; Tr.C10_alt_first_wait - the first-waiting clause of C02; Tr.C10_alt_totals - all identities of C06. " + _M + ".",
     "Lean 4 theorems (loop invariants, attainment + monotonicity of admissibility, optimality of routes[0]) + differential correspondence + executable oracle")
_reg("C11", "PROOF (full, over the model): Tr.C11_answers / Tr.C11_route - route, alternatives and accessibility answers under a restricting scenario equal the answers "
     "under the all-inclusive scenario on the dataset with the excluded trips removed (filter commutes with both stable sorts; the calculation reads trips only "
     "through the connection set). " + _M + "; the metamorphic relation is also run on the implementation with physically deleted trips.",
     "Lean 4 theorem + differential correspondence + metamorphic run on the implementation")
_reg("C12", "PROOF (ALL THREE QUERY TYPES IN FULL on the sentinel-free range; partial only next to 0:00, see the end): (00) Tr.C12_full_route_arrival(_indexed), "
     "Tr.C12_full_route_departure(_indexed), Tr.C12_full_alternatives - for every well-formed dataset, every route or alternatives query of either time type and every offset (clock values clear "
     "of the sentinels -1 / MAX_INT: Tr.RouteRevRange / Tr.RouteFwdRange), the answer of the shifted problem is the shifted answer: same status and reason, and for every route EVERY clock time "
     "moved by k and every duration, distance, count, stop, line and trip unchanged (Tr.shRoute), for alternatives the same number of routes in the same order and the same number of "
     "calculations - the whole pipeline related step by step: single-query forward scan with its early termination Tr.fwdStep_shift1, best egress stop Tr.bestEgress_shift, reverse pass from "
     "the best arrival time over the trips the forward pass marked usable Tr.reversePass_shift (single-query reverse scan Tr.revStep_shift1 with a real or unset requested departure, best "
     "access stop Tr.bestAccess_shift, reconstruction, clean-up, emission Tr.emit_shift on journeys of the emitted shape, which the C01 chain provides: Tr.emitsShaped_of_inv), and the "
     "alternatives search Tr.altLoop_shift / Tr.alternativesRouting_shift (it reads routes only through durations and line sets); hypotheses satisfiable with a route found: "
     "Tr.nv_full_route_arrival, Tr.nv_full_route_departure, Tr.nv_full_alternatives. In plain words (Tr.C12_window_route / _alternatives / _accessibility, Tr.Window): if every scheduled time "
     "of the data lies in [lo, hi], footpaths take at most W, router walks between 0 and A, minimum waiting times at most M, and lo is at least W + M + A after 0:00 on both sides of the "
     "shift (hi + W + A below MAX_INT, the request at least A after 0:00), then every query of every type answers the shifted problem with the shifted answer. (0) Tr.C12_full_accessibility_departure(_indexed) and Tr.C12_full_accessibility_arrival(_indexed) - "
     "translation invariance of the CALCULATION ITSELF for accessibility in both time types (arrival: reverse scan Tr.revStep_shift, reconstruction Tr.reconLoop_shift, clean-up with all four rewrite "
     "cases Tr.applyFound_shift / Tr.optimizeJourney_shift, transfer count; range condition = every label candidate stays >= 0 on both sides, the property's 'next to 0:00'; Tr.nv_full_shift_rev). For "
     "departure-time accessibility: for EVERY dataset (zero-duration hops, any footpaths), every query (first-waiting cap, limits, scenario) and every offset k, with the clock values clear of the "
     "MAX_INT sentinel, the answer of the shifted problem is the answer of the original one with every node time moved by k - same status, reason, stops, travel times, numbers of transfers; no "
     "optimality domain: the scan states of the two runs are related connection by connection (Tr.fwdStep_shift, Tr.fwdFoot_shift, Tr.forwardNode_shift; Tr.fwd_list_shift - the sorted list of the "
     "shifted dataset is the shifted sorted list; Tr.nv_full_shift - hypotheses satisfiable). (1) Tr.C12_index_transparent_route / _accessibility - the hour index, the one place where absolute hour boundaries (x:00, 24:00, the slots next to "
     "0:00 and 32:00: the mechanism this property is anchored in) enter a calculation, is TRANSPARENT: for every dataset, scenario and query with the requested time in [0, 32 h) and non-negative "
     "router walks, the route / accessibility answer EQUALS the answer of the same calculation with every scan started at the head of the sorted list (Tr.calculateSingle0 / Tr.calculateAllNodes0: no "
     "index, no hour arithmetic); what the index skips leaves before the requested departure resp. arrives after the arrival (Tr.fwdIndex_spec, Tr.revIndex_spec, all 32 slots), and the first "
     "test of a scan step discards such a connection without touching the tables. (2) Where the answer is characterised by a specification, moving every scheduled time and the requested time "
     "by ANY integer k moves exactly the characterised values by k and keeps the status: Tr.C12_departure - departure-time route queries on the domain of C03/C05: a route is returned on one side "
     "iff on the other, arrivalTime and departureTime move by exactly k; Tr.C12_arrival - arrival-time queries on the domain of C04: status kept and departureTime moves by exactly k when the "
     "moved answer still leaves at or after 0:00 (the property's 'both answers stay in range'); Tr.C12_map_departure / Tr.C12_map_arrival - accessibility maps on the domains of C08 / C09: the "
     "same stops, each time moved by exactly k, same travel times, same stop count; STATUS AND REASON: Tr.C12_departure_reason - a failed departure-time query fails on the shifted side with the "
     "same reason; Tr.C12_arrival_reason - likewise for arrival-time queries, unless the shifted side returns a route that moved back would leave before 0:00 (then the answers are not both in "
     "range); Tr.C12_map_status_departure / _arrival - an accessibility map is returned on one side iff on the other (the reason classification of C07 and the termination theorems make the "
     "outcome a function of translation-invariant conditions: router tables, and 'some connection is caught': Tr.CaughtF.shift, Tr.CaughtR.shift). This half does not look at the scans: the inductive specifications are translation invariant (Tr.Reach.shift, "
     "Tr.RReach.shift, Tr.AdmFwd.shift, Tr.AdmRev.shift; Tr.conns_shift: the connections of the shifted records are the shifted connections) and both answers are optimal among and attained "
     "by admissible journeys; hypotheses on the shifted side are only 'clock values stay in range' (Tr.ShiftInRange; the structural ones are derived, Tr.wfData_shift etc.). NOT proved in full: "
     "datasets and requests where a clock value the scans compare falls below 0 on one side (a connection leaving less than the longest walk plus the waiting time after 0:00, an egress walk "
     "longer than the requested arrival time): there the tables of the two runs differ in entries that cannot reach the answer, and only the specification-level half (2) and the metamorphic "
     "runs cover the answers. The relation is also evaluated on implementation and model for generated offsets (hour marks, 24:00, next to 0:00 / 32:00). " + _M + ".",
     "Lean 4 theorems (translation invariance of the calculation itself for route, alternatives and accessibility queries of both time types; hour-index transparency; specification-level invariance near 0:00) + metamorphic relation on implementation and model")
_reg("C13", "PROOF (full, over the server model): Tr.C13_history_independent - the answer to a request after any sequence of earlier requests equals the answer of the "
     "initial server, for both cache kinds and whether or not the set was cached; Tr.C13_structure states the source facts it rests on (regenerated: no static state "
     "in the calculation, cache keyed by scenario, no data member in the geography filters the requests share). Histories are also replayed against the implementation and the model, "
     "and - because the in-process harness answers the walking look-ups from a table - against the real server with its own Euclidean geofilter: every target request is "
     "answered by a server started for it alone and again after a history with requests from far-away latitudes, invalid requests and other scenarios; bodies must be identical.",
     "Lean 4 theorem over the server state machine + regenerated structural facts + history replay")
_reg("C14", "PROOF (partial by nature): Tr.C14_interleavings - for every schedule of the atomic cache actions (hit / miss / build / set, extracted yield points) and any "
     "number of threads, every request gets the answer of the idle server and entries in use stay alive (shared ownership); Tr.C14_progress - no schedule blocks. "
     "Atomicity of the critical sections and the C++ memory model are assumed, not proved: they are observed by driving the real cache through forced schedules "
     "at the hook points (ASan) and by an unforced ThreadSanitizer soak.",
     "Lean 4 theorem over an interleaving model + forced-schedule correspondence at hook points + TSan soak")
_reg("C15", "PROOF (over the refresh model): Tr.C15_answers - after /updateCache of `all`, or of any list over {schedules, scenarios} containing schedules, the server STATE "
     "(data, scenario cache, data status) equals the state of a server newly started on the files now on disk, whatever was in memory before (old trips, cache entries of scenarios "
     "queried before, old status); hence every later answer after every later history coincides. Hypotheses = the property's: the refresh completes, no request in flight, files of other "
     "kinds unchanged for a partial refresh. Tr.C15_structure / C15_order: regenerated source facts (both update functions clear the cache before re-reading, clear empties both cache kinds, "
     "status recomputed, call order). At RECORD level, with the model of the real loaders (Model/Load.lean): Tr.Load.C15_refresh_all_record_level - the update calls of `names=all`, run in handler order on "
     "the files that encode a dataset, leave EXACTLY the tables of a fresh start on those files, for ANY previous content of the memory; C15_refresh_schedules_record_level - the same for `names=schedules` "
     "when the other files are unchanged. Tie: check/loader_corr.py refresh leg (real TransitData::update* on a loaded TransitData vs the Lean updateNames vs a fresh TransitData, tables compared line by "
     "line), in-process refresh histories (harness vs model vs fresh TransitData) and the real ASan+UBSan binary refreshed over HTTP vs a freshly started one vs the Lean calculation model. Use of freed "
     "memory is only observable on the binary.",
     "Lean 4 theorems (state equality after refresh; record-level refresh = fresh load) + regenerated facts + record-level, in-process and real-binary refresh histories")
_reg("C16", "PROOF (loaders modelled at record level, round trip proved; bytes trusted) + differential runs: Model/Load.lean transcribes the seven cache fetchers and loadAllData over the RECORDS of a "
     "cache directory, Model/Encode.lean is the record-level `encode` that cachegen implements. Tr.Load.C16_roundtrip - for every dataset the schema can encode (ids in range, aligned arrays, 2 <= stop times <= "
     "path stops, no backward hop, no negative footpath) loadAll (encode ds) is EXACTLY: stops with footpath vectors and reverse vectors in the loader's creation order, lines with agency and mode, paths with "
     "stop order and segment distances, scenarios with all lists, trips with path / line / agency / mode / service; C16_loaded_conns - `connections` are, for the trips in file order, the connections of "
     "Dataset.tripConns (hop k: stop k -> k+1, departure of k, arrival of k+1, boarding flag of k, alighting flag of k+1, sequence k+1, waiting 0 on a transferable line); C16_loadTrips_perm / "
     "C16_loaded_conns_perm - file order is a permutation of the dataset's trips; C16_loaded_sorted - with unique trip ids forwardConnections / reverseConnections of the loaded data ARE the model's fwdAll / "
     "revAll, so C01-C12 speak about what the server scans; nv_enc / nv_loaded - a concrete dataset meets the hypotheses. Data layer as before (C16_connections, C16_reverse_footpaths, C16_sorted_lists, "
     "C16_trip_lists, C16_scenario_set, C16_comparators). NOT modelled: the bytes (Cap'n Proto decoding), service date strings. Tie: check/loader_corr.py on every run - generated directories decoded "
     "to RECORDS (harness/decode.cpp, no loader code), loaded by the Lean model and by the real CacheFetcher + TransitData under ASan (harness/loader_harness.cpp), the two loaded states compared line by line; "
     "`trmodel --encode` = the records cachegen wrote; then the real server binary behind a scripted walking-router stub: every HTTP answer compared with the in-memory calculation on the same dataset and with "
     "the Lean model, every itinerary checked against the dataset by the C01 oracle, reported distances against the encoded ones. Size is outside the model: a scale leg serves one line of 120 stops x "
     "3 000 trips (a 5 MB line file, periodic timetable) and checks that the answer to a request made 20 m seconds later is the same answer 20 m seconds later up to the end of the timetable "
     "(it detects the defect a round-5 sub-agent saw in the tree: a repair of ours re-read Cap'n Proto lists at every stop and ran into the reader's traversal limit; fixed in d389688).",
     "Lean 4 theorems (record-level loader model: round trip of encode/load, loaded sorted lists = model lists) + model/real-loader differential + real binary on generated cache files vs in-memory calculation vs Lean model")
_reg("C17", "PROOF (partial: record-level loader model + decision logic; bytes NOT modelled): Model/Load.lean transcribes the seven cache fetchers and loadAllData statement by statement over the "
     "RECORDS of a cache directory (any uuid texts, any array lengths, any dangling references, duplicates, files missing); exceptions end the enclosing try with the state reached so far, Cap'n Proto "
     "list reads are checked, `path.nodesRef[i]` is NOT (model outcome `ub`). For EVERY content: Tr.Load.C17_no_ub - loading never makes an unchecked out-of-range access (the trip validation protects "
     "it; C17_guard_needed / C17_guard_rejects show the model does reach `ub` without it; C17_validation_source pins the guards and the Connection arguments to the text the translator extracts from the "
     "source NOW); C17_conn_forward - no loaded connection arrives before it departs; C17_foot_nonneg - no loaded footpath has a negative time; C17_missing_not_ready - an absent collection file (or no "
     "schedule file) never yields READY; C17_ready_all_nonempty. Over every assignment of a fetch outcome to every cache kind: Tr.C17_ready_iff, C17_names_empty, C17_missing_file_not_ready, "
     "C17_every_request_data_error, C17_ready_serves - a non-READY server answers every request after every history with data_error and the documented MISSING_DATA_* code, a READY one serves what it "
     "loaded. Tie: check/loader_corr.py - generated directories with each of 37 cross-file inconsistencies (cachegen --break) are decoded to RECORDS (harness/decode.cpp), loaded by the Lean model and "
     "by the real CacheFetcher + TransitData under ASan (harness/loader_harness.cpp); the two loaded states are compared line by line (every table, footpath vectors, connections in creation order, "
     "both sorted orders). NOT proved - no executable model exhibits it: the behaviour of the decoder and loaders on arbitrary BYTES (truncation, bit flips). That part is fault enumeration against "
     "the real ASan+UBSan binary at start-up and through /updateCache (every file missing / empty / truncated / bit-flipped / zeroed, every cross-file inconsistency incl. boundary counts).",
     "Lean 4 theorems (record-level loader model for all contents, decision logic, regenerated guards and tables) + model/real-loader differential on inconsistent directories + fault enumeration against the real sanitized binary")
_reg("C18", "PROOF (partial: parameter handling and index safety proved, transport observed): Model/Params.lean is the string-level code of createCommonParameter / createRouteODParameter / "
     "createAccessibilityParameter, std::stoi with full consumption and the exception -> status / errorCode mapping of the three handlers. For EVERY list of (name, value) pairs in EVERY order (the server "
     "iterates a hash multimap), every coordinate parser and every scenario table: Tr.Par.C18_defect_present - a 400 names a defect actually present in the request (missing / malformed / non-numeric "
     "parameter, unknown or empty scenario; origin / destination codes only on route and summary, place codes only on accessibility); C18_query_error_documented - its errorCode is a documented one; "
     "C18_not_ready_data_error - on data that is not READY every request is answered data_error with the status's code; C18_calc_meets_contract - when the calculation runs, the scenario exists and has "
     "services, the time of trip is a non-negative integer written in the request, every limit is normalised (waiting >= 0, maxima > 0 with MAX_INT = no limit, cap > 0 or disabled); C18_unique_keys_values - in a request without a duplicated key every numeric parameter of the calculation is the documented default "
     "when omitted and the normalised value of the request when given (non-positive = no limit); C18_params_source - the parameter names, the numeric ones, the order of the checks and the shape of "
     "getIntegerValue are re-read from the three factories on every run; C18_params_examples "
     "(defaults, zero limit, four error codes; non-vacuity). Tr.C18_index_safe / C18_forward_guard - both hour look-ups are in range for every integer time and every connection list; documented codes, "
     "defaults and /updateCache names regenerated from the source. Tie: every generated request without a duplicated key (7 600 per quick run, all ten error codes and both data_error codes) is "
     "classified by `trmodel --classify` and compared with the real server's (HTTP status, status, errorCode, echoed time). NOT proved: std::stod / boost uuid parsing (parameters of the model), the "
     "transport clauses (exactly one response, Content-Length, JSON body, no crash or hang) - observed over raw sockets against the real ASan+UBSan binary.",
     "Lean 4 theorems (string-level parameter model for all parameter lists and orders, index safety, regenerated tables) + model/server classification differential + raw-socket request enumeration against the real binary")
_reg("C19", "PROOF (full, over the model): Tr.C19_summary - nbRoutes, the set of lines and each line's count equal the number of routes, the lines boarded and the boardings per line of the "
     "/v2/route answer to the same parameters; Tr.C19_handlers_mirror states the regenerated source fact that both handlers run the same calculation. " + _M + " for both endpoints; the lambdas of the server's main() - what each "
     "handler captures, e.g. the data status - are outside the in-process harness and are covered by an HTTP leg: real server started on an empty directory, files written, "
     "/updateCache?names=all, then (route, summary) pairs judged by the same oracle.",
     "Lean 4 theorem + regenerated structural fact + differential correspondence")
_reg("C20", "PROOF (partial): Tr.C20_recovery - whatever the router did during any earlier requests (healthy, no stop, throwing; per look-up), a later request is answered exactly as by a "
     "server that never saw a fault: the only state a request leaves is the scenario cache, whose contents do not depend on the router. Tr.C20_fault_lookup / C20_classes: each listed fault "
     "makes the client return no stop or throw, a short table yields only stops that were asked for within the limit; a throwing look-up gives the documented query error and leaves the state "
     "alone (C20_faulted_answer); C20_structure: regenerated facts (one HTTP client per call, no static / mutable member). NOT proved: socket behaviour, that the process stays up, HTTP "
     "framing - observed with a scripted router against the real ASan+UBSan binary, whose answers under each fault are compared with the model's outcome classes and after recovery with a "
     "server that never saw a fault.",
     "Lean 4 theorems (recovery = history independence under arbitrary router behaviour; client outcome classes) + scripted-router fault sequences against the real binary")

NOT_APPLICABLE = []


def run(pid, tier, seed, replay=None):
    if pid == "C14":
        from . import conc_checks
        mod, ths = THEOREMS.get(pid, (None, []))
        return conc_checks.run_c14(tier, seed, replay, theorems=ths, module=mod)
    if pid in ("C15", "C16", "C17", "C18", "C20"):
        from . import http_checks
        mod, ths = THEOREMS.get(pid, (None, []))
        return getattr(http_checks, "run_" + pid.lower())(tier, seed, replay, theorems=ths, module=mod)
    if pid in inproc.PROPS:
        mod, ths = THEOREMS.get(pid, (None, []))
        return inproc.run(pid, tier, seed, replay, theorems=ths, module=mod)
    print("unknown property", pid)
    return 2
