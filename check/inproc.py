"""Checks decided with the in-process harness: C01-C13, C19."""
import shutil
import copy, json, os, random, sys, collections
from . import core, engine, gen, canon, oracles as O

QUICK_N = {"default": 240}
THOROUGH_MULT = 80


def _routes(a):
    return a.get("routes", []) if a and a.get("status") == "success" and a.get("kind") == "route" else []


class Prop:
    pid = ""
    module = None            # Lean module holding the property theorems
    theorems = []
    streams = [("sparse", 1)]
    rule = ""
    n_quick = 600
    assumptions = []

    # ---- planning
    def pick_stream(self, rng):
        tot = sum(w for _, w in self.streams)
        x = rng.random() * tot
        for s, w in self.streams:
            x -= w
            if x <= 0:
                return s
        return self.streams[-1][0]

    def requests(self, rng, d):
        return [("route", gen.gen_query(rng, d)) for _ in range(5)]

    def plan_case(self, rng, did):
        d = gen.gen_dataset(rng, self.pick_stream(rng))
        reqs = self.requests(rng, d)
        return dict(did=did, blocks=[(did, d, reqs)])

    # ---- evaluation
    def project(self, kind, q, a):
        return a["raw"] if a else None

    def direct(self, d, kind, q, a, ctx):
        return []

    def nontrivial(self, d, kind, q, a):
        return a["raw"] if a and a.get("status") == "success" else None

    def in_domain(self, d, kind, q):
        return True

    def after_run(self, cases, res, rep, stats, tier, seed):
        """extra legs of a check that need more than the in-process harness (default: none)"""
        return

    def evaluate_case(self, case, answers, rep, stats):
        for did, d, reqs in case["blocks"]:
            r = answers[did]
            if r["impl_fail"]:
                rep.direct.append(("impl-crash", "implementation crashed / hung on a generated input: " + r["impl_fail"][:300], block_text(did, d, reqs)))
                continue
            if r["model_fail"]:
                rep.corr.append(("model-driver", r["model_fail"], block_text(did, d, reqs)))
                continue
            for i, (kind, q) in enumerate(reqs):
                ia, ma = r["impl"][i], r["model"][i]
                pa = canon.parse_answer(ia) if ia else None
                pm = canon.parse_answer(ma) if ma else None
                rep.evaluations += 1
                stats["%s %s" % (kind, pa.get("status") if pa else "none")] += 1
                if pa is None:
                    rep.direct.append(("no-answer", "request got no answer", block_text(did, d, [(kind, q)])))
                    continue
                if pa.get("status") == "exception" or (ia and "unparsable" in ia):
                    rep.direct.append(("impl-exception", "request raised an unexpected exception: %s" % (r["raw"][i] or "")[:200], block_text(did, d, [(kind, q)])))
                    continue
                dom = self.in_domain(d, kind, q)
                if dom:
                    pi, pmo = self.project(kind, q, pa), self.project(kind, q, pm)
                    if pi != pmo:
                        stats["corr-mismatch"] += 1
                        rep.corr.append(("projection(%s)" % self.pid, "model and implementation disagree on the projection of %s: impl=%s model=%s" % (self.pid, str(pi)[:200], str(pmo)[:200]), block_text(did, d, [(kind, q)])))
                    for sig, desc in self.direct(d, kind, q, pa, dict(reqs=reqs, impl=r["impl"], index=i, stats=stats)):
                        stats["direct-fail"] += 1
                        rep.direct.append((sig, desc, block_text(did, d, [(kind, q)])))
                    nt = self.nontrivial(d, kind, q, pa)
                    if nt is not None:
                        rep.nontrivial.add(hash((json.dumps(d, sort_keys=True, default=str), nt)))
                else:
                    stats["out-of-domain"] += 1
                if len(rep.samples) < 3 and pa.get("status") == "success":
                    rep.samples.append(dict(dataset=block_text(did, d, [(kind, q)]), implementation=ia[:400], model=(ma or "")[:400]))


def block_text(did, d, reqs, trips2=None):
    return gen.write_dataset(d, did, [gen.fmt_query(k, q) for k, q in reqs], trips2)


def step_count(a):
    return sum(1 for s in a["steps"] if s["action"] == "boarding")


# ============================================================================ C01
class C01(Prop):
    pid = "C01"
    module = "TrVerif.Props.C01"
    streams = [("tmpl", 4), ("closer", 3), ("overlap", 2), ("sparse", 1), ("dense", 1), ("xfer", 1), ("parallel", 1), ("zero", 1), ("ties", 2), ("walkboard", 1)]
    rule = ("datasets from the streams tmpl/overlap/sparse/dense/xfer/parallel/zero/ties, 4 route requests + 1 alternatives request each; "
            "a case is non-trivial when the implementation returned a route; distinct = distinct (dataset, answer)")

    def requests(self, rng, d):
        rs = [("route", gen.gen_query(rng, d, cap=rng.choice([0, 0, None, 300]))) for _ in range(4)]
        rs.append(("route", gen.gen_query(rng, d, alt=True)))
        return rs

    def direct(self, d, kind, q, a, ctx):
        out = []
        n = O.norm(q)
        for r in _routes(a):
            errs = [e for e in O.check_itinerary(d, n, r) if not e.startswith("C02")]
            if errs:
                out.append(("invalid-itinerary", "route is not travellable: " + "; ".join(errs[:3])))
        return out


# ============================================================================ C02
class C02(Prop):
    pid = "C02"
    module = "TrVerif.Props.C02"
    streams = [("sparse", 2), ("dense", 2), ("overlap", 1), ("parallel", 2), ("xfer", 1), ("hours", 1), ("closer", 1), ("twoends", 2)]
    rule = ("datasets with several scenarios (service / only / except lists) and every encoding of the limits (absent, <= 0, tight, loose); "
            "non-trivial = a route was returned; distinct (dataset, answer)")

    def requests(self, rng, d):
        rs = []
        for _ in range(5):
            q = gen.gen_query(rng, d, cap=rng.choice([0, None, 120, 300, 900]))
            if rng.random() < 0.5: q["max_travel_time"] = rng.choice([-1, 0, 300, 900, 1800, 3600])
            rs.append(("route", q))
        rs.append(("route", gen.gen_query(rng, d, alt=True)))
        # alternatives with three DIFFERENT walking maxima, the transfer maximum below the footpaths of the data and the others above
        # (a recalculation that mixes the maxima up lets a too long transfer walk through; added after seeded change C02-r4)
        qa = gen.gen_query(rng, d, alt=True, limits=False)
        walks = sorted(set(t for a_, b_, t, x in d["foot"] if a_ != b_ and t > 0))
        qa["max_transfer_travel_time"] = max(1, (rng.choice(walks) - 1) if walks else 29)
        qa["max_egress_travel_time"] = rng.choice([1500, 2000]); qa["max_access_travel_time"] = rng.choice([1400, 2500])
        qa.pop("max_travel_time", None)
        rs.append(("route", qa))
        return rs

    def direct(self, d, kind, q, a, ctx):
        out = []
        n = O.norm(q)
        for r in _routes(a):
            errs = O.check_limits(d, n, r) + [e for e in O.check_itinerary(d, n, r) if e.startswith("C02")]
            if errs:
                out.append(("limit-violated", "route breaks a limit / scenario restriction: " + "; ".join(errs[:3])))
        return out


# ============================================================================ C03 / C04 / C05
class C03(Prop):
    pid = "C03"
    module = "TrVerif.Props.C03"
    streams = [("sparse", 2), ("dense", 3), ("overlap", 1), ("parallel", 1), ("xfer", 1), ("hours", 2), ("tmpl", 1), ("twoends", 2)]
    rule = ("departure-time route requests with max_first_waiting_time <= 0 on datasets with strictly positive hop times; "
            "non-trivial = an admissible journey exists (reference optimum defined); distinct (dataset, request)")

    def requests(self, rng, d):
        return [("route", gen.gen_query(rng, d, forward=True, cap=rng.choice([0, -1]))) for _ in range(6)]

    def in_domain(self, d, kind, q):
        return O.pos_hops(d)

    def project(self, kind, q, a):
        if not a: return None
        rs = _routes(a)
        return (a["status"], rs[0]["arrivalTime"] if rs else None)

    def direct(self, d, kind, q, a, ctx):
        n = O.norm(q)
        best, nodes, ha, he = O.ref_earliest(d, n)
        rs = _routes(a)
        if rs:
            if best is None: return [("success-without-journey", "success with arrival %d but no admissible journey exists" % rs[0]["arrivalTime"])]
            if rs[0]["arrivalTime"] != best: return [("not-earliest", "arrival %d, earliest possible %d" % (rs[0]["arrivalTime"], best))]
        elif best is not None:
            return [("missed-journey", "answer %s but an admissible journey arrives at %d" % (a.get("reason"), best))]
        return []

    def nontrivial(self, d, kind, q, a):
        return json.dumps(q, sort_keys=True) if _routes(a) else None


class C04(C03):
    pid = "C04"
    module = "TrVerif.Props.C04"
    streams = [("sparse", 2), ("dense", 4), ("overlap", 1), ("parallel", 1), ("hours", 2), ("tmpl", 1), ("closer", 2), ("twoends", 2), ("walkboard", 2)]
    rule = ("arrival-time route requests on datasets with positive hop times and no `transferable` line; dense stream gives competing "
            "departures within one minimum-waiting window; non-trivial = journey exists; distinct (dataset, request)")

    def requests(self, rng, d):
        return [("route", gen.gen_query(rng, d, forward=False)) for _ in range(6)]

    def in_domain(self, d, kind, q):
        return O.pos_hops(d) and O.uniform_wait(d)

    def project(self, kind, q, a):
        if not a: return None
        rs = _routes(a)
        return (a["status"], rs[0]["departureTime"] if rs else None)

    def direct(self, d, kind, q, a, ctx):
        n = O.norm(q)
        best, nodes, ha, he = O.ref_latest(d, n)
        rs = _routes(a)
        if rs:
            if best is None: return [("success-without-journey", "success with departure %d but no admissible journey exists" % rs[0]["departureTime"])]
            if rs[0]["departureTime"] != best: return [("not-latest", "departure %d, latest possible %d" % (rs[0]["departureTime"], best))]
        elif best is not None:
            return [("missed-journey", "answer %s but an admissible journey departs at %d" % (a.get("reason"), best))]
        return []


class C05(C03):
    pid = "C05"
    module = "TrVerif.Props.C05"
    streams = [("sparse", 2), ("dense", 4), ("overlap", 1), ("parallel", 1), ("hours", 2), ("tmpl", 1), ("closer", 2), ("twoends", 2), ("walkboard", 2)]
    rule = ("departure-time requests (cap disabled) on the C03+C04 domain; the reported departure is compared with the latest departure "
            ">= requested that still meets the reported arrival; non-trivial = success; distinct (dataset, request)")

    def in_domain(self, d, kind, q):
        return O.pos_hops(d) and O.uniform_wait(d)

    def project(self, kind, q, a):
        if not a: return None
        rs = _routes(a)
        return (a["status"], (rs[0]["departureTime"], rs[0]["arrivalTime"]) if rs else None)

    def direct(self, d, kind, q, a, ctx):
        rs = _routes(a)
        if not rs: return []
        n = O.norm(q)
        n2 = dict(n); n2["time"] = rs[0]["arrivalTime"]; n2["forward"] = False; n2["maxT"] = O.MAX_INT
        best, _, _, _ = O.ref_latest(d, n2, not_before=n["time"])
        if best != rs[0]["departureTime"]:
            return [("hidden-waiting", "reported departure %d, but leaving at %s still meets the reported arrival %d" % (rs[0]["departureTime"], best, rs[0]["arrivalTime"]))]
        return []


# ============================================================================ C06
class C06(Prop):
    pid = "C06"
    module = "TrVerif.Props.C06"
    streams = [("tmpl", 2), ("overlap", 2), ("sparse", 1), ("dense", 1), ("xfer", 5), ("parallel", 2), ("closer", 1)]
    rule = ("every route of every successful answer (single and alternatives); non-trivial = route with >= 1 boarding; distinct (dataset, answer); "
            "counts/walking totals are only demanded for routes without `transferable` lines")

    def requests(self, rng, d):
        rs = [("route", gen.gen_query(rng, d)) for _ in range(4)]
        rs.append(("route", gen.gen_query(rng, d, alt=True)))
        return rs

    def plan_case(self, rng, did):
        """a third of the cases is moved so that one of its requests is made a few minutes before 24:00:00 - the itinerary then
        straddles midnight (service days run to 32 h); clock times reported modulo 24 h keep every identity on either side of midnight
        and break them only across it (seeded change C06-r5)"""
        c = Prop.plan_case(self, rng, did)
        if rng.random() < 0.35:
            _, d, reqs = c["blocks"][0]
            ts = [int(q["time_of_trip"]) for k, q in reqs if "time_of_trip" in q]
            allt = [x for tr in d["trips"] for x in tr[3] + tr[4]]
            if ts and allt:
                delta = 86400 - rng.choice(ts) - rng.choice([60, 300, 600, 900, 1500, 2400])
                if min(allt + ts) + delta >= 0 and max(allt + ts) + delta <= gen.MAXC:
                    d2 = shift_dataset(d, delta); d2["profile"] = d.get("profile", "")
                    reqs2 = [(k, dict(q, time_of_trip=int(q["time_of_trip"]) + delta) if "time_of_trip" in q else q) for k, q in reqs]
                    c["blocks"] = [(did, d2, reqs2)]
        return c

    def direct(self, d, kind, q, a, ctx):
        out = []
        n = O.norm(q)
        for r in _routes(a):
            if r.get("departureTime", 0) < 86400 <= r.get("arrivalTime", 0): ctx["stats"]["routes across 24:00"] += 1
            errs = O.check_totals(d, n, r)
            if errs:
                out.append(("totals", "totals identities broken: " + "; ".join(errs[:3])))
        return out


# ============================================================================ C07
class C07(Prop):
    pid = "C07"
    module = "TrVerif.Props.C07"
    streams = [("sparse", 3), ("dense", 1), ("hours", 4), ("xfer", 1), ("overlap", 1), ("twoends", 2)]
    rule = ("route, alternatives and accessibility requests that yield no route; each of the eight reasons is aimed at (tight access/egress "
            "maxima, late/early requests, tight max_travel_time, first-wait cap); non-trivial = a no_routing_found answer; distinct (dataset, request)")

    def boundary_query(self, rng, d):
        """a request whose max_travel_time sits right at the departure (resp. arrival) of a vehicle that can just be
        caught from an access stop (resp. reaches an egress stop): the border between NO_SERVICE_* and NO_ROUTING_FOUND"""
        acc = {s: t for s, t, x in d["acc"] if t <= 1200}; egr = {s: t for s, t, x in d["egr"] if t <= 1200}
        cands = []
        for p, sv, tid, arr, dep, cb, cu in d["trips"]:
            st = d["paths"][p][1]
            for i in range(len(st) - 1):
                if st[i] in acc: cands.append(("f", dep[i], acc[st[i]]))
                if st[i + 1] in egr: cands.append(("r", arr[i + 1], egr[st[i + 1]]))
        if not cands: return None
        kind, t, w = rng.choice(cands)
        mw = rng.choice([0, 60, 180])
        slack = rng.choice([0, 0, 30, 200])
        me = min(egr.values()) if egr else 0; ma = min(acc.values()) if acc else 0
        if kind == "f":
            T = max(0, t - w - mw - slack)
            q = dict(scenario=0, time_of_trip=T, time_type=0, min_waiting_time=mw,
                     max_travel_time=max(1, t - T + rng.choice([-1, 0, 1, -me, -me + 1, -me - 1, me, 5])))
        else:
            T = t + w + slack
            q = dict(scenario=0, time_of_trip=T, time_type=1, min_waiting_time=mw,
                     max_travel_time=max(1, T - t + rng.choice([-1, 0, 1, -ma, -ma + 1, ma, 5])))
        q["max_first_waiting_time"] = rng.choice([0, 0, 300])
        return q

    def requests(self, rng, d):
        rs = []
        for _ in range(2):
            q = self.boundary_query(rng, d)
            if q is not None:
                kind = rng.choice(["route", "route", "accessibility"])
                if kind == "route" and rng.random() < 0.25: q["alternatives"] = "1"
                rs.append((kind, q))
        for _ in range(4):
            q = gen.gen_query(rng, d, cap=rng.choice([0, None, 120, 300]))
            r = rng.random()
            if r < 0.2: q["max_access_travel_time"] = rng.choice([1, 20])
            elif r < 0.4: q["max_egress_travel_time"] = rng.choice([1, 20])
            elif r < 0.5: q["max_access_travel_time"] = 1; q["max_egress_travel_time"] = 1
            elif r < 0.7: q["time_of_trip"] = rng.choice([0, 100, 40000, 90000, 115199])
            elif r < 0.85: q["max_travel_time"] = rng.choice([60, 300, 600])
            kind = rng.choice(["route", "route", "accessibility"])
            if kind == "route" and rng.random() < 0.25: q["alternatives"] = "1"
            rs.append((kind, q))
        return rs

    def project(self, kind, q, a):
        if not a: return None
        return (a["status"], a.get("reason"))

    def direct(self, d, kind, q, a, ctx):
        if a.get("status") != "no_routing_found": return []
        n = O.norm(q)
        spec = O.reason_spec(d, n, accessibility=(kind == "accessibility"))
        if a.get("reason") != spec:
            return [("wrong-reason", "reason %s, the most specific true reason is %s" % (a.get("reason"), spec))]
        return []

    def nontrivial(self, d, kind, q, a):
        return (kind + json.dumps(q, sort_keys=True)) if a.get("status") == "no_routing_found" else None


# ============================================================================ C08 / C09
class C08(Prop):
    pid = "C08"
    module = "TrVerif.Props.C08"
    streams = [("sparse", 2), ("dense", 2), ("overlap", 1), ("parallel", 1), ("xfer", 1), ("hours", 2), ("tmpl", 1), ("twoends", 2)]
    rule = ("departure-time accessibility requests with the first-wait cap disabled on datasets with positive hop times; "
            "non-trivial = at least one stop listed; distinct (dataset, request)")
    forward = True

    def requests(self, rng, d):
        return [("accessibility", gen.gen_query(rng, d, forward=self.forward, cap=rng.choice([0, -1]))) for _ in range(6)]

    def in_domain(self, d, kind, q):
        return O.pos_hops(d)

    def project(self, kind, q, a):
        if not a: return None
        if a.get("status") != "success": return (a.get("status"),)
        return ("success", a["total"], tuple(sorted((s, v[0], v[1]) for s, v in a["nodes"].items())))

    def direct(self, d, kind, q, a, ctx):
        n = O.norm(q)
        _, nodes, ha, he = O.ref_earliest(d, n)
        return self._cmp(d, n, a, nodes, ha)

    def _cmp(self, d, n, a, nodes, has_place):
        T = n["time"]
        if a.get("status") == "success":
            got = {s: v[0] for s, v in a["nodes"].items()}
            if got != dict(nodes):
                extra = sorted(set(got) - set(nodes)); missing = sorted(set(nodes) - set(got))
                wrong = sorted(s for s in got if s in nodes and got[s] != nodes[s])
                return [("map-differs", "accessibility map differs from the reference: extra stops %s, missing %s, wrong times %s" % (extra, missing, [(s, got[s], nodes[s]) for s in wrong][:4]))]
            for s, v in a["nodes"].items():
                tt = v[0] - T if n["forward"] else T - v[0]
                if v[1] != tt: return [("travel-time", "totalTravelTime %d of stop %d is not |nodeTime - requested| = %d" % (v[1], s, tt))]
            if a["total"] != d["ns"]: return [("total-count", "totalNodeCount %d != %d stops" % (a["total"], d["ns"]))]
        elif nodes and has_place:
            return [("missed-stops", "answer %s but stops %s are reachable" % (a.get("reason"), sorted(nodes)[:5]))]
        return []

    def nontrivial(self, d, kind, q, a):
        return json.dumps(q, sort_keys=True) if a.get("status") == "success" and a.get("nodes") else None


class C09(C08):
    pid = "C09"
    module = "TrVerif.Props.C09"
    streams = [("sparse", 2), ("dense", 3), ("overlap", 1), ("parallel", 1), ("hours", 2), ("tmpl", 1), ("closer", 2), ("twoends", 2), ("walkboard", 2)]
    rule = ("arrival-time accessibility requests on datasets with positive hop times and uniform minimum waiting; "
            "non-trivial = at least one stop listed; distinct (dataset, request)")
    forward = False

    def requests(self, rng, d):
        return [("accessibility", gen.gen_query(rng, d, forward=False)) for _ in range(6)]

    def in_domain(self, d, kind, q):
        return O.pos_hops(d) and O.uniform_wait(d)

    def direct(self, d, kind, q, a, ctx):
        n = O.norm(q)
        _, nodes, ha, he = O.ref_latest(d, n)
        return self._cmp(d, n, a, nodes, he)


# ============================================================================ C10
class C10(Prop):
    pid = "C10"
    module = "TrVerif.Props.C10"
    streams = [("parallel", 5), ("dense", 2), ("overlap", 1), ("tmpl", 1), ("xfer", 1), ("closer", 1), ("manylines", 1)]
    rule = ("pairs (query, same query with alternatives=true); parallel-lines stream so that many answers have >= 3 routes; manylines stream "
            "(52-60 parallel single-trip lines) so that the cap of 50 returned routes is reached; "
            "non-trivial = answer with >= 2 routes; distinct (dataset, request)")

    def requests(self, rng, d):
        rs = []
        for _ in range(3):
            q = gen.gen_query(rng, d, cap=rng.choice([0, 0, None]))
            if rng.random() < 0.5 and d.get("profile") != "manylines":      # limits below the 30 min floor of the alternatives' own window
                q["max_travel_time"] = rng.choice([300, 450, 600, 750, 900, 1200, 1500, 1700])
            qa = dict(q); qa["alternatives"] = rng.choice(["1", "true"])
            rs.append(("route", q)); rs.append(("route", qa))
        # a pair with three DIFFERENT walking maxima, the transfer maximum below a footpath of the data and the others above: a
        # recalculation that hands the maxima over in another order lets a too long transfer walk into an alternative (seeded
        # changes C02-r4 and C10-r5; the plain answer is calculated with the caller's own parameters and stays right)
        q = gen.gen_query(rng, d, limits=False)
        walks = sorted(set(t for a_, b_, t, x in d["foot"] if a_ != b_ and t > 0))
        q["max_transfer_travel_time"] = max(1, (rng.choice(walks) - 1) if walks else 29)
        q["max_egress_travel_time"] = rng.choice([1500, 2000, 0]); q["max_access_travel_time"] = rng.choice([1400, 2500])
        q.pop("max_travel_time", None)
        qa = dict(q); qa["alternatives"] = "1"
        rs.append(("route", q)); rs.append(("route", qa))
        return rs

    def direct(self, d, kind, q, a, ctx):
        if "alternatives" not in q: return []
        i = ctx["index"]
        plain = canon.parse_answer(ctx["impl"][i - 1]) if ctx["impl"][i - 1] else None
        if plain is None: return []
        out = []
        n = O.norm(q)
        if a.get("status") != plain.get("status") or a.get("reason") != plain.get("reason"):
            return [("alt-status", "with alternatives %s/%s, without %s/%s" % (a.get("status"), a.get("reason"), plain.get("status"), plain.get("reason")))]
        rs = _routes(a)
        if not rs: return []
        if rs[0] != _routes(plain)[0]: out.append(("alt-first", "routes[0] differs from the plain answer"))
        if len(rs) > 50: out.append(("alt-cap", "%d routes returned" % len(rs)))
        if a["n"] < len(rs): out.append(("alt-count", "totalRoutesCalculated %d < %d routes" % (a["n"], len(rs))))
        keys = [tuple(sorted(s["line"] for s in r["steps"] if s["action"] == "boarding")) for r in rs]
        if len(set(keys)) != len(keys): out.append(("alt-distinct", "two routes board the same multiset of lines %s" % (keys,)))
        for r in rs[1:]:
            errs = [e for e in O.check_itinerary(d, n, r)] + O.check_limits(d, n, r) + O.check_totals(d, n, r)
            if errs: out.append(("alt-invalid", "an alternative breaks C01/C02/C06: " + "; ".join(errs[:2])))
        if O.pos_hops(d) and O.uniform_wait(d) and n["cap"] <= 0:
            for r in rs[1:]:
                if n["forward"] and r["arrivalTime"] < rs[0]["arrivalTime"]: out.append(("alt-better", "an alternative arrives at %d before routes[0] %d" % (r["arrivalTime"], rs[0]["arrivalTime"])))
                if not n["forward"] and r["departureTime"] > rs[0]["departureTime"]: out.append(("alt-better", "an alternative departs at %d after routes[0] %d" % (r["departureTime"], rs[0]["departureTime"])))
        return out

    def nontrivial(self, d, kind, q, a):
        return json.dumps(q, sort_keys=True) if len(_routes(a)) >= 2 else None


# ============================================================================ C11
def delete_excluded(d, si):
    """copy of d from which the trips excluded by scenario si are physically removed; its scenario 0 is all-inclusive"""
    sc = d["scenarios"][si]
    d2 = copy.deepcopy(d)
    d2["trips"] = [t for t in d["trips"] if O.admitted(d, sc, t)]
    d2["scenarios"] = [dict(services=list(range(d["nsv"])), onlyLines=[], exceptLines=[], onlyAgencies=[], exceptAgencies=[], onlyModes=[], exceptModes=[])]
    return d2


def objective(kind, a):
    if not a: return None
    if a.get("status") != "success": return (a.get("status"), a.get("reason"))
    if kind == "route":
        r = a["routes"][0]
        return ("success", r["departureTime"], r["arrivalTime"])
    if kind == "accessibility":
        return ("success", a["total"], tuple(sorted((s, v[0], v[1]) for s, v in a["nodes"].items())))
    return ("success", a.get("nb"))


class C11(Prop):
    pid = "C11"
    module = "TrVerif.Props.C11"
    streams = [("sparse", 2), ("dense", 2), ("overlap", 1), ("parallel", 1), ("xfer", 2), ("hours", 1)]
    rule = ("(dataset, restricting scenario) vs (copy with the excluded trips deleted, all-inclusive scenario), same route / accessibility "
            "requests; non-trivial = the scenario excludes at least one trip and keeps at least one, and the answer is a success; distinct (dataset, request); "
            "loader leg: 72 (thorough 600) cases, those with non-empty lists in earlier scenarios first, also go through cache files and the real server binary, scenario-restricted HTTP answer vs in-process deletion answer")

    def plan_case(self, rng, did):
        d = gen.gen_dataset(rng, self.pick_stream(rng))
        # make sure there is a restricting scenario
        if len(d["scenarios"]) < 2 or rng.random() < 0.5:
            nl = len(d["lines"])
            s = dict(services=rng.sample(range(d["nsv"]), rng.randint(1, d["nsv"])), onlyLines=[], exceptLines=[], onlyAgencies=[], exceptAgencies=[], onlyModes=[], exceptModes=[])
            k = rng.choice(["exceptLines", "onlyLines", "exceptAgencies", "onlyAgencies", "exceptModes", "onlyModes", "services"])
            dom = {"exceptLines": nl, "onlyLines": nl, "exceptAgencies": d["nag"], "onlyAgencies": d["nag"], "exceptModes": 3, "onlyModes": 3}.get(k)
            if dom: s[k] = rng.sample(range(dom), rng.randint(1, max(1, dom - 1)))      # unsorted on purpose
            if rng.random() < 0.3 and nl >= 3:
                s["exceptLines" if rng.random() < .5 else "onlyLines"] = rng.sample(range(nl), rng.randint(2, nl - 1))
            d["scenarios"].append(s)
        si = rng.randrange(1, len(d["scenarios"]))
        # same conventions as the C16 run, so that the first cases can also go through the cache files and the real loaders
        d["acc"] = sorted(d["acc"]); d["egr"] = sorted(d["egr"])
        d2 = delete_excluded(d, si)
        reqs, reqs2 = [], []
        for _ in range(4):
            q = gen.gen_query(rng, d); q["scenario"] = si
            for k_ in ("max_access_travel_time", "max_egress_travel_time"):
                if k_ in q and int(q[k_]) <= 0: q[k_] = 50000
            kind = rng.choice(["route", "accessibility"])
            q2 = dict(q); q2["scenario"] = 0
            reqs.append((kind, q)); reqs2.append((kind, q2))
        return dict(did=did, blocks=[(did + "a", d, reqs), (did + "b", d2, reqs2)], si=si)

    def project(self, kind, q, a):
        return objective(kind, a)

    def evaluate_case(self, case, answers, rep, stats):
        Prop.evaluate_case(self, case, answers, rep, stats)
        (da, d, reqs), (db, d2, reqs2) = case["blocks"]
        ra, rb = answers[da], answers[db]
        if ra["impl_fail"] or rb["impl_fail"]: return
        for i, (kind, q) in enumerate(reqs):
            a = canon.parse_answer(ra["impl"][i]) if ra["impl"][i] else None
            b = canon.parse_answer(rb["impl"][i]) if rb["impl"][i] else None
            if objective(kind, a) != objective(kind, b):
                stats["direct-fail"] += 1
                rep.direct.append(("scenario-vs-deletion", "scenario-restricted answer %s differs from the answer on the data with excluded trips deleted %s" % (objective(kind, a), objective(kind, b)),
                                   block_text(da, d, [(kind, q)]) + block_text(db, d2, [reqs2[i]])))

    def after_run(self, cases, res, rep, stats, tier, seed):
        """loader leg (the scenario lists reach the calculation through scenarios_cache_fetcher.cpp): the first cases are written as
        Cap'n Proto cache directories, served by the real binary, and the scenario-restricted HTTP answer is compared with the
        in-process answer on the data with the excluded trips deleted"""
        from . import http_checks as HC
        from concurrent.futures import ThreadPoolExecutor
        server = core.harness_phase(rep, "server", "asan")
        cachegen = core.harness_phase(rep, "cachegen", "plain")
        if not server or not cachegen: return
        n = 72 if tier != "thorough" else 600
        # cases in which a scenario listed BEFORE the queried one has a non-empty list come first (state carried over between
        # the scenarios of one file shows only there)
        def rank(c):
            d, si = c["blocks"][0][1], c["si"]
            earlier = sum(1 for sc in d["scenarios"][:si] for k, v in sc.items() if k != "services" and v)
            return -min(earlier, 3)
        picked = []
        for c in sorted(cases, key=rank):
            (da, d, reqs), (db, d2, reqs2) = c["blocks"]
            if HC.c16_wellformed(d) or len(d["scenarios"]) < 2: continue
            picked.append(c)
            if len(picked) >= n: break
        with ThreadPoolExecutor(max_workers=8) as ex:
            served = list(ex.map(lambda c: HC.c16_serve(dict(did=c["blocks"][0][0], d=c["blocks"][0][1], reqs=c["blocks"][0][2]), server, cachegen), picked))
        for c, out in zip(picked, served):
            (da, d, reqs), (db, d2, reqs2) = c["blocks"]
            rb = res[db]
            if out["startup"] or rb["impl_fail"]:
                stats["loader-leg not judged"] += 1; continue
            for i, (kind, q) in enumerate(reqs):
                if i >= len(out["answers"]) or out["answers"][i]["status"] != 200: continue
                txt, j, err = HC.http_canon(kind, out["answers"][i]["body"])
                if txt is None: continue
                a = canon.parse_answer(txt)
                b = canon.parse_answer(rb["impl"][i]) if rb["impl"][i] else None
                rep.evaluations += 1; stats["loader-leg comparisons"] += 1
                if objective(kind, a) != objective(kind, b):
                    stats["direct-fail"] += 1
                    rep.direct.append(("scenario-vs-deletion-through-loader", "answer of the server on the cache files under the restricting scenario %s differs from the answer on the data with "
                                       "the excluded trips deleted %s (the scenario lists go through the cache loader)" % (objective(kind, a), objective(kind, b)),
                                       block_text(da, d, [(kind, q)]) + block_text(db, d2, [reqs2[i]])))

    def nontrivial(self, d, kind, q, a):
        sc = d["scenarios"][int(q["scenario"])]
        kept = sum(1 for t in d["trips"] if O.admitted(d, sc, t))
        if a.get("status") == "success" and 0 < kept < len(d["trips"]):
            return kind + json.dumps(q, sort_keys=True)
        return None


# ============================================================================ C12
def shift_dataset(d, delta):
    d2 = copy.deepcopy(d)
    d2["trips"] = [(p, sv, tid, [x + delta for x in arr], [x + delta for x in dep], cb, cu) for p, sv, tid, arr, dep, cb, cu in d["trips"]]
    return d2


def shift_answer(kind, a, delta):
    """subtract delta from every clock time of a parsed answer; returns a comparable structure"""
    if not a: return None
    if a.get("status") != "success": return (a.get("status"), a.get("reason"))
    if kind == "route":
        out = []
        for r in a["routes"]:
            r2 = {k: v for k, v in r.items() if k != "steps"}
            r2["departureTime"] -= delta; r2["arrivalTime"] -= delta
            st = []
            for s in r["steps"]:
                s2 = dict(s)
                for k in ("departureTime", "arrivalTime", "readyToBoardAt"):
                    if k in s2: s2[k] -= delta
                st.append(tuple(sorted(s2.items())))
            out.append((tuple(sorted(r2.items())), tuple(st)))
        return ("success", a["n"], tuple(out))
    if kind == "accessibility":
        return ("success", a["total"], tuple(sorted((s, v[0] - delta, v[1], v[2]) for s, v in a["nodes"].items())))
    return ("success", a.get("nb"), tuple(sorted(a.get("lines", {}).items())))


def clocks_in_range(d, extra=()):
    ts = [x for t in d["trips"] for x in t[3] + t[4]] + list(extra)
    return all(0 <= x < 32 * 3600 for x in ts)


def answer_clocks(kind, a):
    if not a or a.get("status") != "success": return []
    if kind == "route":
        return [x for r in a["routes"] for x in [r["departureTime"], r["arrivalTime"]] + [s[k] for s in r["steps"] for k in ("departureTime", "arrivalTime", "readyToBoardAt") if k in s]]
    if kind == "accessibility":
        return [v[0] for v in a["nodes"].values()]
    return []


class C12(Prop):
    pid = "C12"
    module = "TrVerif.Props.C12"
    streams = [("sparse", 2), ("dense", 2), ("hours", 3), ("overlap", 1), ("xfer", 1), ("tmpl", 1)]
    rule = ("(dataset, request) vs both shifted by one offset; offsets move requests / vehicles across hour marks, 24:00, next to 0:00 and 32:00; "
            "pairs whose data, request or answers leave [0, 32 h) are out of domain; non-trivial = success answer with offset != 0; distinct (dataset, request, offset)")

    def plan_case(self, rng, did):
        d = gen.gen_dataset(rng, self.pick_stream(rng))
        ts = [x for t in d["trips"] for x in t[3] + t[4]]
        lo, hi = min(ts), max(ts)
        cands = [-lo, -lo + 1, 3600 - lo % 3600, -(lo % 3600), -(lo % 3600) - 1, 86400 - lo, 86400 - hi, 115199 - hi - 2000, 115199 - hi,
                 rng.randint(-3600, 3600), rng.randint(0, 100000), 3600 * rng.randint(-3, 27), 1, -1, 59]
        # offsets that put a departure from the origin exactly on 0:00:00: first boarding - access walk - minimum waiting = 0
        firsts = sorted(set(t[4][0] for t in d["trips"] if t[4]))[:3]
        zero_cands = [-(f - w - mw) for f in firsts for (_, w, _) in d["acc"] for mw in (0, 60, 180)]
        if zero_cands and rng.random() < 0.35:
            cands = zero_cands + [c + e for c in zero_cands[:3] for e in (1, -1)]
        delta = rng.choice(cands)
        if not (0 <= lo + delta and hi + delta < 32 * 3600):
            delta = max(-lo, min(delta, 32 * 3600 - 1 - hi))
        d2 = shift_dataset(d, delta)
        reqs, reqs2 = [], []
        for _ in range(4):
            q = gen.gen_query(rng, d)
            kind = rng.choice(["route", "route", "accessibility"])
            if kind == "route" and rng.random() < 0.2: q["alternatives"] = "1"
            q2 = dict(q); q2["time_of_trip"] = q["time_of_trip"] + delta
            reqs.append((kind, q)); reqs2.append((kind, q2))
        return dict(did=did, blocks=[(did + "a", d, reqs), (did + "b", d2, reqs2)], delta=delta)

    def evaluate_case(self, case, answers, rep, stats):
        Prop.evaluate_case(self, case, answers, rep, stats)
        (da, d, reqs), (db, d2, reqs2) = case["blocks"]
        delta = case["delta"]
        ra, rb = answers[da], answers[db]
        if ra["impl_fail"] or rb["impl_fail"]: return
        for i, (kind, q) in enumerate(reqs):
            a = canon.parse_answer(ra["impl"][i]) if ra["impl"][i] else None
            b = canon.parse_answer(rb["impl"][i]) if rb["impl"][i] else None
            t1, t2 = int(q["time_of_trip"]), int(reqs2[i][1]["time_of_trip"])
            # both answers, and each answer moved to the other side, must stay inside [0, 32 h)
            ok_range = clocks_in_range(d, [t1] + answer_clocks(kind, a) + [x - delta for x in answer_clocks(kind, b)]) and \
                clocks_in_range(d2, [t2] + answer_clocks(kind, b) + [x + delta for x in answer_clocks(kind, a)])
            if not ok_range:
                stats["shift-out-of-range"] += 1
                continue
            stats["shift-pairs"] += 1
            if shift_answer(kind, a, 0) != shift_answer(kind, b, delta):
                stats["direct-fail"] += 1
                rep.direct.append(("shift", "answer to the request shifted by %d s is not the shifted answer: %s vs %s" % (delta, str(shift_answer(kind, a, 0))[:160], str(shift_answer(kind, b, delta))[:160]),
                                   block_text(da, d, [(kind, q)]) + block_text(db, d2, [reqs2[i]])))
            elif a and a.get("status") == "success" and delta != 0:
                rep.nontrivial.add(hash((json.dumps(d, sort_keys=True, default=str), json.dumps(q, sort_keys=True), delta)))

    def nontrivial(self, d, kind, q, a):
        return None


# ============================================================================ C13
class C13(Prop):
    pid = "C13"
    module = "TrVerif.Props.C13"
    streams = [("sparse", 2), ("dense", 2), ("parallel", 1), ("xfer", 1), ("overlap", 1)]
    rule = ("request sequences of 6-40 route / alternatives / summary / accessibility / failing / invalid requests over 2-4 scenarios on one "
            "TransitData (both settings of cacheAllConnectionSets), every response compared with the same request on a fresh instance; "
            "non-trivial = a success answer at position >= 2 after a request for another scenario; distinct (dataset, position)")
    n_quick = 80

    def plan_case(self, rng, did):
        d = gen.gen_dataset(rng, self.pick_stream(rng))
        while len(d["scenarios"]) < 2:
            d["scenarios"].append(dict(d["scenarios"][0]))
        d["cacheall"] = rng.choice([0, 1])
        n = rng.randint(6, 40 if rng.random() < .2 else 14)
        base = []
        for _ in range(rng.randint(2, 5)):
            kind = rng.choice(["route", "route", "accessibility", "summary"])
            q = gen.gen_query(rng, d)
            if kind != "accessibility" and rng.random() < 0.3: q["alternatives"] = "1"
            r = rng.random()
            if r < 0.08: q["scenario"] = 99                      # unknown scenario
            elif r < 0.14: q.pop("time_of_trip")                  # missing parameter
            elif r < 0.2: q["max_access_travel_time"] = 1        # failing request
            base.append((kind, q))
        reqs = [rng.choice(base) for _ in range(n)]
        blocks = [(did, d, reqs)]
        singles = []
        for j, rq in enumerate(base):
            d1 = copy.deepcopy(d)
            blocks.append(("%s.f%d" % (did, j), d1, [rq]))
        return dict(did=did, blocks=blocks, base=base)

    def evaluate_case(self, case, answers, rep, stats):
        Prop.evaluate_case(self, case, answers, rep, stats)
        did, d, reqs = case["blocks"][0]
        r = answers[did]
        if r["impl_fail"]: return
        fresh = {}
        for j, rq in enumerate(case["base"]):
            fr = answers["%s.f%d" % (did, j)]
            fresh[json.dumps(rq, sort_keys=True)] = fr["impl"][0] if not fr["impl_fail"] else None
        prev_scen = None
        for i, rq in enumerate(reqs):
            want = fresh[json.dumps(rq, sort_keys=True)]
            got = r["impl"][i]
            if want is None or got is None: continue
            if got != want:
                stats["direct-fail"] += 1
                rep.direct.append(("history-dependence", "response at position %d of a request sequence differs from the response of a fresh server: %s vs %s" % (i, got[:150], want[:150]),
                                   block_text(did, d, reqs[:i + 1])))
            elif i >= 1 and " success " in got and prev_scen is not None and prev_scen != rq[1].get("scenario"):
                rep.nontrivial.add(hash((json.dumps(d, sort_keys=True, default=str), i)))
            prev_scen = rq[1].get("scenario")

    def nontrivial(self, d, kind, q, a):
        return None

    def after_run(self, cases, res, rep, stats, tier, seed):
        """HTTP leg (round-5 change C13-r5: a value memoised in the geography filter the server shares between requests). The in-process
        harness answers the walking look-ups from a table, so the server's own Euclidean geofilter is outside the streams above. Here the
        real ASan binary runs with `--useEuclideanDistance 1`; every target request is first answered by a server started for it alone, then
        asked again on a long-lived server after a history that contains requests from far-away latitudes (they fail with NO_ACCESS_*),
        invalid requests, other scenarios and the other targets. Bodies must be identical."""
        from . import httpkit as H
        from . import http_checks as HC
        from concurrent.futures import ThreadPoolExecutor
        server = core.harness_phase(rep, "server", "asan")
        cachegen = core.harness_phase(rep, "cachegen", "plain")
        if not server or not cachegen: return
        n0 = len(rep.direct)
        wd = H.workdir("c13http")
        for kd in range(2 if tier != "thorough" else 16):
            rng = random.Random(seed * 613 + kd * 104729 + 13)
            d = gen.gen_dataset(rng, rng.choice(["dense", "parallel", "sparse"]))
            if any(not (0 <= t <= 32767 and 0 <= x <= 32767) for a, b, t, x in d["foot"]): continue
            while len(d["scenarios"]) < 2:
                d["scenarios"].append(dict(d["scenarios"][0]))
            def point(east):
                dl = rng.uniform(0.002, 0.008)
                return "%.6f,%.6f" % (-73 + (dl if east else -dl), 45 + rng.uniform(-0.0005, 0.0005))
            targets = []
            for j in range(5):
                kind = ["route", "accessibility", "route", "summary", "accessibility"][j]
                q = gen.gen_query(rng, d, alt=(j == 2))
                for key in ("max_access_travel_time", "max_egress_travel_time", "max_first_waiting_time"): q.pop(key, None)
                q["scenario"] = rng.randrange(len(d["scenarios"]))
                if kind == "accessibility": q["place"] = point(rng.random() < .5)
                else: q["origin"] = point(False); q["destination"] = point(True)
                targets.append(H.route_query(q, kind))
            sid = H.uuid(6, 0)
            far = ["/v2/route?origin=-73.004,61.05&destination=-72.996,61.05&scenario_id=%s&time_of_trip=30000" % sid,
                   "/v2/accessibility?place=-73.003,5.25&scenario_id=%s&time_of_trip=30000" % sid,
                   "/v2/route?origin=-73.004,-33.9&destination=-72.996,45&scenario_id=%s&time_of_trip=30000&time_type=1" % sid]
            noise = ["/v2/route?origin=-73.004,45&destination=-72.996,45&scenario_id=%s" % sid,
                     "/v2/route?origin=-73.004,45&destination=-72.996,45&scenario_id=%s&time_of_trip=30000" % H.uuid(6, 77),
                     "/v2/summary?origin=x&destination=-72.996,45&scenario_id=%s&time_of_trip=30000" % sid]
            for ca in (0, 1):
                cdir = os.path.join(wd, "d%d-%d" % (kd, ca))
                H.make_cache(d, cdir, did="C13h-%d-%d" % (seed, kd), cachegen=cachegen)
                head = "#!c13http cacheall=%d\n%s" % (ca, gen.write_dataset(d, "C13h-%d-%d" % (seed, kd), []))
                def alone(u):
                    srv = H.start_server(cdir, threads=1, cache_all=bool(ca), euclid=True, exe=server, tag="c13a")
                    try:
                        if srv is None or not srv.alive(): return None
                        st, hd, body, raw = srv.get(u, timeout=20.0)
                        return (st, body)
                    finally:
                        if srv: srv.stop()
                with ThreadPoolExecutor(max_workers=5) as ex:
                    base = list(ex.map(alone, targets))
                if any(b is None or b[0] is None for b in base):
                    rep.direct.append(("server-startup", "server did not answer a single request after start-up", head)); continue
                seq = [far[0] if ca == 0 else rng.choice(far + targets)]
                rest = targets * 2 + far + noise
                rng.shuffle(rest)
                seq += rest
                srv = H.start_server(cdir, threads=1, cache_all=bool(ca), euclid=True, exe=server, tag="c13h")
                try:
                    if srv is None or not srv.alive():
                        rep.direct.append(("server-startup", "server did not start", head)); continue
                    seen_far = False
                    for i, u in enumerate(seq):
                        st, hd, body, raw = srv.get(u, timeout=20.0)
                        rep.evaluations += 1; stats["http history requests"] += 1
                        if u in far: seen_far = True
                        if u in targets:
                            want = base[targets.index(u)]
                            if (st, body) != want:
                                stats["http history answer differs"] += 1
                                rep.direct.append(("history-dependence-http",
                                    "GET %s is answered %s %s by a server started for it alone but %s %s at position %d of a request sequence (real server, Euclidean geofilter, cacheAll=%d)" % (
                                        u[:140], want[0], (want[1] or b"")[:160], st, (body or b"")[:160], i, ca),
                                    head + "".join("get %s\n" % x for x in seq[:i + 1])))
                                break
                            elif seen_far and st == 200 and b'"status":"success"' in (body or b"").replace(b" ", b""):
                                rep.nontrivial.add(hash(("c13http", kd, ca, i)))
                                stats["http history: success answer after a far-away request"] += 1
                    if not srv.alive() or srv.sanitizer_output():
                        rep.direct.append(("server-crash-history", "server died / sanitizer report during a request sequence: %s" % srv.sanitizer_output()[:400], head))
                finally:
                    if srv: srv.stop()
                shutil.rmtree(cdir, ignore_errors=True)
        rep.obligation("http:history-independence-with-real-geofilter", len(rep.direct) == n0, "%d difference(s)" % (len(rep.direct) - n0))


# ============================================================================ C19
class C19(Prop):
    pid = "C19"
    module = "TrVerif.Props.C19"
    streams = [("parallel", 3), ("dense", 2), ("sparse", 1), ("overlap", 1), ("xfer", 1), ("tmpl", 1)]
    rule = ("pairs (route, summary) with identical parameters, with and without alternatives; non-trivial = at least one route; distinct (dataset, request)")

    def requests(self, rng, d):
        rs = []
        for _ in range(3):
            q = gen.gen_query(rng, d, alt=rng.random() < 0.6)
            rs.append(("route", q)); rs.append(("summary", dict(q)))
        return rs

    def direct(self, d, kind, q, a, ctx):
        if kind != "summary": return []
        i = ctx["index"]
        ra = canon.parse_answer(ctx["impl"][i - 1]) if ctx["impl"][i - 1] else None
        if ra is None: return []
        rs = _routes(ra)
        if a.get("status") != "success":
            return [("summary-status", "summary status %s" % a.get("status"))]
        out = []
        if a["nb"] != len(rs): out.append(("summary-nb", "nbRoutes %d, /v2/route returns %d routes" % (a["nb"], len(rs))))
        cnt = collections.Counter(s["line"] for r in rs for s in r["steps"] if s["action"] == "boarding")
        got = {l: v[1] for l, v in a["lines"].items()}
        if got != dict(cnt): out.append(("summary-lines", "line counts %s, boardings in the routes %s" % (sorted(got.items()), sorted(cnt.items()))))
        for l, (ag, c) in a["lines"].items():
            if l < len(d["lines"]) and d["lines"][l][0] != ag: out.append(("summary-agency", "line %d reported with agency %d" % (l, ag)))
        return out

    def nontrivial(self, d, kind, q, a):
        return json.dumps(q, sort_keys=True) if kind == "summary" and a.get("nb", 0) >= 1 else None

    def after_run(self, cases, res, rep, stats, tier, seed):
        """HTTP leg (seeded change C19-r7: the summary handler captured the data status BY VALUE at start-up while /v2/route kept the live
        one). The two handlers only differ in what the in-process harness does not run - the lambdas of the server's main(). The real
        ASan binary is started on an EMPTY cache directory (every endpoint: data_error), the files of a generated dataset are written,
        /updateCache?names=all is called, and then (route, summary) pairs with identical parameters must satisfy the property."""
        from . import httpkit as H
        from . import http_checks as HC
        server = core.harness_phase(rep, "server", "asan")
        cachegen = core.harness_phase(rep, "cachegen", "plain")
        if not server or not cachegen: return
        n0 = len(rep.direct)
        picked = [c for c in cases if not HC.c16_wellformed(c["blocks"][0][1])][: (3 if tier != "thorough" else 30)]
        for c in picked:
            did, d, reqs = c["blocks"][0]
            d = dict(d); d["acc"] = sorted(d["acc"]); d["egr"] = sorted(d["egr"])
            cdir = os.path.join(H.workdir("c19http"), did)
            head = "#!c19http start on an empty directory, write the files, /updateCache?names=all\n" + block_text(did, d, reqs)
            stub = srv = None
            try:
                if os.path.isdir(cdir): shutil.rmtree(cdir)
                os.makedirs(cdir)
                stub = H.start_stub(d["acc"], d["egr"])
                srv = H.start_server(cdir, threads=1, osrm_port=stub.port, exe=server, tag="c19h")
                if srv is None or not srv.alive() or getattr(srv, "ready_s", None) is None:
                    rep.direct.append(("server-startup", "server did not start on an empty cache directory", head)); continue
                H.make_cache(d, cdir, did=did, cachegen=cachegen)
                st, hd, body, raw = srv.get("/updateCache?names=all", timeout=60.0)
                if st != 200:
                    rep.direct.append(("update-not-answered", "/updateCache?names=all answered %s" % st, head)); continue
                prev = None
                for i, (kind, q) in enumerate(reqs):
                    st, hd, body, raw = srv.get(H.route_query(HC.c16_sanitise_query(q), kind), timeout=30.0)
                    rep.evaluations += 1; stats["http pairs after a refresh from empty"] += (kind == "summary")
                    txt, j, err = HC.http_canon(kind, body or b"")
                    if kind == "route":
                        prev = txt; continue
                    if txt is None or prev is None: continue
                    a = canon.parse_answer(txt)
                    for sig, desc in (self.direct(d, kind, q, a, dict(index=1, impl=[prev, txt], reqs=reqs, stats=stats)) if a else [("summary-status", "summary body not understood: %s" % (body or b"")[:160])]):
                        rep.direct.append((sig + "-http", "after starting on an empty directory and /updateCache?names=all: " + desc + " (summary body: %s)" % (body or b"")[:200].replace(b"\n", b" "), head))
                    if a and a.get("nb", 0) >= 1: rep.nontrivial.add(hash(("c19http", did, i)))
                    prev = None
                if not srv.alive() or srv.sanitizer_output():
                    rep.direct.append(("server-crash", "server died / sanitizer report: %s" % srv.sanitizer_output()[:300], head))
            finally:
                if srv: srv.stop()
                if stub: stub.stop()
                shutil.rmtree(cdir, ignore_errors=True)
        rep.obligation("http:summary-aggregates-routes-after-refresh", len(rep.direct) == n0, "%d difference(s)" % (len(rep.direct) - n0))


PROPS = {c.pid: c for c in (C01, C02, C03, C04, C05, C06, C07, C08, C09, C10, C11, C12, C13, C19)}


class _Collector:
    """stand-in for core.Report while a candidate input is re-judged by the shrinker"""
    def __init__(self):
        self.direct, self.corr, self.nontrivial, self.samples, self.evaluations = [], [], set(), [], 0


def shrink_violation(P, kind, sig, text, impl, model, budget=160):
    """Greedy reduction of a single-block replay (dataset + requests): delete requests, trips, footpaths, candidate stops at both
    ends and optional request parameters while a violation with the SAME signature (direct) / a disagreement (corr) still shows on
    the implementation built from /repo's working tree.  Returns (new_text, note) or (text, None) when nothing could be removed or
    the replay holds several blocks (pairs of datasets are not reduced).  Every candidate is judged exactly like a replay."""
    blocks, cur = [], []
    for line in text.splitlines(True):
        if line.startswith("#"): continue
        cur.append(line)
        if line.strip() == "end":
            blocks.append("".join(cur)); cur = []
    if len(blocks) != 1:
        return text, None
    did, d, reqs, _ = gen.parse_protocol(blocks[0])
    reqs = [gen.parse_query(r) for r in reqs]
    calls = [0]

    def fails(dd, rr):
        if calls[0] >= budget or not rr: return False
        calls[0] += 1
        try:
            flat = [(did, block_text(did, dd, rr), [k if k in ("route", "summary", "accessibility") else "route" for k, q in rr])]
            res = engine.run_cases(flat, impl, model)
            col = _Collector()
            Prop.evaluate_case(P, dict(did=did, blocks=[(did, dd, rr)]), res, col, collections.Counter())
        except Exception:
            return False
        pool = col.direct if kind == "direct" else col.corr
        return any(s_ == sig for s_, _, _ in pool)

    if not fails(d, reqs):
        return text, None            # not reproducible in this form (needs its neighbours): keep the generated input
    size0 = (len(d["trips"]), len(d["foot"]), len(d["acc"]) + len(d["egr"]), sum(len(q) for _, q in reqs))
    changed = True
    while changed and calls[0] < budget:
        changed = False
        for i in range(len(reqs) - 1, -1, -1):                      # requests
            if len(reqs) > 1 and fails(d, reqs[:i] + reqs[i + 1:]):
                reqs = reqs[:i] + reqs[i + 1:]; changed = True
        for key, keep in (("trips", 1), ("foot", 0), ("acc", 1), ("egr", 1)):
            i = len(d[key]) - 1
            while i >= 0:
                item = d[key][i]
                if len(d[key]) > keep and not (key == "foot" and item[0] == item[1]):
                    d2 = dict(d); d2[key] = d[key][:i] + d[key][i + 1:]
                    if fails(d2, reqs):
                        d = d2; changed = True
                i -= 1
        for j, (k, q) in enumerate(reqs):                            # optional request parameters
            for pk in [x for x in list(q) if x not in ("scenario", "time_of_trip", "time_type")]:
                q2 = {a: b for a, b in q.items() if a != pk}
                r2 = reqs[:j] + [(k, q2)] + reqs[j + 1:]
                if fails(d, r2):
                    reqs = r2; q = q2; changed = True
    size1 = (len(d["trips"]), len(d["foot"]), len(d["acc"]) + len(d["egr"]), sum(len(q) for _, q in reqs))
    if size1 == size0:
        return text, None
    note = "# shrunk by the check (%d re-runs): trips %d -> %d, footpaths %d -> %d, candidate stops %d -> %d, request fields %d -> %d\n" % (
        calls[0], size0[0], size1[0], size0[1], size1[1], size0[2], size1[2], size0[3], size1[3])
    return note + block_text(did, d, reqs), note


def run(pid, tier, seed, replay=None, theorems=None, module=None):
    P = PROPS[pid]()
    ths0 = theorems if theorems is not None else P.theorems
    rep = core.Report(pid, tier, seed, level="proof" if ths0 else "exploration")
    rep.rule = P.rule
    rep.assumptions = list(P.assumptions)
    ths = theorems if theorems is not None else P.theorems
    mod = module if module is not None else P.module
    model = core.lean_phase(rep, mod if ths else None, ths, thorough=(tier == "thorough"))
    impl = core.harness_phase(rep)
    if not model or not impl:
        return rep.finish()
    stats = collections.Counter()
    cases = []
    corpus_cases = []
    if replay:
        text = open(replay).read()
        blocks = []
        cur = []
        for line in text.splitlines(True):
            if line.startswith("#"): continue
            cur.append(line)
            if line.strip() == "end":
                did, d, reqs, _ = gen.parse_protocol("".join(cur)); cur = []
                blocks.append((did, d, [gen.parse_query(r) for r in reqs]))
        cases.append(dict(did="replay", blocks=blocks, delta=0, base=[]))
        P.evaluate_case = lambda case, answers, rep, stats, _P=P: Prop.evaluate_case(_P, case, answers, rep, stats)
    else:
        n = P.n_quick * (THOROUGH_MULT if tier == "thorough" else 1)
        # corpus first: minimised past failures (corpus/<pid>/*.txt, protocol blocks), judged by the plain per-request evaluation
        cdir = os.path.join(os.path.dirname(os.path.dirname(os.path.abspath(__file__))), "corpus", pid)
        for fn in sorted(os.listdir(cdir)) if os.path.isdir(cdir) else []:
            cur, blocks = [], []
            for line in open(os.path.join(cdir, fn)).read().splitlines(True):
                if line.startswith("#"): continue
                cur.append(line)
                if line.strip() == "end":
                    did, d, reqs, _ = gen.parse_protocol("".join(cur)); cur = []
                    blocks.append(("corpus-%s-%s" % (fn.split(".")[0], did), d, [gen.parse_query(r) for r in reqs]))
            if blocks:
                corpus_cases.append(dict(did="corpus-" + fn, blocks=blocks, delta=0, base=[]))
        for k in range(n):
            rng = random.Random(seed * 1000003 + k * 7919 + int(pid[1:]))
            cases.append(P.plan_case(rng, "%s-%d-%d" % (pid, seed, k)))
    flat = []
    for c in corpus_cases + cases:
        for did, d, reqs in c["blocks"]:
            flat.append((did, block_text(did, d, reqs), [k if k in ("route", "summary", "accessibility") else "route" for k, q in reqs]))
    res = engine.run_cases(flat, impl, model)
    for c in corpus_cases:
        Prop.evaluate_case(P, c, res, rep, stats)
    stats["corpus cases"] = len(corpus_cases)
    for c in cases:
        P.evaluate_case(c, res, rep, stats)
        if replay:
            for did, d, reqs in c["blocks"]:
                for i, (k, q) in enumerate(reqs):
                    print("replay %s #%d\n  impl : %s\n  model: %s" % (did, i, res[did]["impl"][i], res[did]["model"][i]))
    if not replay:
        try:
            P.after_run(cases, res, rep, stats, tier, seed)
        except Exception as e:
            rep.obligation("extra-leg(%s)" % pid, False, "the extra leg of the check failed to run: %r" % (e,))
    rep.cov["input_distribution"] = dict(stats)
    rep.cov["streams"] = dict(P.streams)
    rep.obligation("correspondence:projection(%s)" % pid, not rep.corr, "%d disagreement(s)" % len(rep.corr))
    # the input that goes into the replay file is reduced first (the first direct violation, else the first disagreement)
    if not replay:
        try:
            if rep.direct:
                sig0, desc0, text0 = rep.direct[0]
                t1, note = shrink_violation(P, "direct", sig0, text0, impl, model)
                if note: rep.direct[0] = (sig0, desc0, t1); rep.cov["shrunk"] = note.strip()
            elif rep.corr:
                sig0, desc0, text0 = rep.corr[0]
                t1, note = shrink_violation(P, "corr", sig0, text0, impl, model)
                if note: rep.corr[0] = (sig0, desc0, t1); rep.cov["shrunk"] = note.strip()
        except Exception as e:          # a shrinker problem must never hide or create a verdict
            rep.cov["shrunk"] = "shrinker failed: %r" % (e,)
    return rep.finish()
