"""Seeded generators of datasets and requests (line protocol of DESIGN.md 3.2).

Every random choice derives from the `random.Random` handed in, so a case replays from
(VERIF_SEED, stream, index).  Streams:
  sparse    few trips, times on a coarse grid over several hours
  dense     3-5 stops, many trips inside one hour (competing departures, ties)
  overlap   paths revisiting stops / overlapping each other (optimizeJourney cases)
  tmpl      directed rewrite templates (go-too-far corridor, return line, continuation, walk)
  zero      zero-duration hops (outside the optimality domains; termination / validity only)
  twoends   FAR / NEAR candidate stops at both ends served by different runs (scan breaks, best access / egress selection)
  ties      consecutive stops of a trip served in the same second: only the sequence number orders two connections (sort comparators)
  hours     vehicles and requests on, just before and just after hour marks, 0:00 .. 32:00
  xfer      some lines of the special `transferable` mode
All streams produce *well-formed* datasets (times non-decreasing along a trip, self footpath
0 s for every stop, unique footpath pairs, unique access/egress stops, clocks in [0, 32 h)).
"""
import random

MAXC = 32 * 3600 - 1


def _mk_trip(rng, stops, t0, zero=False, dwell=(0, 0, 30, 60), hop=(60, 120, 300), flags=0.1):
    arr, dep = [], []
    t = t0
    for _ in stops:
        arr.append(t); t += rng.choice(dwell); dep.append(t)
        t += rng.choice((0, 60, 120)) if zero else rng.choice(hop)
    cb = [0 if rng.random() < flags else 1 for _ in stops]
    cu = [0 if rng.random() < flags else 1 for _ in stops]
    return arr, dep, cb, cu


def gen_network(rng, profile):
    dense = profile == "dense"; over = profile == "overlap"; zero = profile == "zero"
    hours = profile == "hours"; xfer = profile == "xfer"
    ns = rng.randint(3, 5) if dense else rng.randint(3, 8)
    foot = [(s, s, 0, 0) for s in range(ns)]
    seen = set((s, s) for s in range(ns))
    for _ in range(rng.randint(0, ns + 1)):
        a, b = rng.randrange(ns), rng.randrange(ns)
        if a != b and (a, b) not in seen:
            seen.add((a, b)); foot.append((a, b, rng.choice([30, 60, 120, 300, 1500]) if rng.random() < .9 else rng.randint(1, 400), rng.randint(0, 400)))
    # a hub: one stop with 3-4 incoming footpaths of mixed length in NO particular order, a long one listed before shorter ones
    # (the footpath tables are not sorted by time; loops that skip a too-long entry must keep their position bookkeeping right)
    hub_done = False
    if ns >= 4 and rng.random() < 0.35:
        hub = rng.randrange(ns)
        srcs = [x for x in range(ns) if x != hub and (x, hub) not in seen]
        rng.shuffle(srcs)
        times = [rng.choice([900, 1500, 700])] + [rng.choice([30, 60, 100, 200, 300]) for _ in range(3)]
        for x, t in zip(srcs[:4], times):
            seen.add((x, hub)); foot.append((x, hub, t, rng.randint(0, 400)))
        hub_done = True
    if rng.random() < 0.5 and not hub_done:
        rng.shuffle(foot)
    nag = rng.randint(1, 3); nsv = rng.randint(1, 3)
    nl = rng.randint(2, 5) if dense else rng.randint(1, 5)
    lines = []
    for _ in range(nl):
        mode = rng.choice([0, 0, 0, 1])
        if xfer and rng.random() < 0.4:
            mode = 2
        lines.append((rng.randrange(nag), mode))
    if xfer:
        # a transfer between a regular and a `transferable` line needs both kinds: make sure both exist
        if len(lines) < 2: lines.append((rng.randrange(nag), 0)); nl = len(lines)
        ks = rng.sample(range(len(lines)), 2)
        lines[ks[0]] = (lines[ks[0]][0], 2)
        if lines[ks[1]][1] == 2: lines[ks[1]] = (lines[ks[1]][0], rng.choice([0, 1]))
    paths, trips = [], []
    ids = list(range(1, 80)); rng.shuffle(ids)
    base_hour = rng.choice([0, 1, 5, 9, 13, 23, 24, 30]) if hours else 0
    for l in range(nl):
        for _ in range(1 if rng.random() < 0.8 else 2):
            k = rng.randint(3, 6) if over else rng.randint(2, 5)
            if rng.random() < (0.8 if over else 0.2):
                stops = [rng.randrange(ns) for _ in range(k)]
            else:
                stops = rng.sample(range(ns), min(k, ns))
            stops = [s for i, s in enumerate(stops) if i == 0 or s != stops[i - 1]]
            if len(stops) < 2:
                stops = [0, 1]
            r = rng.random()
            if r < 0.75:
                dist = [rng.randint(1, 50) for _ in stops[:-1]]
            elif r < 0.9:
                dist = []
            else:
                dist = [rng.randint(1, 50) for _ in stops[:-1]][:rng.randint(0, len(stops) - 1)]
            paths.append((l, stops, dist))
            for _ in range(rng.randint(2, 4) if dense else rng.randint(1, 3)):
                if dense:
                    t0 = 3000 + 60 * rng.randint(0, 12)
                elif hours:
                    t0 = base_hour * 3600 + rng.choice([-3600, 0, 0, 3600, 7200]) + rng.choice([-120, -60, -1, 0, 1, 60, 3540])
                    t0 = max(0, min(t0, MAXC - 4000))
                else:
                    t0 = rng.choice([0, 3000, 3540, 3600, 7000]) + 60 * rng.randint(0, 20)
                arr, dep, cb, cu = _mk_trip(rng, stops, t0, zero=zero)
                trips.append((len(paths) - 1, rng.randrange(nsv), ids.pop(), arr, dep, cb, cu))
    if rng.random() < 0.5:
        rng.shuffle(trips)
    acc, egr = {}, {}
    # several candidate stops with different walks at both ends more often than not (selection rules, break conditions)
    for _ in range(rng.choice([1, 2, 2, 3, 3])):
        acc[rng.randrange(ns)] = (rng.choice([0, 30, 60, 100, 120, 240, 300, 1300]), rng.randint(0, 300))
    for _ in range(rng.choice([1, 2, 2, 3, 3])):
        egr[rng.randrange(ns)] = (rng.choice([0, 30, 60, 100, 120, 240, 300, 1300]), rng.randint(0, 300))
    scen = [dict(services=list(range(nsv)), onlyLines=[], exceptLines=[], onlyAgencies=[], exceptAgencies=[], onlyModes=[], exceptModes=[])]
    for _ in range(rng.randint(0, 3)):
        s = dict(services=rng.sample(range(nsv), rng.randint(1, nsv)), onlyLines=[], exceptLines=[], onlyAgencies=[], exceptAgencies=[], onlyModes=[], exceptModes=[])
        for key, dom in (("onlyLines", nl), ("exceptLines", nl), ("onlyAgencies", nag), ("exceptAgencies", nag), ("onlyModes", 3), ("exceptModes", 3)):
            if rng.random() < 0.25:
                # any order (the code must not rely on the lists being sorted)
                s[key] = rng.sample(range(dom), rng.randint(1, max(1, dom - 1)))
        scen.append(s)
    # a service list with a REPEATED service (legal: the loader does not deduplicate): its length can equal the number of services
    # of the data although it does not name them all - anything that tests "keeps every service" by size is fooled
    # (added after seeded change C11-r4 was missed)
    if nsv >= 2 and rng.random() < 0.5:
        keep = rng.sample(range(nsv), nsv - 1)
        sv = keep + [rng.choice(keep)] * (nsv - len(keep))
        rng.shuffle(sv)
        scen.append(dict(services=sv, onlyLines=[], exceptLines=[], onlyAgencies=[], exceptAgencies=[], onlyModes=[], exceptModes=[]))
    # twins: a scenario that differs from an existing one in exactly ONE of its seven lists (anything that identifies a
    # scenario by part of its definition - a cache key, a comparison - confuses the two)
    if rng.random() < 0.5:
        for _ in range(rng.randint(1, 2)):
            base = dict(rng.choice(scen)); base = {k: list(v) for k, v in base.items()}
            key, dom = rng.choice((("onlyModes", 3), ("exceptModes", 3), ("onlyModes", 3), ("exceptModes", 3), ("onlyAgencies", nag), ("exceptAgencies", nag),
                                   ("onlyLines", nl), ("exceptLines", nl), ("services", nsv)))
            if key == "services":
                new = rng.sample(range(nsv), rng.randint(1, nsv))
            elif key.endswith("Modes"):
                present = sorted(set(m for _, m in lines))
                new = [rng.choice(present)] if rng.random() < 0.7 else rng.sample(range(dom), rng.randint(1, 2))
            else:
                new = rng.sample(range(dom), rng.randint(1, max(1, dom - 1)))
            if sorted(new) != sorted(base[key]):
                base[key] = new; scen.append(base)
    return dict(ns=ns, nag=nag, nsv=nsv, foot=foot, lines=lines, paths=paths, trips=trips, scenarios=scen,
                acc=[(s, t, x) for s, (t, x) in acc.items()], egr=[(s, t, x) for s, (t, x) in egr.items()],
                cacheall=rng.choice([0, 1]), profile=profile, base_hour=base_hour)


def gen_tmpl(rng):
    """directed rewrite templates built from references/journey_optimization_*.png"""
    nA = rng.randint(3, 5); ns = nA + 5
    A = list(range(nA)); mid = rng.randint(1, nA - 2) if nA > 2 else 1
    Fp, D, D2, W, X = nA, nA + 1, nA + 2, nA + 3, nA + 4
    foot = {(s, s): (0, 0) for s in range(ns)}
    kind = rng.choice(['gtf_direct', 'gtf_walk', 'csl_walk', 'css', 'loop', 'bts'])
    paths, trips = [], []
    ids = list(range(1, 60)); rng.shuffle(ids)

    def add(line_stops, t0, dw=0, cb=None, cu=None, n=1, head=600, hop=(60, 120)):
        paths.append((len(paths), line_stops, [rng.randint(1, 50) for _ in line_stops[:-1]]))
        for r in range(n):
            t = t0 + r * head; arr = []; dep = []
            for _ in line_stops:
                arr.append(t); t += dw; dep.append(t); t += rng.choice(hop)
            trips.append((len(paths) - 1, 0, ids.pop(), arr, dep, list(cb or [1] * len(line_stops)), list(cu or [1] * len(line_stops))))
        return arr, dep
    cuA = [1] * nA
    if rng.random() < 0.2:
        cuA[mid] = 0
    arrA, depA = add(A, 3000, dw=rng.choice([0, 30]), cu=cuA, n=rng.randint(1, 2))
    tK = arrA[-1] + rng.choice([200, 400])
    if kind == 'gtf_direct': K = [A[-1], A[mid]]
    elif kind == 'gtf_walk': K = [A[-1], Fp]; foot[(Fp, A[mid])] = (rng.choice([30, 60]), 50)
    elif kind == 'csl_walk': K = [A[-1], A[mid]]
    elif kind == 'css': K = [A[-1], W, A[mid], X] if rng.random() < 0.5 else [A[-1], A[mid], X]
    elif kind == 'bts': K = [A[-1], W]
    else: K = [A[-1], W, A[mid]]
    cbK = None
    if kind == 'css' and rng.random() < 0.45:
        # the later ride may not be boarded at the common stop (a drop-off-only call): the cut must then be abandoned as a whole -
        # a half-applied one alights the first ride there and "walks" to the stop where the later ride really is boarded (C01-r7)
        cbK = [1] * len(K); cbK[K.index(A[mid])] = 0
    arrK, depK = add(K, tK, n=1, cb=cbK)
    tJ = arrK[-1] + rng.choice([300, 500])
    if kind == 'csl_walk':
        foot[(A[mid], W)] = (rng.choice([60, 100]), 80); J = [W, D]
    elif kind == 'css': J = [X, D]
    elif kind == 'bts':
        # the continuation passes the stop where K alighted *after* its boarding stop: equal labels (zero dwell / wait)
        foot[(W, Fp)] = (30, 10); J = [Fp, W, D]
        cbJ = [1, 0 if rng.random() < .2 else 1, 1]
        arrJ, depJ = add(J, arrK[-1] + rng.choice([0, 30, 300]), dw=0, cb=cbJ, n=rng.randint(1, 2), hop=(60,)); J = None
    else:
        J = [A[mid], D] if rng.random() < 0.7 else [A[mid - 1], A[mid], D]
    if J is not None:
        arrJ, depJ = add(J, tJ, n=rng.randint(1, 2))
    egr = {D: rng.choice([0, 60])}
    if rng.random() < 0.4:
        foot[(D, X if kind != 'css' else W)] = (rng.choice([30, 90]), 40)
        L = [X if kind != 'css' else W, D2]; add(L, arrJ[-1] + 800, n=1); egr = {D2: 0}
    if rng.random() < 0.5:
        add(rng.sample(range(ns), 3), 3000 + 60 * rng.randint(0, 30), n=1)
    lines = [(0, 0) for _ in paths]
    scen = [dict(services=[0], onlyLines=[], exceptLines=[], onlyAgencies=[], exceptAgencies=[], onlyModes=[], exceptModes=[])]
    return dict(ns=ns, nag=1, nsv=1, foot=[(a, b, t, x) for (a, b), (t, x) in foot.items()], lines=lines, paths=paths,
                trips=trips, scenarios=scen, acc=[(A[0], rng.choice([0, 60]), 5)], egr=[(s, t, 7) for s, t in egr.items()],
                cacheall=0, profile="tmpl:" + kind, base_hour=0)


def gen_parallel(rng):
    """several parallel lines between the same stops (alternatives search finds >= 3 routes)"""
    ns = rng.randint(4, 7)
    foot = [(s, s, 0, 0) for s in range(ns)]
    for _ in range(rng.randint(0, 3)):
        a, b = rng.sample(range(ns), 2)
        if not any(f[0] == a and f[1] == b for f in foot):
            foot.append((a, b, rng.choice([30, 60, 120]), rng.randint(0, 200)))
    nl = rng.randint(3, 6)
    lines = [(0, rng.choice([0, 1])) for _ in range(nl)]
    paths, trips = [], []
    ids = list(range(1, 90)); rng.shuffle(ids)
    o, d_ = 0, ns - 1
    for l in range(nl):
        mids = rng.sample(range(1, ns - 1), rng.randint(0, min(2, ns - 2)))
        stops = [o] + mids + [d_] if rng.random() < 0.8 else rng.sample(range(ns), rng.randint(2, 4))
        paths.append((l, stops, [rng.randint(1, 50) for _ in stops[:-1]]))
        for _ in range(rng.randint(1, 3)):
            arr, dep, cb, cu = _mk_trip(rng, stops, 3000 + 60 * rng.randint(0, 40), flags=0.03)
            trips.append((len(paths) - 1, 0, ids.pop(), arr, dep, cb, cu))
    # a two-leg way whose first leg rides the line with the HIGHER index (boarding order != order of the line identifiers): the
    # alternatives search finds it under several exclusion combinations and must recognise it as one and the same alternative
    if rng.random() < 0.6 and ns >= 3:
        m = rng.randrange(1, ns - 1)
        lx, ly = len(lines), len(lines) + 1
        lines.append((0, 0)); lines.append((0, 0))
        paths.append((lx, [m, d_], [rng.randint(1, 50)])); px = len(paths) - 1
        paths.append((ly, [o, m], [rng.randint(1, 50)])); py = len(paths) - 1
        for r in range(rng.randint(1, 2)):
            t = 3000 + 60 * rng.randint(0, 30)
            h1 = rng.choice([120, 300]); w = rng.choice([180, 240, 600]); h2 = rng.choice([120, 300])
            trips.append((py, 0, ids.pop(), [t, t + h1], [t, t + h1], [1, 1], [1, 1]))
            trips.append((px, 0, ids.pop(), [t + h1 + w, t + h1 + w + h2], [t + h1 + w, t + h1 + w + h2], [1, 1], [1, 1]))
    scen = [dict(services=[0], onlyLines=[], exceptLines=[], onlyAgencies=[], exceptAgencies=[], onlyModes=[], exceptModes=[])]
    return dict(ns=ns, nag=1, nsv=1, foot=foot, lines=lines, paths=paths, trips=trips, scenarios=scen,
                acc=[(o, rng.choice([0, 60]), 3)] + ([(1, 120, 9)] if rng.random() < .3 else []),
                egr=[(d_, rng.choice([0, 60]), 4)], cacheall=0, profile="parallel", base_hour=0)


def gen_manylines(rng):
    """52-60 single-trip lines between the same two stops, leaving 30 s apart, each riding one hour: the alternatives search finds more
    than 50 routes with pairwise distinct line sets inside its 200-calculation cap and its travel-time window - the only way to reach
    the cap on the number of returned alternatives (added after seeded change C10-r4 was missed)"""
    nl = rng.randint(52, 60)
    ns = 2 + rng.randint(0, 1)
    foot = [(s, s, 0, 0) for s in range(ns)]
    lines = [(0, 0) for _ in range(nl)]
    t0 = rng.choice([3600, 7200, 30000]) + 60 * rng.randint(0, 20)
    ride = rng.choice([3000, 3600])
    ids = list(range(1, nl + 40)); rng.shuffle(ids)
    paths, trips = [], []
    for l in range(nl):
        paths.append((l, [0, ns - 1], [rng.randint(1, 50)]))
        dep = t0 + 30 * l
        trips.append((l, 0, ids.pop(), [dep, dep + ride], [dep, dep + ride], [1, 1], [1, 1]))
    scen = [dict(services=[0], onlyLines=[], exceptLines=[], onlyAgencies=[], exceptAgencies=[], onlyModes=[], exceptModes=[])]
    return dict(ns=ns, nag=1, nsv=1, foot=foot, lines=lines, paths=paths, trips=trips, scenarios=scen,
                acc=[(0, rng.choice([0, 30]), 3)], egr=[(ns - 1, rng.choice([0, 30]), 4)], cacheall=0, profile="manylines", base_hour=0,
                t_hint=(t0, t0 + 30 * nl + ride))


def gen_walkboard(rng):
    """an optimal arrival-time journey that WALKS from N to B and boards there, where B already carries a reverse label at least as
    late that does not come from a boarding at B: (a) B is itself an egress stop (long walk to the destination) while the boarded trip
    goes on to a nearer egress stop E; (b) B was labelled through its own footpath B -> M to a later boarding at M, and N has no such
    footpath. A scan that stops relaxing the neighbours of a stop whose own label is already good never labels N (seeded change C04-r5)."""
    A, N, B, E, M, X = 0, 1, 2, 3, 4, 5
    ns = 6
    foot = {(s, s): (0, 0) for s in range(ns)}
    w = rng.choice([30, 60, 120, 240])
    foot[(N, B)] = (w, 80)
    if rng.random() < 0.3: foot[(B, N)] = (w + rng.choice([0, 60]), 80)
    paths, trips = [], []
    ids = list(range(1, 30)); rng.shuffle(ids)

    def add(stops, times):
        paths.append((len(paths), stops, [rng.randint(1, 50) for _ in stops[:-1]]))
        trips.append((len(paths) - 1, 0, ids.pop(), list(times), list(times), [1] * len(stops), [1] * len(stops)))
    mw = rng.choice([0, 60, 180])
    t0 = 3000 + 60 * rng.randint(0, 10)
    aN = t0 + rng.choice([200, 300])
    add([A, N], [t0, aN])                                              # feeder to N
    if rng.random() < 0.4: add([A, N], [t0 - 900, aN - 900])           # an earlier feeder (the answer a wrong scan may fall back to)
    depB = aN + w + mw + rng.choice([0, 1, 60, 300])
    ride = rng.choice([240, 400])
    add([B, E], [depB, depB + ride])                                   # the trip boarded after the walk
    shape_b = rng.random() < 0.5
    eE = rng.choice([0, 60])
    egr = [(E, eE, 7)]
    arrT = depB + ride + eE + rng.choice([0, 30, 200])
    if shape_b:
        wm = rng.choice([30, 60])
        foot[(B, M)] = (wm, 30)
        depM = depB + rng.choice([60, 200, 400])                       # B's label through B -> M is later than depB - mw
        add([M, X], [depM + wm + mw, depM + wm + mw + 200])
        egr.append((X, rng.choice([0, 30]), 9))
        arrT = max(arrT, depM + wm + mw + 200 + 30 + rng.choice([0, 60]))
    else:
        eB = rng.choice([600, 900, 1100])                              # B is an egress stop with a long walk: label arrT - eB >= depB - mw
        arrT = max(arrT, depB - mw + eB + rng.choice([0, 1, 100]))
        egr.append((B, eB, 11))
    lines = [(0, 0) for _ in paths]
    scen = [dict(services=[0], onlyLines=[], exceptLines=[], onlyAgencies=[], exceptAgencies=[], onlyModes=[], exceptModes=[])]
    return dict(ns=ns, nag=1, nsv=1, foot=[(a, b, t, x) for (a, b), (t, x) in foot.items()], lines=lines, paths=paths,
                trips=trips, scenarios=scen, acc=[(A, rng.choice([0, 60]), 5)], egr=sorted(egr),
                cacheall=0, profile="walkboard", base_hour=0, mw_hint=mw, t_hint=(t0, arrT))


def gen_closer(rng):
    """a trip with two candidate alighting stops P (earlier, shorter onward walk) and Q (later, longer
    walk): exercises the rule that moves a trip's exit to a "closer" stop (reverse_calculation.cpp:89-105)"""
    S, P, Q, R, R2, D, X = 0, 1, 2, 3, 4, 5, 6
    ns = 7
    foot = {(s, s): (0, 0) for s in range(ns)}
    wP = rng.choice([30, 60, 90, 120, 150]); wQ = wP + rng.choice([10, 30, 60, 150])
    same_target = rng.random() < 0.5
    foot[(P, R)] = (wP, 40); foot[(Q, R if same_target else R2)] = (wQ, 90)
    if rng.random() < 0.3: foot[(P, R2)] = (wP + rng.choice([0, 20, 400]), 50)
    if rng.random() < 0.2: foot[(Q, D)] = (rng.choice([60, 300]), 70)
    paths, trips = [], []
    ids = list(range(1, 40)); rng.shuffle(ids)

    def add(stops, times, cb=None, cu=None):
        paths.append((len(paths), stops, [rng.randint(1, 50) for _ in stops[:-1]]))
        arr = list(times); dw = rng.choice([0, 0, 30]); dep = [t + dw for t in times]
        trips.append((len(paths) - 1, 0, ids.pop(), arr, dep, list(cb or [1] * len(stops)), list(cu or [1] * len(stops))))
    t0 = 3000 + 60 * rng.randint(0, 5)
    aP = t0 + rng.choice([120, 300]); aQ = aP + rng.choice([60, 120, 300])
    cuA = [1, 1, 1]
    if rng.random() < 0.15: cuA[rng.choice([1, 2])] = 0
    stopsA = [S, P, Q]
    add(stopsA, [t0, aP, aQ], cu=cuA)
    if rng.random() < 0.4: add(stopsA, [t0 + 600, aP + 600, aQ + 600], cu=cuA)
    # onward trip B from R: around the moment a walker from P would just make / just miss it
    mwc = rng.choice([0, 30, 60, 180])
    depB = aP + wP + mwc + rng.choice([-120, -60, -30, -1, 0, 1, 30, 60, 200])
    depB = max(depB, aP + rng.choice([0, 30, 2 * mwc]))
    cbB = [1, 1] if rng.random() < .85 else [0, 1]
    add([R, D], [depB, depB + rng.choice([120, 300])], cb=cbB)
    # a later onward trip that is certainly catchable from Q
    tgt = R if same_target else R2
    depB2 = aQ + wQ + 180 + rng.choice([0, 60, 300])
    add([tgt, D], [depB2, depB2 + rng.choice([120, 300])])
    if rng.random() < 0.3: add([R, X, D], [depB + 400, depB + 500, depB + 700])
    lines = [(0, 0) for _ in paths]
    scen = [dict(services=[0], onlyLines=[], exceptLines=[], onlyAgencies=[], exceptAgencies=[], onlyModes=[], exceptModes=[])]
    return dict(ns=ns, nag=1, nsv=1, foot=[(a, b, t, x) for (a, b), (t, x) in foot.items()], lines=lines, paths=paths,
                trips=trips, scenarios=scen, acc=[(S, rng.choice([0, 60]), 5)], egr=[(D, rng.choice([0, 60]), 7)],
                cacheall=0, profile="closer", base_hour=0, mw_hint=mwc, t_hint=(t0, depB2 + 1000))


def gen_ties(rng):
    """time ties inside one trip: consecutive stops served in the same second (zero-duration hop with no dwell), so that two
    connections of a trip tie in arrival and/or departure time and only the sequence number orders them; several runs an
    hour apart so that a lost boarding shows as a different run; access before the tie, egress after it"""
    ns = rng.randint(4, 6)
    foot = [(s, s, 0, 0) for s in range(ns)]
    if rng.random() < 0.4:
        a, b = rng.sample(range(ns), 2)
        foot.append((a, b, rng.choice([30, 60, 120]), rng.randint(0, 200)))
    lines = [(0, 0)]; paths = []; trips = []
    ids = list(range(1, 60)); rng.shuffle(ids)
    k = rng.randint(3, min(5, ns))
    stops = rng.sample(range(ns), k)
    paths.append((0, stops, [rng.randint(1, 50) for _ in stops[:-1]]))
    tie_at = rng.randrange(1, k - 1) if k > 2 else 1        # the stop served in the same second as the next one
    t0 = rng.choice([3000, 3600, 28800])
    for r in range(rng.randint(2, 3)):
        t = t0 + r * 3600; arr, dep = [], []
        for i, _ in enumerate(stops):
            arr.append(t)
            if i == tie_at or rng.random() < 0.3:
                dep.append(t)                                  # no dwell, and the next hop takes no time
                if i != tie_at: t += rng.choice([60, 300])
            else:
                t += rng.choice([0, 30]); dep.append(t); t += rng.choice([60, 300, 600])
        trips.append((0, 0, ids.pop(), arr, dep, [1] * k, [1] * k))
    if rng.random() < 0.5:
        l2 = rng.sample(range(ns), 2)
        lines.append((0, 0)); paths.append((1, l2, [10]))
        tt = t0 + rng.choice([0, 600, 1800])
        trips.append((1, 0, ids.pop(), [tt, tt + 300], [tt, tt + 300], [1, 1], [1, 1]))
    if rng.random() < 0.5:
        rng.shuffle(trips)
    acc = {stops[rng.randrange(0, tie_at + 1)]: (rng.choice([0, 60, 240]), rng.randint(0, 300))}
    egr = {stops[rng.randrange(tie_at + 1, k)]: (rng.choice([0, 60, 240]), rng.randint(0, 300))}
    if rng.random() < 0.4: acc[stops[0]] = (rng.choice([0, 100]), 50)
    if rng.random() < 0.4: egr[stops[-1]] = (rng.choice([0, 100]), 50)
    scen = [dict(services=[0], onlyLines=[], exceptLines=[], onlyAgencies=[], exceptAgencies=[], onlyModes=[], exceptModes=[])]
    return dict(ns=ns, nag=1, nsv=1, foot=foot, lines=lines, paths=paths, trips=trips, scenarios=scen,
                acc=[(s, t, x) for s, (t, x) in acc.items()], egr=[(s, t, x) for s, (t, x) in egr.items()],
                cacheall=rng.choice([0, 1]), profile="ties", t_hint=(t0, t0 + 3 * 3600))


def gen_twoends(rng):
    """two candidate stops with clearly different walks at the origin (FAR / NEAR) and at the destination, served by different
    runs: the run met first by a scan is not the best one once the walks are counted (break conditions of both scans, best
    access / egress selection); both time types"""
    FAR, NEAR, M, EN, EF = 0, 1, 2, 3, 4
    ns = 5 + rng.randint(0, 1)
    foot = [(s, s, 0, 0) for s in range(ns)]
    if rng.random() < 0.3: foot.append((M, EN, rng.choice([60, 120]), 80))
    wfar = rng.choice([600, 900, 1200]); wnear = rng.choice([0, 60, 120])
    gfar = rng.choice([600, 900, 1200]); gnear = rng.choice([0, 60, 120])
    lines = [(0, 0), (0, 0), (0, 0)]; paths = []; trips = []
    ids = list(range(1, 60)); rng.shuffle(ids)
    t0 = rng.choice([7200, 10800, 36000])
    # origin side: the run from FAR leaves later and arrives later than the run from NEAR
    dn = t0 + rng.choice([0, 300, 600]); an = dn + rng.choice([300, 600])
    df = an + rng.choice([60, 300, 600]) - rng.choice([0, 300]); af = df + rng.choice([300, 600])
    if rng.random() < 0.35:          # exact tie at the origin: both runs are left for at the same second once the walks count
        df = dn - wnear + wfar; af = max(af, df + 300)
    paths.append((0, [NEAR, M], [10])); trips.append((0, 0, ids.pop(), [dn, an], [dn, an], [1, 1], [1, 1]))
    paths.append((1, [FAR, M], [10])); trips.append((1, 0, ids.pop(), [df, af], [df, af], [1, 1], [1, 1]))
    # destination side: two runs from M, to EN (arrives later, short walk) and to EF (arrives earlier, long walk)
    base = max(an, af) + rng.choice([180, 300, 900])
    for r in range(rng.randint(1, 2)):
        d1 = base + r * 1800
        a_ef = d1 + rng.choice([300, 600]); a_en = a_ef + rng.choice([60, 300, 900])
        if rng.random() < 0.4:       # exact tie at the destination: both ways reach the place at the same second
            a_en = a_ef + gfar - gnear
        paths.append((2, [M, EF], [10])); trips.append((len(paths) - 1, 0, ids.pop(), [d1, a_ef], [d1, a_ef], [1, 1], [1, 1]))
        d2 = d1 + rng.choice([0, 120, 600])
        paths.append((2, [M, EN], [10])); trips.append((len(paths) - 1, 0, ids.pop(), [d2, max(a_en, d2 + 60)], [d2, max(a_en, d2 + 60)], [1, 1], [1, 1]))
    # direct runs from one boarding stop to the two destination stops that reach the PLACE in the same second (or nearly): the
    # one that leaves later is the answer; which destination stop the first pass keeps must not matter to the second pass
    if rng.random() < 0.5:
        tA = t0 + rng.choice([0, 600, 3600]); aA = tA + 1800
        aB = aA + gnear - gfar + rng.choice([0, 0, 0, 1, -1, 60]); tB = tA + rng.choice([120, 300])
        if tB < aB:
            paths.append((2, [NEAR, EN], [10])); trips.append((len(paths) - 1, 0, ids.pop(), [tA, aA], [tA, aA], [1, 1], [1, 1]))
            paths.append((2, [NEAR, EF], [10])); trips.append((len(paths) - 1, 0, ids.pop(), [tB, aB], [tB, aB], [1, 1], [1, 1]))
    # one run that calls at BOTH origin stops (NEAR first): at NEAR the first wait exceeds a first-waiting cap by less than the
    # minimum waiting time, at FAR (long walk) it is within the cap; requests that hit this are kept as hints for gen_query
    cap_hints = []
    if rng.random() < 0.5:
        T = t0 + rng.choice([1800, 5400]); g = rng.choice([120, 180]); h = rng.choice([600, 900])
        paths.append((0, [NEAR, FAR, M, EN], [10, 10, 10]))
        trips.append((len(paths) - 1, 0, ids.pop(), [T, T + g, T + g + h, T + g + 2 * h], [T, T + g, T + g + h, T + g + 2 * h], [1] * 4, [1] * 4))
        for _ in range(3):
            mw = rng.choice([60, 180]); cap = rng.choice([300, 600, 900]); delta = rng.randint(1, mw)
            treq = T - wnear - cap - delta
            if treq >= 0 and (T + g) - treq - wfar <= cap:
                cap_hints.append((treq, cap, mw))
    if rng.random() < 0.5: rng.shuffle(trips)
    scen = [dict(services=[0], onlyLines=[], exceptLines=[], onlyAgencies=[], exceptAgencies=[], onlyModes=[], exceptModes=[])]
    hi = max(x for t in trips for x in t[3])
    acc = [(FAR, wfar, 700), (NEAR, wnear, 50)]; egr = [(EN, gnear, 40), (EF, gfar, 800)]
    if rng.random() < 0.5: acc.reverse()
    if rng.random() < 0.5: egr.reverse()
    return dict(ns=ns, nag=1, nsv=1, foot=foot, lines=lines, paths=paths, trips=trips, scenarios=scen,
                acc=acc, egr=egr,
                cacheall=rng.choice([0, 1]), profile="twoends", t_hint=(t0 - 1500, hi + 1500), cap_hints=cap_hints)


def gen_dataset(rng, stream):
    if stream == "twoends":
        return gen_twoends(rng)
    if stream == "ties":
        return gen_ties(rng)
    if stream == "tmpl":
        return gen_tmpl(rng)
    if stream == "parallel":
        return gen_parallel(rng)
    if stream == "closer":
        return gen_closer(rng)
    if stream == "walkboard":
        return gen_walkboard(rng)
    if stream == "manylines":
        return gen_manylines(rng)
    return gen_network(rng, stream)


# ---------------------------------------------------------------- requests

def gen_query(rng, d, forward=None, cap=None, alt=False, limits=True):
    prof = d.get("profile", "")
    if prof == "dense":
        t = rng.choice([2400, 2900, 3000, 3300, 3600, 4000, 4500, 5000, 6000]) + rng.choice([0, 0, 1, 59, 600])
    elif prof == "hours":
        h = d.get("base_hour", 0)
        # 2400 / 3000 / 3300: request + a long access walk crosses the hour mark while a vehicle is still catchable from a nearer stop
        t = h * 3600 + rng.choice([-3600, 0, 3600, 7200, 10800]) + rng.choice([-1, 0, 0, 1, 60, 1800, 3599, 2400, 3000, 3300])
        t = max(0, min(t, MAXC))
    elif prof.startswith("tmpl"):
        t = rng.choice([9000, 12000, 2000, 2700])
    elif prof == "parallel":
        t = rng.choice([2500, 3000, 3600, 4200, 7000, 9000])
    elif prof == "closer":
        lo, hi = d["t_hint"]
        t = rng.choice([lo - 600, lo - 60, hi, hi + 3000])
    elif prof == "walkboard":
        lo, hi = d["t_hint"]
        if forward is None: forward = rng.random() < 0.25
        t = rng.choice([lo - 600, lo - 60]) if forward else rng.choice([hi, hi, hi + 1, hi + 60, hi + 600])
    elif prof == "twoends":
        lo, hi = d["t_hint"]
        t = rng.choice([lo, lo + 600, lo + 1200, lo + 1500, hi - 1500, hi - 900, hi, hi + 600])
        if forward is None: forward = rng.random() < 0.5
        if (not forward) and t < (lo + hi) // 2: t = rng.choice([hi - 1500, hi - 600, hi])
        if forward and t > (lo + hi) // 2: t = rng.choice([lo, lo + 600, lo + 1200])
    elif prof == "ties":
        lo, hi = d["t_hint"]
        t = rng.choice([lo - 600, lo - 60, lo + 1800, lo + 3000, lo + 5400, hi, hi + 600])
    elif prof == "manylines":
        lo, hi = d["t_hint"]
        t = rng.choice([lo - 90, lo - 60, lo - 30])
        forward = True
    else:
        t = rng.choice([0, 1800, 2900, 3600, 4000, 5000, 7200, 9000]) + rng.choice([0, 0, 1, 59, 600])
    tt = rng.choice([0, 1]) if forward is None else (0 if forward else 1)
    if prof.startswith("tmpl") and forward is None:
        tt = 1 if t >= 9000 else 0
    if prof == "closer" and forward is None:
        tt = 1 if t >= d["t_hint"][1] else 0
    q = dict(scenario=rng.randrange(len(d["scenarios"])), time_of_trip=t, time_type=tt,
             min_waiting_time=rng.choice([0, 60, 180]))
    if prof in ("closer", "walkboard") and rng.random() < 0.7:
        q["min_waiting_time"] = d["mw_hint"]
    if prof == "walkboard":
        limits = limits and rng.random() < 0.3      # mostly default maxima: the long egress walk of shape (a) must stay admissible
    cap_disabled_by_caller = cap is not None and cap <= 0      # C03 C05 C08 quantify over requests WITHOUT the cap: never override
    if cap is None:
        cap = rng.choice([0, 0, 0, 120, 300, 900, None])
    if cap is not None:
        q["max_first_waiting_time"] = cap
    if limits:
        if rng.random() < 0.3: q["max_travel_time"] = rng.choice([0, 600, 1800, 3600])
        if rng.random() < 0.35: q["max_transfer_travel_time"] = rng.choice([-5, 30, 60, 300, 400, 600, 1000])
        if rng.random() < 0.2: q["max_access_travel_time"] = rng.choice([0, 30, 100, 2000])
        if rng.random() < 0.2: q["max_egress_travel_time"] = rng.choice([0, 30, 100, 2000])
        if rng.random() < 0.05: q["min_waiting_time"] = rng.choice([32767, 32768, 65535, -3])
    if prof == "twoends" and d.get("cap_hints") and forward is not False and not cap_disabled_by_caller and rng.random() < 0.4:
        treq, capv, mwv = rng.choice(d["cap_hints"])
        q["time_of_trip"], q["time_type"], q["min_waiting_time"], q["max_first_waiting_time"] = treq, 0, mwv, capv
        for k in ("max_travel_time", "max_access_travel_time", "max_egress_travel_time", "max_transfer_travel_time"): q.pop(k, None)
    if prof == "manylines":
        # nothing may cut the fan of departures: no cap, no limits, a waiting time every line can meet
        q["max_first_waiting_time"] = 0; q["min_waiting_time"] = rng.choice([0, 30])
        for k in ("max_travel_time", "max_access_travel_time", "max_egress_travel_time", "max_transfer_travel_time"): q.pop(k, None)
    if alt:
        q["alternatives"] = rng.choice(["1", "true"])
        # the alternatives search has its own travel-time window (30 min floor, fastest + 60 min): limits below the floor matter
        if rng.random() < 0.5:
            q["max_travel_time"] = rng.choice([300, 450, 600, 750, 900, 1200, 1500, 1700])
    return q


def fmt_query(kind, q):
    return kind + " " + " ".join("%s=%s" % (k, v) for k, v in q.items())


# ---------------------------------------------------------------- serialisation

def _il(xs):
    return " ".join(str(x) for x in xs)


def write_dataset(d, did, requests, extra_trips2=None):
    out = ["dataset %s" % did, "stops %d" % d["ns"], "agencies %d" % d["nag"], "services %d" % d["nsv"],
           "cacheall %d" % d.get("cacheall", 0)]
    for a, b, t, x in d["foot"]:
        out.append("foot %d %d %d %d" % (a, b, t, x))
    for a, m in d["lines"]:
        out.append("line %d %d" % (a, m))
    for l, st, di in d["paths"]:
        out.append("path %d %s ; %s" % (l, _il(st), _il(di)))
    for kw, trips in (("trip", d["trips"]), ("trip2", extra_trips2 or [])):
        for p, sv, tid, arr, dep, cb, cu in trips:
            out.append("%s %d %d %d %s ; %s ; %s ; %s" % (kw, p, sv, tid, _il(arr), _il(dep), _il(cb), _il(cu)))
    for s in d["scenarios"]:
        out.append("scenario %s ; %s ; %s ; %s ; %s ; %s ; %s" % tuple(_il(s[k]) for k in
                   ("services", "onlyLines", "exceptLines", "onlyAgencies", "exceptAgencies", "onlyModes", "exceptModes")))
    for s, t, x in d["acc"]:
        out.append("access %d %d %d" % (s, t, x))
    for s, t, x in d["egr"]:
        out.append("egress %d %d %d" % (s, t, x))
    out.extend(requests)
    out.append("end")
    return "\n".join(out) + "\n"


def parse_protocol(text):
    """inverse of write_dataset for one block (used by replay and by the shrinker)"""
    d = dict(ns=0, nag=1, nsv=1, foot=[], lines=[], paths=[], trips=[], scenarios=[], acc=[], egr=[], cacheall=0)
    reqs, trips2, did = [], [], "0"

    def groups(ws):
        g = [[]]
        for w in ws:
            if w == ";": g.append([])
            else: g[-1].append(int(w))
        return g
    for line in text.splitlines():
        ws = line.split()
        if not ws or ws[0].startswith("#"): continue
        k = ws[0]
        if k == "dataset": did = ws[1]
        elif k == "end": break
        elif k == "stops": d["ns"] = int(ws[1])
        elif k == "agencies": d["nag"] = int(ws[1])
        elif k == "services": d["nsv"] = int(ws[1])
        elif k == "cacheall": d["cacheall"] = int(ws[1])
        elif k == "foot": d["foot"].append(tuple(int(x) for x in ws[1:5]))
        elif k == "line": d["lines"].append((int(ws[1]), int(ws[2])))
        elif k == "path":
            g = groups(ws[2:]); d["paths"].append((int(ws[1]), g[0], g[1] if len(g) > 1 else []))
        elif k in ("trip", "trip2"):
            g = groups(ws[4:]) + [[], [], []]
            arr = g[0]
            t = (int(ws[1]), int(ws[2]), int(ws[3]), arr, g[1], g[2] or [1] * len(arr), g[3] or [1] * len(arr))
            (d["trips"] if k == "trip" else trips2).append(t)
        elif k == "scenario":
            g = groups(ws[1:]) + [[]] * 7
            d["scenarios"].append(dict(zip(("services", "onlyLines", "exceptLines", "onlyAgencies", "exceptAgencies", "onlyModes", "exceptModes"), g[:7])))
        elif k == "access": d["acc"].append(tuple(int(x) for x in ws[1:4]))
        elif k == "egress": d["egr"].append(tuple(int(x) for x in ws[1:4]))
        else: reqs.append(line.strip())
    return did, d, reqs, trips2


def parse_query(req):
    ws = req.split()
    q = {}
    for kv in ws[1:]:
        k, _, v = kv.partition("=")
        q[k] = v
    return ws[0], q
