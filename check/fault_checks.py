"""Histories and faults against the REAL server binary: C15 (refresh = fresh start), C17 (faulted cache files never crash),
C20 (walking-router faults degrade to error answers).  The entry points run_c15 / run_c17 / run_c20 are re-exported by
check/http_checks.py (same signature as run_c16 / run_c18).

Everything is built from /repo's current tree through harness/build.py (ASan+UBSan server, plain cachegen), lives under
/verif/work/http-<pid>/ and is removed by httpkit.cleanup(); processes are killed by PID in try/finally blocks.
Every random choice derives from random.Random(seed * 1000003 + k)."""
import collections, json, os, random, re, shutil, sys, threading, time
from concurrent.futures import ThreadPoolExecutor
from . import core, engine, gen, canon, httpkit as H, oracles as O
from . import loader_corr
from . import http_checks as HC

PAR = HC.PAR


# ============================================================================================== shared helpers

def parse_body(body):
    try:
        j = json.loads(body.decode("utf-8"))
        return j if isinstance(j, dict) else None
    except Exception:
        return None


def brief(st, hd, body):
    """one-line description of a response"""
    if st is None:
        return "no response (%s)" % hd.get("_error")
    j = parse_body(body)
    if j is None:
        return "HTTP %s, body not JSON: %r" % (st, body[:80])
    return "HTTP %s %s%s" % (st, j.get("status"), (" " + str(j.get("errorCode") or j.get("reason"))) if (j.get("errorCode") or j.get("reason")) else "")


def well_formed(kind, st, hd, body, codes, allow_data_error=False):
    """the transport / classification clauses shared by C15, C17, C20: exactly one HTTP response, 200 or 400, Content-Length = body
    bytes, JSON object; 200 => status success | no_routing_found (| data_error with a documented code); 400 => query_error with a
    documented code.  Returns (None | text of what is wrong, parsed json | None)"""
    qcodes, qcodes_acc, dcodes = codes
    if st is None:
        return "no HTTP response (%s)" % hd.get("_error"), None
    if st not in (200, 400):
        return "status line %r" % hd.get("_status_line"), None
    cl = hd.get("content-length")
    if cl is None or not cl.isdigit() or int(cl) != len(body):
        return "Content-Length %s but %d body bytes" % (cl, len(body)), None
    j = parse_body(body)
    if j is None:
        return "body is not a JSON object: %r" % body[:100], None
    s = j.get("status")
    if st == 400:
        if s != "query_error": return "HTTP 400 with status %r" % s, j
        if j.get("errorCode") not in (qcodes_acc if kind == "accessibility" else qcodes): return "undocumented errorCode %r" % j.get("errorCode"), j
        return None, j
    if s in ("success", "no_routing_found"):
        return None, j
    if s == "data_error" and allow_data_error:
        if j.get("errorCode") not in dcodes: return "undocumented data_error code %r" % j.get("errorCode"), j
        return None, j
    return "HTTP 200 with status %r" % s, j


def answer_key(kind, st, body):
    """what two answers to the same request are compared on: canonical text (canon.canon after normalise_coordinates) for
    success / no_routing_found, (status, errorCode) for error objects, the raw bytes when nothing parses"""
    if st is None:
        return "no-response"
    j = parse_body(body)
    if j is None:
        return "HTTP %s raw %r" % (st, body[:200])
    s = j.get("status")
    if st == 200 and s in ("success", "no_routing_found"):
        txt, _, err = HC.http_canon(kind, body)
        return txt if txt is not None else "HTTP 200 uncanonical (%s) %r" % (err, body[:120])
    return "HTTP %s %s %s" % (st, s, j.get("errorCode"))


def asan_summary(text):
    """the one line that names a sanitizer report / abort (+ the first stack frame inside the repository, when there is a stack)"""
    text = text or ""
    frame = ""
    m = re.search(r"#\d+ 0x[0-9a-f]+ in (\S[^\n]*?) (%s/[^\s:]+:\d+)" % re.escape(HC.REPO), text)
    if m:
        frame = " [first repository frame: %s %s]" % (re.sub(r"\(.*", "", m.group(1))[:80], m.group(2).replace(HC.REPO + "/", ""))
    for pat in (r"ERROR: \w+Sanitizer: [^\n]+", r"[^\n]*runtime error:[^\n]+", r"terminate called[^\n]+(\n\s*what\(\):[^\n]+)?", r"SUMMARY: [^\n]+", r"Assertion [^\n]+ failed"):
        m = re.search(pat, text)
        if m:
            line = " ".join(m.group(0).split())
            line = re.sub(r" on address 0x[0-9a-f]+ at pc 0x[0-9a-f]+ bp 0x[0-9a-f]+ sp 0x[0-9a-f]+", "", line)
            return line[:300] + frame
    return text.strip().splitlines()[-1][:200] if text.strip() else "no output"


def dataset_with_scenarios(rng, stream, lo=2, hi=3):
    d = gen.gen_dataset(rng, stream)
    nl, nsv = len(d["lines"]), d["nsv"]
    while len(d["scenarios"]) < lo:
        d["scenarios"].append(random_scenario(rng, d))
    d["scenarios"] = d["scenarios"][:max(hi, lo)]
    d["acc"] = sorted(d["acc"]); d["egr"] = sorted(d["egr"])
    return d


def random_scenario(rng, d):
    nl, nsv, nag = len(d["lines"]), d["nsv"], d["nag"]
    s = dict(services=rng.sample(range(nsv), rng.randint(1, nsv)), onlyLines=[], exceptLines=[], onlyAgencies=[], exceptAgencies=[], onlyModes=[], exceptModes=[])
    r = rng.random()
    if r < 0.35 and nl > 1: s["exceptLines"] = rng.sample(range(nl), rng.randint(1, nl - 1))
    elif r < 0.55 and nl > 1: s["onlyLines"] = rng.sample(range(nl), rng.randint(1, nl - 1))
    elif r < 0.65: s["exceptModes"] = [rng.randrange(3)]
    elif r < 0.75 and nag > 1: s["exceptAgencies"] = [rng.randrange(nag)]
    return s


def send_parallel(srv, urls, timeout):
    """several GETs at the same time (one client thread each); returns the responses in the order of `urls`"""
    if len(urls) == 1:
        return [srv.get(urls[0], timeout=timeout)]
    out = [None] * len(urls)

    def one(i):
        out[i] = srv.get(urls[i], timeout=timeout)
    ts = [threading.Thread(target=one, args=(i,)) for i in range(len(urls))]
    for t in ts: t.start()
    for t in ts: t.join()
    return out


_port_lock = threading.Lock()
_port_counter = [0]


def start_stub_reopenable(acc, egr):
    """router stub on a port OUTSIDE the ephemeral range: the `refuse` fault closes the listener and re-opens it on the same port
    later; a port from the ephemeral range could be handed to another process (a server started with free_port()) in between"""
    lo, hi = 20000, 30000
    try:
        a, b = [int(x) for x in open("/proc/sys/net/ipv4/ip_local_port_range").read().split()]
        if a <= hi and b >= lo: lo, hi = (1100, min(a, 20000) - 1) if a > 3000 else (b + 1, 65000)
    except Exception:
        pass
    for attempt in range(300):
        with _port_lock:
            _port_counter[0] += 1; n = _port_counter[0]
        port = lo + (os.getpid() * 131 + n * 7) % (hi - lo)
        try:
            return H.start_stub(acc, egr, port=port)
        except OSError:
            continue
    return H.start_stub(acc, egr)


class HarnessRetry(Exception):
    """a scratch resource (port) was lost to another process: run the case again"""


class Dedup:
    """rep.direct gets ONE entry per signature (the first example); every further occurrence is counted"""
    def __init__(self, rep, stats):
        self.rep, self.stats, self.seen = rep, stats, {}

    def add(self, sig, desc, replay_text):
        self.stats["sig " + sig] += 1
        if sig in self.seen:
            return
        self.seen[sig] = desc
        self.replays = getattr(self, "replays", {})
        self.replays[sig] = replay_text
        self.rep.direct.append((sig, desc, replay_text))

    def finish(self):
        """evidence: every signature with its count and first example; one replay file per signature (core.Report.finish writes
        only the replay of the first unlisted signature)"""
        rep = self.rep
        rep.cov["signatures"] = {sig: dict(count=self.stats["sig " + sig], example=desc[:600]) for sig, desc in self.seen.items()}
        os.makedirs(core.REPLAYS, exist_ok=True)
        for sig, text in getattr(self, "replays", {}).items():
            path = os.path.join(core.REPLAYS, "%s-%s-seed%d.txt" % (rep.prop, re.sub(r"[^A-Za-z0-9]+", "_", sig)[:90], rep.seed))
            with open(path, "w") as f:
                f.write("# property %s violated: %s\n# signature: %s\n# replay: ./check.py %s --replay %s\n" % (rep.prop, self.seen[sig].replace("\n", " ")[:1000], sig, rep.prop, path))
                f.write(text)


# ============================================================================================== C20

C20_N = {"quick": 240, "thorough": 2400}
C20_FAULTS = ["refuse", "drop", "truncate", "http500", "http503late", "empty", "nonjson", "nodurations", "nulls", "fewer"]
C20_EMPTY_CLASS = {"refuse", "drop", "truncate", "http500", "http503late", "nodurations"}       # the lookup yields "no stop"
C20_EXCEPTION_CLASS = {"empty", "nonjson", "nulls"}                              # the lookup throws -> HTTP 400 PARAM_ERROR_UNKNOWN
C20_WHERE = ["both", "origin", "destination"]
C20_STREAMS = [("dense", 3), ("sparse", 2), ("parallel", 2), ("xfer", 1), ("overlap", 1), ("tmpl", 1)]
C20_RULE = ("N scripted fault sequences against the real ASan server wired to the walking-router stub: per sequence a generated dataset, 6 requests "
            "(2 route, route+alternatives, summary, 2 accessibility), a BASELINE server that never sees a fault, then a second server driven through "
            "8-14 steps, each step = 1 request (1 server thread) or 1-3 concurrent requests (4 server threads) under a stub state: healthy, or one of "
            "refuse / drop / truncate / http500 / http503late (error status, body streamed late without Content-Length on a kept-alive connection) / empty / nonjson / nodurations / nulls / fewer at origin / destination / both (persistent for the step; "
            "`drop` also limited to 1 = masked by the client's retry, and 2 = exactly one failed lookup); faulted request: one well-formed documented "
            "response, process alive; healthy request: answer = baseline answer; non-trivial = healthy success answer right after a faulted step; "
            "distinct = distinct (dataset, step, answer)")


def c20_plan(seed, k):
    rng = random.Random(seed * 1000003 + k)
    stream = HC._pick(rng, C20_STREAMS)
    d = gen.gen_dataset(rng, stream)
    d["acc"] = sorted(d["acc"]); d["egr"] = sorted(d["egr"])
    threads = 1 if k % 2 == 0 else 4
    reqs = []
    for j in range(6):
        kind = ("route", "route", "route", "summary", "accessibility", "accessibility")[j]
        fwd = None
        if j == 4: fwd = True
        if j == 5: fwd = False
        if d.get("profile", "").startswith("tmpl") or d.get("profile") == "closer": fwd = None
        q = gen.gen_query(rng, d, forward=fwd, alt=(j == 2), limits=(rng.random() < 0.5))
        reqs.append((kind, HC.c16_sanitise_query(q)))
    steps = []
    prev_fault = False
    n = rng.randint(8, 14)
    for j in range(n):
        nreq = 1 if threads == 1 else rng.choice([1, 2, 3])
        idx = [rng.randrange(len(reqs)) for _ in range(nreq)]
        if rng.random() < (0.3 if prev_fault else 0.65):
            # systematic part: sequence k, step j walks through the 27 (fault, where) pairs; random part on top
            if rng.random() < 0.5:
                x = (k * 5 + j) % 27; kind, where = C20_FAULTS[x % 9], C20_WHERE[x // 9]
            else:
                kind, where = rng.choice(C20_FAULTS), rng.choice(C20_WHERE)
            count = None
            if kind == "drop" and nreq == 1: count = rng.choice([None, 1, 2, 2])
            if kind == "fewer": kind = rng.choice(["fewer", "fewer:0", "fewer:1", "fewer:2"])
            # "a table without durations" in every shape: key absent, null, empty table, one empty row (seeded change C20-r5: a const
            # json document does not grow on [0], the read of the missing row is out of bounds)
            if kind == "nodurations": kind = rng.choice(["nodurations", "nodurations:null", "nodurations:empty", "nodurations:emptyrow", "nodurations:emptydur"])
            steps.append(dict(fault=kind, where=where, count=count, reqs=idx)); prev_fault = True
        else:
            steps.append(dict(fault="healthy", where="both", count=None, reqs=idx)); prev_fault = False
    if steps[-1]["fault"] != "healthy":
        steps.append(dict(fault="healthy", where="both", count=None, reqs=[rng.randrange(len(reqs))]))
    return dict(did="C20-%d-%d" % (seed, k), d=d, reqs=reqs, steps=steps, threads=threads, stream=stream)


def c20_replay_text(case, upto=None):
    steps = case["steps"] if upto is None else case["steps"][:upto + 1]
    head = "# C20 replay: server threads, dataset block (its request lines are the request pool), then the steps\nthreads %d\n" % case["threads"]
    body = HC.block_text(case["did"], case["d"], case["reqs"])
    return head + body + "".join("step %s %s %s %s\n" % (s["fault"], s["where"], "-" if s["count"] is None else s["count"], ",".join(map(str, s["reqs"]))) for s in steps)


def c20_parse_replay(text):
    cases, cur, threads, block = [], None, 1, []
    for line in text.splitlines(True):
        if line.startswith("#") or not line.strip(): continue
        ws = line.split()
        if ws[0] == "threads":
            threads = int(ws[1]); block = []
        elif ws[0] == "step":
            cur["steps"].append(dict(fault=ws[1], where=ws[2], count=None if ws[3] == "-" else int(ws[3]), reqs=[int(x) for x in ws[4].split(",")]))
        else:
            block.append(line)
            if ws[0] == "end":
                did, d, reqs, _ = gen.parse_protocol("".join(block))
                d["acc"] = sorted(d["acc"]); d["egr"] = sorted(d["egr"])
                rq = [(k, HC.c16_sanitise_query(q)) for k, q in (gen.parse_query(r) for r in reqs) if k in ("route", "summary", "accessibility")]
                cur = dict(did=re.sub(r"[^A-Za-z0-9_.-]", "_", did), d=d, reqs=rq, steps=[], threads=threads, stream="replay"); cases.append(cur)
    return cases


def c20_serve(case, server_exe, cachegen_exe, timeout=20.0):
    for attempt in range(4):
        out = _c20_serve_once(case, server_exe, cachegen_exe, timeout)
        if not out.get("retry"):
            break
    return out


def _c20_serve_once(case, server_exe, cachegen_exe, timeout):
    """baseline server, then the fault sequence on a second server (same stub, same cache directory)"""
    did, d, reqs = case["did"], case["d"], case["reqs"]
    out = dict(startup=None, baseline=[], steps=[], rc=None, san="", died=False, base_san="", t=0.0)
    t0 = time.time()
    cdir = os.path.join(H.workdir("c20"), did)
    stub = srv = None
    urls = [H.route_query(q, kind) for kind, q in reqs]
    try:
        H.make_cache(d, cdir, did=did, cachegen=cachegen_exe)
        stub = start_stub_reopenable(d["acc"], d["egr"])
        # ---- baseline: a server that never sees a fault
        srv = H.start_server(cdir, threads=case["threads"], cache_all=bool(d.get("cacheall")), osrm_port=stub.port, exe=server_exe, tag=did + "-base")
        if srv is None or not srv.alive() or getattr(srv, "ready_s", None) is None:
            out["startup"] = "baseline server did not come up: " + ((srv.sanitizer_output() or srv.output()[-600:]) if srv else "no handle")
            return out
        for u in urls:
            st, hd, body, raw = srv.get(u, timeout=timeout)
            out["baseline"].append((st, hd, body))
        died = not srv.alive()
        rc, san = srv.stop(); srv = None
        if died or san:
            out["base_san"] = "baseline server %s: %s" % ("died (rc %s)" % rc if died else "sanitizer report", asan_summary(san))
        # ---- the fault sequence
        srv = H.start_server(cdir, threads=case["threads"], cache_all=bool(d.get("cacheall")), osrm_port=stub.port, exe=server_exe, tag=did)
        if srv is None or not srv.alive() or getattr(srv, "ready_s", None) is None:
            out["startup"] = "server did not come up: " + ((srv.sanitizer_output() or srv.output()[-600:]) if srv else "no handle")
            return out
        for s in case["steps"]:
            stub.clear_log()
            if s["fault"] != "healthy":
                stub.set_fault(s["fault"], where=s["where"], count=s["count"])
            resp = send_parallel(srv, [urls[i] for i in s["reqs"]], timeout)
            if s["fault"] != "healthy":
                for attempt in range(40):          # router recovers (re-opens the listener after `refuse`)
                    try:
                        stub.set_fault("healthy"); break
                    except OSError:
                        time.sleep(0.05)
                else:
                    out["retry"] = True; return out
            log = [dict(kind=l["kind"], fault=l["fault"], n=len(l["stops"])) for l in list(stub.log)]
            alive = srv.alive()
            if not alive:
                time.sleep(0.3)
            out["steps"].append(dict(resp=[(st, hd, body) for st, hd, body, raw in resp], log=log, alive=alive))
            if not alive:
                break
    except Exception as e:
        out["startup"] = "harness error: %r" % (e,)
    finally:
        if srv is not None:
            died = not srv.alive()
            if died:
                time.sleep(0.5)
            rc, san = srv.stop()
            out["rc"], out["san"], out["died"] = rc, san, died
            if died and not san:
                out["san"] = srv.output()[-1500:]
        if stub is not None:
            stub.stop()
        shutil.rmtree(cdir, ignore_errors=True)
        out["t"] = time.time() - t0
    return out


def c20_step_faulted(step, log):
    """was a lookup of this step really hit by the fault?  (a fault restricted to the destination does not touch a departure-time
    accessibility request; a request that fails on its parameters makes no lookup at all)"""
    if step["fault"] == "healthy":
        return False
    if any(l["fault"] != "healthy" for l in log):
        return True
    # a refused connection never reaches the stub's log
    return step["fault"].split(":")[0] == "refuse" and step["where"] != "destination"


def run_c20(tier, seed, replay=None, theorems=None, module=None):
    ths = theorems or []
    rep = core.Report("C20", tier, seed, level="proof" if ths else "exploration")
    rep.rule = C20_RULE
    rep.assumptions = [
        "sockets, time-outs and the HTTP client are observed, not modelled; the two behaviours outside the listed faults (reply with MORE entries than requested; "
        "router that accepts and never answers) are not generated (DESIGN 7a O3, O4)",
        "the stub really shuts a dropped / truncated connection down (a half-open connection would hang the client, which has no time-out: stub artefact)",
        "the Simple-Web-Server client retries a connection that was closed before any reply byte ONCE: a lookup fails on `drop` only with two consecutive drops",
        "`refuse` cannot tell lookups apart: where=destination closes the listener while the access lookup of the same request is being answered; where=origin = both",
        "a request of a faulted step that no faulted lookup touched (per the stub's request log) is held to the healthy oracle (answer = baseline)",
    ]
    stats = collections.Counter()
    try:
        model = core.lean_phase(rep, module if ths else None, ths, thorough=(tier == "thorough"))
        # the outcome class of every router fault comes from the Lean model of the client (Model/Osrm.lean: lookup o faultReply)
        global C20_EMPTY_CLASS, C20_EXCEPTION_CLASS
        try:
            import subprocess
            out = subprocess.run([model, "--c20-classes"], capture_output=True, text=True, timeout=60).stdout.split("\n")
            cls = {l.split()[0]: l.split()[1:] for l in out if l.strip()}
            missing = [f for f in C20_FAULTS if f not in cls]
            C20_EMPTY_CLASS = {f for f, c in cls.items() if c == ["stops", "0"]}
            C20_EXCEPTION_CLASS = {f for f, c in cls.items() if c == ["throws"]}
            rep.obligation("model:router-fault-classes", not missing and cls.get("healthy") == ["stops", "2"], "classes from the model: %s" % cls)
            rep.cov["router_fault_classes_from_model"] = {f: " ".join(c) for f, c in cls.items()}
        except Exception as e:
            rep.obligation("model:router-fault-classes", False, repr(e))
        server = core.harness_phase(rep, "server", "asan")
        cachegen = core.harness_phase(rep, "cachegen", "plain")
        try:
            codes = HC.documented_codes()
            rep.obligation("docs:error-code-enums", True, "route %d, accessibility %d, data_error %d codes" % tuple(len(c) for c in codes))
        except Exception as e:
            rep.obligation("docs:error-code-enums", False, str(e)); codes = None
        if not server or not cachegen or not codes:
            return rep.finish()
        if replay:
            cases = c20_parse_replay(open(replay).read())
        else:
            cases = []
            for k in range(C20_N["thorough" if tier == "thorough" else "quick"]):
                c = c20_plan(seed, k)
                if HC.c16_wellformed(c["d"]):
                    stats["skipped-not-encodable"] += 1; continue
                cases.append(c)
        t0 = time.time()
        with ThreadPoolExecutor(max_workers=PAR) as ex:
            served = list(ex.map(lambda c: c20_serve(c, server, cachegen), cases))
        t_http = time.time() - t0
        dd = Dedup(rep, stats)
        for c, sv in zip(cases, served):
            did, reqs = c["did"], c["reqs"]
            stats["sequences %d thread(s)" % c["threads"]] += 1
            stats["stream " + c["stream"]] += 1
            if sv["startup"]:
                dd.add("server-startup", "real server did not start on a generated well-formed cache directory: " + sv["startup"][:300], c20_replay_text(c, 0)); continue
            if sv["base_san"]:
                dd.add("baseline-crash", sv["base_san"], c20_replay_text(c, 0))
            base_keys = [answer_key(reqs[i][0], st, body) for i, (st, hd, body) in enumerate(sv["baseline"])]
            for i, (st, hd, body) in enumerate(sv["baseline"]):
                bad, j = well_formed(reqs[i][0], st, hd, body, codes)
                stats["baseline %s %s" % (reqs[i][0], (j or {}).get("status") if st == 200 else "HTTP %s" % st)] += 1
                if bad:
                    dd.add("baseline-bad-response", "healthy router, fresh server: %s for %s" % (bad, H.route_query(reqs[i][1], reqs[i][0])), c20_replay_text(c, 0))
            last_fault, prev_faulted = None, False
            for si, (s, r) in enumerate(zip(c["steps"], sv["steps"])):
                fk = s["fault"].split(":")[0]
                faulted = c20_step_faulted(s, r["log"])
                if s["fault"] != "healthy":
                    stats["steps fault %s@%s%s" % (fk, s["where"], "" if s["count"] is None else " x%d" % s["count"])] += 1
                    stats["steps faulted, effective" if faulted else "steps faulted, no lookup touched"] += 1
                else:
                    stats["steps healthy"] += 1
                if replay:
                    print("step %d  router %s@%s count=%s  lookups seen by the stub: %s" % (si, s["fault"], s["where"], s["count"], [(l["kind"], l["fault"]) for l in r["log"]]))
                for i, (st, hd, body) in zip(s["reqs"], r["resp"]):
                    kind = reqs[i][0]
                    url = H.route_query(reqs[i][1], kind)
                    rep.evaluations += 1
                    key = answer_key(kind, st, body)
                    if replay:
                        print("   GET %s\n      -> %s\n      baseline %s" % (url, key[:300], base_keys[i][:300]))
                    if faulted:
                        bad, j = well_formed(kind, st, hd, body, codes)
                        stats["faulted %s -> %s" % (fk, brief(st, hd, body))] += 1
                        if st is None:
                            if not r["alive"]:
                                dd.add("router-fault-kills-server:" + fk, "router fault %s@%s during GET %s: the server process died: %s" % (s["fault"], s["where"], url, asan_summary(sv["san"])), c20_replay_text(c, si))
                            else:
                                dd.add("router-fault-no-response:" + fk, "router fault %s@%s: GET %s got %s, process alive" % (s["fault"], s["where"], url, brief(st, hd, body)), c20_replay_text(c, si))
                        elif bad:
                            dd.add("router-fault-bad-response:" + fk, "router fault %s@%s: GET %s answered with %s" % (s["fault"], s["where"], url, bad), c20_replay_text(c, si))
                        else:
                            # correspondence with the outcome table of the router client (DESIGN C20 U): only the unambiguous case
                            if len(s["reqs"]) == 1 and s["count"] is None and s["where"] == "both" and sv["baseline"][i][0] == 200:
                                if fk in C20_EMPTY_CLASS:
                                    if kind == "summary":       # the summary endpoint renders "no route" as success with 0 routes
                                        okm = st == 200 and j.get("status") == "success" and (j.get("result") or {}).get("nbRoutes") == 0
                                        want = "200 success with nbRoutes 0"
                                    else:
                                        okm = st == 200 and j.get("status") == "no_routing_found" and str(j.get("reason", "")).startswith("NO_ACCESS_AT")
                                        want = "200 no_routing_found NO_ACCESS_AT_*"
                                elif fk in C20_EXCEPTION_CLASS:
                                    okm = st == 400 and j.get("errorCode") == "PARAM_ERROR_UNKNOWN"; want = "400 PARAM_ERROR_UNKNOWN"
                                else:
                                    okm, want = True, ""
                                if not okm:
                                    stats["router-outcome-model mismatch"] += 1
                                    rep.corr.append(("router-outcome-model(C20)", "router fault %s at both lookups: the outcome table says %s, the server answered %s (GET %s)" % (s["fault"], want, brief(st, hd, body), url), c20_replay_text(c, si)))
                            if s["fault"] == "drop" and s["count"] == 1:
                                stats["single drop masked by the retry (answer = baseline)" if key == base_keys[i] else "single drop NOT masked"] += 1
                    else:
                        stats["healthy -> %s" % brief(st, hd, body)] += 1
                        after = last_fault or "none"
                        if st is None and not r["alive"]:
                            dd.add("router-fault-kills-server:" + after, "healthy exchange after fault %s: GET %s, the server process died: %s" % (after, url, asan_summary(sv["san"])), c20_replay_text(c, si))
                        elif key != base_keys[i]:
                            dd.add("answer-differs-after-recovery:" + after, "healthy exchange (last fault before: %s): GET %s answered %s; a server that never saw a fault answers %s" % (
                                after, url, key[:250], base_keys[i][:250]), c20_replay_text(c, si))
                        else:
                            if sv["baseline"][i][2] != body:
                                stats["healthy answer byte-different from baseline but canonically equal"] += 1
                            j = parse_body(body) or {}
                            if prev_faulted and j.get("status") == "success" and (kind != "summary" or (j.get("result") or {}).get("nbRoutes")):
                                rep.nontrivial.add(hash((did, si, i, key)))
                                if len(rep.samples) < 3:
                                    rep.samples.append(dict(sequence=did, step=si, after_fault=after, request=url, answer=key[:300]))
                if not r["alive"]:
                    if not any(st is None for st, hd, body in r["resp"]):
                        dd.add("router-fault-kills-server:" + (fk if s["fault"] != "healthy" else (last_fault or "none")), "the server process died right after step %d (router %s@%s): %s" % (si, s["fault"], s["where"], asan_summary(sv["san"])), c20_replay_text(c, si))
                    break
                if s["fault"] != "healthy":
                    last_fault = fk
                prev_faulted = faulted
            if len(sv["steps"]) == len(c["steps"]) and not sv["died"] and sv["san"]:
                dd.add("router-fault-sanitizer-report", "sanitizer output of a server that went through router faults (process survived): " + asan_summary(sv["san"]), c20_replay_text(c))
        dd.finish()
        rep.cov["input_distribution"] = dict(stats)
        rep.cov["streams"] = dict(C20_STREAMS)
        rep.cov["timing"] = dict(http_s=round(t_http, 1), servers_in_parallel=PAR, mean_sequence_s=round(sum(s["t"] for s in served) / max(1, len(served)), 2))
        rep.obligation("correspondence:router-outcome-model(C20)", not rep.corr, "%d disagreement(s)" % len(rep.corr))
        return rep.finish()
    finally:
        H.cleanup()


# ============================================================================================== C15

C15_N = {"quick": 120, "thorough": 1200}
C15_STREAMS = [("dense", 3), ("sparse", 2), ("parallel", 1), ("xfer", 1), ("overlap", 1), ("tmpl", 1)]
C15_NAMES = ["all", "schedules", "scenarios,schedules", "schedules,scenarios"]
C15_KIND_FILES = {"agencies": "agencies.capnpbin", "services": "services.capnpbin", "nodes": "nodes.capnpbin", "lines": "lines.capnpbin",
                  "paths": "paths.capnpbin", "scenarios": "scenarios.capnpbin", "schedules": "lines"}
C15_RULE = ("N histories against the real ASan server behind the router stub, both cache kinds: dataset A, 2-4 refresh rounds; before each refresh the cache "
            "directory is rewritten (in place, or into a sub-directory passed as path=) with dataset B = previous one with trips shifted / removed / added / "
            "flags changed, scenarios changed when they are refreshed, for names=all sometimes an unrelated dataset or changed footpaths / distances, sometimes "
            "B = A; GET /updateCache?names=all | schedules | scenarios,schedules | schedules,scenarios; 4-10 requests per round from a pool of 10 (route, "
            "route+alternatives, summary, accessibility over 2-3 scenarios); every answer after a refresh is compared with the answer of a FRESH server "
            "started on the directory as it is then (direct) and with the in-process calculation on B and the Lean model (correspondence); special histories: "
            "start on an EMPTY directory then files appear, refresh onto an empty / partial directory then back; non-trivial = success answer after a refresh "
            "that differs from the answer to the same request before it; distinct = distinct (history, round, request, answer)")


def c15_mutate_trips(rng, d, counter):
    """B's timetable: same stops, lines, paths; trips shifted, removed, added, boarding flags changed"""
    trips = []
    for (p, sv, tid, arr, dep, cb, cu) in d["trips"]:
        r = rng.random()
        if r < 0.18 and len(d["trips"]) > 1:
            continue                                             # removed
        if r < 0.55:
            delta = rng.choice([-600, -300, -120, -60, 60, 120, 300, 600, 1800])
            if min(arr) + delta < 0: delta = abs(delta)
            arr = [t + delta for t in arr]; dep = [t + delta for t in dep]
        elif r < 0.65:
            cb = [1 - x if rng.random() < 0.3 else x for x in cb]; cu = [1 - x if rng.random() < 0.3 else x for x in cu]
        elif r < 0.72:
            sv = rng.randrange(d["nsv"])
        trips.append((p, sv, tid, list(arr), list(dep), list(cb), list(cu)))
    for _ in range(rng.choice([0, 0, 1, 1, 2, 3])):
        p, sv, tid, arr, dep, cb, cu = rng.choice(d["trips"])
        delta = rng.choice([-900, -420, -180, 180, 420, 900, 2400])
        if min(arr) + delta < 0: delta = abs(delta)
        counter[0] += 1
        trips.append((p, rng.randrange(d["nsv"]) if rng.random() < 0.3 else sv, 200 + counter[0], [t + delta for t in arr], [t + delta for t in dep], [1] * len(arr), [1] * len(arr)))
    if not trips:
        trips = [d["trips"][0]]
    if rng.random() < 0.3:
        rng.shuffle(trips)
    return dict(d, trips=trips)


def c15_mutate_scenarios(rng, d):
    sc = [dict(s) for s in d["scenarios"]]
    r = rng.random()
    if r < 0.6:
        for i in range(len(sc)):
            if rng.random() < 0.6:
                sc[i] = random_scenario(rng, d)
    elif r < 0.8 and len(sc) > 1:
        sc.pop()                                                 # a scenario disappears: requests naming it must now get MISSING_PARAM_SCENARIO
    else:
        sc.append(random_scenario(rng, d))
    return dict(d, scenarios=sc)


def c15_mutate_base(rng, d):
    """for names=all: footpaths and path distances change too (stops, lines, paths keep their identity)"""
    foot = [(a, b, t, x) if a == b or rng.random() < 0.5 else (a, b, rng.choice([30, 60, 120, 300, 1500]), rng.randint(0, 400)) for a, b, t, x in d["foot"]]
    if rng.random() < 0.5 and d["ns"] > 2:
        a, b = rng.sample(range(d["ns"]), 2)
        if not any(f[0] == a and f[1] == b for f in foot): foot.append((a, b, rng.choice([30, 60, 120]), rng.randint(0, 300)))
    paths = [(l, st, [rng.randint(1, 50) for _ in st[:-1]] if rng.random() < 0.5 else di) for l, st, di in d["paths"]]
    return dict(d, foot=foot, paths=paths)


def c15_plan(seed, k):
    rng = random.Random(seed * 1000003 + k)
    stream = HC._pick(rng, C15_STREAMS)
    for _ in range(20):
        d = dataset_with_scenarios(rng, stream)
        if not HC.c16_wellformed(d): break
    d["cacheall"] = k % 2
    special = {0: "empty-start", 4: "onto-empty", 8: "onto-partial", 12: "onto-partial"}.get(k % 16)
    pool = []
    nsc = len(d["scenarios"])
    for j in range(10):
        kind = ("route", "route", "route", "route", "summary", "summary", "accessibility", "accessibility", "route", "accessibility")[j]
        q = gen.gen_query(rng, d, alt=(j in (3, 5)), limits=(rng.random() < 0.3))
        q["scenario"] = j % min(3, nsc) if j < 9 else nsc - 1
        pool.append((kind, HC.c16_sanitise_query(q)))
    counter = [0]
    rounds = [dict(r=0, names=None, mode="start-empty" if special == "empty-start" else "start", delete=[], d=d, what="A",
                   queries=[rng.randrange(len(pool)) for _ in range(rng.randint(4, 8))])]
    cur = d
    nr = rng.randint(2, 4)
    for r in range(1, nr + 1):
        names = rng.choice(C15_NAMES)
        mode = rng.choice(["inplace", "inplace", "custom"])
        delete, what = [], []
        if special == "empty-start" and r == 1:
            names, mode, new, what = "all", "inplace", cur, ["files appear"]
        elif special in ("onto-empty", "onto-partial") and r == 1:
            names, new = "all", cur
            delete = ["everything"] if special == "onto-empty" else [rng.choice(["agencies", "nodes", "lines", "paths", "scenarios", "schedules", "services"])]
            what = ["delete " + delete[0]]
        elif special in ("onto-empty", "onto-partial") and r == 2:
            names, new, what = "all", cur, ["files are back"]
        else:
            x = rng.random()
            if x < 0.12:
                new, what = cur, ["unchanged"]
            elif names == "all" and x < 0.35:
                for _ in range(20):
                    new = dataset_with_scenarios(random.Random(seed * 1000003 + 700000 + k * 10 + r), rng.choice([s for s, w in C15_STREAMS]))
                    if not HC.c16_wellformed(new): break
                new["cacheall"] = d["cacheall"]; what = ["unrelated dataset"]
            else:
                new = c15_mutate_trips(rng, cur, counter); what = ["trips"]
                if "scenarios" in names or names == "all":
                    if rng.random() < 0.6: new = c15_mutate_scenarios(rng, new); what.append("scenarios")
                if names == "all" and rng.random() < 0.4:
                    new = c15_mutate_base(rng, new); what.append("footpaths/distances")
        prevq = rounds[-1]["queries"]
        qs = [rng.choice(prevq) for _ in range(2)] + [rng.randrange(len(pool)) for _ in range(rng.randint(2, 8))]
        rng.shuffle(qs)
        rounds.append(dict(r=r, names=names, mode=mode, delete=delete, d=new, what="+".join(what), queries=qs))
        cur = new
    return dict(did="C15-%d-%d" % (seed, k), pool=pool, rounds=rounds, threads=rng.choice([1, 2]), cacheall=d["cacheall"], stream=stream, special=special or "plain")


def c15_replay_text(h, upto=None):
    rounds = h["rounds"] if upto is None else h["rounds"][:upto + 1]
    out = ["# C15 replay: `server`, then per round a header line and the dataset on disk for that round (the request lines of round 0 are the pool)\n",
           "server threads=%d cacheall=%d\n" % (h["threads"], h["cacheall"])]
    for rd in rounds:
        out.append("round %d names=%s mode=%s delete=%s queries=%s\n" % (rd["r"], rd["names"] or "-", rd["mode"], ",".join(rd["delete"]) or "-", ",".join(map(str, rd["queries"]))))
        out.append(HC.block_text("%s.v%d" % (h["did"], rd["r"]), rd["d"], h["pool"] if rd["r"] == 0 else []))
    return "".join(out)


def c15_parse_replay(text):
    hs, h, rd, block = [], None, None, []
    for line in text.splitlines(True):
        if line.startswith("#") or not line.strip(): continue
        ws = line.split()
        if ws[0] == "server":
            kv = dict(x.split("=") for x in ws[1:])
            h = dict(did="C15-replay-%d" % len(hs), pool=[], rounds=[], threads=int(kv.get("threads", 1)), cacheall=int(kv.get("cacheall", 0)), stream="replay", special="replay"); hs.append(h)
        elif ws[0] == "round":
            kv = dict(x.split("=", 1) for x in ws[2:])
            rd = dict(r=int(ws[1]), names=None if kv["names"] == "-" else kv["names"], mode=kv["mode"], delete=[] if kv["delete"] == "-" else kv["delete"].split(","),
                      queries=[int(x) for x in kv["queries"].split(",") if x], what="replay", d=None)
            h["rounds"].append(rd); block = []
        else:
            block.append(line)
            if ws[0] == "end":
                did, d, reqs, _ = gen.parse_protocol("".join(block))
                d["acc"] = sorted(d["acc"]); d["egr"] = sorted(d["egr"]); d["cacheall"] = h["cacheall"]
                rd["d"] = d
                if rd["r"] == 0:
                    h["pool"] = [(k, HC.c16_sanitise_query(q)) for k, q in (gen.parse_query(r) for r in reqs) if k in ("route", "summary", "accessibility")]
    return hs


def c15_write_dir(d, path, delete, cachegen_exe, did):
    H.make_cache(d, path, did=did, cachegen=cachegen_exe)
    for kind in delete:
        if kind == "everything":
            shutil.rmtree(path); os.makedirs(path)
        else:
            p = os.path.join(path, C15_KIND_FILES[kind])
            if os.path.isdir(p): shutil.rmtree(p)
            elif os.path.exists(p): os.remove(p)


def c15_serve(h, server_exe, cachegen_exe, timeout=30.0):
    """one history: the long-lived server + one fresh server per refresh point"""
    out = dict(rounds=[], startup=None, rc=None, san="", died=False, t=0.0)
    t0 = time.time()
    base = os.path.join(H.workdir("c15"), h["did"])
    stub = srv = fresh = None
    urls = [H.route_query(q, kind) for kind, q in h["pool"]]
    try:
        d0 = h["rounds"][0]["d"]
        stub = H.start_stub(d0["acc"], d0["egr"])
        for rd in h["rounds"]:
            rec = dict(r=rd["r"], update=None, long=[], fresh=[], fresh_failed=None, died=None)
            out["rounds"].append(rec)
            d = rd["d"]
            if rd["r"] == 0:
                if rd["mode"] == "start-empty":
                    if os.path.isdir(base): shutil.rmtree(base)
                    os.makedirs(base)
                else:
                    c15_write_dir(d, base, rd["delete"], cachegen_exe, h["did"])
                srv = H.start_server(base, threads=h["threads"], cache_all=bool(h["cacheall"]), osrm_port=stub.port, exe=server_exe, tag=h["did"])
                if srv is None or not srv.alive() or getattr(srv, "ready_s", None) is None:
                    out["startup"] = "server did not come up: " + ((srv.sanitizer_output() or srv.output()[-600:]) if srv else "no handle")
                    return out
                for i in rd["queries"]:
                    st, hd, body, raw = srv.get(urls[i], timeout=timeout)
                    rec["long"].append((st, hd, body))
                    if not srv.alive(): break
                if not srv.alive():
                    rec["died"] = "before any refresh"; return out
                continue
            # ---- disk changes
            sub = "v%d" % rd["r"] if rd["mode"] == "custom" else None
            path = os.path.join(base, sub) if sub else base
            c15_write_dir(d, path, rd["delete"], cachegen_exe, h["did"])
            stub.set_tables(d["acc"], d["egr"])
            # ---- the reference: a fresh server on the files now on disk (started first: if IT cannot start, the directory is outside C15)
            fresh = H.start_server(path, threads=1, cache_all=bool(h["cacheall"]), osrm_port=stub.port, exe=server_exe, tag=h["did"] + "-fresh%d" % rd["r"])
            if fresh is None or not fresh.alive() or getattr(fresh, "ready_s", None) is None:
                rec["fresh_failed"] = asan_summary((fresh.sanitizer_output() or fresh.output()[-800:]) if fresh else "no handle")
                if fresh is not None: fresh.stop(); fresh = None
                return out
            # ---- refresh
            u = "/updateCache?names=%s%s" % (rd["names"], "&path=" + sub if sub else "")
            st, hd, body, raw = srv.get(u, timeout=timeout)
            rec["update"] = (u, st, hd, body)
            if st is None or not srv.alive():
                time.sleep(0.5)
                rec["died"] = "during " + u if not srv.alive() else None
                if rec["died"]: return out
            for i in rd["queries"]:
                st, hd, body, raw = srv.get(urls[i], timeout=timeout)
                rec["long"].append((st, hd, body))
                if not srv.alive():
                    time.sleep(0.5); rec["died"] = "during GET " + urls[i]; return out
            for i in rd["queries"]:
                st, hd, body, raw = fresh.get(urls[i], timeout=timeout)
                rec["fresh"].append((st, hd, body))
            fdied = not fresh.alive()
            frc, fsan = fresh.stop(); fresh = None
            if fdied or fsan:
                rec["fresh_san"] = "fresh server %s: %s" % ("died (rc %s)" % frc if fdied else "sanitizer report", asan_summary(fsan))
    except Exception as e:
        out["startup"] = "harness error: %r" % (e,)
    finally:
        if fresh is not None:
            fresh.stop()
        if srv is not None:
            died = not srv.alive()
            rc, san = srv.stop()
            out["rc"], out["san"], out["died"] = rc, san, died
            if died and not san:
                out["san"] = srv.output()[-1500:]
        if stub is not None:
            stub.stop()
        shutil.rmtree(base, ignore_errors=True)
        out["t"] = time.time() - t0
    return out


def run_c15(tier, seed, replay=None, theorems=None, module=None):
    ths = theorems or []
    rep = core.Report("C15", tier, seed, level="proof" if ths else "exploration")
    rep.rule = C15_RULE
    rep.assumptions = [
        "refreshes are performed while no other request is in flight (requests of a history are sent one after the other)",
        "only files of the kinds being refreshed change on disk (a schedules-only refresh changes the per-line schedule files only; scenarios change only when they are refreshed)",
        "a directory on which a FRESH server cannot start at all (start-up abort: property C17) is outside C15: the history ends there and is counted, not judged",
        "what freed memory happens to contain is not exhibited by any model: use of stale data is observed with ASan on the real binary",
        "the walking router is the scripted stub (table), as in C16",
    ]
    stats = collections.Counter()
    try:
        model = core.lean_phase(rep, module if ths else None, ths, thorough=(tier == "thorough"))
        impl = core.harness_phase(rep, "core", "asan")
        server = core.harness_phase(rep, "server", "asan")
        cachegen = core.harness_phase(rep, "cachegen", "plain")
        try:
            codes = HC.documented_codes()
            rep.obligation("docs:error-code-enums", True, "")
        except Exception as e:
            rep.obligation("docs:error-code-enums", False, str(e)); codes = None
        if not model or not impl or not server or not cachegen or not codes:
            return rep.finish()
        if replay and "#!refresh" in open(replay).read():
            text = open(replay).read()
            loader_corr.run_refresh_leg(rep, model, seed, tier, replay_text=text[text.index("#!refresh"):])
            return rep.finish()
        if not replay:
            loader_corr.run_refresh_leg(rep, model, seed, tier)
        if replay and re.search(r"^update ", open(replay).read(), re.M):
            hs = []              # replay of an in-process refresh history (check/refresh_inproc.py)
        elif replay:
            hs = c15_parse_replay(open(replay).read())
        else:
            hs = [c15_plan(seed, k) for k in range(C15_N["thorough" if tier == "thorough" else "quick"])]
        # abstract side: every round's requests on that round's dataset, in-process + Lean model
        flat = []
        for h in hs:
            for rd in h["rounds"]:
                if rd["delete"] or rd["mode"] == "start-empty": continue
                did = "%s.r%d" % (h["did"], rd["r"])
                rq = [h["pool"][i] for i in rd["queries"]]
                flat.append((did, HC.block_text(did, rd["d"], rq), [k for k, q in rq]))
        t0 = time.time()
        res = engine.run_cases(flat, impl, model)
        t_inproc = time.time() - t0
        t0 = time.time()
        with ThreadPoolExecutor(max_workers=PAR) as ex:
            served = list(ex.map(lambda h: c15_serve(h, server, cachegen), hs))
        t_http = time.time() - t0
        dd = Dedup(rep, stats)
        # in-process refresh histories: TransitData::update* of the harness vs the Lean refresh model (check/refresh_inproc.py)
        if not replay or re.search(r"^update ", open(replay).read(), re.M):
            from . import refresh_inproc as RI
            if replay:
                rtxt = open(replay).read()
                rcases = []
                for blk in re.findall(r"^dataset .*?^end$", rtxt, re.S | re.M):
                    did = blk.split()[1]
                    kinds = [l.split()[0] for l in blk.splitlines() if l.split() and l.split()[0] in ("route", "summary", "accessibility", "update")]
                    rcases.append((did, blk + "\n", kinds))
                rres = engine.run_cases(rcases, impl, model) if rcases else {}
                for did, blk, kinds in rcases:
                    r = rres[did]
                    for j, (ia, ma) in enumerate(zip(r["impl"], r["model"])):
                        print("%s[%d] %s impl=%s%s" % (did, j, kinds[j], str(ia)[:200], "" if ia == ma else "   MODEL=%s" % str(ma)[:200]))
                        if ia != ma:
                            rep.corr.append(("refresh-history(model)", "model and implementation disagree at position %d: impl=%s model=%s" % (j, str(ia)[:160], str(ma)[:160]), blk))
                    if r["impl_fail"]:
                        dd.add("inproc-crash-after-refresh", "in-process refresh history crashed / hung: " + r["impl_fail"][:300], blk)
                # fresh blocks of a replay are named <history>.f<k>: compare the phases after each update
                byid = {did: (blk, kinds) for did, blk, kinds in rcases}
                for did, (blk, kinds) in byid.items():
                    if ".f" in did or did not in rres or rres[did]["impl_fail"]: continue
                    ph, per = 0, {0: []}
                    for j, k in enumerate(kinds):
                        if k == "update": ph += 1; per[ph] = []
                        else: per[ph].append(rres[did]["impl"][j])
                    for k in range(1, ph + 1):
                        f = rres.get("%s.f%d" % (did, k))
                        if f and not f["impl_fail"] and per[k] != f["impl"]:
                            dd.add("inproc-stale-after-refresh", "after the refresh the in-process TransitData answers %s, a fresh one on the new trips %s" % (str(per[k])[:200], str(f["impl"])[:200]), blk + byid["%s.f%d" % (did, k)][0])
            else:
                nri = C15_N["thorough" if tier == "thorough" else "quick"] * 2
                rhs = [RI.plan(seed, k) for k in range(nri)]
                rcases = [(did, text, kinds) for h in rhs for (did, text, kinds, meta) in RI.blocks(h)]
                t0 = time.time()
                rres = engine.run_cases(rcases, impl, model)
                for h in rhs:
                    RI.evaluate(h, rres, rep, stats, dd.add)
                stats["inproc refresh histories"] = nri
                rep.cov["inproc_refresh_s"] = round(time.time() - t0, 1)
        for h, sv in zip(hs, served):
            stats["histories %s" % h["special"]] += 1
            stats["histories cache %s" % ("All" if h["cacheall"] else "One")] += 1
            if sv["startup"]:
                dd.add("server-startup", "real server did not start: " + sv["startup"][:300], c15_replay_text(h, 0)); continue
            last = {}           # pool index -> answer key of the most recent earlier answer
            for rd, rec in zip(h["rounds"], sv["rounds"]):
                r = rd["r"]
                rt = c15_replay_text(h, r)
                if r > 0:
                    stats["rounds names=%s" % rd["names"]] += 1
                    stats["rounds mode=%s" % rd["mode"]] += 1
                    stats["rounds change=%s" % rd["what"]] += 1
                if replay:
                    print("round %d  names=%s mode=%s delete=%s change=%s" % (r, rd["names"], rd["mode"], rd["delete"], rd["what"]))
                if rec["fresh_failed"]:
                    stats["fresh server does not start on the new directory (C17 domain, history ends)"] += 1
                    rep.notes.append("%s round %d (%s): a FRESH server does not start on this directory (%s): outside C15, see C17" % (h["did"], r, rd["what"], rec["fresh_failed"][:160]))
                    break
                if rec.get("fresh_san"):
                    rep.notes.append("%s round %d: %s" % (h["did"], r, rec["fresh_san"][:200]))
                    stats["fresh server crashed / sanitizer report while answering (not judged here)"] += 1
                if rec["died"]:
                    dd.add("crash-after-refresh", "history %s round %d (%s; names=%s, cache %s): the server process died %s: %s" % (
                        h["did"], r, rd["what"], rd["names"], "All" if h["cacheall"] else "One", rec["died"], asan_summary(sv["san"])), rt)
                    break
                if rec["update"] is not None:
                    u, st, hd, body = rec["update"]
                    j = parse_body(body) if st == 200 else None
                    if replay: print("   GET %s -> %s %r" % (u, st, body[:160]))
                    if st is None:
                        # the refresh did not complete: C15 speaks of COMPLETED refreshes, so the answers that follow are not judged;
                        # an unanswered /updateCache on a server that stays up is reported under its own signature
                        stats["refresh unanswered (history ends)"] += 1
                        dd.add("refresh-unanswered", "history %s round %d (%s): GET %s got no HTTP response (%s), the process stays up with a half-refreshed data set; e.g. the next request, GET %s, is answered %s "
                               "while a server freshly started on that directory answers %s" % (h["did"], r, rd["what"], u, hd.get("_error"), H.route_query(h["pool"][rd["queries"][0]][1], h["pool"][rd["queries"][0]][0]),
                                                                                              brief(*rec["long"][0]) if rec["long"] else "-", brief(*rec["fresh"][0]) if rec["fresh"] else "-"), rt)
                        break
                    if j and j.get("status") == "error" and "error while updating" in str(j.get("error", "")):
                        # the server says the refresh FAILED: not a completed refresh, C15 makes no claim about what follows (C17 judges it)
                        stats["refresh answered with an error object (not a completed refresh; history ends)"] += 1
                        rep.notes.append("%s round %d (%s): GET %s answered %r: outside C15" % (h["did"], r, rd["what"], u, body[:160]))
                        break
                    if not (j and j.get("status") == "success"):
                        dd.add("refresh-not-completed", "history %s round %d: GET %s answered %s %r" % (h["did"], r, u, st, body[:160]), rt)
                        break
                ir = res.get("%s.r%d" % (h["did"], r))
                for n, i in enumerate(rd["queries"]):
                    kind, q = h["pool"][i]
                    url = H.route_query(q, kind)
                    if n >= len(rec["long"]): break
                    st, hd, body = rec["long"][n]
                    key = answer_key(kind, st, body)
                    rep.evaluations += 1
                    bad, j = well_formed(kind, st, hd, body, codes, allow_data_error=True)
                    stats["answers %s" % ("after refresh" if r else "before any refresh")] += 1
                    stats["answer %s" % brief(st, hd, body).replace("HTTP ", "")] += 1
                    if bad:
                        dd.add("bad-response-after-refresh" if r else "bad-response", "history %s round %d: GET %s: %s" % (h["did"], r, url, bad), rt)
                    if r > 0 and n < len(rec["fresh"]):
                        fst, fhd, fbody = rec["fresh"][n]
                        fkey = answer_key(kind, fst, fbody)
                        if replay:
                            print("   GET %s\n      refreshed: %s\n      fresh    : %s\n      before   : %s" % (url, key[:300], fkey[:300], (last.get(i) or "-")[:300]))
                        if key != fkey:
                            stats["stale-after-refresh"] += 1
                            dd.add("stale-after-refresh", "history %s round %d (%s; names=%s mode=%s, cache %s): GET %s answered %s; a server freshly started on the files now on disk answers %s%s" % (
                                h["did"], r, rd["what"], rd["names"], rd["mode"], "All" if h["cacheall"] else "One", url, key[:220], fkey[:220],
                                "; the answer before the refresh was the same as now" if last.get(i) == key else ""), rt)
                        else:
                            if fbody != body: stats["refreshed and fresh bodies byte-different but canonically equal"] += 1
                            if j and j.get("status") == "success" and i in last and last[i] != key and (kind != "summary" or (j.get("result") or {}).get("nbRoutes")):
                                rep.nontrivial.add(hash((h["did"], r, i, key)))
                                stats["success answers after a refresh that differ from the answer before it"] += 1
                                if len(rep.samples) < 3:
                                    rep.samples.append(dict(history=h["did"], round=r, refresh=rd["names"], change=rd["what"], request=url, before=last[i][:250], after=key[:250]))
                            elif i in last and last[i] != key:
                                stats["other answers that changed with the refresh"] += 1
                        if rd["delete"]:
                            want = None if rd["delete"] == ["everything"] else "MISSING_DATA_" + rd["delete"][0].upper()
                            okd = j is not None and j.get("status") == "data_error" and (want is None or j.get("errorCode") == want)
                            stats["refresh onto %s -> %s" % (rd["delete"][0], brief(st, hd, body))] += 1
                            if not okd and key == fkey:
                                dd.add("missing-kind-not-named", "history %s round %d: after deleting %s and refreshing all, GET %s answered %s (fresh server: the same); expected data_error%s" % (
                                    h["did"], r, rd["delete"][0], url, brief(st, hd, body), " " + want if want else ""), rt)
                    elif replay:
                        print("   GET %s\n      answer   : %s" % (url, key[:300]))
                    if ir is not None and not ir["impl_fail"] and not (r > 0 and n < len(rec["fresh"]) and key != answer_key(kind, *rec["fresh"][n][::2])):
                        it, mt = ir["impl"][n], ir["model"][n]
                        ht = key if st == 200 else "%s query_error %s" % (kind, (j or {}).get("errorCode"))
                        if not HC._same_answer(ht, it):
                            stats["http-vs-inmemory-mismatch"] += 1
                            rep.corr.append(("inprocess(C15)", "history %s round %d: server and fresh server agree, the in-process calculation on the round's dataset differs: http=%s in-memory=%s" % (h["did"], r, ht[:200], (it or "none")[:200]), rt))
                        elif not HC._same_answer(ht, mt) and not ir["model_fail"]:
                            stats["http-vs-model-mismatch"] += 1
                            rep.corr.append(("projection(C15)", "history %s round %d: server and in-process calculation agree, the Lean model differs: impl=%s model=%s" % (h["did"], r, ht[:200], (mt or "none")[:200]), rt))
                    last[i] = key
                if rd["mode"] == "start-empty":
                    for st, hd, body in rec["long"]:
                        j = parse_body(body) or {}
                        stats["server on an empty directory -> %s" % brief(st, hd, body)] += 1
            else:
                if sv["died"] or (sv["san"] and sv["rc"] not in (-15, 0)):
                    dd.add("crash-after-refresh", "history %s: the server process was found dead at the end (rc %s): %s" % (h["did"], sv["rc"], asan_summary(sv["san"])), c15_replay_text(h))
                elif sv["san"]:
                    dd.add("sanitizer-after-refresh", "history %s: sanitizer output of the long-lived server: %s" % (h["did"], asan_summary(sv["san"])), c15_replay_text(h))
        dd.finish()
        rep.cov["input_distribution"] = dict(stats)
        rep.cov["streams"] = dict(C15_STREAMS)
        rep.cov["timing"] = dict(inproc_and_model_s=round(t_inproc, 1), http_s=round(t_http, 1), servers_in_parallel=PAR, mean_history_s=round(sum(s["t"] for s in served) / max(1, len(served)), 2))
        rep.obligation("correspondence:inprocess-and-model(C15)", not rep.corr, "%d disagreement(s)" % len(rep.corr))
        return rep.finish()
    finally:
        H.cleanup()


# ============================================================================================== C17

import queue as _queue

C17_BREAK_CLASS = {
    "trip_path": "trip-unknown-path", "trip_service": "trip-unknown-service", "trip_uuid": "malformed-trip-uuid", "trip_path_uuid": "malformed-trip-path-uuid",
    "trip_empty": "trip-without-stop-times", "trip_long": "trip-more-times-than-path-stops", "trip_long1": "trip-one-more-time-than-path-stops", "trip_single": "trip-with-a-single-stop-time", "trip_short_dep": "trip-short-departure-array",
    "trip_short_flags": "trip-short-flag-arrays", "line_agency": "line-unknown-agency", "line_mode": "line-unknown-mode", "line_file_missing": "deleted-line-file",
    "foot_unknown": "stop-file-unknown-stop", "foot_uuid": "malformed-footpath-uuid", "foot_short_time": "footpath-short-time-array",
    "foot_short_dist": "footpath-short-distance-array", "node_file_missing": "deleted-node-file", "path_node": "path-unknown-stop", "path_line": "path-unknown-line",
    "path_data": "path-data-not-json", "scenario_ids": "scenario-unknown-ids", "scenario_only_unknown": "scenario-only-unknown-ids", "scenario_uuid": "malformed-scenario-service-uuid",
    # record-level quirks added with the Lean loader model (Model/Load.lean)
    "dup_trip": "duplicate-trip-uuid", "trip_foreign_path": "trip-path-of-another-line", "trip_backwards": "trip-arrival-before-previous-departure",
    "foot_negative": "footpath-negative-travel-time", "dup_node": "duplicate-stop-uuid", "dup_line": "duplicate-line-uuid", "dup_path": "duplicate-path-uuid",
    "dup_scenario": "duplicate-scenario-uuid", "scenario_bad_late": "malformed-scenario-line-uuid", "scenario_sim_bad": "malformed-scenario-simulation-uuid",
    "path_seg_wrong": "path-segment-distance-not-a-number", "path_seg_null": "path-segment-distance-null", "path_extra_segs": "path-more-segments-than-stops",
}
# the kinds of the second block go through the real binary on ONE dataset per quick run (all datasets in the thorough tier): the record-level
# loader correspondence (check/loader_corr.py) runs every kind on 30 datasets in-process on every run
C17_RECORD_LEVEL_KINDS = ["dup_trip", "trip_foreign_path", "trip_backwards", "foot_negative", "dup_node", "dup_line", "dup_path", "dup_scenario",
                          "scenario_bad_late", "scenario_sim_bad", "path_seg_wrong", "path_seg_null", "path_extra_segs"]
# quick / thorough volumes: (datasets with the full byte-level enumeration, datasets with a reduced one, datasets for the --break kinds)
C17_VOLUME = {"quick": dict(full=1, reduced=1, breaks=4, trunc=48, flips=150, pairs=40, zero=5, update_share=6),
              "thorough": dict(full=1, reduced=3, breaks=12, trunc=None, flips=None, pairs=None, zero=12, update_share=4)}      # ~50 k tests, ~25 min
C17_RULE = ("fault enumeration on generated valid cache directories, each faulted directory given to the real ASan server binary (Euclidean geofilter) at START-UP and, for "
            "every cross-file inconsistency, every deletion and a share of the byte-level faults, through GET /updateCache?names=all&path=<faulted dir> on a healthy running server: "
            "deletion of each file and of pairs of files, truncation at 48 offsets per file (thorough: every offset of files <= 4 KiB), single-bit flips (150 per file kind; "
            "thorough: every bit of files <= 1 KiB), zeroed ranges, every `cachegen --break` kind at record 0, record 1 and all records; outcome OK = process up, 4 requests "
            "(2 route, accessibility, summary) each answered 200 success / no_routing_found / data_error with a documented code (or 400 EMPTY_SCENARIO / MISSING_PARAM_SCENARIO "
            "when the scenario could not be loaded), still up afterwards, no sanitizer report; non-trivial = a faulted directory the loader noticed (error line or changed "
            "answers) and survived; distinct = distinct (dataset, fault)")


def c17_file_kind(rel):
    if rel.startswith("nodes/"): return "node-file"
    if rel.startswith("lines/"): return "line-file"
    return rel.split(".")[0] + "-file"


def c17_dataset(seed, k):
    rng = random.Random(seed * 1000003 + k)
    for _ in range(50):
        d = dataset_with_scenarios(rng, rng.choice(["dense", "dense", "sparse", "xfer"]))
        if not HC.c16_wellformed(d) and len(d["lines"]) >= 2 and len(d["trips"]) >= 3 and len(d["foot"]) > d["ns"] and d["nsv"] >= 1:
            break
    d["cacheall"] = k % 2
    t0 = min(min(t[4]) for t in d["trips"]); t1 = max(max(t[3]) for t in d["trips"])
    nsc = len(d["scenarios"])
    reqs = [("route", dict(scenario=0, time_of_trip=max(0, t0 - 300), time_type=0, min_waiting_time=0, max_first_waiting_time=0)),
            ("route", dict(scenario=nsc - 1, time_of_trip=t1 + 300, time_type=1, min_waiting_time=60)),
            ("accessibility", dict(scenario=0, time_of_trip=max(0, t0 - 60), time_type=0, min_waiting_time=60, max_first_waiting_time=0)),
            ("summary", dict(scenario=min(1, nsc - 1), time_of_trip=max(0, t0 - 300), time_type=0, alternatives="1"))]
    return dict(did="C17-%d-%d" % (seed, k), d=d, reqs=reqs)


def c17_list_files(vdir):
    out = []
    for dp, dn, fn in os.walk(vdir):
        dn[:] = sorted(x for x in dn if not (dp == vdir and x == "f"))
        for f in sorted(fn):
            if f.endswith(".capnpbin"):
                out.append(os.path.relpath(os.path.join(dp, f), vdir))
    return out


def c17_spread(n, k):
    """k offsets spread over 0..n-1 including 0, 1, 2 and n-1 (all of them when n <= k)"""
    if k is None or n <= k:
        return list(range(n))
    s = set([0, 1, 2, n - 1]) if n > 3 else set(range(n))
    i = 0
    while len(s) < k:
        s.add(int(round((n - 1) * i / float(k)))); i += 1
        if i > 4 * k: break
    return sorted(s)


def c17_faults(ds, vdir, vol, rng, byte_level, breaks):
    """the fault list of one dataset: [dict(cls, spec)]"""
    files = c17_list_files(vdir)
    size = {f: os.path.getsize(os.path.join(vdir, f)) for f in files}
    out = []
    if byte_level:
        reduced = byte_level == "reduced"
        for f in files:
            out.append(dict(cls="deleted-" + c17_file_kind(f), spec=dict(op="delete", files=[f])))
        pairs = [(a, b) for i, a in enumerate(files) for b in files[i + 1:]]
        np_ = vol["pairs"] if not reduced else (10 if vol["pairs"] else 60)
        if np_ is not None and len(pairs) > np_: pairs = rng.sample(pairs, np_)
        for a, b in pairs:
            out.append(dict(cls="deleted-two-files", spec=dict(op="delete", files=[a, b])))
        for f in files:
            k = vol["trunc"] if not reduced else (12 if vol["trunc"] else 64)
            if vol["trunc"] is None and not reduced and size[f] > 4096: k = 256
            for off in c17_spread(size[f], k):
                out.append(dict(cls="truncated-" + c17_file_kind(f), spec=dict(op="truncate", file=f, offset=off)))
        by_kind = collections.defaultdict(list)
        for f in files: by_kind[c17_file_kind(f)].append(f)
        for kind, fs in sorted(by_kind.items()):
            if vol["flips"] is None and not reduced:
                for f in fs:
                    bits = range(size[f] * 8) if size[f] <= 1024 else rng.sample(range(size[f] * 8), 4000)
                    for b in bits: out.append(dict(cls="bitflip-" + kind, spec=dict(op="flip", file=f, bit=b)))
            else:
                n = vol["flips"] if not reduced else (40 if vol["flips"] else 400)
                for _ in range(n):
                    f = rng.choice(fs)
                    out.append(dict(cls="bitflip-" + kind, spec=dict(op="flip", file=f, bit=rng.randrange(size[f] * 8))))
        for f in files:
            n = size[f]
            rs = [(0, n), (0, min(8, n)), (0, n // 2), (n // 2, n - n // 2), (max(0, n - 8), min(8, n))]
            while len(rs) < (vol["zero"] if not reduced else 3) + 2:
                a = rng.randrange(n); rs.append((a, rng.randint(1, max(1, min(64, n - a)))))
            for a, l in rs[:(vol["zero"] if not reduced else 3) + 2]:
                if l > 0: out.append(dict(cls="zeroed-" + c17_file_kind(f), spec=dict(op="zero", file=f, start=a, len=l)))
    if breaks:
        for kind in breaks:
            for tgt in ("", ":1", ":all"):
                out.append(dict(cls=C17_BREAK_CLASS.get(kind, kind), spec=dict(op="break", kind=kind + tgt)))
        # not cross-file inconsistencies but what single flipped bits were SEEN to produce; kept as deterministic faults so that the
        # signature does not depend on the seed: (a) a trip that arrives before it left the previous stop (time runs backwards);
        # (b) a per-stop file whose footpath distance / travel-time list is EMPTY although it lists footpaths
        nt = len(ds["d"]["trips"])
        for ti in sorted(set([0, 1 % nt, nt // 2, nt - 1])) + ["all"]:
            out.append(dict(cls="trip-arrival-before-previous-departure", spec=dict(op="mutate", what="negative-hop", trip=ti)))
        # (c) a footpath with a NEGATIVE travel time (the last footpath of up to two stops that have a footpath to another stop)
        withfoot = sorted(set(a for a, b, t, x in ds["d"]["foot"] if a != b))
        for stop in withfoot[:1] + withfoot[-1:] if len(withfoot) > 1 else withfoot:
            out.append(dict(cls="footpath-negative-travel-time", spec=dict(op="recode", file="nodes/node_%s.capnpbin" % H.uuid(1, stop), set="transferableNodesTravelTimes", value=-300)))
        for stop in sorted(set([0, ds["d"]["ns"] - 1])):
            out.append(dict(cls="footpath-distance-array-empty", spec=dict(op="recode", file="nodes/node_%s.capnpbin" % H.uuid(1, stop), drop="transferableNodesDistances")))
            out.append(dict(cls="footpath-time-array-empty", spec=dict(op="recode", file="nodes/node_%s.capnpbin" % H.uuid(1, stop), drop="transferableNodesTravelTimes")))
    return out


def c17_make_faulted(vdir, spec, out, cachegen_exe, d=None):
    if os.path.isdir(out): shutil.rmtree(out)
    if spec["op"] == "mutate":
        trips = list(d["trips"])
        for i in (range(len(trips)) if spec["trip"] == "all" else [spec["trip"]]):
            p, sv, tid, arr, dep, cb, cu = trips[i]
            arr = list(arr); dep = list(dep)
            arr[1] = dep[0] - 452                  # the effect of the flipped bit that was first observed (3060 -> 2548 after a departure at 3000)
            if len(dep) > 1 and dep[1] < arr[1]: dep[1] = arr[1]
            trips[i] = (p, sv, tid, arr, dep, cb, cu)
        H.make_cache(dict(d, trips=trips), out, cachegen=cachegen_exe)
        return
    if spec["op"] == "recode":
        # decode one file with the capnp tool and the repository's schema, drop one list, encode it again
        import subprocess
        shutil.copytree(vdir, out, ignore=lambda dpath, names: ["f"] if os.path.abspath(dpath) == os.path.abspath(vdir) else [])
        schema = os.path.join(HC.REPO, "include/capnp/node.capnp")
        p = os.path.join(out, spec["file"])
        txt = subprocess.run(["capnp", "decode", "--packed", schema, "Node"], stdin=open(p, "rb"), capture_output=True, text=True, timeout=30).stdout
        if "drop" in spec:
            txt2 = re.sub(r"\b%s = \[[^\]]*\],?" % re.escape(spec["drop"]), "", txt)
            txt2 = re.sub(r",\s*\)", " )", txt2)
        else:
            # the LAST element of the list gets the given value (the cache generator writes the self loop first when the dataset does)
            def repl(m):
                vals = [v.strip() for v in m.group(2).split(",") if v.strip()]
                vals[-1] = str(spec["value"])
                return m.group(1) + ", ".join(vals) + "]"
            txt2 = re.sub(r"(\b%s = \[)([^\]]*)\]" % re.escape(spec["set"]), repl, txt)
        r = subprocess.run(["capnp", "encode", "--packed", schema, "Node"], input=txt2.encode(), capture_output=True, timeout=30)
        if r.returncode != 0 or txt2 == txt: raise RuntimeError("capnp recode failed: %s" % r.stderr[-200:])
        with open(p, "wb") as f: f.write(r.stdout)
        return
    if spec["op"] == "break":
        os.makedirs(out)
        r = __import__("subprocess").run([cachegen_exe, os.path.join(vdir, "dataset.txt"), out, "--break", spec["kind"]], capture_output=True, text=True, timeout=60)
        if r.returncode != 0: raise RuntimeError("cachegen --break %s failed: %s" % (spec["kind"], r.stderr[-300:]))
        return
    shutil.copytree(vdir, out, ignore=lambda dpath, names: ["f"] if os.path.abspath(dpath) == os.path.abspath(vdir) else [])
    if spec["op"] == "delete":
        for f in spec["files"]: os.remove(os.path.join(out, f))
        return
    p = os.path.join(out, spec["file"])
    data = bytearray(open(p, "rb").read())
    if spec["op"] == "truncate": data = data[:spec["offset"]]
    elif spec["op"] == "flip": data[spec["bit"] // 8] ^= 1 << (spec["bit"] % 8)
    elif spec["op"] == "zero": data[spec["start"]:spec["start"] + spec["len"]] = bytes(len(data[spec["start"]:spec["start"] + spec["len"]]))
    with open(p, "wb") as f: f.write(bytes(data))


def c17_spec_text(spec):
    if spec["op"] == "delete": return "delete " + " + ".join(spec["files"])
    if spec["op"] == "truncate": return "truncate %s at offset %d" % (spec["file"], spec["offset"])
    if spec["op"] == "flip": return "flip bit %d (byte %d, mask 0x%02x) of %s" % (spec["bit"], spec["bit"] // 8, 1 << (spec["bit"] % 8), spec["file"])
    if spec["op"] == "zero": return "zero %d bytes at offset %d of %s" % (spec["len"], spec["start"], spec["file"])
    if spec["op"] == "mutate": return "dataset with trip %s arriving at its 2nd stop 452 s BEFORE it left the 1st (%s)" % ("#%s" % spec["trip"] if spec["trip"] != "all" else "EVERY", spec["what"])
    if spec["op"] == "recode" and "set" in spec: return "re-encode %s with the last entry of %s set to %s (capnp decode | edit | capnp encode)" % (spec["file"], spec["set"], spec["value"])
    if spec["op"] == "recode": return "re-encode %s without its %s list (capnp decode | edit | capnp encode)" % (spec["file"], spec["drop"])
    return "cachegen --break " + spec["kind"]


def crash_kind(out, rc):
    """(how, detail) of a dead server from its output and exit code: how in abort | asan | ubsan | signal | exit"""
    m = re.search(r"terminate called after throwing an instance of '([^']+)'", out or "")
    if m:
        t = m.group(1)
        m2 = re.fullmatch(r"boost::wrapexcept<(.+)>", t) or re.fullmatch(r"boost::exception_detail::clone_impl<.*?<?([\w:]+)>? ?>+", t)
        return "abort", (m2.group(1).strip() if m2 else t)
    m = re.search(r"AddressSanitizer: ([A-Za-z][A-Za-z-]+)", out or "")
    if m:
        k = m.group(1)
        return "asan", ("out-of-memory" if k in ("allocator", "requested", "out") or "out of memory" in out or "allocation-size-too-big" in out else k)
    m = re.search(r"runtime error: ([^\n]+)", out or "")
    if m:
        txt = re.sub(r"'[^']*'", "", m.group(1)); txt = re.sub(r"0x[0-9a-f]+|-?\d+", "", txt)
        return "ubsan", "-".join(txt.replace(",", " ").split()[:4])
    if "terminate called" in (out or ""): return "abort", "unknown"
    if "std::bad_alloc" in (out or ""): return "abort", "std::bad_alloc"
    if rc is not None and rc < 0: return "signal", str(-rc)
    return "exit", "rc%s" % rc


def loader_noticed(log):
    """did a loader complain?  (every start-up logs the three optional caches a generated directory never has)"""
    return any("[error]" in l and not re.search(r"dataSources|persons|odTrips|households|places", l) for l in (log or "").splitlines())


def loader_stage(log):
    """which loader was running last (from the server's own log lines)"""
    ms = re.findall(r"Fetching ([A-Za-z]+(?: and [A-Za-z]+)?) from cache", log or "")
    if not ms: return "unknown"
    return {"trips and connections": "schedules", "dataSources": "data_sources", "odTrips": "od_trips"}.get(ms[-1], ms[-1])


def cpu_seconds(pid):
    try:
        f = open("/proc/%d/stat" % pid).read().rsplit(")", 1)[1].split()
        return (int(f[11]) + int(f[12])) / float(os.sysconf("SC_CLK_TCK"))
    except Exception:
        return None


RSS_LIMIT = 3 << 30          # a spinning server of the known kind allocates ~0.4 GB/s: it is killed at 3 GiB


class RssWatch:
    """kills (SIGKILL, by PID) a server whose resident set passes RSS_LIMIT while a request is outstanding"""
    def __init__(self, srv):
        self.srv, self.tripped, self._stop = srv, None, threading.Event()
        self.t = threading.Thread(target=self._run, daemon=True)

    def _run(self):
        page = os.sysconf("SC_PAGE_SIZE")
        while not self._stop.wait(0.2):
            try:
                rss = int(open("/proc/%d/statm" % self.srv.pid).read().split()[1]) * page
            except Exception:
                return
            if rss > RSS_LIMIT:
                self.tripped = rss
                try: os.kill(self.srv.pid, 9)
                except OSError: pass
                return

    def __enter__(self):
        self.t.start(); return self

    def __exit__(self, *a):
        self._stop.set(); self.t.join(2)


def c17_probe(srv, urls, codes, timeout=10.0):
    """4 requests against a server that is up.  -> (outcome text, None | (signature tail, description), answer keys)"""
    keys = []
    first = None
    for kind, url in urls:
        with RssWatch(srv) as watch:
            st, hd, body, raw = srv.get(url, timeout=timeout)
        if watch.tripped:
            return "request-hang", ("request-hang", "", "GET %s is not answered and the process grew to %.1f GiB resident memory within %.0f s (killed by the harness)" % (url, watch.tripped / float(1 << 30), hd.get("_elapsed", 0))), keys
        if st is None:
            t0 = time.time()
            while srv.alive() and time.time() - t0 < 3.0: time.sleep(0.05)
            if not srv.alive():
                time.sleep(0.3)
                how, det = crash_kind(srv.output(), srv.proc.poll())
                return "died-serving:%s:%s" % (how, det), ("dies-serving-%s" % how, det, "GET %s killed the server: %s" % (url, asan_summary(srv.output()))), keys
            if hd.get("_error") == "timeout":
                # spinning (a hang) or starved by the machine?  a spinning server is stopped at once (the known case allocates ~0.4 GB/s)
                c0 = cpu_seconds(srv.pid); time.sleep(1.0); c1 = cpu_seconds(srv.pid)
                if c0 is not None and c1 is not None and c1 - c0 < 0.4:
                    st2, hd2, body2, raw2 = srv.get(url, timeout=45.0)
                    if st2 is not None:
                        st, hd, body = st2, hd2, body2
                if st is None:
                    return "request-hang", ("request-hang", "", "GET %s is not answered within %d s and the process keeps computing (%.1f s CPU in the following second)" % (url, timeout, (c1 or 0) - (c0 or 0))), keys
            else:
                return "no-response", ("no-response", hd.get("_error"), "GET %s got no HTTP response (%s), process alive" % (url, hd.get("_error"))), keys
        bad, j = well_formed(kind, st, hd, body, codes, allow_data_error=True)
        if not bad and st == 400 and j.get("errorCode") not in ("EMPTY_SCENARIO", "MISSING_PARAM_SCENARIO"):
            bad = "HTTP 400 %s for a valid request" % j.get("errorCode")
        if bad:
            if "invalid UTF-8 byte" in srv.output():
                return "valid-request-400", ("non-utf8-text-answered-as-query-error", None, "GET %s: %s; server log: %s" % (url, bad, " ".join(re.findall(r"invalid UTF-8 byte[^\n\"]*", srv.output())[-1:]))), keys
            return "bad-answer", ("bad-answer", (j or {}).get("errorCode") or "malformed", "GET %s: %s" % (url, bad)), keys
        keys.append(answer_key(kind, st, body))
        if first is None:
            first = "%s" % (j.get("status") if st == 200 else "query_error") + ((":" + j["errorCode"]) if j.get("errorCode") else "")
    if not srv.alive():
        how, det = crash_kind(srv.output(), srv.proc.poll())
        return "died-serving:%s:%s" % (how, det), ("dies-serving-%s" % how, det, "the server died after answering: %s" % asan_summary(srv.output())), keys
    return "ok:" + first, None, keys


LIBRARY_INTERNAL = re.compile(r"^(/usr/include/(capnp|kj)/[^\s:]+):\d+:\d+: runtime error:", re.M)


def c17_startup_test(fdir, urls, codes, server_exe, cache_all, tag, plain_exe=None):
    """-> dict(outcome, fail=None|(sig head, detail, description), noticed, keys).  plain_exe: callable returning the path of the
    server built WITHOUT sanitizers; used only to decide whether a UBSan report located inside the Cap'n Proto headers (the decoder
    on hostile bytes) is more than a sanitizer-only observation"""
    srv = H.start_server(fdir, euclid=True, exe=server_exe, cache_all=cache_all, ready_timeout=25.0, tag=tag)
    try:
        if srv is None:
            return dict(outcome="harness", fail=None, noticed=False, keys=[])
        if getattr(srv, "ready_s", None) is None:
            if srv.alive() or srv._rc in (-15, -9):
                # not ready within the time-out (start_server has given up and stopped it): once more, with patience, before it is called a hang
                srv.stop()
                srv = H.start_server(fdir, euclid=True, exe=server_exe, cache_all=cache_all, ready_timeout=90.0, tag=tag + "b")
                if srv is None or (getattr(srv, "ready_s", None) is None and (srv.alive() or srv._rc in (-15, -9))):
                    return dict(outcome="startup-hang", fail=("startup-hang", "", "the server neither answers nor exits within 90 s of start-up: " + (srv.output()[-300:] if srv else "")), noticed=True, keys=[])
            if getattr(srv, "ready_s", None) is None:
                time.sleep(0.2)
                out = srv.output()
                how, det = crash_kind(out, srv.proc.poll())
                m = LIBRARY_INTERNAL.search(out)
                if how == "ubsan" and m and plain_exe is not None:
                    # undefined behaviour reported INSIDE the Cap'n Proto headers while they decode hostile bytes: does the binary without sanitizers survive?
                    pexe = plain_exe()
                    if pexe:
                        psrv = H.start_server(fdir, euclid=True, exe=pexe, cache_all=cache_all, ready_timeout=25.0, tag=tag + "p")
                        try:
                            if psrv is not None and getattr(psrv, "ready_s", None) is not None:
                                outcome, fail, keys = c17_probe(psrv, urls, codes)
                                if fail is None:
                                    return dict(outcome="decoder-ubsan-only(" + outcome + ")", fail=None, noticed=True, keys=keys,
                                                note="UBSan report inside the Cap'n Proto headers (%s); the server built without sanitizers starts and answers (%s)" % (asan_summary(out), outcome))
                        finally:
                            if psrv is not None: psrv.stop()
                return dict(outcome="startup-%s:%s" % (how, det), fail=("startup-" + how, det, "start-up ends with exit code %s while loading the %s: %s" % (srv.proc.poll(), loader_stage(out), asan_summary(out)), loader_stage(out)), noticed=True, keys=[])
        outcome, fail, keys = c17_probe(srv, urls, codes)
        noticed = loader_noticed(srv.output())
        died = not srv.alive()
        rc, san = srv.stop(); srv = None
        if fail is None and san and not died:
            how, det = crash_kind(san, rc)
            fail = ("serving-" + how, det, "sanitizer report of a server that kept answering: " + asan_summary(san)); outcome = "sanitizer-report"
        return dict(outcome=outcome, fail=fail, noticed=noticed, keys=keys)
    finally:
        if srv is not None:
            srv.stop()


class C17Healthy:
    """a healthy running server on the valid directory, reused for the /updateCache tests of one worker"""
    def __init__(self, vdir, server_exe, cache_all, tag):
        self.vdir, self.exe, self.cache_all, self.tag = vdir, server_exe, cache_all, tag
        self.srv, self.used = None, 0

    def get(self, fresh=False):
        if fresh or self.srv is None or not self.srv.alive():
            self.stop()
            self.srv = H.start_server(self.vdir, euclid=True, exe=self.exe, cache_all=self.cache_all, tag=self.tag)
            self.used = 0
            if self.srv is None or getattr(self.srv, "ready_s", None) is None:
                raise RuntimeError("healthy server does not start on the valid directory: " + (self.srv.output()[-300:] if self.srv else ""))
        return self.srv

    def stop(self):
        if self.srv is not None:
            try: return self.srv.stop()
            finally: self.srv = None
        return None, ""


def c17_update_test(holder, sub, urls, codes):
    def once(fresh):
        srv = holder.get(fresh=fresh)
        mark = len(srv.output())
        u = "/updateCache?names=all&path=" + sub
        st, hd, body, raw = srv.get(u, timeout=40.0)
        holder.used += 1
        if st is None:
            t0 = time.time()
            while srv.alive() and time.time() - t0 < 3.0: time.sleep(0.05)
            if not srv.alive():
                time.sleep(0.3)
                how, det = crash_kind(srv.output()[mark:], srv.proc.poll())
                return dict(outcome="update-%s:%s" % (how, det), fail=("update-" + how, det, "GET %s kills the healthy running server (exit code %s): %s" % (u, srv.proc.poll(), asan_summary(srv.output())), loader_stage(srv.output()[mark:])), noticed=True, keys=[])
            stage = loader_stage(srv.output()[mark:])
            tail = " ".join(srv.output()[mark:].split())[-160:]
            holder.stop()            # its data set is half-refreshed now: do not reuse it
            return dict(outcome="update-unanswered:" + stage, fail=("update-unanswered", "@" + stage, "GET %s gets no HTTP response (%s): an exception escapes the handler while the %s are loaded; the process stays up with a half-refreshed data set; log ends: %s" % (u, hd.get("_error"), stage, tail)), noticed=True, keys=[])
        j = parse_body(body) if st == 200 else None
        cl = hd.get("content-length")
        if not (j and j.get("status") in ("success", "error")) or cl is None or not cl.isdigit() or int(cl) != len(body):
            return dict(outcome="update-bad-answer", fail=("update-bad-answer", "", "GET %s answered %s %r" % (u, st, body[:120])), noticed=True, keys=[])
        outcome, fail, keys = c17_probe(srv, urls, codes)
        if j.get("status") == "error":
            outcome = "refresh-reports-error, then " + outcome      # the refresh ran to completion and says so; what counts is what the server does next
        noticed = loader_noticed(srv.output()[mark:])
        if fail is not None:
            fail = (fail[0] if fail[1] is None else "update-then-" + fail[0], fail[1], "after GET %s: %s" % (u, fail[2]))
            holder.stop()
        return dict(outcome=outcome, fail=fail, noticed=noticed, keys=keys)
    used_before = holder.used if holder.srv is not None and holder.srv.alive() else 0
    res = once(False)
    if res["fail"] is not None and used_before > 0 and not res["outcome"].startswith("update-unanswered"):
        # the server had gone through other faulted refreshes before: the alarm must reproduce on a fresh healthy server
        res2 = once(True)
        if res2["fail"] is None:
            res["fail"] = ("update-sequence-" + res["fail"][0], res["fail"][1], res["fail"][2] + " -- only after %d earlier faulted refreshes, NOT reproduced on a fresh healthy server" % used_before) + tuple(res["fail"][3:])
        else:
            res = res2
            res["fail"] = (res["fail"][0], res["fail"][1], res["fail"][2] + " (reproduced on a fresh healthy server)") + tuple(res["fail"][3:])
    return res


def c17_replay_text(ds, fault, mode):
    return ("# C17 replay: the fault, then the dataset whose cache directory is faulted\nfault mode=%s class=%s spec=%s\n" % (mode, fault["cls"], json.dumps(fault["spec"], sort_keys=True))
            + HC.block_text(ds["did"], ds["d"], ds["reqs"]))


def c17_signature(fail, cls):
    """<phase>-<how>:<fault class>:<exception / sanitizer kind>.  The byte-level injections (truncated-, bitflip-, zeroed-<file kind>) share
    the fault class corrupt-bytes@<loader stage that failed> (which file and which bytes make a loader throw varies with the seed, the
    place where the exception escapes does not); an unanswered /updateCache is ONE defect class per loader stage (the handler lets the
    loader's exception escape), whatever made the loader throw; text that is not UTF-8 is one defect class whatever file it came from.
    The exact file / offset / bit is in the description and in the replay."""
    head, det, desc = fail[:3]
    if det is None:
        return head
    if det.startswith("@"):
        return "%s:%s" % (head, det[1:])
    if re.match(r"(truncated|bitflip|zeroed)-", cls):
        cls = "corrupt-bytes" + ("@" + fail[3] if len(fail) > 3 else "")
    return "%s:%s%s" % (head, cls, (":" + det) if det else "")


def run_c17(tier, seed, replay=None, theorems=None, module=None):
    ths = theorems or []
    rep = core.Report("C17", tier, seed, level="proof" if ths else "exploration")
    rep.rule = C17_RULE
    rep.assumptions = [
        "behaviour of the Cap'n Proto decoder on hostile bytes is observed under ASan+UBSan, not modelled",
        "a 400 EMPTY_SCENARIO / MISSING_PARAM_SCENARIO answer to a request naming a scenario the faulted files no longer define counts as 'serves what it could load'",
        "after a failed load the error code names the first EMPTY table, not the file that failed (DESIGN 7a O7): any documented data_error code is accepted",
        "an /updateCache test reuses one healthy server for several faulted directories; an alarm seen there is re-run on a fresh healthy server before it is reported",
    ]
    stats = collections.Counter()
    outcomes = {"startup": collections.defaultdict(collections.Counter), "update": collections.defaultdict(collections.Counter)}
    tq = "thorough" if tier == "thorough" else "quick"
    vol = C17_VOLUME[tq]
    try:
        model_exe = core.lean_phase(rep, module if ths else None, ths, thorough=(tier == "thorough"))
        if replay and open(replay).read().lstrip().split("\n")[0].startswith("#!loader") or (replay and "\n#!loader" in open(replay).read()):
            text = open(replay).read()
            loader_corr.run_leg(rep, model_exe, seed, tier, "broken", replay_text=text[text.index("#!loader"):])
            return rep.finish()
        if not replay:
            loader_corr.run_leg(rep, model_exe, seed, tier, "broken")
        server = core.harness_phase(rep, "server", "asan")
        cachegen = core.harness_phase(rep, "cachegen", "plain")
        try:
            codes = HC.documented_codes()
            rep.obligation("docs:error-code-enums", True, "")
        except Exception as e:
            rep.obligation("docs:error-code-enums", False, str(e)); codes = None
        if not server or not cachegen or not codes:
            return rep.finish()
        wd = H.workdir("c17")
        plain_lock = threading.Lock()
        plain_box = {}

        def plain_exe():
            with plain_lock:
                if "exe" not in plain_box:
                    plain_box["exe"] = core.harness_phase(rep, "server", "plain")
                return plain_box["exe"]
        breaks = H.cachegen_breaks(cachegen)
        unknown = [b for b in breaks if b not in C17_BREAK_CLASS]
        rep.obligation("cachegen:break-kinds-classified", not unknown, "unclassified --break kinds: %s" % unknown)
        plans = []           # (dataset, fault, do_update)
        if replay:
            text = open(replay).read()
            m = re.search(r"^fault mode=(\S+) class=(\S+) spec=(.+)$", text, re.M)
            did, d, reqs, _ = gen.parse_protocol("".join(l for l in text.splitlines(True) if not l.startswith(("#", "fault "))))
            d["acc"] = sorted(d["acc"]); d["egr"] = sorted(d["egr"])
            ds = dict(did=re.sub(r"[^A-Za-z0-9_.-]", "_", did), d=d, reqs=[(k, q) for k, q in (gen.parse_query(r) for r in reqs)])
            dsets = [(ds, None, None)]
            replay_fault = dict(cls=m.group(2), spec=json.loads(m.group(3)))
        else:
            dsets = []
            k = 0
            for i in range(vol["full"]): dsets.append((c17_dataset(seed, k), "full", breaks)); k += 1
            for i in range(vol["reduced"]): dsets.append((c17_dataset(seed, k), "reduced", None)); k += 1
            fewer = breaks if tier == "thorough" else [b for b in breaks if b not in C17_RECORD_LEVEL_KINDS]
            for i in range(vol["breaks"]): dsets.append((c17_dataset(seed, k), None, fewer)); k += 1
        t0 = time.time()
        dd = Dedup(rep, stats)
        for ds, byte_level, brk in dsets:
            vdir = os.path.join(wd, ds["did"])
            H.make_cache(ds["d"], vdir, did=ds["did"], cachegen=cachegen)
            os.makedirs(os.path.join(vdir, "f"))
            urls = [(kind, H.route_query(q, kind)) for kind, q in ds["reqs"]]
            cache_all = bool(ds["d"].get("cacheall"))
            # the valid directory itself must be served
            base = c17_startup_test(vdir, urls, codes, server, cache_all, ds["did"] + "-valid")
            if base["fail"] is not None or not base["outcome"].startswith("ok:"):
                dd.add("valid-directory-not-served", "the unfaulted generated directory: %s %s" % (base["outcome"], base["fail"][2] if base["fail"] else ""), HC.block_text(ds["did"], ds["d"], ds["reqs"]))
                continue
            stats["valid directory -> " + base["outcome"]] += 1
            if replay:
                faults = [replay_fault]
            else:
                faults = c17_faults(ds, vdir, vol, random.Random(seed * 1000003 + 300000 + dsets.index((ds, byte_level, brk))), byte_level, brk)
            frng = random.Random(seed * 1000003 + 400000)
            for n, f in enumerate(faults):
                f["id"] = n
                f["update"] = bool(replay) or f["spec"]["op"] in ("break", "delete", "mutate", "recode") or frng.randrange(vol["update_share"]) == 0
            q = _queue.Queue()
            for f in faults: q.put(f)
            results = {}

            def worker(w):
                holder = C17Healthy(vdir, server, cache_all, "%s-h%d" % (ds["did"], w))
                try:
                    while True:
                        try: f = q.get_nowait()
                        except _queue.Empty: return
                        sub = "f/%d" % f["id"]
                        fdir = os.path.join(vdir, sub)
                        r = dict(startup=None, update=None, error=None)
                        try:
                            c17_make_faulted(vdir, f["spec"], fdir, cachegen, d=ds["d"])
                            r["startup"] = c17_startup_test(fdir, urls, codes, server, cache_all, "%s-%d" % (ds["did"], f["id"]), plain_exe=plain_exe)
                            if f["update"]:
                                r["update"] = c17_update_test(holder, sub, urls, codes)
                        except Exception as e:
                            r["error"] = "%s: %s" % (type(e).__name__, e)
                        finally:
                            shutil.rmtree(fdir, ignore_errors=True)
                        results[f["id"]] = r
                finally:
                    holder.stop()
            ts = [threading.Thread(target=worker, args=(w,)) for w in range(PAR)]
            for t in ts: t.start()
            for t in ts: t.join()
            for f in faults:
                r = results.get(f["id"]) or dict(startup=None, update=None, error="not run")
                what = c17_spec_text(f["spec"])
                if r["error"]:
                    stats["harness errors"] += 1
                    rep.notes.append("%s %s: harness error %s" % (ds["did"], what, r["error"][:200]))
                for mode in ("startup", "update"):
                    t = r[mode]
                    if t is None: continue
                    rep.evaluations += 1
                    stats["tests %s" % mode] += 1
                    stats["tests %s" % f["cls"].split("-")[0]] += 1
                    outcomes[mode][f["cls"]][t["outcome"]] += 1
                    if replay:
                        print("%s  [%s] %s\n   -> %s%s\n   answers: %s" % (mode, f["cls"], what, t["outcome"], ("\n   " + t["fail"][2]) if t["fail"] else "", [k[:100] for k in t["keys"]]))
                    if t.get("note"):
                        stats["sanitizer-only reports inside the Cap'n Proto headers (plain build survives; not counted)"] += 1
                        rep.notes.append("%s, dataset %s, %s: %s" % (what, ds["did"], mode, t["note"]))
                    if t["fail"] is not None:
                        sig = c17_signature(t["fail"], f["cls"])
                        dd.add(sig, "%s, dataset %s (seed %d), %s: %s" % (what, ds["did"], seed, "at start-up" if mode == "startup" else "through /updateCache?names=all on a healthy running server", t["fail"][2]),
                               c17_replay_text(ds, f, mode))
                    elif t["noticed"] or t["keys"] != base["keys"]:
                        rep.nontrivial.add(hash((ds["did"], json.dumps(f["spec"], sort_keys=True), mode)))
                        if len(rep.samples) < 4 and t["keys"] != base["keys"]:
                            rep.samples.append(dict(dataset=ds["did"], fault=what, mode=mode, outcome=t["outcome"], answers=[k[:120] for k in t["keys"]], healthy_answers=[k[:120] for k in base["keys"]]))
            shutil.rmtree(vdir, ignore_errors=True)
        rep.cov["fault_outcomes"] = {mode: {cls: dict(c) for cls, c in sorted(o.items())} for mode, o in outcomes.items()}
        dd.finish()
        rep.cov["input_distribution"] = {k: v for k, v in stats.items() if not k.startswith("sig ")}
        rep.cov["timing"] = dict(run_s=round(time.time() - t0, 1), servers_in_parallel=PAR)
        return rep.finish()
    finally:
        H.cleanup()
