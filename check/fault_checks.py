"""Histories and faults against the REAL server binary: C15 (refresh = fresh start), C17 (faulted cache files never crash),
C20 (walking-router faults degrade to error answers).  The entry points run_c15 / run_c17 / run_c20 are re-exported by
check/http_checks.py (same signature as run_c16 / run_c18).

Everything is built from /repo's current tree through harness/build.py (ASan+UBSan server, plain cachegen), lives under
/verif/work/http-<pid>/ and is removed by httpkit.cleanup(); processes are killed by PID in try/finally blocks.
Every random choice derives from random.Random(seed * 1000003 + k)."""
import collections, json, os, random, re, shutil, sys, threading, time
from concurrent.futures import ThreadPoolExecutor
from . import core, engine, gen, canon, httpkit as H, oracles as O
from . import http_checks as HC

PAR = HC.PAR


# ============================================================================================== shared helpers

def parse_body(body):
    try:
        j = json.loads(body.decode("utf-8"))
        return j if isinstance(j, dict) else None
    except Exception:
        return None


def brief(st, hd, body):
    """one-line description of a response"""
    if st is None:
        return "no response (%s)" % hd.get("_error")
    j = parse_body(body)
    if j is None:
        return "HTTP %s, body not JSON: %r" % (st, body[:80])
    return "HTTP %s %s%s" % (st, j.get("status"), (" " + str(j.get("errorCode") or j.get("reason"))) if (j.get("errorCode") or j.get("reason")) else "")


def well_formed(kind, st, hd, body, codes, allow_data_error=False):
    """the transport / classification clauses shared by C15, C17, C20: exactly one HTTP response, 200 or 400, Content-Length = body
    bytes, JSON object; 200 => status success | no_routing_found (| data_error with a documented code); 400 => query_error with a
    documented code.  Returns (None | text of what is wrong, parsed json | None)"""
    qcodes, qcodes_acc, dcodes = codes
    if st is None:
        return "no HTTP response (%s)" % hd.get("_error"), None
    if st not in (200, 400):
        return "status line %r" % hd.get("_status_line"), None
    cl = hd.get("content-length")
    if cl is None or not cl.isdigit() or int(cl) != len(body):
        return "Content-Length %s but %d body bytes" % (cl, len(body)), None
    j = parse_body(body)
    if j is None:
        return "body is not a JSON object: %r" % body[:100], None
    s = j.get("status")
    if st == 400:
        if s != "query_error": return "HTTP 400 with status %r" % s, j
        if j.get("errorCode") not in (qcodes_acc if kind == "accessibility" else qcodes): return "undocumented errorCode %r" % j.get("errorCode"), j
        return None, j
    if s in ("success", "no_routing_found"):
        return None, j
    if s == "data_error" and allow_data_error:
        if j.get("errorCode") not in dcodes: return "undocumented data_error code %r" % j.get("errorCode"), j
        return None, j
    return "HTTP 200 with status %r" % s, j


def answer_key(kind, st, body):
    """what two answers to the same request are compared on: canonical text (canon.canon after normalise_coordinates) for
    success / no_routing_found, (status, errorCode) for error objects, the raw bytes when nothing parses"""
    if st is None:
        return "no-response"
    j = parse_body(body)
    if j is None:
        return "HTTP %s raw %r" % (st, body[:200])
    s = j.get("status")
    if st == 200 and s in ("success", "no_routing_found"):
        txt, _, err = HC.http_canon(kind, body)
        return txt if txt is not None else "HTTP 200 uncanonical (%s) %r" % (err, body[:120])
    return "HTTP %s %s %s" % (st, s, j.get("errorCode"))


def asan_summary(text):
    """the one line that names a sanitizer report / abort"""
    for pat in (r"SUMMARY: [^\n]+", r"ERROR: \w+Sanitizer[^\n]+", r"[^\n]*runtime error:[^\n]+", r"terminate called[^\n]+(\n\s*what\(\):[^\n]+)?", r"Assertion [^\n]+ failed"):
        m = re.search(pat, text or "")
        if m:
            return " ".join(m.group(0).split())
    return (text or "").strip().splitlines()[-1][:200] if (text or "").strip() else "no output"


def dataset_with_scenarios(rng, stream, lo=2, hi=3):
    d = gen.gen_dataset(rng, stream)
    nl, nsv = len(d["lines"]), d["nsv"]
    while len(d["scenarios"]) < lo:
        d["scenarios"].append(random_scenario(rng, d))
    d["scenarios"] = d["scenarios"][:max(hi, lo)]
    d["acc"] = sorted(d["acc"]); d["egr"] = sorted(d["egr"])
    return d


def random_scenario(rng, d):
    nl, nsv, nag = len(d["lines"]), d["nsv"], d["nag"]
    s = dict(services=rng.sample(range(nsv), rng.randint(1, nsv)), onlyLines=[], exceptLines=[], onlyAgencies=[], exceptAgencies=[], onlyModes=[], exceptModes=[])
    r = rng.random()
    if r < 0.35 and nl > 1: s["exceptLines"] = rng.sample(range(nl), rng.randint(1, nl - 1))
    elif r < 0.55 and nl > 1: s["onlyLines"] = rng.sample(range(nl), rng.randint(1, nl - 1))
    elif r < 0.65: s["exceptModes"] = [rng.randrange(3)]
    elif r < 0.75 and nag > 1: s["exceptAgencies"] = [rng.randrange(nag)]
    return s


def send_parallel(srv, urls, timeout):
    """several GETs at the same time (one client thread each); returns the responses in the order of `urls`"""
    if len(urls) == 1:
        return [srv.get(urls[0], timeout=timeout)]
    out = [None] * len(urls)

    def one(i):
        out[i] = srv.get(urls[i], timeout=timeout)
    ts = [threading.Thread(target=one, args=(i,)) for i in range(len(urls))]
    for t in ts: t.start()
    for t in ts: t.join()
    return out


_port_lock = threading.Lock()
_port_counter = [0]


def start_stub_reopenable(acc, egr):
    """router stub on a port OUTSIDE the ephemeral range: the `refuse` fault closes the listener and re-opens it on the same port
    later; a port from the ephemeral range could be handed to another process (a server started with free_port()) in between"""
    lo, hi = 20000, 30000
    try:
        a, b = [int(x) for x in open("/proc/sys/net/ipv4/ip_local_port_range").read().split()]
        if a <= hi and b >= lo: lo, hi = (1100, min(a, 20000) - 1) if a > 3000 else (b + 1, 65000)
    except Exception:
        pass
    for attempt in range(300):
        with _port_lock:
            _port_counter[0] += 1; n = _port_counter[0]
        port = lo + (os.getpid() * 131 + n * 7) % (hi - lo)
        try:
            return H.start_stub(acc, egr, port=port)
        except OSError:
            continue
    return H.start_stub(acc, egr)


class HarnessRetry(Exception):
    """a scratch resource (port) was lost to another process: run the case again"""


class Dedup:
    """rep.direct gets ONE entry per signature (the first example); every further occurrence is counted"""
    def __init__(self, rep, stats):
        self.rep, self.stats, self.seen = rep, stats, {}

    def add(self, sig, desc, replay_text):
        self.stats["sig " + sig] += 1
        if sig in self.seen:
            return
        self.seen[sig] = desc
        self.rep.direct.append((sig, desc, replay_text))


# ============================================================================================== C20

C20_N = {"quick": 240, "thorough": 2400}
C20_FAULTS = ["refuse", "drop", "truncate", "http500", "empty", "nonjson", "nodurations", "nulls", "fewer"]
C20_EMPTY_CLASS = {"refuse", "drop", "truncate", "http500", "nodurations"}       # the lookup yields "no stop"
C20_EXCEPTION_CLASS = {"empty", "nonjson", "nulls"}                              # the lookup throws -> HTTP 400 PARAM_ERROR_UNKNOWN
C20_WHERE = ["both", "origin", "destination"]
C20_STREAMS = [("dense", 3), ("sparse", 2), ("parallel", 2), ("xfer", 1), ("overlap", 1), ("tmpl", 1)]
C20_RULE = ("N scripted fault sequences against the real ASan server wired to the walking-router stub: per sequence a generated dataset, 6 requests "
            "(2 route, route+alternatives, summary, 2 accessibility), a BASELINE server that never sees a fault, then a second server driven through "
            "8-14 steps, each step = 1 request (1 server thread) or 1-3 concurrent requests (4 server threads) under a stub state: healthy, or one of "
            "refuse / drop / truncate / http500 / empty / nonjson / nodurations / nulls / fewer at origin / destination / both (persistent for the step; "
            "`drop` also limited to 1 = masked by the client's retry, and 2 = exactly one failed lookup); faulted request: one well-formed documented "
            "response, process alive; healthy request: answer = baseline answer; non-trivial = healthy success answer right after a faulted step; "
            "distinct = distinct (dataset, step, answer)")


def c20_plan(seed, k):
    rng = random.Random(seed * 1000003 + k)
    stream = HC._pick(rng, C20_STREAMS)
    d = gen.gen_dataset(rng, stream)
    d["acc"] = sorted(d["acc"]); d["egr"] = sorted(d["egr"])
    threads = 1 if k % 2 == 0 else 4
    reqs = []
    for j in range(6):
        kind = ("route", "route", "route", "summary", "accessibility", "accessibility")[j]
        fwd = None
        if j == 4: fwd = True
        if j == 5: fwd = False
        if d.get("profile", "").startswith("tmpl") or d.get("profile") == "closer": fwd = None
        q = gen.gen_query(rng, d, forward=fwd, alt=(j == 2), limits=(rng.random() < 0.5))
        reqs.append((kind, HC.c16_sanitise_query(q)))
    steps = []
    prev_fault = False
    n = rng.randint(8, 14)
    for j in range(n):
        nreq = 1 if threads == 1 else rng.choice([1, 2, 3])
        idx = [rng.randrange(len(reqs)) for _ in range(nreq)]
        if rng.random() < (0.3 if prev_fault else 0.65):
            # systematic part: sequence k, step j walks through the 27 (fault, where) pairs; random part on top
            if rng.random() < 0.5:
                x = (k * 5 + j) % 27; kind, where = C20_FAULTS[x % 9], C20_WHERE[x // 9]
            else:
                kind, where = rng.choice(C20_FAULTS), rng.choice(C20_WHERE)
            count = None
            if kind == "drop" and nreq == 1: count = rng.choice([None, 1, 2, 2])
            if kind == "fewer": kind = rng.choice(["fewer", "fewer:0", "fewer:1", "fewer:2"])
            steps.append(dict(fault=kind, where=where, count=count, reqs=idx)); prev_fault = True
        else:
            steps.append(dict(fault="healthy", where="both", count=None, reqs=idx)); prev_fault = False
    if steps[-1]["fault"] != "healthy":
        steps.append(dict(fault="healthy", where="both", count=None, reqs=[rng.randrange(len(reqs))]))
    return dict(did="C20-%d-%d" % (seed, k), d=d, reqs=reqs, steps=steps, threads=threads, stream=stream)


def c20_replay_text(case, upto=None):
    steps = case["steps"] if upto is None else case["steps"][:upto + 1]
    head = "# C20 replay: server threads, dataset block (its request lines are the request pool), then the steps\nthreads %d\n" % case["threads"]
    body = HC.block_text(case["did"], case["d"], case["reqs"])
    return head + body + "".join("step %s %s %s %s\n" % (s["fault"], s["where"], "-" if s["count"] is None else s["count"], ",".join(map(str, s["reqs"]))) for s in steps)


def c20_parse_replay(text):
    cases, cur, threads, block = [], None, 1, []
    for line in text.splitlines(True):
        if line.startswith("#") or not line.strip(): continue
        ws = line.split()
        if ws[0] == "threads":
            threads = int(ws[1]); block = []
        elif ws[0] == "step":
            cur["steps"].append(dict(fault=ws[1], where=ws[2], count=None if ws[3] == "-" else int(ws[3]), reqs=[int(x) for x in ws[4].split(",")]))
        else:
            block.append(line)
            if ws[0] == "end":
                did, d, reqs, _ = gen.parse_protocol("".join(block))
                d["acc"] = sorted(d["acc"]); d["egr"] = sorted(d["egr"])
                rq = [(k, HC.c16_sanitise_query(q)) for k, q in (gen.parse_query(r) for r in reqs) if k in ("route", "summary", "accessibility")]
                cur = dict(did=re.sub(r"[^A-Za-z0-9_.-]", "_", did), d=d, reqs=rq, steps=[], threads=threads, stream="replay"); cases.append(cur)
    return cases


def c20_serve(case, server_exe, cachegen_exe, timeout=20.0):
    for attempt in range(4):
        out = _c20_serve_once(case, server_exe, cachegen_exe, timeout)
        if not out.get("retry"):
            break
    return out


def _c20_serve_once(case, server_exe, cachegen_exe, timeout):
    """baseline server, then the fault sequence on a second server (same stub, same cache directory)"""
    did, d, reqs = case["did"], case["d"], case["reqs"]
    out = dict(startup=None, baseline=[], steps=[], rc=None, san="", died=False, base_san="", t=0.0)
    t0 = time.time()
    cdir = os.path.join(H.workdir("c20"), did)
    stub = srv = None
    urls = [H.route_query(q, kind) for kind, q in reqs]
    try:
        H.make_cache(d, cdir, did=did, cachegen=cachegen_exe)
        stub = start_stub_reopenable(d["acc"], d["egr"])
        # ---- baseline: a server that never sees a fault
        srv = H.start_server(cdir, threads=case["threads"], cache_all=bool(d.get("cacheall")), osrm_port=stub.port, exe=server_exe, tag=did + "-base")
        if srv is None or not srv.alive() or getattr(srv, "ready_s", None) is None:
            out["startup"] = "baseline server did not come up: " + ((srv.sanitizer_output() or srv.output()[-600:]) if srv else "no handle")
            return out
        for u in urls:
            st, hd, body, raw = srv.get(u, timeout=timeout)
            out["baseline"].append((st, hd, body))
        died = not srv.alive()
        rc, san = srv.stop(); srv = None
        if died or san:
            out["base_san"] = "baseline server %s: %s" % ("died (rc %s)" % rc if died else "sanitizer report", asan_summary(san))
        # ---- the fault sequence
        srv = H.start_server(cdir, threads=case["threads"], cache_all=bool(d.get("cacheall")), osrm_port=stub.port, exe=server_exe, tag=did)
        if srv is None or not srv.alive() or getattr(srv, "ready_s", None) is None:
            out["startup"] = "server did not come up: " + ((srv.sanitizer_output() or srv.output()[-600:]) if srv else "no handle")
            return out
        for s in case["steps"]:
            stub.clear_log()
            if s["fault"] != "healthy":
                stub.set_fault(s["fault"], where=s["where"], count=s["count"])
            resp = send_parallel(srv, [urls[i] for i in s["reqs"]], timeout)
            if s["fault"] != "healthy":
                for attempt in range(40):          # router recovers (re-opens the listener after `refuse`)
                    try:
                        stub.set_fault("healthy"); break
                    except OSError:
                        time.sleep(0.05)
                else:
                    out["retry"] = True; return out
            log = [dict(kind=l["kind"], fault=l["fault"], n=len(l["stops"])) for l in list(stub.log)]
            alive = srv.alive()
            if not alive:
                time.sleep(0.3)
            out["steps"].append(dict(resp=[(st, hd, body) for st, hd, body, raw in resp], log=log, alive=alive))
            if not alive:
                break
    except Exception as e:
        out["startup"] = "harness error: %r" % (e,)
    finally:
        if srv is not None:
            died = not srv.alive()
            if died:
                time.sleep(0.5)
            rc, san = srv.stop()
            out["rc"], out["san"], out["died"] = rc, san, died
            if died and not san:
                out["san"] = srv.output()[-1500:]
        if stub is not None:
            stub.stop()
        shutil.rmtree(cdir, ignore_errors=True)
        out["t"] = time.time() - t0
    return out


def c20_step_faulted(step, log):
    """was a lookup of this step really hit by the fault?  (a fault restricted to the destination does not touch a departure-time
    accessibility request; a request that fails on its parameters makes no lookup at all)"""
    if step["fault"] == "healthy":
        return False
    if any(l["fault"] != "healthy" for l in log):
        return True
    # a refused connection never reaches the stub's log
    return step["fault"].split(":")[0] == "refuse" and step["where"] != "destination"


def run_c20(tier, seed, replay=None, theorems=None, module=None):
    ths = theorems or []
    rep = core.Report("C20", tier, seed, level="proof" if ths else "exploration")
    rep.rule = C20_RULE
    rep.assumptions = [
        "sockets, time-outs and the HTTP client are observed, not modelled; the two behaviours outside the listed faults (reply with MORE entries than requested; "
        "router that accepts and never answers) are not generated (DESIGN 7a O3, O4)",
        "the stub really shuts a dropped / truncated connection down (a half-open connection would hang the client, which has no time-out: stub artefact)",
        "the Simple-Web-Server client retries a connection that was closed before any reply byte ONCE: a lookup fails on `drop` only with two consecutive drops",
        "`refuse` cannot tell lookups apart: where=destination closes the listener while the access lookup of the same request is being answered; where=origin = both",
        "a request of a faulted step that no faulted lookup touched (per the stub's request log) is held to the healthy oracle (answer = baseline)",
    ]
    stats = collections.Counter()
    try:
        core.lean_phase(rep, module if ths else None, ths, thorough=(tier == "thorough"))
        server = core.harness_phase(rep, "server", "asan")
        cachegen = core.harness_phase(rep, "cachegen", "plain")
        try:
            codes = HC.documented_codes()
            rep.obligation("docs:error-code-enums", True, "route %d, accessibility %d, data_error %d codes" % tuple(len(c) for c in codes))
        except Exception as e:
            rep.obligation("docs:error-code-enums", False, str(e)); codes = None
        if not server or not cachegen or not codes:
            return rep.finish()
        if replay:
            cases = c20_parse_replay(open(replay).read())
        else:
            cases = []
            for k in range(C20_N["thorough" if tier == "thorough" else "quick"]):
                c = c20_plan(seed, k)
                if HC.c16_wellformed(c["d"]):
                    stats["skipped-not-encodable"] += 1; continue
                cases.append(c)
        t0 = time.time()
        with ThreadPoolExecutor(max_workers=PAR) as ex:
            served = list(ex.map(lambda c: c20_serve(c, server, cachegen), cases))
        t_http = time.time() - t0
        dd = Dedup(rep, stats)
        for c, sv in zip(cases, served):
            did, reqs = c["did"], c["reqs"]
            stats["sequences %d thread(s)" % c["threads"]] += 1
            stats["stream " + c["stream"]] += 1
            if sv["startup"]:
                dd.add("server-startup", "real server did not start on a generated well-formed cache directory: " + sv["startup"][:300], c20_replay_text(c, 0)); continue
            if sv["base_san"]:
                dd.add("baseline-crash", sv["base_san"], c20_replay_text(c, 0))
            base_keys = [answer_key(reqs[i][0], st, body) for i, (st, hd, body) in enumerate(sv["baseline"])]
            for i, (st, hd, body) in enumerate(sv["baseline"]):
                bad, j = well_formed(reqs[i][0], st, hd, body, codes)
                stats["baseline %s %s" % (reqs[i][0], (j or {}).get("status") if st == 200 else "HTTP %s" % st)] += 1
                if bad:
                    dd.add("baseline-bad-response", "healthy router, fresh server: %s for %s" % (bad, H.route_query(reqs[i][1], reqs[i][0])), c20_replay_text(c, 0))
            last_fault, prev_faulted = None, False
            for si, (s, r) in enumerate(zip(c["steps"], sv["steps"])):
                fk = s["fault"].split(":")[0]
                faulted = c20_step_faulted(s, r["log"])
                if s["fault"] != "healthy":
                    stats["steps fault %s@%s%s" % (fk, s["where"], "" if s["count"] is None else " x%d" % s["count"])] += 1
                    stats["steps faulted, effective" if faulted else "steps faulted, no lookup touched"] += 1
                else:
                    stats["steps healthy"] += 1
                if replay:
                    print("step %d  router %s@%s count=%s  lookups seen by the stub: %s" % (si, s["fault"], s["where"], s["count"], [(l["kind"], l["fault"]) for l in r["log"]]))
                for i, (st, hd, body) in zip(s["reqs"], r["resp"]):
                    kind = reqs[i][0]
                    url = H.route_query(reqs[i][1], kind)
                    rep.evaluations += 1
                    key = answer_key(kind, st, body)
                    if replay:
                        print("   GET %s\n      -> %s\n      baseline %s" % (url, key[:300], base_keys[i][:300]))
                    if faulted:
                        bad, j = well_formed(kind, st, hd, body, codes)
                        stats["faulted %s -> %s" % (fk, brief(st, hd, body))] += 1
                        if st is None:
                            if not r["alive"]:
                                dd.add("router-fault-kills-server:" + fk, "router fault %s@%s during GET %s: the server process died: %s" % (s["fault"], s["where"], url, asan_summary(sv["san"])), c20_replay_text(c, si))
                            else:
                                dd.add("router-fault-no-response:" + fk, "router fault %s@%s: GET %s got %s, process alive" % (s["fault"], s["where"], url, brief(st, hd, body)), c20_replay_text(c, si))
                        elif bad:
                            dd.add("router-fault-bad-response:" + fk, "router fault %s@%s: GET %s answered with %s" % (s["fault"], s["where"], url, bad), c20_replay_text(c, si))
                        else:
                            # correspondence with the outcome table of the router client (DESIGN C20 U): only the unambiguous case
                            if len(s["reqs"]) == 1 and s["count"] is None and s["where"] == "both" and sv["baseline"][i][0] == 200:
                                if fk in C20_EMPTY_CLASS:
                                    if kind == "summary":       # the summary endpoint renders "no route" as success with 0 routes
                                        okm = st == 200 and j.get("status") == "success" and (j.get("result") or {}).get("nbRoutes") == 0
                                        want = "200 success with nbRoutes 0"
                                    else:
                                        okm = st == 200 and j.get("status") == "no_routing_found" and str(j.get("reason", "")).startswith("NO_ACCESS_AT")
                                        want = "200 no_routing_found NO_ACCESS_AT_*"
                                elif fk in C20_EXCEPTION_CLASS:
                                    okm = st == 400 and j.get("errorCode") == "PARAM_ERROR_UNKNOWN"; want = "400 PARAM_ERROR_UNKNOWN"
                                else:
                                    okm, want = True, ""
                                if not okm:
                                    stats["router-outcome-model mismatch"] += 1
                                    rep.corr.append(("router-outcome-model(C20)", "router fault %s at both lookups: the outcome table says %s, the server answered %s (GET %s)" % (s["fault"], want, brief(st, hd, body), url), c20_replay_text(c, si)))
                            if s["fault"] == "drop" and s["count"] == 1:
                                stats["single drop masked by the retry (answer = baseline)" if key == base_keys[i] else "single drop NOT masked"] += 1
                    else:
                        stats["healthy -> %s" % brief(st, hd, body)] += 1
                        after = last_fault or "none"
                        if st is None and not r["alive"]:
                            dd.add("router-fault-kills-server:" + after, "healthy exchange after fault %s: GET %s, the server process died: %s" % (after, url, asan_summary(sv["san"])), c20_replay_text(c, si))
                        elif key != base_keys[i]:
                            dd.add("answer-differs-after-recovery:" + after, "healthy exchange (last fault before: %s): GET %s answered %s; a server that never saw a fault answers %s" % (
                                after, url, key[:250], base_keys[i][:250]), c20_replay_text(c, si))
                        else:
                            if sv["baseline"][i][2] != body:
                                stats["healthy answer byte-different from baseline but canonically equal"] += 1
                            j = parse_body(body) or {}
                            if prev_faulted and j.get("status") == "success" and (kind != "summary" or (j.get("result") or {}).get("nbRoutes")):
                                rep.nontrivial.add(hash((did, si, i, key)))
                                if len(rep.samples) < 3:
                                    rep.samples.append(dict(sequence=did, step=si, after_fault=after, request=url, answer=key[:300]))
                if not r["alive"]:
                    if not any(st is None for st, hd, body in r["resp"]):
                        dd.add("router-fault-kills-server:" + (fk if s["fault"] != "healthy" else (last_fault or "none")), "the server process died right after step %d (router %s@%s): %s" % (si, s["fault"], s["where"], asan_summary(sv["san"])), c20_replay_text(c, si))
                    break
                if s["fault"] != "healthy":
                    last_fault = fk
                prev_faulted = faulted
            if len(sv["steps"]) == len(c["steps"]) and not sv["died"] and sv["san"]:
                dd.add("router-fault-sanitizer-report", "sanitizer output of a server that went through router faults (process survived): " + asan_summary(sv["san"]), c20_replay_text(c))
        rep.cov["input_distribution"] = dict(stats)
        rep.cov["streams"] = dict(C20_STREAMS)
        rep.cov["timing"] = dict(http_s=round(t_http, 1), servers_in_parallel=PAR, mean_sequence_s=round(sum(s["t"] for s in served) / max(1, len(served)), 2))
        rep.obligation("correspondence:router-outcome-model(C20)", not rep.corr, "%d disagreement(s)" % len(rep.corr))
        return rep.finish()
    finally:
        H.cleanup()
