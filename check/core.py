"""Common machinery of every check: translator -> lake build -> audit -> harness build ->
correspondence + direct evaluation -> verdict -> evidence (DESIGN.md 3.4)."""
import fcntl, json, os, re, subprocess, sys, time, hashlib, shutil, random
from . import engine

VERIF = engine.VERIF
LEAN = os.path.join(VERIF, "lean")
EVID = os.path.join(VERIF, "evidence")
REPLAYS = os.path.join(VERIF, "replays")
KNOWN = os.path.join(VERIF, "known_findings.json")
ALLOWED_AXIOMS = {"propext", "Classical.choice", "Quot.sound"}
FORBIDDEN = re.compile(r"\b(sorry|admit|native_decide|bv_decide|implemented_by|unsafe\s|maxHeartbeats\s+0)\b|^\s*axiom\s")

TRUSTED_BASE = [
    "Lean 4.33.0 kernel (theorems re-checked by `lake build`; thorough tier adds `leanchecker`)",
    "axioms reported by `#print axioms` for every property theorem, required to be a subset of {propext, Classical.choice, Quot.sound}; no native_decide, no bv_decide, no axioms of our own, no sorry/admit (grep + audit on every run)",
    "the specifications in lean/TrVerif/Spec (what a valid itinerary, an admissible journey, the totals identities ... mean)",
    "correspondence check: seeded generators, C++ harness compiled from /repo's working tree (calls the real classes, contains no routing logic), canonicaliser, diff; strength bounded by generator quality (input distribution is in this file)",
    "translator/extract.py (regex/clang-AST extraction of tables and structural facts into lean/TrVerif/Generated)",
    "modelled, not verified: std::stable_sort, std::map/unordered_map semantics, nlohmann::json, Cap'n Proto decoding, Simple-Web-Server, OS; machine integers are modelled as unbounded Int (clock range [0, 32 h) keeps every intermediate value inside int32)",
]


class Lock:
    def __init__(self, name):
        os.makedirs(os.path.join(VERIF, ".cache"), exist_ok=True)
        self.path = os.path.join(VERIF, ".cache", name + ".lock")

    def __enter__(self):
        self.f = open(self.path, "w")
        fcntl.flock(self.f, fcntl.LOCK_EX)
        return self

    def __exit__(self, *a):
        fcntl.flock(self.f, fcntl.LOCK_UN)
        self.f.close()


def sh(cmd, cwd=None, timeout=3600, env=None):
    r = subprocess.run(cmd, cwd=cwd, capture_output=True, text=True, timeout=timeout, env=env)
    return r.returncode, r.stdout, r.stderr


# ------------------------------------------------------------------ Lean side

def run_translator():
    """regenerates lean/TrVerif/Generated from /repo; returns list of failed tables"""
    rc, so, se = sh([sys.executable, os.path.join(VERIF, "translator", "extract.py")])
    failed = [l.split(" ", 1)[1] for l in so.splitlines() if l.startswith("TRANSLATOR-FAIL ")]
    if rc != 0 and not failed:
        failed = ["translator crashed: " + se[-300:]]
    return failed


def lake_build(targets):
    """returns (ok, log)"""
    with Lock("lake"):
        rc, so, se = sh(["lake", "build"] + targets, cwd=LEAN, timeout=3000)
    return rc == 0, (so + se)[-4000:]


def grep_forbidden():
    hits = []
    for dp, dn, fn in os.walk(os.path.join(LEAN, "TrVerif")):
        for f in fn:
            if not f.endswith(".lean"):
                continue
            p = os.path.join(dp, f)
            in_block = 0
            for i, line in enumerate(open(p, encoding="utf-8"), 1):
                # strip comments (block comments tracked by nesting depth, line comments by `--`)
                code = ""
                j = 0
                while j < len(line):
                    if line.startswith("/-", j): in_block += 1; j += 2; continue
                    if line.startswith("-/", j) and in_block: in_block -= 1; j += 2; continue
                    if not in_block and line.startswith("--", j): break
                    if not in_block: code += line[j]
                    j += 1
                if FORBIDDEN.search(code):
                    hits.append("%s:%d: %s" % (os.path.relpath(p, VERIF), i, line.strip()[:100]))
    return hits


def audit(prop, module, theorems):
    """#print axioms for every theorem; returns dict thm -> (ok, axioms|error)"""
    res = {}
    if not theorems:
        return res
    src = "import %s\n" % module + "".join("#print axioms %s\n" % t for t in theorems)
    path = os.path.join(LEAN, ".lake", "audit_%s_%d.lean" % (prop, os.getpid()))
    os.makedirs(os.path.dirname(path), exist_ok=True)
    open(path, "w").write(src)
    rc, so, se = sh(["lake", "env", "lean", path], cwd=LEAN, timeout=900)
    os.remove(path)
    out = so + se
    for t in theorems:
        m = re.search(r"'%s' depends on axioms: \[([^\]]*)\]" % re.escape(t), out, re.S)
        if m:
            ax = [a.strip() for a in m.group(1).replace("\n", " ").split(",") if a.strip()]
            res[t] = (set(ax) <= ALLOWED_AXIOMS, ax)
        elif re.search(r"'%s' does not depend on any axioms" % re.escape(t), out):
            res[t] = (True, [])
        else:
            res[t] = (False, ["not found / error: " + out[-300:].replace("\n", " ")])
    return res


def leanchecker(module):
    rc, so, se = sh(["lake", "env", "leanchecker", module], cwd=LEAN, timeout=1800)
    return rc == 0, (so + se)[-400:]


# ------------------------------------------------------------------ known findings

def load_known():
    try:
        return json.load(open(KNOWN))
    except Exception:
        return {"findings": [], "fixed": []}


# ------------------------------------------------------------------ verdict and evidence

class Report:
    def __init__(self, prop, tier, seed, level="proof"):
        self.prop, self.tier, self.seed, self.level = prop, tier, seed, level
        try:    # the level written to the evidence is the category claimed in MANIFEST.json (one source: check/registry.py)
            from . import registry
            self.level = registry.CLAIMS[prop]["category"]
        except Exception:
            pass
        self.t0 = time.time()
        self.obligations = []          # (name, ok, detail)
        self.direct = []               # (signature, description, replay_text)
        self.corr = []                 # (name, description, replay_text)
        self.known_hits = {}
        self.cov = {}
        self.samples = []
        self.evaluations = 0
        self.nontrivial = set()
        self.rule = ""
        self.assumptions = []
        self.notes = []

    def obligation(self, name, ok, detail=""):
        self.obligations.append((name, bool(ok), detail))

    def finish(self):
        os.makedirs(EVID, exist_ok=True); os.makedirs(REPLAYS, exist_ok=True)
        known = load_known()
        unlisted = []
        for sig, desc, replay in self.direct:
            hit = None
            for k in known.get("findings", []):
                if k["property"] == self.prop and k["signature"] == sig:
                    hit = k
            if hit:
                self.known_hits.setdefault(sig, [0, hit])[0] += 1
            else:
                unlisted.append((sig, desc, replay))
        lines = []
        for sig, (n, k) in self.known_hits.items():
            lines.append("KNOWN-FINDING: property=%s %s (%d occurrence(s) this run; signature %s)" % (self.prop, k["description"], n, sig))
        broken = [(n, d) for n, ok, d in self.obligations if not ok]
        violations = 0
        rc = 0
        if unlisted:
            sig, desc, replay = unlisted[0]
            path = os.path.join(REPLAYS, "%s-%s-seed%d.txt" % (self.prop, re.sub(r"[^A-Za-z0-9]+", "_", sig)[:40], self.seed))
            with open(path, "w") as f:
                f.write("# property %s violated: %s\n# signature: %s\n# replay: ./check.py %s --replay %s\n" % (self.prop, desc, sig, self.prop, path))
                f.write(replay)
            lines.append("VIOLATION property=%s replay=%s" % (self.prop, path))
            for s2, d2, _ in unlisted[:5]:
                lines.append("  detail: %s" % d2[:300])
            violations = len(unlisted); rc = 1
        elif broken or self.corr:
            path = os.path.join(REPLAYS, "%s-unproved-seed%d.txt" % (self.prop, self.seed))
            with open(path, "w") as f:
                f.write("# property %s is no longer shown to hold; no failing input was found by the direct evaluation\n" % self.prop)
                for n, d in broken:
                    f.write("# broken obligation: %s -- %s\n" % (n, d.replace("\n", " ")[:1500]))
                for n, d, rp in self.corr[:5]:
                    f.write("# broken correspondence: %s -- %s\n" % (n, d.replace("\n", " ")[:1500]))
                f.write("# direct evaluation of the property ran on %d implementation answers without failure\n" % self.evaluations)
                if self.corr:
                    f.write("# first disagreeing input follows (replay: ./check.py %s --replay %s)\n" % (self.prop, path))
                    f.write(self.corr[0][2])
            lines.append("VIOLATION property=%s replay=%s no-failing-input-found" % (self.prop, path))
            for n, d in broken[:5]:
                lines.append("  broken obligation: %s: %s" % (n, d.replace("\n", " ")[:300]))
            for n, d, _ in self.corr[:5]:
                lines.append("  broken correspondence: %s: %s" % (n, d[:300]))
            violations = len(broken) + len(self.corr); rc = 1
        ev = {
            "property_id": self.prop, "tier": self.tier, "seed": self.seed, "level": self.level,
            "coverage": dict({
                "obligations": len(self.obligations),
                "discharged": sum(1 for _, ok, _ in self.obligations if ok),
                "obligation_list": [{"name": n, "ok": ok, "detail": d[:200]} for n, ok, d in self.obligations],
                "checker_cmd": "cd lean && lake build && lake env lean <audit file with #print axioms> (see check/core.py)",
                "trusted_base": TRUSTED_BASE,
                "evaluations": self.evaluations,
                "distinct_nontrivial": len(self.nontrivial),
                "rule": self.rule,
                "samples": self.samples[:6],
                "traces_validated_against_impl": self.evaluations,
                "known_findings_hit": {s: n for s, (n, k) in self.known_hits.items()},
            }, **self.cov),
            "assumptions": self.assumptions,
            "wall_s": round(time.time() - self.t0, 1),
            "violations": violations,
        }
        if self.notes:
            ev["coverage"]["notes"] = self.notes
        tmp = os.path.join(EVID, ".%s.json.tmp%d" % (self.prop, os.getpid()))
        json.dump(ev, open(tmp, "w"), indent=1, sort_keys=True)
        os.replace(tmp, os.path.join(EVID, "%s.json" % self.prop))
        for l in lines:
            print(l)
        if rc == 0:
            print("OK property=%s tier=%s seed=%d obligations=%d/%d evaluations=%d nontrivial=%d wall=%.0fs" % (
                self.prop, self.tier, self.seed, ev["coverage"]["discharged"], ev["coverage"]["obligations"],
                self.evaluations, len(self.nontrivial), time.time() - self.t0))
        engine.cleanup()
        return rc


def lean_phase(rep, module, theorems, thorough=False):
    """translator + build + audit; records obligations in `rep`; returns model exe path or None"""
    failed = run_translator()
    rep.obligation("translator:tables", not failed, "; ".join(failed))
    ok, log = lake_build(["trmodel"])
    rep.obligation("lean:model-and-driver-build", ok, "" if ok else log[-800:])
    exe = os.path.join(LEAN, ".lake/build/bin/trmodel")
    if not ok or not os.path.exists(exe):
        exe = None
    if module:
        ok2, log2 = lake_build([module])
        if not ok2:
            errs = re.findall(r"error: ([^\n]*)", log2)
            for t in theorems:
                rep.obligation("theorem:" + t, False, "module %s does not build: %s" % (module, "; ".join(errs[:3])))
        else:
            au = audit(rep.prop, module, theorems)
            for t in theorems:
                okt, ax = au.get(t, (False, ["missing"]))
                rep.obligation("theorem:" + t, okt, "axioms " + ", ".join(ax))
            if thorough:
                okc, logc = leanchecker(module)
                rep.obligation("leanchecker:" + module, okc, "" if okc else logc)
    hits = grep_forbidden()
    rep.obligation("audit:no-sorry-admit-axiom-native_decide", not hits, "; ".join(hits[:5]))
    return exe


def harness_phase(rep, target="core", variant="asan"):
    sys.path.insert(0, VERIF)
    from harness import build
    try:
        with Lock("harness-" + target + variant):
            exe = build.build(target, variant)
        rep.obligation("correspondence:build(%s,%s)" % (target, variant), True)
        return exe
    except build.BuildError as e:
        rep.obligation("correspondence:build(%s,%s)" % (target, variant), False, str(e)[-800:])
        return None


def seed_from_env():
    try:
        return int(os.environ.get("VERIF_SEED", "1"))
    except ValueError:
        return 1
