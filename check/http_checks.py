"""Checks decided with the REAL server binary over sockets: C16 (loaded data routes like the dataset it encodes) and
C18 (every HTTP request gets one well-formed, correctly classified response).

    from check import http_checks; http_checks.run_c16("quick", 1);  http_checks.run_c18("quick", 1)

Both build the ASan+UBSan server from /repo's current tree through harness/build.py, never touch /repo, keep every
scratch file under /verif/work/http-<pid>/ and kill the processes they started by PID (try/finally + kill_all)."""
import collections, json, os, random, re, shutil, subprocess, sys, time
from concurrent.futures import ThreadPoolExecutor
from . import core, engine, gen, canon, httpkit as H, oracles as O
from . import loader_corr

PAR = min(12, max(2, (os.cpu_count() or 4) - 4))      # servers running side by side

# ============================================================================================== C16

C16_STREAMS = [("sparse", 2), ("dense", 2), ("overlap", 2), ("xfer", 2), ("parallel", 1), ("tmpl", 2), ("ties", 2), ("zero", 1)]
C16_N = {"quick": 300, "thorough": 3000}
HUGE_FINITE = 50000   # "huge" access / egress limit that is still below the stub's UNREACHABLE duration (100000)
C16_RULE = ("N generated well-formed datasets (streams sparse/dense/overlap/xfer/parallel/tmpl/ties/zero), each written to a Cap'n Proto cache "
            "directory by cachegen, loaded by the real ASan server binary with the scripted walking-router stub, 6 requests each "
            "(3 route, 1 route with alternatives, 2 accessibility); the canonicalised HTTP body is compared with the in-process answer "
            "on the abstract dataset (direct) and with the Lean model (correspondence); non-trivial = success answer; "
            "distinct = distinct (dataset, answer)")


def _pick(rng, streams):
    tot = sum(w for _, w in streams)
    x = rng.random() * tot
    for s, w in streams:
        x -= w
        if x <= 0:
            return s
    return streams[-1][0]


def block_text(did, d, reqs):
    return gen.write_dataset(d, did, [gen.fmt_query(k, q) for k, q in reqs])


def c16_sanitise_query(q):
    """A non-positive access / egress maximum means "no limit" (INT_MAX).  Over the OSRM protocol every stop the client
    sends gets SOME finite duration (the only other value, null, makes the client throw), so "no limit" would admit
    the stops the table does not list at the stub's UNREACHABLE duration -- the table model of the router
    ("entries with time <= max") cannot be reproduced then.  Such limits are replaced by a huge finite one."""
    for k in ("max_access_travel_time", "max_egress_travel_time"):
        if k in q and int(q[k]) <= 0:
            q[k] = HUGE_FINITE
    return q


def c16_plan(seed, k):
    rng = random.Random(seed * 1000003 + k)
    stream = _pick(rng, C16_STREAMS)
    d = gen.gen_dataset(rng, stream)
    if rng.random() < 0.35:
        # zero-length segments (two stops at one place): a loader that mistakes 0 for "no value" shifts every later distance
        d["paths"] = [(l, st, [0 if (di and rng.random() < 0.4) else x for x in di]) for l, st, di in d["paths"]]
    # the OSRM client enumerates candidate stops in uuid (= index) order; give the in-process table the same order so
    # that a tie between two access / egress stops is not broken differently on the two sides
    d["acc"] = sorted(d["acc"]); d["egr"] = sorted(d["egr"])
    reqs = []
    for j in range(6):
        if j < 3:
            kind, q = "route", gen.gen_query(rng, d)
        elif j == 3:
            kind, q = "route", gen.gen_query(rng, d, alt=True)
        else:
            kind, q = "accessibility", gen.gen_query(rng, d, forward=(j == 4) if not d.get("profile", "").startswith("tmpl") else None)
        reqs.append((kind, c16_sanitise_query(q)))
    return dict(did="C16-%d-%d" % (seed, k), d=d, reqs=reqs, stream=stream)


def c16_wellformed(d):
    """the WF side conditions the cache schema adds (Int16 footpaths) + what the stub convention needs"""
    errs = []
    if d["ns"] > 17: errs.append("more than 17 stops (bird-distance pre-filter at max 1 s)")
    for a, b, t, x in d["foot"]:
        if not (0 <= t <= 32767 and 0 <= x <= 32767): errs.append("footpath %d->%d does not fit Int16" % (a, b))
    for s, t, x in d["acc"] + d["egr"]:
        if not (0 <= t <= 32767 and 0 <= x <= 32767): errs.append("access/egress time of stop %d > 32767" % s)
    return errs


def http_canon(kind, body):
    """HTTP body bytes -> (canonical text | None, parsed json | None, error | None)"""
    try:
        j = json.loads(body.decode("utf-8"))
    except Exception as e:
        return None, None, "body is not JSON: %s" % str(e)[:80]
    try:
        txt = canon.canon(kind, H.normalise_coordinates(json.loads(body.decode("utf-8"))))
    except Exception as e:
        return None, j, "canonicaliser failed on the body: %r" % (e,)
    return txt, j, None


def c16_serve(case, server_exe, cachegen_exe, timeout=30.0):
    """cache directory + stub + real server for one dataset; returns the HTTP side of the comparison"""
    did, d, reqs = case["did"], case["d"], case["reqs"]
    out = dict(answers=[], rc=None, san="", startup=None, stub_bad=[], t=0.0)
    t0 = time.time()
    cdir = os.path.join(H.workdir("cache"), did)
    stub = srv = None
    try:
        H.make_cache(d, cdir, did=did, cachegen=cachegen_exe)
        stub = H.start_stub(d["acc"], d["egr"])
        srv = H.start_server(cdir, threads=1, cache_all=bool(d.get("cacheall")), osrm_port=stub.port, exe=server_exe, tag=did)
        if srv is None or not srv.alive() or getattr(srv, "ready_s", None) is None:
            out["startup"] = "server did not come up: " + ((srv.sanitizer_output() or srv.output()[-600:]) if srv else "no handle")
            return out
        for kind, q in reqs:
            url = H.route_query(q, kind)
            st, hd, body, raw = srv.get(url, timeout=timeout)
            out["answers"].append(dict(url=url, status=st, headers=hd, body=body))
            if not srv.alive():
                break
        allstops = list(range(d["ns"]))
        for l in stub.log:
            if l["stops"] != allstops:
                out["stub_bad"].append((l["kind"], l["stops"]))
    except Exception as e:
        out["startup"] = "harness error: %r" % (e,)
    finally:
        if srv is not None:
            died = not srv.alive()
            rc, san = srv.stop()
            out["rc"], out["san"], out["died"] = rc, san, died
            if died and not san:
                out["san"] = srv.output()[-1500:]
        if stub is not None:
            stub.stop()
        shutil.rmtree(cdir, ignore_errors=True)
        out["t"] = time.time() - t0
    return out


def c16_distance_errors(d, a):
    """'reports the encoded distances': for every ride on a path whose distances cover the ride, inVehicleDistance is
    the sum of the encoded segment distances; walks report the table / footpath distance."""
    errs = []
    trips = {t[2]: t for t in d["trips"]}
    fm = O.foot_map(d)
    acc = {s: x for s, t, x in d["acc"]}; egr = {s: x for s, t, x in d["egr"]}
    for r in a.get("routes", []):
        st = r["steps"]
        for i, s in enumerate(st):
            if s["action"] == "unboarding" and i > 0 and st[i - 1]["action"] == "boarding":
                t = trips.get(s["trip"])
                if t is None: continue
                dist = d["paths"][t[0]][2]
                bi, uj = st[i - 1]["stopSeq"] - 1, s["stopSeq"] - 1
                if 0 <= bi < uj and uj - 1 < len(dist) and s["inVehicleDistance"] != sum(dist[bi:uj]):
                    errs.append("ride on trip %d stops %d..%d reports %d m, encoded segments sum to %d m" % (s["trip"], bi, uj, s["inVehicleDistance"], sum(dist[bi:uj])))
            if s["action"] == "walking":
                if s["kind"] == 0 and i + 1 < len(st) and st[i + 1]["action"] == "boarding":
                    if acc.get(st[i + 1]["stop"]) != s["distance"]: errs.append("access walk distance %d, table says %s" % (s["distance"], acc.get(st[i + 1]["stop"])))
                elif s["kind"] == 2 and i > 0 and st[i - 1]["action"] == "unboarding":
                    if egr.get(st[i - 1]["stop"]) != s["distance"]: errs.append("egress walk distance %d, table says %s" % (s["distance"], egr.get(st[i - 1]["stop"])))
                elif s["kind"] == 1 and 0 < i < len(st) - 1 and st[i - 1]["action"] == "unboarding" and st[i + 1]["action"] == "boarding":
                    w = fm.get((st[i - 1]["stop"], st[i + 1]["stop"]))
                    if w is not None and w[1] != s["distance"]: errs.append("transfer walk %d->%d distance %d, footpath data %d" % (st[i - 1]["stop"], st[i + 1]["stop"], s["distance"], w[1]))
    return errs


def _same_answer(http_txt, other_txt):
    if http_txt == other_txt:
        return True
    # the in-process harness prints the numeric ParameterException type, the server the documented code
    if http_txt and other_txt and " query_error " in http_txt and " query_error " in other_txt:
        return http_txt.split(" ")[0] == other_txt.split(" ")[0]
    return False


def c16_scale_leg(rep, seed, tier, stats, server, cachegen):
    """One LONG line with MANY trips (the sizes of a busy urban line over all its service days; a 5-20 MB line file). The generated
    streams above stay small, so a loader whose cost per trip grows with the number of stops - e.g. one that re-reads a Cap'n Proto list
    at every stop and so uses up the reader's traversal limit (fixed: d389688) - passes them all. The dataset is regular enough for a
    closed-form answer: trip k leaves stop 0 at 1000 + 20 k and reaches the last stop 30 s per hop later; the request leaves 1 m south
    of stop 0 (Euclidean geofilter: 0 s walk) and must catch the first trip leaving at or after its time (min_waiting_time 0)."""
    rng = random.Random(seed * 9176 + 5)
    n0 = len(rep.direct)
    for ns, nt in ([(120, 3000)] if tier != "thorough" else [(120, 3000), (200, 4000), (60, 5000)]):
        foot = [(s, s, 0, 0) for s in range(ns)]
        trips = []
        for k in range(nt):
            arr = [1000 + 20 * k + 30 * i for i in range(ns)]
            trips.append((0, 0, k + 1, arr, arr, [1] * ns, [1] * ns))
        sc = dict(services=[0], onlyLines=[], exceptLines=[], onlyAgencies=[], exceptAgencies=[], onlyModes=[], exceptModes=[])
        d = dict(ns=ns, nag=1, nsv=1, foot=foot, lines=[(0, 0)], paths=[(0, list(range(ns)), [100] * (ns - 1))], trips=trips, scenarios=[sc],
                 acc=[], egr=[], cacheall=0, profile="scale")
        cdir = os.path.join(H.workdir("cache"), "scale-%d-%d" % (ns, nt))
        head = "#!c16scale one line of %d stops, %d trips (trip k: stop i at 1000 + 20 k + 30 i), scenario 0 = everything\n" % (ns, nt)
        srv = None
        try:
            H.make_cache(d, cdir, did="scale", cachegen=cachegen)
            srv = H.start_server(cdir, euclid=True, exe=server, tag="c16scale", ready_timeout=180.0)
            if srv is None or not srv.alive() or getattr(srv, "ready_s", None) is None:
                rep.direct.append(("scale-startup", "server did not come up on a line file of %d stops x %d trips: %s" % (ns, nt, (srv.output()[-300:] if srv else "")), head)); continue
            # the timetable is periodic (headway 20 s), so away from its two ends the answer to a request made 20 m seconds later is
            # the same answer 20 m seconds later - whichever stops the Euclidean geofilter lets the traveller walk to
            kmax = nt - 1 - (30 * ns) // 20 - 5
            off = rng.randrange(0, 20)
            j = rng.randrange(ns // 2, ns)
            def ask(k):
                u = "/v2/route?origin=-73,44.999991&destination=-73,%.6f&scenario_id=%s&time_of_trip=%d&min_waiting_time=0&max_first_waiting_time=0" % (
                    45 + j * 1e-6 + 0.000009, H.uuid(6, 0), 1000 + 20 * k - off)
                st, hd, body, raw = srv.get(u, timeout=60.0)
                rep.evaluations += 1; stats["scale requests"] += 1
                try: jb = json.loads(body.decode())
                except Exception: jb = None
                routes = ((jb or {}).get("result") or {}).get("routes") if isinstance(jb, dict) else None
                r0 = routes[0] if routes else None
                return u, st, body, (r0 and (r0.get("departureTime"), r0.get("arrivalTime"), len(r0.get("steps", []))))
            k0 = (30 * ns) // 20 + 10                  # past the start-up zone of the timetable (earlier trips are further down the line)
            u0, st0, body0, a0 = ask(k0)
            if not a0:
                rep.direct.append(("scale-answer-differs", "line file of %d stops x %d trips: GET %s finds no route: %s %s" % (ns, nt, u0[:160], st0, (body0 or b"")[:200].replace(b"\n", b" ")), head + "get %s\n" % u0)); continue
            for k in [kmax, kmax - 1, nt // 2] + [rng.randrange(k0 + 1, kmax) for _ in range(5)]:
                u, st, body, a = ask(k)
                want = (a0[0] + 20 * (k - k0), a0[1] + 20 * (k - k0), a0[2])
                if a != want:
                    stats["scale answer differs"] += 1
                    rep.direct.append(("scale-answer-differs",
                        "line file of %d stops x %d trips with a 20 s headway: the request made at %d leaves at %d and arrives at %d (%d steps), so the one made %d s later "
                        "should leave at %d and arrive at %d; GET %s answered %s %s; server log: %s" % (
                            ns, nt, 1000 + 20 * k0 - off, a0[0], a0[1], a0[2], 20 * (k - k0), want[0], want[1], u[:170], st, (body or b"")[:160].replace(b"\n", b" "),
                            " | ".join(l for l in srv.output().splitlines() if "rror" in l and "dataSources" not in l)[:300]), head + "get %s\nget %s\n" % (u0, u)))
                    break
                rep.nontrivial.add(hash(("scale", ns, nt, k, j)))
            if not srv.alive() or srv.sanitizer_output():
                rep.direct.append(("scale-crash", "server died / sanitizer report on a large line file: %s" % srv.sanitizer_output()[:300], head))
        except Exception as e:
            rep.obligation("scale-leg(C16)", False, "the scale leg failed to run: %r" % (e,)); return
        finally:
            if srv: srv.stop()
            shutil.rmtree(cdir, ignore_errors=True)
    rep.obligation("http:long-line-many-trips-answered-like-the-dataset", len(rep.direct) == n0, "%d difference(s)" % (len(rep.direct) - n0))


def run_c16(tier, seed, replay=None, theorems=None, module=None):
    ths = theorems or []
    rep = core.Report("C16", tier, seed, level="proof" if ths else "exploration")
    rep.rule = C16_RULE
    rep.assumptions = [
        "the walking router is a table: the stub answers every stop the client sends with the table's (time, distance) or 100000 s; "
        "non-positive access / egress maxima are replaced by 50000 s (the OSRM protocol cannot express 'unreachable' under 'no limit')",
        "byte level of Cap'n Proto (packing, pointers) is trusted; cachegen writes with the repository's own compiled schemas",
        "stops lie 1 micro-degree apart so that the client's bird-distance pre-filter passes every stop (checked on every router request)",
    ]
    stats = collections.Counter()
    try:
        model = core.lean_phase(rep, module if ths else None, ths, thorough=(tier == "thorough"))
        if replay and "#!loader" in open(replay).read():
            text = open(replay).read()
            loader_corr.run_leg(rep, model, seed, tier, "valid", replay_text=text[text.index("#!loader"):])
            return rep.finish()
        if replay and "#!c16scale" in open(replay).read():
            server = core.harness_phase(rep, "server", "asan"); cachegen = core.harness_phase(rep, "cachegen", "plain")
            if server and cachegen:
                c16_scale_leg(rep, seed, tier, stats, server, cachegen)
                for sig, desc, txt in rep.direct: print("replay scale leg: %s" % desc[:600])
            return rep.finish()
        if not replay:
            loader_corr.run_leg(rep, model, seed, tier, "valid")
        impl = core.harness_phase(rep, "core", "asan")
        server = core.harness_phase(rep, "server", "asan")
        cachegen = core.harness_phase(rep, "cachegen", "plain")
        if not model or not impl or not server or not cachegen:
            return rep.finish()
        cases = []
        if replay:
            text = open(replay).read()
            cur = []
            for line in text.splitlines(True):
                if line.startswith("#"): continue
                cur.append(line)
                if line.strip() == "end":
                    did, d, reqs, _ = gen.parse_protocol("".join(cur)); cur = []
                    d["acc"] = sorted(d["acc"]); d["egr"] = sorted(d["egr"])
                    rq = []
                    for r in reqs:
                        k, q = gen.parse_query(r)
                        if k in ("route", "accessibility", "summary"):
                            rq.append((k, c16_sanitise_query(q)))
                    cases.append(dict(did=re.sub(r"[^A-Za-z0-9_.-]", "_", did), d=d, reqs=rq, stream="replay"))
        else:
            n = C16_N["thorough" if tier == "thorough" else "quick"]
            for k in range(n):
                c = c16_plan(seed, k)
                bad = c16_wellformed(c["d"])
                if bad:
                    stats["skipped-not-encodable"] += 1
                    rep.notes.append("dataset %s skipped: %s" % (c["did"], bad[0]))
                    continue
                cases.append(c)
        # abstract-dataset side: in-process harness + Lean model
        flat = [(c["did"], block_text(c["did"], c["d"], c["reqs"]), [k for k, q in c["reqs"]]) for c in cases]
        t0 = time.time()
        res = engine.run_cases(flat, impl, model)
        t_inproc = time.time() - t0
        # loaded-data side: real binary over HTTP, several servers side by side
        t0 = time.time()
        with ThreadPoolExecutor(max_workers=PAR) as ex:
            served = list(ex.map(lambda c: c16_serve(c, server, cachegen), cases))
        t_http = time.time() - t0
        for c, sv in zip(cases, served):
            did, d, reqs = c["did"], c["d"], c["reqs"]
            r = res[did]
            stats["stream " + c["stream"]] += 1
            whole = block_text(did, d, reqs)
            if sv["startup"]:
                rep.direct.append(("server-startup", "real server did not start on a generated well-formed cache directory: " + sv["startup"][:300], whole))
                continue
            if sv.get("died") or (sv["san"] and sv["rc"] not in (-15, 0)):
                rep.direct.append(("server-crash", "real server died / sanitizer report while serving a well-formed dataset (rc=%s): %s" % (sv["rc"], sv["san"][:400]), whole))
            elif sv["san"]:
                rep.direct.append(("sanitizer", "sanitizer report of the real server: " + sv["san"][:400], whole))
            if sv["stub_bad"]:
                stats["router-request-without-all-stops"] += len(sv["stub_bad"])
                rep.corr.append(("router-stub-sees-all-stops", "the OSRM client did not send every stop (table model of the router not applicable): %s" % (sv["stub_bad"][:2],), whole))
            if r["impl_fail"]:
                rep.direct.append(("impl-crash", "in-process implementation crashed / hung: " + r["impl_fail"][:300], whole)); continue
            if r["model_fail"]:
                rep.corr.append(("model-driver", r["model_fail"], whole)); continue
            for i, (kind, q) in enumerate(reqs):
                one = block_text(did, d, [(kind, q)])
                if i >= len(sv["answers"]):
                    rep.direct.append(("no-answer", "request not sent: the server was gone", one)); continue
                a = sv["answers"][i]
                rep.evaluations += 1
                if a["status"] is None:
                    rep.direct.append(("no-response", "no HTTP response (%s) for %s" % (a["headers"].get("_error"), a["url"]), one)); continue
                cl = a["headers"].get("content-length")
                if a["status"] != 200 or cl is None or int(cl) != len(a["body"]):
                    rep.direct.append(("http-malformed", "status %s, Content-Length %s, %d body bytes for %s" % (a["status"], cl, len(a["body"]), a["url"]), one)); continue
                ht, hj, err = http_canon(kind, a["body"])
                if err:
                    rep.direct.append(("http-body", "%s (%s)" % (err, a["url"]), one)); continue
                it, mt = r["impl"][i], r["model"][i]
                pa = canon.parse_answer(ht)
                stats["%s %s" % (kind, pa.get("status"))] += 1
                if "!!INCONSISTENT" in ht:
                    rep.direct.append(("loaded-names-differ", "a name / code / uuid / coordinate in the HTTP answer does not belong to the object it is attached to: " + ht[-200:], one))
                if not _same_answer(ht, it):
                    stats["http-vs-inmemory-mismatch"] += 1
                    rep.direct.append(("loaded-data-differs", "answer of the server on the cache files differs from the in-memory answer on the dataset they encode: http=%s in-memory=%s" % (ht[:220], (it or "none")[:220]), one))
                elif not _same_answer(ht, mt):
                    stats["http-vs-model-mismatch"] += 1
                    rep.corr.append(("projection(C16)", "server on cache files and in-memory implementation agree, the Lean model differs: impl=%s model=%s" % (ht[:200], (mt or "none")[:200]), one))
                if pa.get("status") == "success":
                    n = O.norm(q)
                    if kind == "route":
                        for rt in pa.get("routes", []):
                            errs = [e for e in O.check_itinerary(d, n, rt) if not e.startswith("C02")]
                            if errs:
                                rep.direct.append(("invalid-itinerary", "itinerary returned on loaded data is not travellable on the encoded dataset: " + "; ".join(errs[:3]), one))
                        derr = c16_distance_errors(d, pa)
                        if derr:
                            rep.direct.append(("distance-differs", "reported distance is not the encoded one: " + "; ".join(derr[:3]), one))
                        stats["routes with >=2 boardings"] += sum(1 for rt in pa.get("routes", []) if sum(1 for s in rt["steps"] if s["action"] == "boarding") >= 2)
                    rep.nontrivial.add(hash((json.dumps(d, sort_keys=True, default=str), ht)))
                    if len(rep.samples) < 3:
                        rep.samples.append(dict(dataset=one, request=a["url"], implementation=ht[:400], in_memory=(it or "")[:400], model=(mt or "")[:400]))
                if replay:
                    print("replay %s #%d %s\n  http     : %s\n  in-memory: %s\n  model    : %s" % (did, i, a["url"], ht, it, mt))
        if not replay:
            c16_scale_leg(rep, seed, tier, stats, server, cachegen)
        rep.cov["input_distribution"] = dict(stats)
        rep.cov["streams"] = dict(C16_STREAMS)
        rep.cov["timing"] = dict(inproc_and_model_s=round(t_inproc, 1), http_s=round(t_http, 1), servers_in_parallel=PAR,
                                 mean_server_lifecycle_s=round(sum(s["t"] for s in served) / max(1, len(served)), 2))
        rep.obligation("correspondence:projection(C16)", not rep.corr, "%d disagreement(s)" % len(rep.corr))
        return rep.finish()
    finally:
        H.cleanup()


# ============================================================================================== C18

REPO = H.hbuild.REPO
NUM_KEYS = ["time_of_trip", "min_waiting_time", "max_travel_time", "max_access_travel_time", "max_egress_travel_time",
            "max_transfer_travel_time", "max_first_waiting_time"]
OPT_NUM_KEYS = NUM_KEYS[1:]
DEFAULTS = {"min_waiting_time": 180, "max_access_travel_time": 1200, "max_egress_travel_time": 1200,
            "max_transfer_travel_time": 1200, "max_first_waiting_time": 1800}
INT_MAX = 2147483647
UPDATE_NAME_KEYS = ("names", "caches", "cache_names", "name", "cache", "cache_name")
UPDATE_PATH_KEYS = ("path", "custom_path", "custom_cache_path")
UPDATE_KNOWN = {"data_sources", "persons", "od_trips", "agencies", "services", "nodes", "lines", "paths", "scenarios", "schedules", "all"}
C18_N = {"quick": 6000, "thorough": 60000}        # random query strings (the systematic catalogue comes on top)
C18_RULE = ("raw-socket GETs to the real ASan server binary: a systematic catalogue (every documented parameter absent / duplicated / "
            "malformed / extreme, every endpoint) + seeded random query strings with percent-encoding, upper-case keys and duplicates, on a "
            "ready server (Euclidean geofilter), on two not-ready servers (empty cache directory, cache without schedules) and /updateCache "
            "requests with known / unknown / empty / mixed names; defaults and 'non-positive = no limit' by comparing bodies; "
            "non-trivial = a request carrying at least one defect or non-default feature that got a well-formed response; distinct = distinct URL")


def documented_codes():
    """error-code enums read from /repo/docs/APIv2 (so that an edited documentation is followed): returns
    (route/summary query_error codes, accessibility query_error codes, data_error codes) or raises"""
    def enums(path):
        out, cur = [], None
        for line in open(path, encoding="utf-8"):
            m = re.match(r"\s*-\s*'?([A-Z][A-Z_]+)'?,?\s*(#.*)?$", line)
            if m:
                if cur is None:
                    cur = []; out.append(cur)
                cur.append(m.group(1))
            elif line.strip() and not line.strip().startswith("#"):
                cur = None
        return out
    common = enums(os.path.join(REPO, "docs/APIv2/commonResponse.yml"))
    acc = enums(os.path.join(REPO, "docs/APIv2/accessibilityResponse.yml"))
    q = [e for e in common if "MISSING_PARAM_ORIGIN" in e]
    de = [e for e in common if "DATA_ERROR" in e]
    qa = [e for e in acc if "MISSING_PARAM_PLACE" in e]
    if not q or not de or not qa:
        raise RuntimeError("could not find the documented error-code enums")
    return set(q[0]), set(qa[0]), set(de[0])


# ---------------------------------------------------------------- what the server sees in a URL

def pct_decode(v):
    """SimpleWeb::Percent::decode (utility.hpp:88): %XX via strtol(.., 16) when two more characters follow, '+' -> ' '"""
    b = v.encode("latin-1", "replace"); out = bytearray(); i = 0
    while i < len(b):
        c = b[i]
        if c == 0x25 and i + 2 < len(b):
            m = re.match(rb"[ \t\n\v\f\r]*[+-]?(?:0[xX])?[0-9a-fA-F]*", b[i + 1:i + 3])
            try: val = int(m.group(0).strip() or b"0", 16)
            except ValueError: val = 0
            out.append(val & 0xFF); i += 3
        elif c == 0x2B:
            out.append(0x20); i += 1
        else:
            out.append(c); i += 1
    return out.decode("latin-1")


def server_parse_query(qs):
    """SimpleWeb::QueryString::parse: fields split at '&', name up to the first '=', names NOT decoded, empty names dropped"""
    out = []
    for part in qs.split("&"):
        name, _, val = part.partition("=")
        if name:
            out.append((name, pct_decode(val)))
    return out


def stoi_model(v):
    """std::stoi: ('ok'|'lenient'|'prefix'|'range'|'nonnumeric', value).  ok = plain -?digits; lenient = forms stoi consumes
    completely although they are not plain integers (leading white space, '+'); prefix = trailing garbage ignored"""
    m = re.match(r"[ \t\n\v\f\r]*([+-]?\d+)", v)
    if not m: return "nonnumeric", None
    if len(m.group(1).lstrip("+-").lstrip("0")) > 12: return "range", None
    n = int(m.group(1))
    if not -2 ** 31 <= n < 2 ** 31: return "range", None
    if m.end() < len(v): return "prefix", n
    if re.fullmatch(r"-?\d+", v): return "ok", n
    return "lenient", n


_FLOAT = re.compile(r"[ \t\n\v\f\r]*[+-]?(?:0[xX](?:[0-9a-fA-F]+\.?[0-9a-fA-F]*|\.[0-9a-fA-F]+)(?:[pP][+-]?\d+)?|(?:\d+\.?\d*|\.\d+)(?:[eE][+-]?\d+)?|"
                    r"[iI][nN][fF](?:[iI][nN][iI][tT][yY])?|[nN][aA][nN](?:\([0-9A-Za-z_]*\))?)")


def coord_model(v):
    """('ok'|'lenient'|'prefix'|'invalid', (lon, lat) | None) for an origin / destination / place value"""
    parts = v.split(",")
    if len(parts) != 2: return "invalid", None
    garbage = False
    for p in parts:
        m = _FLOAT.match(p)
        if not m: return "invalid", None
        if m.end() < len(p): garbage = True
    if garbage: return "prefix", None
    if all(re.fullmatch(r"-?\d+(\.\d+)?", p) for p in parts):
        return "ok", (float(parts[0]), float(parts[1]))
    try: val = (float(parts[0]), float(parts[1]))
    except ValueError: val = None
    return "lenient", val


def scen_model(v, known, empty):
    if v in known: return "ok"
    if v in empty: return "empty"
    if re.fullmatch(r"[0-9a-f]{8}-[0-9a-f]{4}-[0-9a-f]{4}-[0-9a-f]{4}-[0-9a-f]{12}", v): return "unknown"
    v2 = v.strip("{}").replace("-", "")
    if re.fullmatch(r"[0-9a-fA-F]{32}", v2): return "lenient"       # spellings boost::uuids::string_generator also reads
    return "malformed"


def analyse(endpoint, pairs, known, empty):
    """defects of a request as the specification sees them.  Returns (must, may, info): must = defects that demand HTTP 400,
    may = defects whose effect depends on the (unspecified) iteration order of duplicated keys or that the statement leaves
    open; each defect = (class, set of documented codes that name it)."""
    must, may = [], []
    vals = collections.defaultdict(list)
    for k, v in pairs:
        vals[k].append(v)
    info = dict(times=set(), time_type=1 if "1" in vals.get("time_type", []) else 0, coords={}, features=set())
    coord_keys = [("place", "PLACE")] if endpoint == "accessibility" else [("origin", "ORIGIN"), ("destination", "DESTINATION")]
    for key, up in coord_keys:
        vs = vals.get(key, [])
        if not vs:
            must.append(("missing-" + key, {"MISSING_PARAM_" + up})); continue
        info["coords"][key] = []
        for v in vs:
            c, val = coord_model(v)
            if c == "invalid": must.append(("invalid-" + key, {"INVALID_" + up}))
            elif c == "prefix": must.append(("prefix-" + key, {"INVALID_" + up}))
            elif c == "lenient": may.append(("lenient-" + key, {"INVALID_" + up}))
            if val is not None: info["coords"][key].append(val)
            if c != "ok": info["features"].add(c + "-coordinate")
    ts = vals.get("time_of_trip", [])
    if not ts:
        must.append(("missing-time", {"MISSING_PARAM_TIME_OF_TRIP"}))
    else:
        cls = [stoi_model(v) for v in ts]
        neg = [c for c in cls if c[0] in ("ok", "lenient") and c[1] < 0]
        good = [c for c in cls if c[0] in ("ok", "lenient") and c[1] >= 0]
        for c, n in cls:
            if c in ("nonnumeric", "range"): must.append(("nonnumeric-time", {"INVALID_NUMERICAL_DATA"}))
            elif c == "prefix": must.append(("prefix-time", {"INVALID_NUMERICAL_DATA"}))
            elif c == "lenient": may.append(("lenient-time", {"INVALID_NUMERICAL_DATA"}))
            if c != "ok": info["features"].add(c + "-time")
        if neg:
            (must if not good else may).append(("negative-time", {"MISSING_PARAM_TIME_OF_TRIP", "INVALID_NUMERICAL_DATA"}))
            info["features"].add("negative-time")
        info["times"] = set(n for c, n in good)
    for key in OPT_NUM_KEYS:
        for v in vals.get(key, []):
            c, n = stoi_model(v)
            if c != "ok":
                may.append((c + "-optional", {"INVALID_NUMERICAL_DATA"})); info["features"].add(c + "-optional")
            elif n <= 0 or n >= 2 ** 31 - 1: info["features"].add("extreme-optional")
    ss = vals.get("scenario_id", [])
    if not ss:
        must.append(("missing-scenario", {"MISSING_PARAM_SCENARIO"}))
    else:
        cls = [scen_model(v, known, empty) for v in ss]
        usable = [c for c in cls if c in ("ok", "empty", "lenient")]
        for c in cls:
            # a malformed id is an id no scenario has: with a duplicated key it demands a 400 only when no
            # other occurrence names a usable scenario (the server reads the pairs in hash order, DESIGN C18)
            if c == "malformed": (must if not usable else may).append(("malformed-scenario", {"MISSING_PARAM_SCENARIO"}))
            if c != "ok": info["features"].add(c + "-scenario")
        if not usable and "malformed" not in cls:
            must.append(("unknown-scenario", {"MISSING_PARAM_SCENARIO"}))
        if "lenient" in cls: may.append(("lenient-scenario", {"MISSING_PARAM_SCENARIO"}))
        if "unknown" in cls and usable: may.append(("unknown-scenario", {"MISSING_PARAM_SCENARIO"}))
        if "empty" in cls:
            (must if set(cls) <= {"empty", "unknown"} else may).append(("empty-scenario", {"EMPTY_SCENARIO"}))
    for k, v in vals.items():
        if len(v) > 1: info["features"].add("duplicate-key")
        if k != k.lower(): info["features"].add("upper-case-key")
        if "%" in k: info["features"].add("encoded-key")
    return must, may, info


# PARAM_ERROR_UNKNOWN is attributed to the defect the parser meets first (place before the common parameters); forms the
# current parser accepts (lenient / prefix) are considered last
PARAM_UNKNOWN_SIGNATURE = [("invalid-place", "invalid-place-code"), ("missing-place", "missing-place-code"),
                           ("malformed-scenario", "malformed-scenario-id-code"), ("lenient-place", "invalid-place-code"),
                           ("prefix-place", "invalid-place-code")]


def classify_route_response(endpoint, url, st, hd, body, ready, known, empty, codes):
    """all the clauses of C18 that can be decided without a model, for one response of /v2/route|summary|accessibility.
    Returns (list of (signature, description), parsed json | None, features)"""
    qcodes, qcodes_acc, dcodes = codes
    doc = qcodes_acc if endpoint == "accessibility" else qcodes
    fails = []
    qs = url.split("?", 1)[1] if "?" in url else ""
    pairs = server_parse_query(qs)
    must, may, info = analyse(endpoint, pairs, known, empty)
    if st not in (200, 400):
        return [("bad-status-line", "status line %r is neither 200 nor 400" % hd.get("_status_line"))], None, info
    cl = hd.get("content-length")
    if cl is None or not cl.isdigit() or int(cl) != len(body):
        fails.append(("content-length-mismatch", "Content-Length %s but %d body bytes follow the header" % (cl, len(body))))
    try:
        j = json.loads(body.decode("utf-8"))
        if not isinstance(j, dict): raise ValueError("not an object")
    except Exception as e:
        return fails + [("body-not-json", "body does not parse as a JSON object (%s): %r" % (str(e)[:60], body[:120]))], None, info
    status = j.get("status")
    if st == 400:
        code = j.get("errorCode")
        if status != "query_error":
            fails.append(("bad-400-body", "HTTP 400 with status %r" % status))
        elif code not in doc:
            fails.append(("undocumented-error-code", "errorCode %r is not in the documented enum of %s" % (code, endpoint)))
        elif not must and not may:
            fails.append(("spurious-400", "HTTP 400 %s for a request without any defect" % code))
        elif code == "PARAM_ERROR_UNKNOWN":
            classes = [c for c, _ in must + may]
            named = sorted(set(x for _, cs in must + may for x in cs))
            sig = next((s for c, s in PARAM_UNKNOWN_SIGNATURE if c in classes), "param-error-unknown")
            fails.append((sig, "answered PARAM_ERROR_UNKNOWN although the request's defect (%s) has a documented specific code (%s)" % (", ".join(sorted(set(classes))), "/".join(named))))
        elif not any(code in cs for _, cs in must + may):
            fails.append(("wrong-error-code", "errorCode %s names a defect the request does not have (its defects: %s)" % (code, ", ".join(sorted(set(c for c, _ in must + may))))))
        return fails, j, info
    # ---- HTTP 200
    if status not in ("success", "no_routing_found", "data_error"):
        fails.append(("bad-200-status", "HTTP 200 with status %r" % status)); return fails, j, info
    if status == "data_error":
        if ready:
            fails.append(("data-error-on-ready-data", "data_error %r on a server whose data is complete" % j.get("errorCode")))
        elif j.get("errorCode") not in dcodes:
            fails.append(("undocumented-error-code", "data_error code %r is not documented" % j.get("errorCode")))
        return fails, j, info           # the fast path answers before parsing: no claim about the parameters
    if must:
        classes = sorted(set(c for c, _ in must))
        if any(c.startswith("prefix-") for c in classes):
            fails.append(("numeric-prefix-accepted", "HTTP 200 %s although a required parameter is malformed (%s): a numeric prefix was accepted and the rest ignored" % (status, ", ".join(classes))))
        else:
            fails.append(("defect-accepted", "HTTP 200 %s although the request has a defect that demands HTTP 400: %s" % (status, ", ".join(classes))))
        return fails, j, info
    q = j.get("query")
    if not isinstance(q, dict):
        fails.append(("echo-mismatch", "no `query` object in a %s answer" % status)); return fails, j, info
    if info["times"] and q.get("timeOfTrip") not in info["times"]:
        fails.append(("echo-mismatch", "query.timeOfTrip %r, request said %s" % (q.get("timeOfTrip"), sorted(info["times"]))))
    if q.get("timeType") != info["time_type"]:
        fails.append(("echo-mismatch", "query.timeType %r, request said %d" % (q.get("timeType"), info["time_type"])))
    for key, vs in info["coords"].items():
        e = q.get(key)
        if vs and not (isinstance(e, list) and len(e) == 2 and any(
                all((a == b) or (a != a and b is None) or (isinstance(b, (int, float)) and abs(a - b) <= 1e-9 * max(1.0, abs(a))) for a, b in zip(v, e)) for v in vs)):
            if all(all(abs(x) < 1e300 and x == x for x in v) for v in vs):      # inf / nan do not survive JSON; no claim
                fails.append(("echo-mismatch", "query.%s %r, request said %s" % (key, e, vs[:2])))
    return fails, j, info


def analyse_update(url):
    """(names given (as the handler sees them), custom path, has_quote)"""
    qs = url.split("?", 1)[1] if "?" in url else ""
    names, path = [], ""
    for k, v in server_parse_query(qs):
        v1 = (k + "=" + v).split("=")[1]          # the handler re-splits "key=value" at every '='
        if k in UPDATE_NAME_KEYS: names += v1.split(",")
        elif k in UPDATE_PATH_KEYS: path = v1
    return names, path


def utf8_view(v):
    """how a byte string of the server (here: latin-1 str, one char per byte) reads back from a JSON text written with
    error_handler_t::replace: decoded as UTF-8, every run of undecodable bytes collapsed to one U+FFFD"""
    t = v.encode("latin-1", "replace").decode("utf-8", "replace")
    return re.sub("\ufffd+", "\ufffd", t)


def classify_update_response(url, st, hd, body):
    names, path = analyse_update(url)
    known = [n for n in names if n in UPDATE_KNOWN]
    fails = []
    if st != 200:
        return [("bad-status-line", "status line %r for /updateCache" % hd.get("_status_line"))], None
    cl = hd.get("content-length")
    if cl is None or not cl.isdigit() or int(cl) != len(body):
        fails.append(("content-length-mismatch", "Content-Length %s but %d body bytes" % (cl, len(body))))
    try:
        j = json.loads(body.decode("utf-8"))
        if not isinstance(j, dict): raise ValueError("not an object")
    except Exception as e:
        quoted = any('"' in n or "\\" in n or any(ord(ch) < 32 for ch in n) for n in names + [path])
        return fails + [("updatecache-unescaped-json" if quoted else "body-not-json",
                         "body of /updateCache is not JSON%s: %r" % (" (a name / path containing a double quote, backslash or control character is pasted unescaped)" if quoted else "", body[:160]))], None
    quoted = any('"' in n or "\\" in n or any(ord(ch) < 32 for ch in n) for n in names + [path])
    if known:
        if j.get("status") != "success":
            fails.append(("updatecache-wrong-object", "known cache name(s) %s given but the answer is %r" % (known, j)))
        else:
            listed = [x for x in str(j.get("cache_names", "")).split(",")]
            if sorted(set(listed)) != sorted(set(known)) and quoted and sorted(set(listed)) != sorted(set(names)):
                fails.append(("updatecache-unescaped-json", "cache_names reads back as %r, request said %r (pasted unescaped into the JSON text)" % (listed, names)))
            elif sorted(set(listed)) != sorted(set(known)):
                fails.append(("updatecache-names-unknown-cache", "success object names %s, the caches actually refreshed are %s (an unknown name after a known one is reported as refreshed)" % (listed, known)))
            if re.sub("\ufffd+", "\ufffd", str(j.get("custom_cache_path"))) != utf8_view(path):
                fails.append(("updatecache-unescaped-json" if quoted else "updatecache-wrong-object", "custom_cache_path reads back as %r, request said %r%s" % (
                    j.get("custom_cache_path"), path, " (pasted unescaped into the JSON text)" if quoted else "")))
    elif j.get("status") != "error":
        fails.append(("updatecache-wrong-object", "no known cache name given but the answer is %r" % (j,)))
    return fails, j


# ---------------------------------------------------------------- datasets

def c18_defaults_dataset():
    """hand-made dataset on which every documented default and every 'non-positive = no limit' rule changes the answer.
    94 stops in the 1-micro-degree column; groups A = {0,1}, C = {45..48}, B = {90,91} are 5 m apart, so that (with the
    Euclidean geofilter, 5 km/h, truncation to whole metres / seconds) a query point ~12.4 m south of stop 0 reaches A in
    8 s, C in 12 s, B in 15 s, and symmetrically from the north."""
    ns = 94
    foot = [(s, s, 0, 0) for s in range(ns)] + [(45, 46, 1200, 900), (47, 48, 1201, 901)]
    lines = [(0, 0)] * 6
    paths = [(0, [0, 90], [500]), (1, [0, 45], [200]), (2, [46, 90], [300]), (3, [1, 47], [200]), (4, [48, 91], [300]), (5, [1, 90], [700])]
    T = lambda p, tid, a, b: (p, 0, tid, [a, b], [a, b], [1, 1], [1, 1])
    trips = [T(0, 1, 40000, 40600), T(1, 2, 50000, 50300), T(2, 3, 52000, 52300), T(3, 4, 50000, 50300), T(4, 5, 52000, 52300),
             T(5, 6, 86000, 86500), T(5, 7, 115000, 115190), T(5, 8, 1000, 1500)]
    sc = lambda **kw: dict(dict(services=[0], onlyLines=[], exceptLines=[], onlyAgencies=[], exceptAgencies=[], onlyModes=[], exceptModes=[]), **kw)
    scen = [sc(), sc(onlyLines=[0]), sc(onlyLines=[1, 2]), sc(onlyLines=[3, 4]), sc(services=[]), sc(onlyLines=[5])]
    return dict(ns=ns, nag=1, nsv=1, foot=foot, lines=lines, paths=paths, trips=trips, scenarios=scen, acc=[], egr=[], cacheall=0, profile="c18-defaults")


SOUTH_NEAR = "-73,44.999888"      # 112 micro-degrees south of stop 0
NORTH_NEAR = "-73,45.000203"      # 112 micro-degrees north of stop 91


def c18_generated_dataset(rng):
    d = gen.gen_dataset(rng, rng.choice(["dense", "parallel", "hours", "sparse"]))
    d["scenarios"].append(dict(services=[], onlyLines=[], exceptLines=[], onlyAgencies=[], exceptAgencies=[], onlyModes=[], exceptModes=[]))
    d["cacheall"] = rng.choice([0, 1])
    return d


# ---------------------------------------------------------------- request generation

TIME_ODD = ["0", "86399", "86400", "115199", "115200", "118799", "118800", "2147483647", "2147483646", "-1", "-2147483648", "12abc", "", "abc",
            "%2012", "+5", "%2B5", "1e3", "12.5", "0x10", "2147483648", "-2147483649", "9" * 20, "9" * 400, "1" + "0" * 5000, "%31%32", "3000%00",
            "--5", "5-", "%09%0A7", "0000000000000000000012"]
OPT_ODD = ["0", "-1", "-2147483648", "1", "60", "180", "1200", "1800", "32767", "32768", "65535", "2147483647", "2147483648", "9" * 20, "abc", "",
           "12abc", "1e3", "%2012", "+5", "%2B7"]


def enc_value(rng, v, p=0.15):
    """percent-encode a random subset of the characters of a DECODED value (and everything a request line cannot carry)"""
    out = []
    for ch in v:
        o = ord(ch)
        if o <= 32 or o >= 127 or ch in "%&#+=?\"<>\\^`{|}" or rng.random() < p:
            out.append("%%%02X" % o if rng.random() < 0.5 else "%%%02x" % o)
        else:
            out.append(ch)
    return "".join(out)


def _hex(s):
    return s.encode("latin-1", "replace").hex() or "00"[:0]


def c18_model_compare(rep, model_exe, items, stats, wd):
    """items: (group, url, endpoint, data status the handler consults, known ids, empty ids, record).  Runs the Lean parameter model
    (`trmodel --classify`, Model/Params.lean) on every request whose outcome does not depend on the unknown iteration order of the
    server's hash multimap (no duplicated key; scenario ids spelt canonically) and compares (HTTP status, status, errorCode, echoed time)."""
    if not model_exe or not items: return
    lines, meta = [], []
    cur_env = None
    for g, url, ep, status, known, empty, rec in items:
        qs = url.split("?", 1)[1] if "?" in url else ""
        pairs = server_parse_query(qs)
        keys = [k for k, v in pairs]
        if len(set(k.lower() for k in keys)) != len(keys):
            stats["model: skipped (duplicated key)"] += 1; continue
        if any(k == "scenario_id" and scen_model(v, known, empty) == "lenient" for k, v in pairs):
            stats["model: skipped (lenient uuid spelling)"] += 1; continue
        if any(ord(c) < 0x20 or ord(c) > 0x7e for k, v in pairs for c in k):
            stats["model: skipped (odd key bytes)"] += 1; continue
        env = (tuple(sorted(known)), tuple(sorted(empty)))
        if env != cur_env:
            lines.append("env %s ; %s" % (" ".join(_hex(x) for x in env[0]), " ".join(_hex(x) for x in env[1]))); cur_env = env
        for order in (pairs, pairs[::-1]):
            lines.append("req %s %s %s" % (ep, status, " ".join("%s=%s" % (_hex(k), _hex(v)) for k, v in order)))
        meta.append((g, url, ep, status, rec))
    path = os.path.join(wd, "classify.txt")
    open(path, "w").write("\n".join(lines) + "\n")
    r = subprocess.run([model_exe, "--classify", path], capture_output=True, text=True, timeout=600)
    out = r.stdout.splitlines()
    if r.returncode != 0 or len(out) != 2 * len(meta):
        rep.corr.append(("params-model-driver", "trmodel --classify rc=%d, %d lines for %d requests: %s" % (r.returncode, len(out), 2 * len(meta), r.stderr[-200:]), "")); return
    for i, (g, url, ep, status, rec) in enumerate(meta):
        preds = set(out[2 * i:2 * i + 2])
        if "?" in preds:
            stats["model: undecided coordinate"] += 1; continue
        try: j = json.loads(rec["body"].decode("utf-8", "replace"))
        except Exception: j = None
        if not isinstance(j, dict):
            continue            # malformed bodies are the direct evaluation's business
        if rec["st"] == 400: got = "400 %s" % j.get("errorCode")
        elif j.get("status") == "data_error": got = "dataerror %s" % j.get("errorCode")
        else:
            q = j.get("query") or {}
            got = "200 time=%s tt=%s" % (q.get("timeOfTrip"), q.get("timeType"))
        cmp_preds = set(re.sub(r" alt=\d$", "", p) for p in preds)
        stats["model: compared"] += 1
        stats["model says " + sorted(cmp_preds)[0].split(" time=")[0]] += 1
        if got not in cmp_preds:
            stats["model: DISAGREES"] += 1
            rep.corr.append(("params-model(C18)", "the Lean parameter model classifies GET %s on %s data as %s, the server answered %s" % (
                _short(url), status, sorted(cmp_preds), got), replay_text_c18(g, [url], "params-model")))
    rep.obligation("correspondence:params-model(C18)", not any(c[0].startswith("params-model") for c in rep.corr),
                   "%d request(s) compared" % stats["model: compared"])


class Ctx:
    """what a request generator needs to know about one ready dataset"""
    def __init__(self, d, label):
        self.d, self.label = d, label
        self.known = [H.uuid(6, i) for i, s in enumerate(d["scenarios"]) if s["services"]]
        self.empty = [H.uuid(6, i) for i, s in enumerate(d["scenarios"]) if not s["services"]]
        ts = sorted(set(x for t in d["trips"] for x in t[4]))
        self.times = [str(x) for x in ts[:: max(1, len(ts) // 6)]] + [str(max(0, ts[0] - 300)), str(ts[-1] + 300)]

    def base(self, endpoint, rng=None):
        r = rng or random
        ps = []
        if endpoint == "accessibility":
            ps.append(("place", r.choice([H.ACCESS_POINT, H.EGRESS_POINT])))
        else:
            ps += [("origin", H.ACCESS_POINT), ("destination", H.EGRESS_POINT)]
        ps += [("scenario_id", r.choice(self.known)), ("time_of_trip", r.choice(self.times))]
        return ps


def url_of(endpoint, pairs_encoded):
    return "/v2/%s?%s" % (endpoint, "&".join(k if v is None else "%s=%s" % (k, v) for k, v in pairs_encoded))


def c18_catalogue(ctx):
    """systematic single-feature requests (already-encoded values); every endpoint"""
    urls = []
    K, E, U = ctx.known[0], (ctx.empty[0] if ctx.empty else None), H.uuid(6, 999)
    for ep in ("route", "summary", "accessibility"):
        base = ctx.base(ep, random.Random(1))
        def var(**chg):
            """chg: key -> None (drop) | value | [values] (duplicates) ; extra keys are appended"""
            out = []
            for k, v in base:
                if k in chg:
                    c = chg[k]
                    if c is None: continue
                    for x in (c if isinstance(c, list) else [c]): out.append((k, x))
                else:
                    out.append((k, v))
            for k, c in chg.items():
                if k not in dict(base) and c is not None:
                    for x in (c if isinstance(c, list) else [c]): out.append((k, x))
            urls.append(url_of(ep, out))
        var()
        for t in TIME_ODD: var(time_of_trip=t)
        for t in ("0", "86400", "115199", "115200", "118800", "2147483647"):
            var(time_of_trip=t, time_type="1"); var(time_of_trip=t, time_type="1", alternatives="1"); var(time_of_trip=t, alternatives="true")
        var(time_of_trip=None); var(time_of_trip=["500", "99999"]); var(time_of_trip=["500", "abc"]); var(time_of_trip=["-1", "500"])
        urls.append(url_of(ep, [(k.upper() if k == "time_of_trip" else k, v) for k, v in base]))
        urls.append(url_of(ep, [(k.upper(), v) for k, v in base]))
        urls.append(url_of(ep, [("time%5Fof%5Ftrip" if k == "time_of_trip" else k, v) for k, v in base]))
        urls.append(url_of(ep, [(k, None) if k == "time_of_trip" else (k, v) for k, v in base]))        # key without '='
        for ck in (["place"] if ep == "accessibility" else ["origin", "destination"]):
            good = dict(base)[ck]
            for v in (None, "1", "1,2,3", "abc,def", "", ",", ",45", "-73,", "-73.000001x,45.000005", "-73.000001,45.000005abc", "%20-73.000001,45.000005",
                      "-73.000001%2C45.000005", "-7.3000001e1,45.000005", "+73,45", "1e999,45", "nan,45", "inf,inf", "-73;45", "-73.000001,45.000005,", "0x1p3,45",
                      "-73.000001%2045.000005", "181,91", "-73.000001,45.000005%00"):
                var(**{ck: v})
            var(**{ck: [good, good]}); var(**{ck: [good, "abc"]})
            urls.append(url_of(ep, [(k.capitalize() if k == ck else k, v) for k, v in base]))
        for v in (None, U, "abc", "", "1234", K.upper(), "%7B" + K + "%7D", K.replace("-", ""), K + "x", K[:-1], "x" + K, K.replace("-", "%2D"), "g" * 36,
                  "00000000-0000-0000-0000-000000000000", "%00", K + "%00"):
            var(scenario_id=v)
        if E: var(scenario_id=E)
        if len(ctx.known) > 1: var(scenario_id=[ctx.known[0], ctx.known[1]])
        for key in OPT_NUM_KEYS:
            for v in OPT_ODD: var(**{key: v})
            var(**{key: ["0", "100"]})
        for v in ("0", "1", "2", "abc", "", "-1", "01", "%31"): var(time_type=v)
        var(time_type=["0", "1"])
        if ep != "accessibility":
            for v in ("1", "true", "0", "false", "TRUE", "yes", ""): var(alternatives=v)
        var(foo="bar"); var(**{"": "x"}); var(origin_=None)
        # bytes that are not UTF-8 (a JSON writer that throws on them must not leave the request unanswered), and valid multi-byte UTF-8
        for hb in ("%ff", "%c3%28", "%e2%82", "%c3%a9"):
            var(scenario_id=hb); var(scenario_id=K + hb); var(time_of_trip=hb); var(time_of_trip="500" + hb); var(foo=hb); var(**{"k" + hb: "1"})
            var(**{("place" if ep == "accessibility" else "origin"): hb}); var(max_travel_time=hb)
            if ep != "accessibility": var(alternatives=hb)
        urls += ["/v2/%s" % ep, "/v2/%s?" % ep, "/v2/%s/?%s" % (ep, url_of(ep, base).split("?")[1]), "/v2/%s?&&&" % ep, "/v2/%s?=&=&" % ep,
                 "/v2/%s?%s" % (ep, "&".join("k%d=v" % i for i in range(300))), url_of(ep, base) + "&" + "x" * 20000]
    return urls


def c18_random(ctx, rng):
    ep = rng.choice(["route", "route", "summary", "accessibility"])
    ps = []
    K = ctx.known
    def coord():
        r = rng.random()
        if r < 0.8: return rng.choice([H.ACCESS_POINT, H.EGRESS_POINT, "-73,45", "-73.0001,45.0001", "-73,45.5", "0,0", "-73.000000,45.000003"])
        return rng.choice(["1", "1,2,3", "abc", "", "-73x,45", "-73,45y", " -73,45", "+73,45", "1e2,4e1", "nan,nan", ",", "-73,45,", "--73,45"])
    for key in (["place"] if ep == "accessibility" else ["origin", "destination"]):
        if rng.random() < 0.93:
            ps.append((key, coord()))
            if rng.random() < 0.05: ps.append((key, coord()))
    if rng.random() < 0.93:
        r = rng.random()
        ps.append(("scenario_id", rng.choice(K) if r < 0.85 else rng.choice([H.uuid(6, 999), "abc", "", rng.choice(K).upper(), rng.choice(K)[:-2]] + ctx.empty)))
        if rng.random() < 0.04: ps.append(("scenario_id", rng.choice(K)))
    if rng.random() < 0.93:
        r = rng.random()
        tv = rng.choice(ctx.times) if r < 0.6 else str(rng.choice([0, 1, 3599, 3600, 86399, 86400, 115199, 115200, 118799, 118800, 2147483647, rng.randrange(0, 120000)])) if r < 0.85 else pct_decode(rng.choice(TIME_ODD))
        ps.append(("time_of_trip", tv))
        if rng.random() < 0.05: ps.append(("time_of_trip", rng.choice(ctx.times + ["abc", "-1", "7x"])))
    if rng.random() < 0.6: ps.append(("time_type", rng.choice(["0", "1", "1", "2", ""])))
    for key in OPT_NUM_KEYS:
        if rng.random() < 0.3:
            ps.append((key, pct_decode(rng.choice(OPT_ODD)) if rng.random() < 0.7 else str(rng.randrange(-5, 4000))))
            if rng.random() < 0.05: ps.append((key, str(rng.randrange(0, 500))))
    if ep != "accessibility" and rng.random() < 0.3: ps.append(("alternatives", rng.choice(["1", "true", "0", "false", "x"])))
    if rng.random() < 0.1: ps.append((rng.choice(["foo", "Origin", "PLACE", "time-of-trip", "scenario", "max_travel_time_"]), rng.choice(["1", "", "-73,45"])))
    rng.shuffle(ps)
    enc = []
    for k, v in ps:
        if rng.random() < 0.03: k = k.upper()
        enc.append((k, enc_value(rng, v, p=rng.choice([0, 0, 0.1, 1.0]))))
    return url_of(ep, enc)


UPDATE_CATALOGUE = [
    "/updateCache", "/updateCache?", "/updateCache?foo=bar", "/updateCache/", "/updateCache?path=x",
    "/updateCache?names=agencies", "/updateCache?names=all", "/updateCache?names=nodes,lines", "/updateCache?name=services", "/updateCache?caches=paths,scenarios,schedules",
    "/updateCache?cache_names=data_sources,persons,od_trips", "/updateCache?cache=agencies&cache_name=services", "/updateCache/?names=nodes",
    "/updateCache?names=agencies%2Cservices", "/updateCache?names=schedules&path=", "/updateCache?NAMES=agencies",
    "/updateCache?names=foo", "/updateCache?names=", "/updateCache?names=,", "/updateCache?names=foo,bar", "/updateCache?names=Agencies", "/updateCache?names=%20agencies",
    "/updateCache?name=foo&path=x", "/updateCache?names",
    "/updateCache?names=foo,agencies", "/updateCache?names=agencies,foo", "/updateCache?names=agencies,,services", "/updateCache?names=agencies,", "/updateCache?names=,agencies",
    "/updateCache?names=agencies&names=foo", "/updateCache?names=all,foo",
    "/updateCache?names=agencies&path=a%22b", "/updateCache?names=agencies,%22x", "/updateCache?names=agencies&path=a%5Cb", "/updateCache?names=agencies&path=a%0Ab",
    "/updateCache?names=agencies&custom_path=%7B%22x%22%3A1%7D", "/updateCache?names=agencies=x", "/updateCache?names=agencies&path=nonexistent-directory",
    "/updateCache?names=agencies&path=" + "p" * 3000,
    # bytes that are not UTF-8 (the answer echoes the path; a JSON writer that throws on them leaves the request unanswered), and valid multi-byte UTF-8
    "/updateCache?names=agencies&path=%ff", "/updateCache?names=agencies&path=a%c3%28b", "/updateCache?names=nodes&custom_path=%fe%fe%fe", "/updateCache?names=agencies&path=%c3%a9t%c3%a9",
    "/updateCache?names=agencies%ff", "/updateCache?names=%ff,agencies", "/updateCache?names=agencies&path=%e2%82",
]


# ---------------------------------------------------------------- running request lists against a (restartable) server

class Group:
    """one server configuration + its request list; restarts the server when a request kills or wedges it"""
    def __init__(self, name, cache_dir, server_exe, ready, threads=2, cache_all=False, recipe=""):
        self.name, self.cache_dir, self.exe, self.ready, self.threads, self.cache_all = name, cache_dir, server_exe, ready, threads, cache_all
        self.recipe = recipe            # replay header: how to rebuild this server
        self.srv = None
        self.restarts = 0
        self.records = []               # dict(url, st, hd, body, died, san)
        self.final_san = ""

    def start(self):
        self.srv = H.start_server(self.cache_dir, threads=self.threads, cache_all=self.cache_all, euclid=True, exe=self.exe, tag=self.name)
        if self.srv is None or not self.srv.alive() or getattr(self.srv, "ready_s", None) is None:
            raise RuntimeError("server of group %s did not start: %s" % (self.name, self.srv.output()[-400:] if self.srv else ""))

    def stop(self):
        if self.srv is not None:
            died = not self.srv.alive()
            rc, san = self.srv.stop()
            self.srv = None
            return rc, san, died
        return None, "", False

    def send(self, url, timeout=6.0):
        if not re.fullmatch(r"[\x21-\x7e]+", url):
            raise ValueError("generator bug: URL contains a character a request line cannot carry: %r" % url[:200])
        if self.srv is None:
            self.start()
        st, hd, body, raw = self.srv.get(url, timeout=timeout)
        rec = dict(url=url, st=st, hd=hd, body=body, died=False, san="", hang=False)
        if st is None:
            # no response: did the process die (give the sanitizer time to finish its report)?  or is it wedged?
            t0 = time.time()
            while self.srv.alive() and time.time() - t0 < (3.0 if hd.get("_error") != "timeout" else 0.2):
                time.sleep(0.05)
                if hd.get("_error") == "closed" and time.time() - t0 > 0.6 and H.http_get(self.srv.port, "/verif-probe", timeout=1.0)[0] == 200:
                    break                 # connection was closed without a response, the server lives on
            if not self.srv.alive():
                rc, san, _ = self.stop()
                rec.update(died=True, san=san or "exit code %s, no sanitizer text" % rc, rc=rc)
                self.restarts += 1
            elif hd.get("_error") == "timeout":
                # confirm on a fresh server with a longer time-out before calling it a hang
                self.stop(); self.restarts += 1; self.start()
                st2, hd2, body2, _ = self.srv.get(url, timeout=20.0)
                if st2 is None and hd2.get("_error") == "timeout":
                    rec["hang"] = True
                    self.stop(); self.restarts += 1
                else:
                    rec.update(st=st2, hd=hd2, body=body2); rec["slow_first_try"] = True
        self.records.append(rec)
        return rec

    def run(self, urls, max_restarts=1000):
        self.error = None
        try:
            for u in urls:
                if self.restarts > max_restarts:
                    self.records.append(dict(url=u, skipped=True)); continue
                self.send(u)
        except Exception as e:            # e.g. the server does not start at all on this cache directory
            self.error = "%s: %s" % (type(e).__name__, e)
        finally:
            rc, san, died = self.stop()
            self.final_san = san if (san and rc not in (None,)) else ""
        return self


def replay_text_c18(group, urls, note=""):
    head = "# C18 replay: %s\nserver %s\n" % (note, group.recipe.split("\n", 1)[0])
    rest = group.recipe.split("\n", 1)[1] if "\n" in group.recipe else ""
    return head + rest + "".join("GET %s\n" % u for u in urls)


def _short(url, n=160):
    return url if len(url) <= n else url[:n - 20] + "...(%d chars)" % len(url)


def run_c18(tier, seed, replay=None, theorems=None, module=None):
    ths = theorems or []
    rep = core.Report("C18", tier, seed, level="proof" if ths else "exploration")
    rep.rule = C18_RULE
    rep.assumptions = [
        "transport (one response per request, Content-Length) is Simple-Web-Server's: observed on every request, not modelled",
        "a request carrying several defects, or a duplicated key, may be answered with the code of ANY of its defects / with ANY of the duplicated values "
        "(the server iterates an unordered multimap); membership is checked",
        "forms std::stoi / std::stod consume completely although they are not plain numbers (leading white space, '+', exponents) are accepted either way",
        "on not-ready data the data_error fast path answers before the parameters are parsed: HTTP 200 data_error is accepted for every request there",
        "after /updateCache only the CLASSIFICATION of the answers is checked here (one history: ready -> not ready -> ready); that the answers equal those of a fresh server is property C15",
    ]
    stats = collections.Counter()
    seen = set()

    def fail(sig, desc, group, urls, key=None):
        stats["sig " + sig] += 1
        k = (sig, key if key is not None else desc[:80])
        if k in seen: return
        seen.add(k)
        rep.direct.append((sig, desc, replay_text_c18(group, urls, sig)))

    try:
        model_exe = core.lean_phase(rep, module if ths else None, ths, thorough=(tier == "thorough"))
        model_items = []
        server = core.harness_phase(rep, "server", "asan")
        cachegen = core.harness_phase(rep, "cachegen", "plain")
        try:
            codes = documented_codes()
            rep.obligation("docs:error-code-enums", True, "route %d, accessibility %d, data_error %d codes" % tuple(len(c) for c in codes))
        except Exception as e:
            rep.obligation("docs:error-code-enums", False, str(e)); codes = None
        if not server or not cachegen or not codes:
            return rep.finish()
        wd = H.workdir("c18")
        if replay:
            return _c18_replay(rep, replay, server, cachegen, codes, wd)
        # ---------------- datasets and servers
        ddef = c18_defaults_dataset()
        rng0 = random.Random(seed * 1000003 + 0)
        ngen = 3 if tier != "thorough" else 8
        gens = [c18_generated_dataset(random.Random(seed * 1000003 + 1 + i)) for i in range(ngen)]
        groups, plans = [], []
        def mk(name, d, ready=True, strip=None, threads=2):
            cdir = os.path.join(wd, name)
            if d is None:
                os.makedirs(cdir, exist_ok=True); recipe = "empty\n"
            else:
                H.make_cache(d, cdir, did=name, cachegen=cachegen)
                recipe = ("noschedules\n" if strip else "ready\n") + gen.write_dataset(d, name, [])
                if strip:
                    shutil.rmtree(os.path.join(cdir, "lines"))
            g = Group(name, cdir, server, ready, threads=threads, cache_all=bool(d and d.get("cacheall")), recipe=recipe)
            groups.append(g); return g
        gdef = mk("defaults", ddef)
        cdef = Ctx(ddef, "defaults")
        nrand = C18_N["thorough" if tier == "thorough" else "quick"]
        # catalogue on the crafted dataset and on the first generated one; random strings spread over all ready datasets
        plans.append((gdef, c18_catalogue(cdef) + [c18_random(cdef, random.Random(seed * 1000003 + 100 + k)) for k in range(nrand // (ngen + 1))]))
        ctxs = []
        for i, d in enumerate(gens):
            g = mk("gen%d" % i, d, threads=rng0.choice([1, 2, 4])); c = Ctx(d, g.name); ctxs.append(c)
            urls = (c18_catalogue(c) if i == 0 else []) + [c18_random(c, random.Random(seed * 1000003 + 100000 * (i + 1) + k)) for k in range(nrand // (ngen + 1))]
            plans.append((g, urls))
        cat_small = c18_catalogue(cdef)
        gempty = mk("empty", None, ready=False)
        plans.append((gempty, cat_small[::3] + [c18_random(cdef, random.Random(seed * 1000003 + 900000 + k)) for k in range(nrand // 12)]))
        gnos = mk("noschedules", ddef, ready=False, strip=True)
        plans.append((gnos, cat_small[1::3] + [c18_random(cdef, random.Random(seed * 1000003 + 950000 + k)) for k in range(nrand // 12)]))
        gupd = mk("update", gens[0])
        urng = random.Random(seed * 1000003 + 7)
        upd_urls = list(UPDATE_CATALOGUE)
        pool = sorted(UPDATE_KNOWN) + ["foo", "", "Agencies", "all%20", "x" * 50, "%22", "a%22b", "schedules%00", "a%5Cb", "%ff", "nodes%fe"]
        for _ in range(30 if tier != "thorough" else 300):
            ns_ = [urng.choice(pool) for _ in range(urng.randint(0, 4))]
            u = "/updateCache?%s=%s" % (urng.choice(UPDATE_NAME_KEYS), ",".join(ns_))
            if urng.random() < 0.3: u += "&%s=%s" % (urng.choice(UPDATE_PATH_KEYS), urng.choice(["", "x", "a%22b", "..", "%2Ftmp", "%ff", "x%c3%28", "%e2%82", "%c3%a9"]))
            upd_urls.append(u)
        plans.append((gupd, upd_urls))
        # readiness flips: ready -> (refresh from a directory without files) not ready -> (refresh from the own directory) ready; the same
        # request list is classified against the readiness in force (every endpoint must follow the status /updateCache recomputes)
        gflip = mk("flip", ddef)
        flip_reqs = cat_small[:: max(1, len(cat_small) // 14)][:14]
        flip_urls = flip_reqs + ["/updateCache?names=all&path=/nonexistent-verif-empty-dir"] + flip_reqs + ["/updateCache?names=all"] + flip_reqs
        flip_ready = [True] * len(flip_reqs) + [None] + [False] * len(flip_reqs) + [None] + [True] * len(flip_reqs)
        plans.append((gflip, flip_urls))
        gpair = mk("pairs", ddef)            # defaults / no-limit comparisons run on their own server
        # ---------------- run
        t0 = time.time()
        with ThreadPoolExecutor(max_workers=PAR) as ex:
            futs = [ex.submit(g.run, urls) for g, urls in plans]
            fpair = ex.submit(_c18_pairs, gpair, stats)
            for f in futs: f.result()
            pair_fails = fpair.result()
        t_run = time.time() - t0
        # ---------------- evaluate
        for g, urls in plans:
            ctx = cdef if g in (gdef, gempty, gnos) else (ctxs[groups.index(g) - 1] if g.name.startswith("gen") else cdef)
            for ridx, rec in enumerate(g.records):
                if rec.get("skipped"):
                    stats["skipped after too many restarts"] += 1; continue
                url = rec["url"]
                is_upd = g is gupd or (g is gflip and url.startswith("/updateCache"))
                ready_now = g.ready
                if g is gflip:
                    if g.restarts:      # a restart resets the data: the planned readiness no longer describes the server
                        stats["flip requests not judged (server restarted)"] += 1; continue
                    if ridx < len(flip_ready) and flip_ready[ridx] is not None: ready_now = flip_ready[ridx]
                rep.evaluations += 1
                stats["requests %s" % g.name] += 1
                ep = "updateCache" if is_upd else url.split("?")[0].strip("/").split("/")[-1]
                if rec["hang"]:
                    fail("request-hang", "no response within 6 s and again none within 20 s on a fresh server: %s" % _short(url), g, [url], key=ep); continue
                if rec["st"] is None:
                    names = analyse_update(url)[0] if is_upd else None
                    how = ("the process died: " + rec["san"][:500]) if rec["died"] else ("connection %s without a response, process alive" % rec["hd"].get("_error"))
                    if is_upd and names and not any(n in UPDATE_KNOWN for n in names):
                        fail("updatecache-unknown-name-unanswered", "GET %s (no known cache name) got no HTTP response at all; %s" % (_short(url), how), g, [url],
                             key="died" if rec["died"] else "closed")
                    elif rec["died"]:
                        fail("server-crash", "GET %s killed the server: %s" % (_short(url), how), g, [url], key=ep + rec["san"][:60])
                    else:
                        fail("no-response", "GET %s: %s" % (_short(url), how), g, [url], key=ep)
                    continue
                if rec.get("slow_first_try"): stats["slow first try (answered on retry)"] += 1
                if is_upd:
                    fails, j = classify_update_response(url, rec["st"], rec["hd"], rec["body"])
                    stats["updateCache %s" % (j.get("status") if j else "unparsable")] += 1
                    feats = {"update"}
                else:
                    fails, j, info = classify_route_response(ep, url, rec["st"], rec["hd"], rec["body"], ready_now, set(ctx.known), set(ctx.empty), codes)
                    feats = info["features"]
                    dstatus = "READY" if (ready_now and g is not gflip) else ("NO_AGENCIES" if g is gempty else "NO_SCHEDULES" if g is gnos else None)
                    if dstatus and ep in ("route", "summary", "accessibility"):
                        model_items.append((g, url, ep, dstatus, set(ctx.known), set(ctx.empty), rec))
                    stats["%s %s %s" % (ep, rec["st"], (j.get("errorCode") or j.get("status")) if j else "unparsable")] += 1
                for sig, desc in fails:
                    if g is gflip:
                        fail(sig + "-after-refresh", "%s  [GET %s, request %d of a history in which /updateCache made the data %s]" % (
                            desc, _short(url), ridx, "ready" if ready_now else "not ready"), g, [r["url"] for r in g.records[:ridx + 1]], key=(ep, desc[:75]))
                        continue
                    fail(sig, "%s  [GET %s on %s data]" % (desc, _short(url), "ready" if g.ready else "not-ready (" + g.name + ")"), g, [url],
                         key=(ep, desc[:75]))
                if not fails and (feats or rec["st"] == 400):
                    rep.nontrivial.add(hash(url))
                if len(rep.samples) < 4 and rec["st"] == 400 and not fails:
                    rep.samples.append(dict(request=_short(url), server=g.name, status=rec["st"], body=rec["body"].decode("utf-8", "replace")[:200]))
            if getattr(g, "error", None):
                fail("server-startup", "request group %s stopped: %s" % (g.name, g.error[:500]), g, [], key=g.name)
            if g.final_san:
                fail("sanitizer", "sanitizer / abort output of server %s not attributed to a request: %s" % (g.name, g.final_san[:500]), g, [r["url"] for r in g.records[-3:] if "url" in r], key=g.name)
            stats["server restarts"] += g.restarts
        c18_model_compare(rep, model_exe, model_items, stats, wd)
        for sig, desc, urls in pair_fails:
            fail(sig, desc, gpair, urls)
        if gpair.final_san:
            fail("sanitizer", "sanitizer output of the defaults server: " + gpair.final_san[:500], gpair, [])
        rep.evaluations += stats["pair comparisons"]
        rep.cov["input_distribution"] = dict(stats)
        rep.cov["timing"] = dict(run_s=round(t_run, 1), servers=len(groups) , in_parallel=PAR)
        return rep.finish()
    finally:
        H.cleanup()


def _c18_pairs(g, stats):
    """defaults and 'non-positive = no limit': bodies of request pairs must be identical.  Returns [(signature, description, urls)]"""
    out = []
    S = lambda i: H.uuid(6, i)

    def get(params):
        url = "/v2/route?" + "&".join("%s=%s" % kv for kv in params.items())
        rec = g.send(url)
        try: j = json.loads(rec["body"].decode()) if rec["st"] == 200 else None
        except Exception: j = None
        return url, rec, j

    def first_route(j):
        try: return j["result"]["routes"][0]
        except Exception: return None

    def same(a, b):
        return a[1]["st"] == b[1]["st"] and a[1]["body"] == b[1]["body"]

    def expect_equal(sig, what, a, b):
        stats["pair comparisons"] += 1
        if not same(a, b):
            out.append((sig, "%s: the two requests must be answered identically but are not: %s -> %s %r  |  %s -> %s %r" % (
                what, a[0], a[1]["st"], " ".join(a[1]["body"].decode("utf-8", "replace").split())[-150:], b[0], b[1]["st"], " ".join(b[1]["body"].decode("utf-8", "replace").split())[-150:]), [a[0], b[0]]))

    def discriminates(what, a, c):
        stats["pair controls"] += 1
        if same(a, c): stats["pair control does NOT discriminate: " + what] += 1
        else: stats["pair controls discriminating"] += 1

    try:
        g.start()
        base = dict(origin=SOUTH_NEAR, destination=NORTH_NEAR, scenario_id=S(1), time_of_trip=39000)
        # access / egress seconds as the server computes them for the near points
        _, _, j0 = get(dict(base, min_waiting_time=0))
        r0 = first_route(j0)
        if not r0:
            stats["pairs: calibration failed"] += 1
            return out
        a, e = r0["accessTravelTime"], r0["egressTravelTime"]
        stats["pairs: near access %ds egress %ds" % (a, e)] += 1
        # ---- min_waiting_time default 180 (readyToBoardAt = arrival at the stop + minimum waiting time is part of every route)
        om = get(dict(base)); ex = get(dict(base, min_waiting_time=180)); c1 = get(dict(base, min_waiting_time=179)); c2 = get(dict(base, min_waiting_time=181))
        expect_equal("default-min_waiting_time", "omitted min_waiting_time vs 180", om, ex); discriminates("min_waiting_time 179", om, c1); discriminates("min_waiting_time 181", om, c2)
        tight = dict(base, time_of_trip=40000 - a - 180)         # the only trip leaves exactly when the default waiting time is over
        om = get(tight); ex = get(dict(tight, min_waiting_time=180)); c2 = get(dict(tight, min_waiting_time=181))
        expect_equal("default-min_waiting_time", "omitted min_waiting_time vs 180 (trip leaves exactly 180 s after reaching the stop)", om, ex); discriminates("min_waiting_time 181 tight", om, c2)
        for neg in ("-1", "-2147483648"):
            expect_equal("negative-min_waiting_time", "negative min_waiting_time vs 0", get(dict(base, min_waiting_time=neg)), get(dict(base, min_waiting_time=0)))
        # ---- max_first_waiting_time default 1800
        for w, label in ((1800, "waits exactly 1800 s"), (1801, "would wait 1801 s")):
            q = dict(base, time_of_trip=40000 - a - w)
            om = get(q); ex = get(dict(q, max_first_waiting_time=1800)); c = get(dict(q, max_first_waiting_time=1801 if w == 1801 else 1799))
            expect_equal("default-max_first_waiting_time", "omitted max_first_waiting_time vs 1800 (%s)" % label, om, ex); discriminates("max_first_waiting_time w=%d" % w, om, c)
        q = dict(base, time_of_trip=40000 - a - 5000)
        hu = get(dict(q, max_first_waiting_time=INT_MAX))
        for v in ("0", "-1", "-2147483648"):
            expect_equal("nonpositive-limit-max_first_waiting_time", "max_first_waiting_time=%s vs %d" % (v, INT_MAX), get(dict(q, max_first_waiting_time=v)), hu)
        discriminates("max_first_waiting_time no-limit", hu, get(q))
        # ---- max_travel_time: no default limit; non-positive = no limit
        hu = get(dict(base, max_travel_time=INT_MAX)); om = get(base)
        expect_equal("default-max_travel_time", "omitted max_travel_time vs %d" % INT_MAX, om, hu)
        for v in ("0", "-1", "-2147483648"):
            expect_equal("nonpositive-limit-max_travel_time", "max_travel_time=%s vs %d" % (v, INT_MAX), get(dict(base, max_travel_time=v)), hu)
        discriminates("max_travel_time 60", hu, get(dict(base, max_travel_time=60)))
        # ---- max_transfer_travel_time default 1200: scenario 2 needs the 1200 s footpath 45->46, scenario 3 the 1201 s footpath 47->48
        tb = dict(origin=SOUTH_NEAR, destination=NORTH_NEAR, time_of_trip=49000, max_access_travel_time=a + 2, max_egress_travel_time=e + 2)
        q2, q3 = dict(tb, scenario_id=S(2)), dict(tb, scenario_id=S(3))
        om2 = get(q2); expect_equal("default-max_transfer_travel_time", "omitted max_transfer_travel_time vs 1200 (journey needs a 1200 s transfer)", om2, get(dict(q2, max_transfer_travel_time=1200)))
        discriminates("max_transfer_travel_time 1199", om2, get(dict(q2, max_transfer_travel_time=1199)))
        r2 = first_route(om2[2])
        if not (r2 and r2.get("numberOfBoardings") == 2 and r2.get("transferWalkingTime") == 1200): stats["pairs: transfer scenario did not produce the intended 2-leg route"] += 1
        om3 = get(q3); expect_equal("default-max_transfer_travel_time", "omitted max_transfer_travel_time vs 1200 (journey needs a 1201 s transfer)", om3, get(dict(q3, max_transfer_travel_time=1200)))
        hu3 = get(dict(q3, max_transfer_travel_time=INT_MAX)); discriminates("max_transfer_travel_time 1201", om3, hu3)
        for v in ("0", "-1", "-2147483648"):
            expect_equal("nonpositive-limit-max_transfer_travel_time", "max_transfer_travel_time=%s vs %d" % (v, INT_MAX), get(dict(q3, max_transfer_travel_time=v)), hu3)
        # ---- max_access / max_egress default 1200: query points far away, found by probing the reported walking time
        def far_point(side, target):
            """latitude (south of stop 0 for the origin, north of stop 91 for the destination) whose walk to the nearest stop takes `target` s"""
            off = (target + 0.5) * (5 / 3.6) / 111131.745
            for _ in range(25):
                lat = (45.0 - off) if side == "origin" else (45.000091 + off)
                q = dict(base, time_of_trip=20000, max_first_waiting_time=0, **{("max_access_travel_time" if side == "origin" else "max_egress_travel_time"): INT_MAX})
                q[side] = "-73,%.7f" % lat
                _, _, j = get(q)
                r = first_route(j)
                if not r: return None
                got = r["accessTravelTime" if side == "origin" else "egressTravelTime"]
                if got == target: return "-73,%.7f" % lat
                off += (target - got) * (5 / 3.6) / 111131.745 * (1.0 if abs(target - got) > 1 else 0.45)
            return None
        for side, key in (("origin", "max_access_travel_time"), ("destination", "max_egress_travel_time")):
            # the Euclidean filter compares the exact distance with max * speed but reports whole seconds of the truncated
            # distance, so the two thresholds differ by up to a second: stay 5 s away from the default on either side
            p1200, p1201, p3000 = far_point(side, 1195), far_point(side, 1205), far_point(side, 3000)
            if not (p1200 and p1201 and p3000):
                stats["pairs: no far %s point found" % side] += 1; continue
            qb = dict(base, time_of_trip=20000, max_first_waiting_time=0)
            for p, label, ctl in ((p1200, "walk of 1195 s", 1190), (p1201, "walk of 1205 s", 1210)):
                q = dict(qb); q[side] = p
                om = get(q); expect_equal("default-" + key, "omitted %s vs 1200 (%s)" % (key, label), om, get(dict(q, **{key: 1200})))
                discriminates("%s %d" % (key, ctl), om, get(dict(q, **{key: ctl})))
            q = dict(qb); q[side] = p3000
            hu = get(dict(q, **{key: INT_MAX}))
            for v in ("0", "-1", "-2147483648"):
                expect_equal("nonpositive-limit-" + key, "%s=%s vs %d (walk of 3000 s)" % (key, v, INT_MAX), get(dict(q, **{key: v})), hu)
            discriminates(key + " no-limit", hu, get(q))
        # ---- time_type default 0, alternatives default false
        expect_equal("default-time_type", "omitted time_type vs 0", get(base), get(dict(base, time_type=0)))
        discriminates("time_type 1", get(base), get(dict(base, time_type=1)))
        expect_equal("default-alternatives", "omitted alternatives vs false", get(base), get(dict(base, alternatives="false")))
    finally:
        rc, san, died = g.stop()
        g.final_san = san
    return out


def _c18_replay(rep, path, server, cachegen, codes, wd):
    """replay file: `server ready|empty|noschedules`, optionally one dataset block, then `GET <path>` lines"""
    text = open(path).read()
    mode, block, urls, inblock = "ready", [], [], False
    for line in text.splitlines(True):
        if line.startswith("#"): continue
        if line.startswith("server "): mode = line.split()[1]
        elif line.startswith("GET "): urls.append(line[4:].rstrip("\r\n"))
        elif line.strip():
            block.append(line)
    d = None
    if block:
        did, d, _, _ = gen.parse_protocol("".join(block))
    cdir = os.path.join(wd, "replay")
    if mode == "empty" or d is None:
        os.makedirs(cdir, exist_ok=True); ready = False
    else:
        H.make_cache(d, cdir, cachegen=cachegen); ready = mode == "ready"
        if mode == "noschedules": shutil.rmtree(os.path.join(cdir, "lines"))
    ctx = Ctx(d, "replay") if d else Ctx(c18_defaults_dataset(), "replay")
    g = Group("replay", cdir, server, ready, recipe=mode + "\n" + ("".join(block)))
    try:
        prev = None
        emptied = set()      # cache kinds last refreshed from a custom path (a replay names only directories without files there)
        ALLK = set(UPDATE_KNOWN) - {"all"}
        for u in urls:
            rec = g.send(u)
            rep.evaluations += 1
            ep = u.split("?")[0].strip("/").split("/")[-1]
            ready = g.ready and not (emptied & {"agencies", "services", "nodes", "lines", "paths", "scenarios", "schedules"})
            if ep == "updateCache" and rec["st"] == 200:
                ns_, pth = analyse_update(u)
                kinds = set()
                for n_ in ns_:
                    if n_ == "all": kinds |= ALLK
                    elif n_ in UPDATE_KNOWN: kinds.add(n_)
                if pth: emptied |= kinds
                else: emptied -= kinds
            print("GET %s\n  -> %s %s %r" % (_short(u, 300), rec["st"], rec["hd"].get("_error") or "", " ".join(rec["body"].decode("utf-8", "replace").split())[:300]))
            if rec["st"] is None:
                print("  no response; process %s %s" % ("DIED" if rec["died"] else "alive", rec["san"][:600]))
                rep.direct.append(("no-response" if not rec["died"] else "server-crash", "replayed request got no response: " + _short(u), replay_text_c18(g, [u])))
            else:
                if ep == "updateCache": fails, j = classify_update_response(u, rec["st"], rec["hd"], rec["body"])
                else: fails, j, _ = classify_route_response(ep, u, rec["st"], rec["hd"], rec["body"], ready, set(ctx.known), set(ctx.empty), codes)
                for sig, desc in fails:
                    print("  VIOLATED [%s] %s" % (sig, desc))
                    rep.direct.append((sig, desc, replay_text_c18(g, [u])))
            if prev is not None and len(urls) == 2:
                eq = prev["st"] == rec["st"] and prev["body"] == rec["body"]
                print("  the two responses are %s" % ("identical" if eq else "DIFFERENT"))
                if not eq:
                    rep.direct.append(("pair-differs", "the two replayed requests are answered differently", replay_text_c18(g, urls)))
            prev = rec
    finally:
        g.stop()
    return rep.finish()


# ============================================================================================== C15, C17, C20 (check/fault_checks.py)

def run_c15(tier, seed, replay=None, theorems=None, module=None):
    """C15: after a completed /updateCache the server answers like one freshly started on the files now on disk (check/fault_checks.py)"""
    from . import fault_checks
    return fault_checks.run_c15(tier, seed, replay, theorems=theorems, module=module)


def run_c17(tier, seed, replay=None, theorems=None, module=None):
    """C17: missing / truncated / corrupt / inconsistent cache files never crash the server (check/fault_checks.py)"""
    from . import fault_checks
    return fault_checks.run_c17(tier, seed, replay, theorems=theorems, module=module)


def run_c20(tier, seed, replay=None, theorems=None, module=None):
    """C20: walking-router failures degrade to error answers, never to a dead server (check/fault_checks.py)"""
    from . import fault_checks
    return fault_checks.run_c20(tier, seed, replay, theorems=theorems, module=module)
