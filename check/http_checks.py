"""Checks decided with the REAL server binary over sockets: C16 (loaded data routes like the dataset it encodes) and
C18 (every HTTP request gets one well-formed, correctly classified response).

    from check import http_checks; http_checks.run_c16("quick", 1);  http_checks.run_c18("quick", 1)

Both build the ASan+UBSan server from /repo's current tree through harness/build.py, never touch /repo, keep every
scratch file under /verif/work/http-<pid>/ and kill the processes they started by PID (try/finally + kill_all)."""
import collections, json, os, random, re, shutil, sys, time
from concurrent.futures import ThreadPoolExecutor
from . import core, engine, gen, canon, httpkit as H, oracles as O

PAR = min(12, max(2, (os.cpu_count() or 4) - 4))      # servers running side by side

# ============================================================================================== C16

C16_STREAMS = [("sparse", 2), ("dense", 2), ("overlap", 2), ("xfer", 2), ("parallel", 1), ("tmpl", 2)]
C16_N = {"quick": 300, "thorough": 3000}
HUGE_FINITE = 50000   # "huge" access / egress limit that is still below the stub's UNREACHABLE duration (100000)
C16_RULE = ("N generated well-formed datasets (streams sparse/dense/overlap/xfer/parallel/tmpl), each written to a Cap'n Proto cache "
            "directory by cachegen, loaded by the real ASan server binary with the scripted walking-router stub, 6 requests each "
            "(3 route, 1 route with alternatives, 2 accessibility); the canonicalised HTTP body is compared with the in-process answer "
            "on the abstract dataset (direct) and with the Lean model (correspondence); non-trivial = success answer; "
            "distinct = distinct (dataset, answer)")


def _pick(rng, streams):
    tot = sum(w for _, w in streams)
    x = rng.random() * tot
    for s, w in streams:
        x -= w
        if x <= 0:
            return s
    return streams[-1][0]


def block_text(did, d, reqs):
    return gen.write_dataset(d, did, [gen.fmt_query(k, q) for k, q in reqs])


def c16_sanitise_query(q):
    """A non-positive access / egress maximum means "no limit" (INT_MAX).  Over the OSRM protocol every stop the client
    sends gets SOME finite duration (the only other value, null, makes the client throw), so "no limit" would admit
    the stops the table does not list at the stub's UNREACHABLE duration -- the table model of the router
    ("entries with time <= max") cannot be reproduced then.  Such limits are replaced by a huge finite one."""
    for k in ("max_access_travel_time", "max_egress_travel_time"):
        if k in q and int(q[k]) <= 0:
            q[k] = HUGE_FINITE
    return q


def c16_plan(seed, k):
    rng = random.Random(seed * 1000003 + k)
    stream = _pick(rng, C16_STREAMS)
    d = gen.gen_dataset(rng, stream)
    # the OSRM client enumerates candidate stops in uuid (= index) order; give the in-process table the same order so
    # that a tie between two access / egress stops is not broken differently on the two sides
    d["acc"] = sorted(d["acc"]); d["egr"] = sorted(d["egr"])
    reqs = []
    for j in range(6):
        if j < 3:
            kind, q = "route", gen.gen_query(rng, d)
        elif j == 3:
            kind, q = "route", gen.gen_query(rng, d, alt=True)
        else:
            kind, q = "accessibility", gen.gen_query(rng, d, forward=(j == 4) if not d.get("profile", "").startswith("tmpl") else None)
        reqs.append((kind, c16_sanitise_query(q)))
    return dict(did="C16-%d-%d" % (seed, k), d=d, reqs=reqs, stream=stream)


def c16_wellformed(d):
    """the WF side conditions the cache schema adds (Int16 footpaths) + what the stub convention needs"""
    errs = []
    if d["ns"] > 17: errs.append("more than 17 stops (bird-distance pre-filter at max 1 s)")
    for a, b, t, x in d["foot"]:
        if not (0 <= t <= 32767 and 0 <= x <= 32767): errs.append("footpath %d->%d does not fit Int16" % (a, b))
    for s, t, x in d["acc"] + d["egr"]:
        if not (0 <= t <= 32767 and 0 <= x <= 32767): errs.append("access/egress time of stop %d > 32767" % s)
    return errs


def http_canon(kind, body):
    """HTTP body bytes -> (canonical text | None, parsed json | None, error | None)"""
    try:
        j = json.loads(body.decode("utf-8"))
    except Exception as e:
        return None, None, "body is not JSON: %s" % str(e)[:80]
    try:
        txt = canon.canon(kind, H.normalise_coordinates(json.loads(body.decode("utf-8"))))
    except Exception as e:
        return None, j, "canonicaliser failed on the body: %r" % (e,)
    return txt, j, None


def c16_serve(case, server_exe, cachegen_exe, timeout=30.0):
    """cache directory + stub + real server for one dataset; returns the HTTP side of the comparison"""
    did, d, reqs = case["did"], case["d"], case["reqs"]
    out = dict(answers=[], rc=None, san="", startup=None, stub_bad=[], t=0.0)
    t0 = time.time()
    cdir = os.path.join(H.workdir("cache"), did)
    stub = srv = None
    try:
        H.make_cache(d, cdir, did=did, cachegen=cachegen_exe)
        stub = H.start_stub(d["acc"], d["egr"])
        srv = H.start_server(cdir, threads=1, cache_all=bool(d.get("cacheall")), osrm_port=stub.port, exe=server_exe, tag=did)
        if srv is None or not srv.alive() or getattr(srv, "ready_s", None) is None:
            out["startup"] = "server did not come up: " + (srv.output()[-600:] if srv else "no handle")
            return out
        for kind, q in reqs:
            url = H.route_query(q, kind)
            st, hd, body, raw = srv.get(url, timeout=timeout)
            out["answers"].append(dict(url=url, status=st, headers=hd, body=body))
            if not srv.alive():
                break
        allstops = list(range(d["ns"]))
        for l in stub.log:
            if l["stops"] != allstops:
                out["stub_bad"].append((l["kind"], l["stops"]))
    except Exception as e:
        out["startup"] = "harness error: %r" % (e,)
    finally:
        if srv is not None:
            died = not srv.alive()
            rc, san = srv.stop()
            out["rc"], out["san"], out["died"] = rc, san, died
            if died and not san:
                out["san"] = srv.output()[-1500:]
        if stub is not None:
            stub.stop()
        shutil.rmtree(cdir, ignore_errors=True)
        out["t"] = time.time() - t0
    return out


def c16_distance_errors(d, a):
    """'reports the encoded distances': for every ride on a path whose distances cover the ride, inVehicleDistance is
    the sum of the encoded segment distances; walks report the table / footpath distance."""
    errs = []
    trips = {t[2]: t for t in d["trips"]}
    fm = O.foot_map(d)
    acc = {s: x for s, t, x in d["acc"]}; egr = {s: x for s, t, x in d["egr"]}
    for r in a.get("routes", []):
        st = r["steps"]
        for i, s in enumerate(st):
            if s["action"] == "unboarding" and i > 0 and st[i - 1]["action"] == "boarding":
                t = trips.get(s["trip"])
                if t is None: continue
                dist = d["paths"][t[0]][2]
                bi, uj = st[i - 1]["stopSeq"] - 1, s["stopSeq"] - 1
                if 0 <= bi < uj and uj - 1 < len(dist) and s["inVehicleDistance"] != sum(dist[bi:uj]):
                    errs.append("ride on trip %d stops %d..%d reports %d m, encoded segments sum to %d m" % (s["trip"], bi, uj, s["inVehicleDistance"], sum(dist[bi:uj])))
            if s["action"] == "walking":
                if s["kind"] == 0 and i + 1 < len(st) and st[i + 1]["action"] == "boarding":
                    if acc.get(st[i + 1]["stop"]) != s["distance"]: errs.append("access walk distance %d, table says %s" % (s["distance"], acc.get(st[i + 1]["stop"])))
                elif s["kind"] == 2 and i > 0 and st[i - 1]["action"] == "unboarding":
                    if egr.get(st[i - 1]["stop"]) != s["distance"]: errs.append("egress walk distance %d, table says %s" % (s["distance"], egr.get(st[i - 1]["stop"])))
                elif s["kind"] == 1 and 0 < i < len(st) - 1 and st[i - 1]["action"] == "unboarding" and st[i + 1]["action"] == "boarding":
                    w = fm.get((st[i - 1]["stop"], st[i + 1]["stop"]))
                    if w is not None and w[1] != s["distance"]: errs.append("transfer walk %d->%d distance %d, footpath data %d" % (st[i - 1]["stop"], st[i + 1]["stop"], s["distance"], w[1]))
    return errs


def _same_answer(http_txt, other_txt):
    if http_txt == other_txt:
        return True
    # the in-process harness prints the numeric ParameterException type, the server the documented code
    if http_txt and other_txt and " query_error " in http_txt and " query_error " in other_txt:
        return http_txt.split(" ")[0] == other_txt.split(" ")[0]
    return False


def run_c16(tier, seed, replay=None, theorems=None, module=None):
    ths = theorems or []
    rep = core.Report("C16", tier, seed, level="proof" if ths else "exploration")
    rep.rule = C16_RULE
    rep.assumptions = [
        "the walking router is a table: the stub answers every stop the client sends with the table's (time, distance) or 100000 s; "
        "non-positive access / egress maxima are replaced by 50000 s (the OSRM protocol cannot express 'unreachable' under 'no limit')",
        "byte level of Cap'n Proto (packing, pointers) is trusted; cachegen writes with the repository's own compiled schemas",
        "stops lie 1 micro-degree apart so that the client's bird-distance pre-filter passes every stop (checked on every router request)",
    ]
    stats = collections.Counter()
    try:
        model = core.lean_phase(rep, module if ths else None, ths, thorough=(tier == "thorough"))
        impl = core.harness_phase(rep, "core", "asan")
        server = core.harness_phase(rep, "server", "asan")
        cachegen = core.harness_phase(rep, "cachegen", "plain")
        if not model or not impl or not server or not cachegen:
            return rep.finish()
        cases = []
        if replay:
            text = open(replay).read()
            cur = []
            for line in text.splitlines(True):
                if line.startswith("#"): continue
                cur.append(line)
                if line.strip() == "end":
                    did, d, reqs, _ = gen.parse_protocol("".join(cur)); cur = []
                    d["acc"] = sorted(d["acc"]); d["egr"] = sorted(d["egr"])
                    rq = []
                    for r in reqs:
                        k, q = gen.parse_query(r)
                        if k in ("route", "accessibility", "summary"):
                            rq.append((k, c16_sanitise_query(q)))
                    cases.append(dict(did=re.sub(r"[^A-Za-z0-9_.-]", "_", did), d=d, reqs=rq, stream="replay"))
        else:
            n = C16_N["thorough" if tier == "thorough" else "quick"]
            for k in range(n):
                c = c16_plan(seed, k)
                bad = c16_wellformed(c["d"])
                if bad:
                    stats["skipped-not-encodable"] += 1
                    rep.notes.append("dataset %s skipped: %s" % (c["did"], bad[0]))
                    continue
                cases.append(c)
        # abstract-dataset side: in-process harness + Lean model
        flat = [(c["did"], block_text(c["did"], c["d"], c["reqs"]), [k for k, q in c["reqs"]]) for c in cases]
        t0 = time.time()
        res = engine.run_cases(flat, impl, model)
        t_inproc = time.time() - t0
        # loaded-data side: real binary over HTTP, several servers side by side
        t0 = time.time()
        with ThreadPoolExecutor(max_workers=PAR) as ex:
            served = list(ex.map(lambda c: c16_serve(c, server, cachegen), cases))
        t_http = time.time() - t0
        for c, sv in zip(cases, served):
            did, d, reqs = c["did"], c["d"], c["reqs"]
            r = res[did]
            stats["stream " + c["stream"]] += 1
            whole = block_text(did, d, reqs)
            if sv["startup"]:
                rep.direct.append(("server-startup", "real server did not start on a generated well-formed cache directory: " + sv["startup"][:300], whole))
                continue
            if sv.get("died") or (sv["san"] and sv["rc"] not in (-15, 0)):
                rep.direct.append(("server-crash", "real server died / sanitizer report while serving a well-formed dataset (rc=%s): %s" % (sv["rc"], sv["san"][:400]), whole))
            elif sv["san"]:
                rep.direct.append(("sanitizer", "sanitizer report of the real server: " + sv["san"][:400], whole))
            if sv["stub_bad"]:
                stats["router-request-without-all-stops"] += len(sv["stub_bad"])
                rep.corr.append(("router-stub-sees-all-stops", "the OSRM client did not send every stop (table model of the router not applicable): %s" % (sv["stub_bad"][:2],), whole))
            if r["impl_fail"]:
                rep.direct.append(("impl-crash", "in-process implementation crashed / hung: " + r["impl_fail"][:300], whole)); continue
            if r["model_fail"]:
                rep.corr.append(("model-driver", r["model_fail"], whole)); continue
            for i, (kind, q) in enumerate(reqs):
                one = block_text(did, d, [(kind, q)])
                if i >= len(sv["answers"]):
                    rep.direct.append(("no-answer", "request not sent: the server was gone", one)); continue
                a = sv["answers"][i]
                rep.evaluations += 1
                if a["status"] is None:
                    rep.direct.append(("no-response", "no HTTP response (%s) for %s" % (a["headers"].get("_error"), a["url"]), one)); continue
                cl = a["headers"].get("content-length")
                if a["status"] != 200 or cl is None or int(cl) != len(a["body"]):
                    rep.direct.append(("http-malformed", "status %s, Content-Length %s, %d body bytes for %s" % (a["status"], cl, len(a["body"]), a["url"]), one)); continue
                ht, hj, err = http_canon(kind, a["body"])
                if err:
                    rep.direct.append(("http-body", "%s (%s)" % (err, a["url"]), one)); continue
                it, mt = r["impl"][i], r["model"][i]
                pa = canon.parse_answer(ht)
                stats["%s %s" % (kind, pa.get("status"))] += 1
                if "!!INCONSISTENT" in ht:
                    rep.direct.append(("loaded-names-differ", "a name / code / uuid / coordinate in the HTTP answer does not belong to the object it is attached to: " + ht[-200:], one))
                if not _same_answer(ht, it):
                    stats["http-vs-inmemory-mismatch"] += 1
                    rep.direct.append(("loaded-data-differs", "answer of the server on the cache files differs from the in-memory answer on the dataset they encode: http=%s in-memory=%s" % (ht[:220], (it or "none")[:220]), one))
                elif not _same_answer(ht, mt):
                    stats["http-vs-model-mismatch"] += 1
                    rep.corr.append(("projection(C16)", "server on cache files and in-memory implementation agree, the Lean model differs: impl=%s model=%s" % (ht[:200], (mt or "none")[:200]), one))
                if pa.get("status") == "success":
                    n = O.norm(q)
                    if kind == "route":
                        for rt in pa.get("routes", []):
                            errs = [e for e in O.check_itinerary(d, n, rt) if not e.startswith("C02")]
                            if errs:
                                rep.direct.append(("invalid-itinerary", "itinerary returned on loaded data is not travellable on the encoded dataset: " + "; ".join(errs[:3]), one))
                        derr = c16_distance_errors(d, pa)
                        if derr:
                            rep.direct.append(("distance-differs", "reported distance is not the encoded one: " + "; ".join(derr[:3]), one))
                        stats["routes with >=2 boardings"] += sum(1 for rt in pa.get("routes", []) if sum(1 for s in rt["steps"] if s["action"] == "boarding") >= 2)
                    rep.nontrivial.add(hash((json.dumps(d, sort_keys=True, default=str), ht)))
                    if len(rep.samples) < 3:
                        rep.samples.append(dict(dataset=one, request=a["url"], implementation=ht[:400], in_memory=(it or "")[:400], model=(mt or "")[:400]))
                if replay:
                    print("replay %s #%d %s\n  http     : %s\n  in-memory: %s\n  model    : %s" % (did, i, a["url"], ht, it, mt))
        rep.cov["input_distribution"] = dict(stats)
        rep.cov["streams"] = dict(C16_STREAMS)
        rep.cov["timing"] = dict(inproc_and_model_s=round(t_inproc, 1), http_s=round(t_http, 1), servers_in_parallel=PAR,
                                 mean_server_lifecycle_s=round(sum(s["t"] for s in served) / max(1, len(served)), 2))
        rep.obligation("correspondence:projection(C16)", not rep.corr, "%d disagreement(s)" % len(rep.corr))
        return rep.finish()
    finally:
        H.cleanup()
