"""C14: concurrent requests are answered exactly as if each were served alone.

    from check import conc_checks; conc_checks.run_c14("quick", 1)

In-process, with the guarded yield points of TransitData::getConnectionsForScenario (-DTRROUTING_VERIF): the harness
harness/c14_harness.cpp runs N threads on ONE TransitData and forces a given interleaving of the yield-point steps.
  * ALL orderings of the steps of 2 threads (each: start, get -> hit | miss, before-set, after-set, finish = 5 steps,
    C(10,5) = 252 schedules) for {same scenario, different scenarios} x {cache One, cache All}, under ASan+UBSan;
  * sampled schedules for 2 threads with alternatives requests (many look-ups per request) and for 3-4 threads with
    1-2 requests each, plus free runs;
  * ORACLE (direct): every answer equals the answer of the same request run ALONE on a fresh TransitData (sequential
    baseline from the core harness); no sanitizer report; no harness deadlock;
  * correspondence: the event trace of the forced part obeys the cache model -- a look-up is a "hit" iff an earlier
    `after-set` of the same scenario is still the current entry (One: the LAST after-set of any scenario; All: any
    earlier one); per thread the events follow the thread program; baseline = Lean model answer;
  * ThreadSanitizer build, UNFORCED soak (thorough tier; quick: 20 s budget): reports attributed by stack to the
    connection cache / TransitData / calculator / result rendering are direct violations
    (signature data-race:<top project frame function>), anything else is logged only.
Replay file = one input block of the harness (dataset, `thread` lines, `sched` lines)."""
import threading, collections, itertools, json, os, random, re, subprocess, sys, time
from concurrent.futures import ThreadPoolExecutor
from . import core, engine, gen, canon
sys.path.insert(0, engine.VERIF)
from harness import build as hbuild          # noqa: E402
REPO = hbuild.REPO

PAR = min(12, max(2, (os.cpu_count() or 4) - 4))
C14_N = {"quick": 10, "thorough": 100}                 # datasets
C14_SAMPLED = {"quick": 60, "thorough": 300}           # sampled schedules per sampled configuration
C14_SOAK_BUDGET = {"quick": 20.0, "thorough": 300.0}   # seconds of wall time for the TSan soak
SOAK_ITER = 200
C14_STREAMS = [("dense", 3), ("sparse", 2), ("xfer", 1), ("overlap", 1), ("parallel", 1)]
C14_RULE = ("generated datasets with 2-3 scenarios; per dataset: all 252 orderings of the yield-point steps of 2 threads for {same scenario, "
            "different scenarios} x {cache One, cache All}; sampled schedules for 2 threads with alternatives requests and for 3-4 threads with "
            "1-2 requests each; free runs; every answer compared with the sequential baseline (fresh TransitData, core harness) under ASan+UBSan; "
            "event trace of the forced part checked against the cache model; TSan build: unforced soak; "
            "non-trivial = a forced run whose cache events of different threads really interleave and that has a success answer; "
            "distinct = distinct (dataset, configuration, event trace)")
PROJECT_RACE_FILES = re.compile(r"/(src/(connection_cache|connection_set|transit_data)\.cpp|include/(connection_cache|connection_set|transit_data|trip|connection|path|line|node|scenario)\.hpp|"
                                r"connection_scan_algorithm/(src|include)/[^ :]+)$")
SAN_ENV = {"ASAN_OPTIONS": "detect_leaks=0:abort_on_error=0:exitcode=99", "UBSAN_OPTIONS": "print_stacktrace=1:halt_on_error=1:exitcode=98",
           "TSAN_OPTIONS": "halt_on_error=0:exitcode=0:report_thread_leaks=0:report_signal_unsafe=0"}
ALL_2x5 = [tuple(0 if i in pos else 1 for i in range(10)) for pos in itertools.combinations(range(10), 5)]      # 252 schedules


def _pick(rng, streams):
    tot = sum(w for _, w in streams)
    x = rng.random() * tot
    for s, w in streams:
        x -= w
        if x <= 0:
            return s
    return streams[-1][0]


# ------------------------------------------------------------------ planning

def c14_dataset(seed, k):
    """dataset with 2-3 scenarios + a pool of candidate requests (8 per scenario)"""
    rng = random.Random(seed * 1000003 + k)
    stream = _pick(rng, C14_STREAMS)
    d = gen.gen_dataset(rng, stream)
    nl, nsv = len(d["lines"]), d["nsv"]
    blank = lambda: dict(services=list(range(nsv)), onlyLines=[], exceptLines=[], onlyAgencies=[], exceptAgencies=[], onlyModes=[], exceptModes=[])
    while len(d["scenarios"]) < 2 or (len(d["scenarios"]) < 3 and rng.random() < 0.5):
        s = blank()
        r = rng.random()
        if r < 0.4 and nl > 1: s["exceptLines"] = [rng.randrange(nl)]
        elif r < 0.6 and nl > 1: s["onlyLines"] = rng.sample(range(nl), rng.randint(1, nl - 1))
        elif r < 0.8: s["services"] = rng.sample(range(nsv), rng.randint(1, nsv))
        d["scenarios"].append(s)
    d["scenarios"] = d["scenarios"][:3]
    pool = []
    for s in range(len(d["scenarios"])):
        for j in range(8):
            kind = ("route", "route", "route", "accessibility", "summary", "route", "accessibility", "route")[j]
            q = gen.gen_query(rng, d, alt=(j in (2, 7)), limits=(rng.random() < 0.3))
            q["scenario"] = s
            pool.append((kind, q))
    return dict(did="C14-%d-%d" % (seed, k), d=d, pool=pool, stream=stream)


def touches_cache(canon_txt):
    """does the sequential run of the request reach the connection cache?  (a request that fails on its parameters or has no
    access / egress stop returns before the look-up)"""
    if canon_txt is None: return False
    return not (" query_error " in canon_txt or " exception" in canon_txt or "NO_ACCESS_AT" in canon_txt)


def c14_configs(plan, base, seed, k, tier):
    """thread assignments + schedules, chosen after the sequential baseline is known.  Returns list of dict(name, cacheall,
    threads=[[pool index,...],...], scheds=[tuple | None (= free)], exhaustive=bool)"""
    rng = random.Random(seed * 1000003 + 500000 + k)
    d, pool = plan["d"], plan["pool"]
    nsc = len(d["scenarios"])
    by_s = {s: [i for i, (kd, q) in enumerate(pool) if q["scenario"] == s] for s in range(nsc)}
    good = {s: [i for i in by_s[s] if touches_cache(base[i]) and "alternatives" not in pool[i][1]] or [i for i in by_s[s] if "alternatives" not in pool[i][1]] for s in by_s}
    alts = [i for i, (kd, q) in enumerate(pool) if "alternatives" in q and touches_cache(base[i])]
    anyq = [i for i in range(len(pool)) if touches_cache(base[i])] or list(range(len(pool)))
    succ = lambda xs: sorted(xs, key=lambda i: 0 if base[i] and " success " in base[i] else 1)
    nsamp = C14_SAMPLED["thorough" if tier == "thorough" else "quick"]
    cfgs = []
    s0 = rng.randrange(nsc); s1 = rng.choice([s for s in range(nsc) if s != s0])
    a = succ(good[s0])[0]
    b_same = next((i for i in succ(good[s0]) if i != a), a)
    b_diff = succ(good[s1])[0]
    for ca in (0, 1):
        cfgs.append(dict(name="2-same", cacheall=ca, threads=[[a], [b_same]], scheds=list(ALL_2x5), exhaustive=True))
        cfgs.append(dict(name="2-diff", cacheall=ca, threads=[[a], [b_diff]], scheds=list(ALL_2x5), exhaustive=True))

    def rand_sched(nt, lo, hi):
        n = rng.randint(lo, hi); out = []
        while len(out) < n:
            t = rng.randrange(nt)
            out += [t] * rng.choice([1, 1, 1, 2, 3])
        return tuple(out[:n])
    if alts:
        x = rng.choice(alts); y = rng.choice([i for i in anyq if pool[i][1]["scenario"] != pool[x][1]["scenario"]] or anyq)
        for ca in (0, 1):
            cfgs.append(dict(name="2-alt", cacheall=ca, threads=[[x], [y]], scheds=[rand_sched(2, 8, 60) for _ in range(nsamp)] + [None], exhaustive=False))
    for nt in (3, 4):
        ths = []
        for t in range(nt):
            n = rng.choice([1, 1, 2])
            # spread the scenarios over the threads so that the entries replace each other
            ths.append([rng.choice(good[(t + j + s0) % nsc] if rng.random() < 0.8 else anyq) for j in range(n)])
        ca = rng.choice([0, 1])
        for c in (ca, 1 - ca) if tier == "thorough" else (ca,):
            cfgs.append(dict(name="%d-threads" % nt, cacheall=c, threads=ths, scheds=[rand_sched(nt, 6, 14 * nt) for _ in range(nsamp)] + [None, None, None], exhaustive=False))
    return cfgs


def block_text(did, d, pool, cfg, scheds, soak=None):
    dd = dict(d, cacheall=cfg["cacheall"])
    lines = []
    for t, reqs in enumerate(cfg["threads"]):
        for i in reqs:
            lines.append("thread %d %s" % (t, gen.fmt_query(*pool[i])))
    for s in scheds:
        lines.append("sched" + ("" if s is None else " " + " ".join(str(x) for x in s)))
    if soak:
        lines.append("soak %d" % soak)
    return gen.write_dataset(dd, did, lines)


# ------------------------------------------------------------------ running the harness, reading its output

RSS_CAP = 12 << 30


def run_harness(exe, text, tag, timeout=600):
    path = os.path.join(engine.workdir(), "c14_%s_%d.txt" % (tag, os.getpid()))
    with open(path, "w") as f:
        f.write(text)
    env = dict(os.environ); env.update(SAN_ENV)
    try:
        # a changed implementation may run away (an unsynchronised container filled by two threads grew to 50 GB in the TSan soak of
        # seeded change C14-r5): the resident size is watched and the process killed at RSS_CAP; reported like a time-out
        proc = subprocess.Popen([exe, path], stdout=subprocess.PIPE, stderr=subprocess.PIPE, text=True, env=env)
        killed = []
        def watch():
            while proc.poll() is None:
                try:
                    with open("/proc/%d/statm" % proc.pid) as f: rss = int(f.read().split()[1]) * os.sysconf("SC_PAGE_SIZE")
                    if rss > RSS_CAP:
                        killed.append(rss); proc.kill(); return
                except (OSError, ValueError, IndexError):
                    return
                time.sleep(0.5)
        th = threading.Thread(target=watch, daemon=True); th.start()
        try:
            so, se = proc.communicate(timeout=timeout)
            rc = proc.returncode
            if killed: rc, se = -998, "MEMORY: resident size %d MB exceeded the cap of %d MB; killed\n%s" % (killed[0] >> 20, RSS_CAP >> 20, (se or "")[-2000:])
        except subprocess.TimeoutExpired:
            proc.kill(); so, se = proc.communicate()
            rc, se = -999, "TIMEOUT after %d s" % timeout
    finally:
        try: os.remove(path)
        except OSError: pass
    return rc, so, se


def parse_runs(out):
    """-> list of dict(label, events=[(t, r, where)] of the forced part, free_events=[...], skips, answers={(t, r): json text}, complete)"""
    runs, cur = [], None
    for line in out.splitlines():
        if line.startswith("R "):
            cur = dict(label=line.split(" ")[3], events=[], free_events=[], skips=0, answers={}, complete=False, free=False); runs.append(cur)
        elif cur is None:
            continue
        elif line.startswith("E "):
            _, t, r, w = line.split(" ")
            (cur["free_events"] if cur["free"] else cur["events"]).append((int(t), int(r), w))
        elif line == "F":
            cur["free"] = True
        elif line.startswith("S "):
            cur["skips"] += 1
        elif line.startswith("A "):
            _, did, rr, t, r, payload = line.split(" ", 5)
            cur["answers"][(int(t), int(r))] = payload
        elif line.startswith("X "):
            cur["complete"] = True
        elif line.startswith("D "):
            cur["deadlock"] = line
    return runs


THREAD_PROGRAM = re.compile(r"start( hit| miss before-set after-set)* finish")


def trace_errors(run, scen_of, cacheall):
    """the event trace against the model.  Forced part (global order = order of the cache operations): a look-up is a hit iff an
    earlier after-set of the same scenario is still the current entry.  Whole trace, per thread and request: the thread program
    start (hit | miss before-set after-set)* finish."""
    errs = []
    cur_one, cur_all = None, set()
    for t, r, w in run["events"]:
        s = scen_of.get((t, r))
        if w in ("hit", "miss"):
            exp = (s in cur_all) if cacheall else (cur_one == s and s is not None)
            if (w == "hit") != exp:
                errs.append("thread %d request %d (scenario %s) observed a %s, the model says %s (cache %s holds %s)" % (
                    t, r, s, w, "hit" if exp else "miss", "All" if cacheall else "One", sorted(cur_all) if cacheall else cur_one))
        elif w == "after-set":
            cur_all.add(s); cur_one = s
    per = collections.defaultdict(list)
    for t, r, w in run["events"] + run["free_events"]:
        per[(t, r)].append(w)
    for key, ws in per.items():
        if not THREAD_PROGRAM.fullmatch(" ".join(ws)):
            errs.append("thread %d request %d: events %s do not follow the thread program" % (key[0], key[1], " ".join(ws)))
    for key in scen_of:
        if key not in per:
            errs.append("thread %d request %d left no event" % key)
    return errs


def interleaving_features(run, scen_of, cacheall):
    """(really interleaved?, a replaced entry was still in use?)"""
    seq = [t for t, r, w in run["events"] if w != "start"]
    switches = sum(1 for i in range(1, len(seq)) if seq[i] != seq[i - 1])
    holding = {}     # thread -> scenario of the set it holds (between its hit / after-set and its finish)
    stale = False
    for t, r, w in run["events"]:
        s = scen_of.get((t, r))
        if w in ("hit", "after-set"):
            if w == "after-set":
                for t2, s2 in holding.items():
                    # One: any publication replaces the entry the others hold; All: only a second publication of the same scenario
                    if t2 != t and ((not cacheall) or s2 == s):
                        stale = True
            holding[t] = s
        elif w == "finish":
            holding.pop(t, None)
    return switches >= 2, stale


def sanitizer_kind(text, rc):
    m = re.search(r"AddressSanitizer: ([a-zA-Z-]+)", text)
    if m: return m.group(1)
    if "runtime error:" in text: return "undefined-behaviour"
    if rc == 3 or "D controller waited" in text: return "harness-deadlock"
    if rc == -999: return "timeout"
    m = re.search(r"terminate called after throwing an instance of '([^']+)'", text)
    if m: return "uncaught-" + m.group(1)
    return "exit-%s" % rc


# ------------------------------------------------------------------ TSan reports

def parse_tsan(stderr):
    """-> list of dict(kind, frames=[(function, file, line)], text)"""
    reps = []
    for blk in re.split(r"^={18}\s*$", stderr, flags=re.M):
        m = re.search(r"WARNING: ThreadSanitizer: ([^\(\n]+)", blk)
        if not m: continue
        frames = [(f.group(1), f.group(2), f.group(3)) for f in re.finditer(r"^\s*#\d+ (.+?) (/[^\s:]+):(\d+)", blk, flags=re.M)]
        reps.append(dict(kind=m.group(1).strip(), frames=frames, text=blk.strip()))
    return reps


def attribute_tsan(r):
    """('project', function) when the first frame below the runtime / standard library lies in the connection cache, TransitData, the
    calculator or the result rendering; ('harness', ..) for frames of c14_harness.cpp only; else ('other', ..)"""
    for fn, path, line in r["frames"]:
        if (path.startswith(REPO + "/") or PROJECT_RACE_FILES.search(path)) and not path.startswith("/usr/"):
            return "project", re.sub(r"\(.*", "", fn).strip()
    for fn, path, line in r["frames"]:
        if path.endswith("c14_harness.cpp"):
            return "harness", re.sub(r"\(.*", "", fn).strip()
    return "other", (r["frames"][0][0] if r["frames"] else "?")


# ------------------------------------------------------------------ the check


# ------------------------------------------------------------------ HTTP leg: the real server, overlapping requests

C14_HTTP_N = {"quick": 2, "thorough": 8}          # datasets; each: both cache kinds, 8 baselines + 8 overlapping pairs


def c14_http_leg(rep, seed, tier, stats):
    """The real server binary (built WITH the yield-point hooks; harness/c14_server_hook.cpp holds every request for 150 ms where it
    leaves getConnectionsForScenario), 4 worker threads: each request is first served alone, then pairs of DIFFERENT requests are sent
    together; an overlapping request must get the body it got alone. Catches state shared between handler invocations that the
    in-process harness (one Calculator per thread, like the unchanged handlers) cannot see."""
    from . import httpkit as H
    exe = core.harness_phase(rep, "server-hooked", "asan")
    cachegen = core.harness_phase(rep, "cachegen", "plain")
    if not exe or not cachegen: return
    tq = "thorough" if tier == "thorough" else "quick"
    wd = H.workdir("c14http")
    old = os.environ.get("VERIF_HOLD_MS")
    os.environ["VERIF_HOLD_MS"] = "150"
    n0 = len(rep.direct)
    try:
        for kd in range(C14_HTTP_N[tq]):
            p = c14_dataset(seed + 7919, kd)
            d = dict(p["d"]); d["acc"] = sorted(d["acc"]); d["egr"] = sorted(d["egr"])
            if d["ns"] > 17 or any(not (0 <= t <= 32767 and 0 <= x <= 32767) for a, b, t, x in d["foot"]): continue
            urls = []
            for kind, q in p["pool"]:
                q = dict(q)
                for key in ("max_access_travel_time", "max_egress_travel_time"):
                    if key in q and int(q[key]) <= 0: q.pop(key)
                urls.append(H.route_query(q, kind))
            urls = urls[::max(1, len(urls) // 8)][:8]
            for ca in (0, 1):
                cdir = os.path.join(wd, "d%d-%d" % (kd, ca))
                H.make_cache(d, cdir, did=p["did"], cachegen=cachegen)
                srv = H.start_server(cdir, threads=4, cache_all=bool(ca), euclid=True, exe=exe, tag="c14http")
                replay_head = "#!c14http cacheall=%d\n%s" % (ca, gen.write_dataset(d, p["did"], []))
                try:
                    if srv is None or not srv.alive():
                        rep.direct.append(("server-startup", "hooked server did not start: %s" % (srv.output()[-300:] if srv else ""), replay_head)); continue
                    base = []
                    for u in urls:
                        st, hd, body, raw = srv.get(u, timeout=20.0)
                        base.append((st, body))
                    rng = random.Random(seed * 31 + kd * 7 + ca)
                    for m in range(8):
                        i, j = rng.sample(range(len(urls)), 2)
                        out = [None, None]
                        def one(ix, u):
                            out[ix] = srv.get(u, timeout=30.0)
                        ts = [threading.Thread(target=one, args=(0, urls[i])), threading.Thread(target=one, args=(1, urls[j]))]
                        for t in ts: t.start()
                        for t in ts: t.join()
                        rep.evaluations += 2; stats["http overlapping requests"] += 2
                        for ix, which in ((0, i), (1, j)):
                            got = out[ix]
                            if got is None or (got[0], got[2]) != base[which]:
                                stats["http overlapping answer differs"] += 1
                                rep.direct.append(("concurrent-answer-differs-http",
                                    "GET %s answered %s %s alone but %s %s while GET %s was being served (real server, 4 threads, cacheAll=%d)" % (
                                        urls[which][:120], base[which][0], (base[which][1] or b"")[:120], got and got[0], ((got and got[2]) or b"")[:120], urls[j if ix == 0 else i][:80], ca),
                                    replay_head + "pair %s\npair %s\n" % (urls[i], urls[j])))
                            else:
                                rep.nontrivial.add(hash((p["did"], ca, m, ix)))
                    if not srv.alive() or srv.sanitizer_output():
                        rep.direct.append(("server-crash-concurrent", "hooked server died / sanitizer report under overlapping requests: %s" % srv.sanitizer_output()[:400], replay_head))
                finally:
                    if srv: srv.stop()
    finally:
        if old is None: os.environ.pop("VERIF_HOLD_MS", None)
        else: os.environ["VERIF_HOLD_MS"] = old
    rep.obligation("http:overlapping-requests-answered-as-alone", len(rep.direct) == n0, "%d difference(s)" % (len(rep.direct) - n0))


def run_c14(tier, seed, replay=None, theorems=None, module=None):
    ths = theorems or []
    rep = core.Report("C14", tier, seed, level="proof" if ths else "exploration")
    rep.rule = C14_RULE
    rep.assumptions = [
        "atomicity of the critical sections and the memory model are assumed by the interleaving model; observed with ASan (forced schedules) and ThreadSanitizer (unforced soak)",
        "during the forced part of a run exactly one thread runs between two yield points, so the recorded event order is the order of the cache operations; "
        "events after the schedule is exhausted are checked per thread only",
        "the walking router is a table shared read-only by all threads (as the server shares one GeoFilter)",
        "races in the HTTP thread pool, the logger and the handlers' request counters are outside the in-process harness (DESIGN 7a O5)",
    ]
    stats = collections.Counter()
    tq = "thorough" if tier == "thorough" else "quick"
    t_start = time.time()
    model = core.lean_phase(rep, module if ths else None, ths, thorough=(tier == "thorough"))
    core_exe = core.harness_phase(rep, "core", "asan")
    exe = core.harness_phase(rep, "c14", "asan")
    if not model or not core_exe or not exe:
        return rep.finish()
    if replay:
        return _c14_replay(rep, replay, core_exe, exe, model)
    c14_http_leg(rep, seed, tier, stats)
    plans = [c14_dataset(seed, k) for k in range(C14_N[tq])]
    # ---- sequential baseline: every pool request alone on a fresh TransitData (+ the Lean model's answer)
    flat = []
    for p in plans:
        for ca in (0, 1):
            for i, (kind, q) in enumerate(p["pool"]):
                flat.append(("%s.c%d.%d" % (p["did"], ca, i), gen.write_dataset(dict(p["d"], cacheall=ca), "%s.c%d.%d" % (p["did"], ca, i), [gen.fmt_query(kind, q)]), [kind]))
    res = engine.run_cases(flat, core_exe, model)
    for p in plans:
        p["base"] = {ca: [res["%s.c%d.%d" % (p["did"], ca, i)]["impl"][0] for i in range(len(p["pool"]))] for ca in (0, 1)}
        p["model"] = {ca: [res["%s.c%d.%d" % (p["did"], ca, i)]["model"][0] for i in range(len(p["pool"]))] for ca in (0, 1)}
        for i, (kind, q) in enumerate(p["pool"]):
            r0 = res["%s.c%d.%d" % (p["did"], 0, i)]
            if r0["impl_fail"]:
                rep.direct.append(("impl-crash", "sequential baseline crashed: " + r0["impl_fail"][:300], flat[0][1]))
            if p["base"][0][i] != p["base"][1][i]:
                rep.direct.append(("cache-kind-changes-answer", "sequential answer depends on the cache kind: %s vs %s" % (p["base"][0][i], p["base"][1][i]),
                                   gen.write_dataset(p["d"], p["did"], [gen.fmt_query(kind, q)])))
            elif p["base"][0][i] != p["model"][0][i]:
                stats["baseline-vs-model-mismatch"] += 1
                rep.corr.append(("projection(C14)", "sequential baseline and Lean model differ: impl=%s model=%s" % ((p["base"][0][i] or "none")[:200], (p["model"][0][i] or "none")[:200]),
                                 gen.write_dataset(p["d"], p["did"], [gen.fmt_query(kind, q)])))
            stats["pool %s %s" % (kind, (p["base"][0][i] or "none").split(" ")[1] if p["base"][0][i] else "none")] += 1
        p["cfgs"] = c14_configs(p, p["base"][0], seed, plans.index(p), tier)
    # ---- forced schedules under ASan
    jobs = [(p, c) for p in plans for c in p["cfgs"]]
    t0 = time.time()

    def do(job):
        p, c = job
        text = block_text(p["did"], p["d"], p["pool"], c, c["scheds"])
        rc, so, se = run_harness(exe, text, "%s_%s_%d" % (p["did"], c["name"], c["cacheall"]))
        return rc, so, se
    with ThreadPoolExecutor(max_workers=PAR) as ex:
        outs = list(ex.map(do, jobs))
    t_forced = time.time() - t0
    canon_cache = {}

    def canon_of(kind, payload):
        key = (kind, payload)
        if key not in canon_cache:
            try: canon_cache[key] = canon.canon(kind, json.loads(payload))
            except Exception as e: canon_cache[key] = "%s unparsable %r" % (kind, str(e)[:80])
        return canon_cache[key]
    seen_direct = set()
    for (p, c), (rc, so, se) in zip(jobs, outs):
        _evaluate(rep, stats, p, c, c["scheds"], rc, so, se, exe, canon_of, seen_direct)
    rep.cov["timing"] = dict(forced_s=round(t_forced, 1), processes_in_parallel=PAR)
    # ---- ThreadSanitizer soak
    budget = C14_SOAK_BUDGET[tq]
    _tsan_soak(rep, stats, plans, seed, budget, canon_of)
    rep.cov["input_distribution"] = dict(stats)
    rep.cov["streams"] = dict(C14_STREAMS)
    rep.obligation("correspondence:trace-model(C14)", not [c for c in rep.corr if c[0] == "trace-model(C14)"], "%d disagreement(s)" % len([c for c in rep.corr if c[0] == "trace-model(C14)"]))
    rep.obligation("correspondence:projection(C14)", not [c for c in rep.corr if c[0] == "projection(C14)"], "")
    return rep.finish()


def _evaluate(rep, stats, p, c, scheds, rc, so, se, exe, canon_of, seen_direct, verbose=False):
    did, d, pool = p["did"], p["d"], p["pool"]
    ca = c["cacheall"]
    runs = parse_runs(so)
    scen_of = {(t, r): pool[i][1]["scenario"] for t, reqs in enumerate(c["threads"]) for r, i in enumerate(reqs)}
    req_of = {(t, r): i for t, reqs in enumerate(c["threads"]) for r, i in enumerate(reqs)}
    one = lambda s: block_text(did, d, pool, c, [s])
    if rc != 0 or len(runs) != len(scheds) or any(not r["complete"] for r in runs) or re.search(r"Sanitizer|runtime error:", se):
        # find the schedule that does it (each alone in its own process)
        stats["harness process failed"] += 1
        culprit = None
        with ThreadPoolExecutor(max_workers=PAR) as ex:
            singles = list(ex.map(lambda s: run_harness(exe, one(s), "iso_%s_%d" % (did, abs(hash(s)) % 10 ** 8), timeout=120), scheds))
        for s, (rc1, so1, se1) in zip(scheds, singles):
            if rc1 != 0 or re.search(r"Sanitizer|runtime error:", se1):
                culprit = (s, rc1, se1); break
        if culprit is None:
            culprit = (scheds[min(len(runs), len(scheds)) - 1] if scheds else None, rc, se)
            note = " (only in the batch of %d schedules: the failing run follows run %d)" % (len(scheds), len(runs) - 1)
        else:
            note = ""
        s, rc1, se1 = culprit
        kind = sanitizer_kind(se1, rc1)
        m = re.search(r"(SUMMARY: [^\n]+)", se1)
        key = ("asan", kind)
        if key not in seen_direct:
            seen_direct.add(key)
            rep.direct.append(("asan-under-concurrency:" + kind, "%s configuration %s cache %s schedule %s: harness exit code %s%s; %s" % (
                did, c["name"], "All" if ca else "One", s, rc1, note, (m.group(1) if m else se1[-400:])), one(s)))
    traces = set()
    for s, run in zip(scheds, runs):
        if not run["complete"]:
            continue
        stats["runs %s" % c["name"]] += 1
        stats["runs cache %s" % ("All" if ca else "One")] += 1
        ok = True
        anysucc = False
        for key, payload in run["answers"].items():
            i = req_of.get(key)
            if i is None: continue
            kind = pool[i][0]
            rep.evaluations += 1
            got = canon_of(kind, payload)
            want = p["base"][ca][i]
            if " success " in got: anysucc = True
            if got != want:
                ok = False
                stats["concurrent-answer-differs"] += 1
                k2 = ("differs", did, c["name"], ca)
                if k2 not in seen_direct:
                    seen_direct.add(k2)
                    rep.direct.append(("concurrent-answer-differs", "%s configuration %s cache %s schedule %s: thread %d request %d (%s) answered %s, alone on a fresh TransitData it is answered %s" % (
                        did, c["name"], "All" if ca else "One", s, key[0], key[1], gen.fmt_query(*pool[i]), got[:220], (want or "none")[:220]), one(s)))
        if len(run["answers"]) != len(req_of):
            stats["missing answers"] += 1
            rep.direct.append(("concurrent-answer-missing", "%s configuration %s schedule %s: %d of %d answers" % (did, c["name"], s, len(run["answers"]), len(req_of)), one(s)))
        errs = trace_errors(run, scen_of, ca)
        if errs:
            stats["trace-model mismatch"] += 1
            if len([x for x in rep.corr if x[0] == "trace-model(C14)"]) < 5:
                rep.corr.append(("trace-model(C14)", "%s configuration %s cache %s schedule %s: %s; forced trace: %s" % (
                    did, c["name"], "All" if ca else "One", s, "; ".join(errs[:3]), " ".join("%d:%s" % (t, w) for t, r, w in run["events"])), one(s)))
        inter, stale = interleaving_features(run, scen_of, ca)
        if inter: stats["runs really interleaved"] += 1
        if stale: stats["runs in which a replaced / duplicated entry was still in use"] += 1
        if any(w == "hit" for t, r, w in run["events"]): stats["runs with a hit"] += 1
        if run["skips"]: stats["runs with skipped schedule elements"] += 1
        tr = tuple(run["events"])
        if inter and anysucc and ok:
            rep.nontrivial.add(hash((did, c["name"], ca, tr)))
        traces.add(tr)
        if verbose:
            print("run schedule %s\n  forced trace: %s\n  then free   : %s" % (s, " ".join("%d:%s" % (t, w) for t, r, w in run["events"]), " ".join("%d:%s" % (t, w) for t, r, w in run["free_events"])))
            for key, payload in sorted(run["answers"].items()):
                i = req_of[key]
                print("  thread %d request %d: %s\n     concurrent: %s\n     alone     : %s" % (key[0], key[1], gen.fmt_query(*pool[i]), canon_of(pool[i][0], payload), p["base"][ca][i]))
            for e in errs: print("  TRACE-MODEL: " + e)
        if len(rep.samples) < 3 and inter and anysucc and stale:
            rep.samples.append(dict(dataset=did, configuration=c["name"], cache="All" if ca else "One", schedule=" ".join(map(str, s)) if s else "free",
                                    trace=" ".join("%d:%s" % (t, w) for t, r, w in run["events"]),
                                    answers={"thread %d request %d" % k: canon_of(pool[req_of[k]][0], v)[:200] for k, v in run["answers"].items()}))
    stats["distinct traces %s" % c["name"]] += len(traces)


def _tsan_soak(rep, stats, plans, seed, budget, canon_of):
    if budget <= 0:
        return
    exe = core.harness_phase(rep, "c14", "tsan")
    if not exe:
        return
    t0 = time.time()
    rng = random.Random(seed * 1000003 + 900000)
    jobs = []
    for p in plans:
        pool = p["pool"]
        nsc = len(p["d"]["scenarios"])
        usable = [i for i in range(len(pool)) if touches_cache(p["base"][0][i])] or list(range(len(pool)))
        for ca in (0, 1):
            ths = [[rng.choice(usable) for _ in range(rng.randint(2, 3))] for t in range(4)]
            jobs.append((p, dict(name="soak", cacheall=ca, threads=ths)))
    # rounds of SOAK_ITER iterations per job (every job at least once = 200+ iterations each), repeated while the budget lasts
    iters = SOAK_ITER
    outs = []

    def do(job):
        p, c = job
        return run_harness(exe, block_text(p["did"], p["d"], p["pool"], c, [], soak=iters), "soak_%s_%d" % (p["did"], c["cacheall"]), timeout=300)
    rounds = 0
    all_jobs = []
    while True:
        with ThreadPoolExecutor(max_workers=PAR) as ex:
            outs += list(ex.map(do, jobs))
        all_jobs += jobs
        rounds += 1
        el = time.time() - t0
        if el + el / rounds > budget:
            break
    jobs = all_jobs
    seen = set()
    for (p, c), o in zip(jobs, outs):
        rc, so, se = o
        runs = parse_runs(so)
        stats["soak iterations"] += len(runs)
        req_of = {(t, r): i for t, reqs in enumerate(c["threads"]) for r, i in enumerate(reqs)}
        text1 = block_text(p["did"], p["d"], p["pool"], c, [], soak=iters)
        if rc != 0 or len(runs) != iters:
            rep.direct.append(("asan-under-concurrency:tsan-build-" + sanitizer_kind(se, rc), "TSan build, unforced soak of %s cache %s: exit code %s after %d of %d iterations: %s" % (
                p["did"], "All" if c["cacheall"] else "One", rc, len(runs), iters, se[-400:]), text1))
        for run in runs:
            for key, payload in run["answers"].items():
                i = req_of[key]; rep.evaluations += 1
                got = canon_of(p["pool"][i][0], payload)
                if got != p["base"][c["cacheall"]][i]:
                    stats["concurrent-answer-differs (soak)"] += 1
                    k2 = ("soak-differs", p["did"], c["cacheall"])
                    if k2 not in seen:
                        seen.add(k2)
                        rep.direct.append(("concurrent-answer-differs", "unforced soak of %s cache %s: thread %d request %d answered %s, alone %s" % (
                            p["did"], "All" if c["cacheall"] else "One", key[0], key[1], got[:200], (p["base"][c["cacheall"]][i] or "none")[:200]), text1))
        for r in parse_tsan(se):
            who, fn = attribute_tsan(r)
            stats["tsan reports %s" % who] += 1
            if who == "project":
                sig = "data-race:" + fn
                if sig not in seen:
                    seen.add(sig)
                    rep.direct.append((sig, "ThreadSanitizer %s in the unforced soak of %s cache %s (4 threads, %d iterations); top project frame %s:\n%s" % (
                        r["kind"], p["did"], "All" if c["cacheall"] else "One", iters, fn, r["text"][:1500]), text1))
            else:
                rep.notes.append("TSan report not attributed to the cache / TransitData / calculator / rendering (%s, %s): %s" % (who, fn, r["text"][:300].replace("\n", " | ")))
    rep.cov["tsan_soak"] = dict(wall_s=round(time.time() - t0, 1), budget_s=budget, configurations=len(jobs) // rounds, rounds=rounds, iterations_per_process=iters, threads=4)


def _c14_replay(rep, path, core_exe, exe, model):
    """replay file: one or more harness input blocks (dataset, `thread t <request>` lines, `sched ...` lines)"""
    text = "".join(l for l in open(path).read().splitlines(True) if not l.startswith("#"))
    stats = collections.Counter()
    blocks, cur = [], []
    for line in text.splitlines(True):
        cur.append(line)
        if line.strip() == "end":
            blocks.append("".join(cur)); cur = []
    canon_cache = {}

    def canon_of(kind, payload):
        try: return canon.canon(kind, json.loads(payload))
        except Exception as e: return "%s unparsable %r" % (kind, str(e)[:80])
    for b in blocks:
        did, d, reqs, _ = gen.parse_protocol(b)
        did = re.sub(r"[^A-Za-z0-9_.-]", "_", did)
        pool, threads, scheds, soak = [], [], [], None
        for r in reqs:
            ws = r.split()
            if ws[0] == "thread":
                t = int(ws[1]); kind, q = gen.parse_query(" ".join(ws[2:]))
                q = {k: (int(v) if re.fullmatch(r"-?\d+", v) and k != "alternatives" else v) for k, v in q.items()}
                while len(threads) <= t: threads.append([])
                threads[t].append(len(pool)); pool.append((kind, q))
            elif ws[0] == "sched":
                scheds.append(tuple(int(x) for x in ws[1:]) or None)
            elif ws[0] == "soak":
                soak = int(ws[1])
        ca = int(d.get("cacheall", 0))
        flat = [("%s.%d" % (did, i), gen.write_dataset(d, "%s.%d" % (did, i), [gen.fmt_query(k, q)]), [k]) for i, (k, q) in enumerate(pool)]
        res = engine.run_cases(flat, core_exe, model)
        p = dict(did=did, d=d, pool=pool, base={ca: [res["%s.%d" % (did, i)]["impl"][0] for i in range(len(pool))]})
        c = dict(name="replay", cacheall=ca, threads=threads)
        if soak:
            rc, so, se = run_harness(exe, block_text(did, d, pool, c, [], soak=soak), "replay")
            scheds2 = [None] * soak
        else:
            rc, so, se = run_harness(exe, block_text(did, d, pool, c, scheds), "replay"); scheds2 = scheds
        if se.strip():
            print("harness stderr (exit code %s):\n%s" % (rc, se[-3000:]))
        _evaluate(rep, stats, p, c, scheds2, rc, so, se, exe, canon_of, set(), verbose=not soak)
    rep.cov["input_distribution"] = dict(stats)
    return rep.finish()
