#!/usr/bin/env python3
"""Translator: regenerates lean/TrVerif/Generated/*.lean from /repo's current source.

What is extracted (tables and structural facts; everything else is tied by the correspondence
check): reason -> string switches, parameter defaults and normalisation constants, alternatives
constants, hour-index constants and guards, ParameterException -> errorCode switch, DataStatus ->
errorCode switch, documented error codes of docs/APIv2/*.yml, /updateCache name table, and the
structural facts the history / concurrency models assume (lock kinds in connection_cache.cpp,
shared ownership, one Calculator per handler invocation, identical calculation calls in the route
and summary handlers).  A table that cannot be extracted prints `TRANSLATOR-FAIL <table>`; the
theorems over the tables are re-checked by the Lean kernel against what the code says now.
"""
import os, re, sys

VERIF = os.path.dirname(os.path.dirname(os.path.abspath(__file__)))
REPO = os.environ.get("VERIF_REPO", "/repo")
OUT = os.path.join(VERIF, "lean", "TrVerif", "Generated")
fails = []


def src(p):
    return open(os.path.join(REPO, p), encoding="utf-8", errors="replace").read()


def strip_comments(s):
    s = re.sub(r"/\*.*?\*/", " ", s, flags=re.S)
    return re.sub(r"//[^\n]*", "", s)


def lstr(s):
    return '"' + s.replace("\\", "\\\\").replace('"', '\\"') + '"'


def llist(xs, f=lstr):
    return "[" + ", ".join(f(x) for x in xs) + "]"


def guard(name, fn, default):
    try:
        return fn()
    except Exception as e:  # noqa
        fails.append("%s (%s)" % (name, str(e)[:120]))
        print("TRANSLATOR-FAIL %s: %s" % (name, str(e)[:200]))
        return default


# ------------------------------------------------------------------ helpers

def enum_members(text, enum_name):
    m = re.search(r"enum\s+(?:class\s+)?%s\s*\{(.*?)\}" % enum_name, strip_comments(text), re.S)
    if not m:
        raise ValueError("enum %s not found" % enum_name)
    return [x.split("=")[0].strip() for x in m.group(1).split(",") if x.strip()]


def string_consts(text):
    return dict(re.findall(r"const\s+std::string\s+(\w+)\s*=\s*\"([^\"]*)\"", text))


def function_body(text, header_regex):
    m = re.search(header_regex, text)
    if not m:
        raise ValueError("function %s not found" % header_regex)
    i = text.index("{", m.end() - 1)
    depth = 0
    for j in range(i, len(text)):
        if text[j] == "{": depth += 1
        elif text[j] == "}":
            depth -= 1
            if depth == 0:
                return text[i:j + 1]
    raise ValueError("unbalanced")


def switch_map(body, var_regex=r"\w+"):
    """maps every `case X:` (with fall-through) to the next assignment / return expression"""
    body = strip_comments(body)
    res, pending, default = {}, [], None
    for m in re.finditer(r"case\s+([\w:]+)\s*:|default\s*:|(?:reason\s*=\s*|return\s+)([^;]+);", body):
        if m.group(0).startswith("case"):
            pending.append(m.group(1).split("::")[-1])
        elif m.group(0).startswith("default"):
            pending.append("__default__")
        else:
            for p in pending:
                if p == "__default__": default = m.group(2).strip()
                else: res[p] = m.group(2).strip()
            pending = []
    return res, default


# ------------------------------------------------------------------ tables

def reason_tables():
    consts = string_consts(src("connection_scan_algorithm/include/result_constants.hpp"))
    enum = enum_members(src("include/routing_result.hpp"), "NoRoutingReason")
    out = {}
    for name, path, hdr in (("route", "connection_scan_algorithm/src/result_to_v2.cpp", r"ResultToV2Response::noRoutingFoundResponse\s*\("),
                            ("acc", "connection_scan_algorithm/src/result_to_v2_accessibility.cpp", r"ResultToV2AccessibilityResponse::noRoutingFoundResponse\s*\(")):
        body = function_body(src(path), hdr)
        mp, dflt = switch_map(body)
        tab = [consts[mp.get(e, dflt)] for e in enum]
        out[name] = (tab, consts[dflt])
    return enum, out


def param_defaults():
    t = strip_comments(src("include/parameters.hpp"))
    d = {}
    for k in ("DEFAULT_MIN_WAITING_TIME", "DEFAULT_MAX_ACCESS_TRAVEL_TIME", "DEFAULT_MAX_EGRESS_TRAVEL_TIME",
              "DEFAULT_MAX_TRANSFER_TRAVEL_TIME", "DEFAULT_FIRST_WAITING_TIME"):
        m = re.search(r"%s\s*=\s*([^;]+);" % k, t)
        d[k] = int(eval(m.group(1).strip(), {"__builtins__": {}}))
    m = re.search(r"DEFAULT_MAX_TOTAL_TIME\s*=\s*(\w+)\s*;", t)
    if m.group(1) != "MAX_INT": raise ValueError("DEFAULT_MAX_TOTAL_TIME is not MAX_INT")
    alt = {}
    for k, rx in (("maxAlternatives", r"getMaxAlternatives\(\)\s*\{\s*return\s+([^;]+);"),
                  ("ratioPercent", r"getAlternativesMaxTravelTimeRatio\(\)\s*\{\s*return\s+([^;]+);"),
                  ("minMax", r"getMinAlternativeMaxTravelTimeSeconds\(\)\s*\{\s*return\s+([^;]+);"),
                  ("maxAdded", r"getAlternativesMaxAddedTravelTimeSeconds\(\)\s*\{\s*return\s+([^;]+);"),
                  ("maxValid", r"getMaxValidAlternatives\(\)\s*\{\s*return\s+([^;]+);")):
        v = eval(re.search(rx, t).group(1), {"__builtins__": {}})
        alt[k] = int(round(v * 100)) if k == "ratioPercent" else int(v)
    wf = re.search(r"getWalkingSpeedFactor\(\)\s*const\s*\{\s*return\s+([^;]+);", t).group(1).strip()
    if float(wf) != 1.0: raise ValueError("walking speed factor is %s, the model assumes 1.0" % wf)
    return d, alt


def normalisation():
    """(parameter, comparison, replacement) triples of createCommonParameter"""
    t = strip_comments(src("connection_scan_algorithm/src/parameters/common_parameters.cpp"))
    body = function_body(t, r"CommonParameters::createCommonParameter\s*\(")
    out = []
    for m in re.finditer(r'parameterWithValue\.first\s*==\s*"(\w+)"\s*\)\s*\{\s*(\w+)\s*=\s*CommonParameters::getIntegerValue\(parameterWithValue\.second\);\s*if\s*\(\s*\2\s*(<=|<)\s*0\s*\)\s*\{\s*\2\s*=\s*(-?\w+)\s*;', body):
        out.append((m.group(1), m.group(3), m.group(4)))
    if len(out) != 7: raise ValueError("expected 7 numeric parameters, found %d" % len(out))
    return out


def hour_index():
    t = strip_comments(src("src/connection_set.cpp"))
    b = int(re.search(r"CONNECTION_ITERATOR_CACHE_BEGIN_HOUR\s*=\s*(\d+)", t).group(1))
    e = int(re.search(r"CONNECTION_ITERATOR_CACHE_END_HOUR\s*=\s*(\d+)", t).group(1))
    f = function_body(t, r"getForwardConnectionsBeginAtDepartureHour\s*\(int hour\)\s*const")
    r = function_body(t, r"getReverseConnectionsBeginAtArrivalHour\s*\(int hour\)\s*const")
    mf = re.search(r"if\s*\(\s*hour\s*(>=|>)\s*CONNECTION_ITERATOR_CACHE_END_HOUR\s*\|\|\s*hour\s*<\s*CONNECTION_ITERATOR_CACHE_BEGIN_HOUR\s*\)", f)
    mr = re.search(r"if\s*\(\s*hour\s*<\s*CONNECTION_ITERATOR_CACHE_BEGIN_HOUR\s*\)\s*\{\s*return\s+reverseConnections\.cend\(\);\s*\}\s*else\s+if\s*\(\s*hour\s*>\s*CONNECTION_ITERATOR_CACHE_END_HOUR\s*-\s*1\s*\)\s*\{\s*return\s+reverseConnections\.begin\(\)", r)
    if not mf: raise ValueError("forward guard not recognised")
    if not mr: raise ValueError("reverse guard not recognised")
    # first hour rejected by the forward guard
    fwd_reject = e if mf.group(1) == ">=" else e + 1
    return b, e, fwd_reject


def error_codes():
    t = src("connection_scan_algorithm/src/transit_routing_http_server.cpp")
    types = enum_members(src("include/parameters.hpp"), "Type")
    mp, dflt = switch_map(function_body(t, r"std::string\s+getResponseCode\s*\("))
    pe = [(ty, (mp.get(ty, dflt)).strip('"')) for ty in types]
    statuses = enum_members(src("include/data_fetcher.hpp") if "enum class DataStatus" in src("include/data_fetcher.hpp") else src("include/transit_data.hpp"), "DataStatus")
    mp2, dflt2 = switch_map(function_body(t, r"std::string\s+getFastErrorResponse\s*\("))
    ds = []
    for s in statuses:
        e = mp2.get(s, dflt2)
        m = re.search(r'errorCode\\":\s*\\"(\w+)\\"', e)
        ds.append((s, m.group(1) if m else ("" if e.strip() == '""' else "RAW:" + e.strip('"'))))
    return pe, ds


def documented_codes():
    out = {}
    api = src("docs/APIv2/API.yml") + src("docs/APIv2/commonResponse.yml") + src("docs/APIv2/accessibilityResponse.yml")
    codes = sorted(set(re.findall(r"-\s+'?\"?([A-Z][A-Z_]+[A-Z])'?\"?\s*(?:#.*)?$", api, re.M)))
    return codes


def update_cache_names():
    t = strip_comments(src("connection_scan_algorithm/src/transit_routing_http_server.cpp"))
    body = function_body(t, r'server\.resource\["\^/updateCache\[/\]\?\$"\]\["GET"\]\s*=\s*\[[^\]]*\]\s*\([^)]*\)\s*')
    names = re.findall(r'if\s*\(cacheName\s*==\s*"(\w+)"\s*\|\|\s*cacheName\s*==\s*"all"\)\s*\{\s*correctCacheName\s*=\s*true;\s*transitData\.(\w+)\(', body)
    if len(names) < 8: raise ValueError("only %d cache names recognised" % len(names))
    return names


def data_status_order():
    """TransitData::getDataStatus: (collection tested for emptiness, status returned), in the order of the if-chain"""
    td = strip_comments(src("src/transit_data.cpp"))
    b = function_body(td, r"TransitData::getDataStatus\s*\(\s*\)\s*const\s*")
    pairs = re.findall(r"if\s*\(\s*(?:/\*.*?\*/)?\s*(\w+)\.size\(\)\s*==\s*0\s*\)\s*\{\s*return\s+DataStatus::(\w+)\s*;", b)
    if len(pairs) < 7: raise ValueError("getDataStatus: only %d tests recognised" % len(pairs))
    if not re.search(r"return\s+DataStatus::READY\s*;\s*\}?\s*$", b.strip()): raise ValueError("getDataStatus does not end with READY")
    return pairs


def load_order():
    """TransitData::loadAllData: (update call, tolerates a missing file), in call order; every call is followed by an early
    `return DataStatus::DATA_READ_ERROR` on a negative return (other than -ENOENT when tolerant)"""
    td = strip_comments(src("src/transit_data.cpp"))
    b = function_body(td, r"DataStatus\s+TransitData::loadAllData\s*\(\s*\)\s*")
    calls = re.findall(r"ret\s*=\s*(update\w+)\(\)\s*;\s*if\s*\(\s*ret\s*<\s*0\s*(&&\s*ret\s*!=\s*-ENOENT\s*)?\)\s*\{\s*return\s+DataStatus::DATA_READ_ERROR\s*;\s*\}", b)
    if len(calls) < 8: raise ValueError("loadAllData: only %d guarded update calls recognised" % len(calls))
    if len(calls) != len(re.findall(r"\bupdate\w+\(\)", b)): raise ValueError("loadAllData: an update call without the recognised guard")
    if not re.search(r"return\s+getDataStatus\(\)\s*;\s*$", b.strip().rstrip("}").strip()): raise ValueError("loadAllData does not end with getDataStatus()")
    return [(fn, bool(tol)) for fn, tol in calls]


def mode_names():
    """CacheFetcher::getModes: the shortnames of the mode table (keys of `modes.emplace(...)`), and Mode::TRANSFERABLE"""
    t = strip_comments(src("src/modes_initialization.cpp"))
    mh = strip_comments(src("include/mode.hpp"))
    m = re.search(r"std::string\s+TRANSFERABLE\s*\{\s*\"([^\"]*)\"\s*\}", mh)
    if not m: raise ValueError("Mode::TRANSFERABLE not found")
    transferable = m.group(1)
    b = function_body(t, r"CacheFetcher::getModes\s*\(\s*\)\s*")
    keys = re.findall(r"modes\.emplace\(\s*(\"[^\"]*\"|Mode::TRANSFERABLE)\s*,", b)
    if len(keys) < 3 or len(keys) != len(re.findall(r"modes\.emplace\(", b)): raise ValueError("getModes: emplace calls not recognised")
    return [transferable if k == "Mode::TRANSFERABLE" else k.strip('"') for k in keys], transferable


def _disjuncts(cond):
    return [re.sub(r"\s+", " ", x.strip()) for x in cond.split("||")]


def loader_validations():
    """the guards in front of the unchecked / parallel-array reads of the schedule and node loaders, as normalised disjuncts:
    a trip record is skipped (`continue`) when one holds; a node file is refused (`return -EBADMSG`) when one holds"""
    t = strip_comments(src("src/trips_and_connections_cache_fetcher.cpp"))
    # locals bound once to a reader of the trip record are inlined, so that reading a list once into a local (as the loader does
    # since d389688) or at every use gives the same normalised guard
    aliases = dict(re.findall(r"auto\s+(\w+)\s*=\s*(capnpTrip\.get\w+\(\))\s*;", t))
    def inl(e):
        for k, v in aliases.items():
            e = re.sub(r"\b%s\b" % re.escape(k), v, e)
        return e
    m = re.search(r"const\s+unsigned\s+long\s+tripNodeTimesCount\s*=\s*([\w\.\(\)]+?)\.size\(\)\s*;\s*if\s*\(([^;{]*?)\)\s*\{\s*spdlog::error\([^;]*\)\s*;\s*continue\s*;\s*\}", t, re.S)
    if not m or inl(m.group(1)) != "capnpTrip.getNodeArrivalTimesSeconds()": raise ValueError("trip validation guard not recognised")
    trip = _disjuncts(inl(m.group(2)))
    # the guard must come before the first use of nodesRef[...] and before trips.emplace
    if not (m.end() < t.index("trips.emplace") and m.end() < t.index("path.nodesRef[")): raise ValueError("trip validation does not precede the indexing")
    # loop bound of the connection loop and the indexes it reads
    lb = re.search(r"nodeTimesCount\s*=\s*([\w\.\(\)]+?)\s*;", t)
    if lb and not (lb.group(1) == "tripNodeTimesCount" or inl(lb.group(1)) == "capnpTrip.getNodeArrivalTimesSeconds().size()"): lb = None
    lp = re.search(r"for\s*\(\s*unsigned\s+long\s+nodeTimeI\s*=\s*0\s*;\s*nodeTimeI\s*<\s*nodeTimesCount\s*-\s*1\s*;\s*nodeTimeI\+\+\s*\)", t)
    if not (lb and lp): raise ValueError("connection loop bound not recognised")
    args = re.search(r"connections\.push_back\(Connection\((.*?)\)\);", t, re.S)
    if not args: raise ValueError("Connection construction not recognised")
    conn = [re.sub(r"\s+", " ", a.strip()) for a in args.group(1).split(",\n")]
    back = re.search(r"if\s*\(\s*([\w\.\(\)]+?)\[nodeTimeI \+ 1\]\s*<\s*([\w\.\(\)]+?)\[nodeTimeI\]\s*\)", t)
    if not back or inl(back.group(1)) != "capnpTrip.getNodeArrivalTimesSeconds()" or inl(back.group(2)) != "capnpTrip.getNodeDepartureTimesSeconds()":
        raise ValueError("backwards-hop test not recognised")
    n = strip_comments(src("src/nodes_cache_fetcher.cpp"))
    m2 = re.search(r"transferableNodesCount\s*\{\s*capnpT\.getTransferableNodesUuids\(\)\.size\(\)\s*\}\s*;\s*if\s*\(([^;{]*?)\)\s*\{\s*spdlog::error\([^;]*\)\s*;\s*close\(fd\)\s*;\s*return\s+-EBADMSG\s*;\s*\}", n, re.S)
    if not m2: raise ValueError("node file size guard not recognised")
    node = _disjuncts(m2.group(1))
    skips = [bool(re.search(r"if\s*\(\s*ts\.count\(nodeUuid\)\s*==\s*0\s*\)\s*\{\s*spdlog::error\([^;]*\)\s*;\s*continue\s*;", n)),
             bool(re.search(r"if\s*\(\s*travelTime\s*<\s*0\s*\)\s*\{\s*spdlog::error\([^;]*\)\s*;\s*continue\s*;", n))]
    if not all(skips): raise ValueError("node file: unknown-stop / negative-time skips not recognised")
    return trip, conn, node


def parameter_facts():
    """the parameter factories: names compared in each loop (source order), the throws after each loop (source order)"""
    c = strip_comments(src("connection_scan_algorithm/src/parameters/common_parameters.cpp"))
    r = strip_comments(src("connection_scan_algorithm/src/parameters/route_parameters.cpp"))
    a = strip_comments(src("connection_scan_algorithm/src/parameters/accessibility_parameters.cpp"))
    cb = function_body(c, r"CommonParameters\s+CommonParameters::createCommonParameter\s*\([^)]*\)\s*")
    rb = function_body(r, r"RouteParameters\s+RouteParameters::createRouteODParameter\s*\([^)]*\)\s*")
    ab = function_body(a, r"AccessibilityParameters\s+AccessibilityParameters::createAccessibilityParameter\s*\([^)]*\)\s*")
    keys = lambda b: re.findall(r"parameterWithValue\.first\s*==\s*\"(\w+)\"", b)
    throws = lambda b: re.findall(r"throw\s+ParameterException\(ParameterException::Type::(\w+)\)", b)
    ck, rk, ak = keys(cb), keys(rb), keys(ab)
    if len(ck) < 9 or len(rk) < 3 or len(ak) < 1: raise ValueError("parameter loops not recognised (%d, %d, %d names)" % (len(ck), len(rk), len(ak)))
    # numeric parameters = the names whose branch calls getIntegerValue
    num = re.findall(r"parameterWithValue\.first\s*==\s*\"(\w+)\"\s*\)\s*\{\s*\w+\s*=\s*CommonParameters::getIntegerValue", cb)
    # the route / accessibility factories call createCommonParameter AFTER their own loop and validation
    for b, what in ((rb, "route"), (ab, "accessibility")):
        i = b.find("createCommonParameter(")
        if i < 0 or any(m.start() > i for m in re.finditer(r"throw\s+ParameterException", b)): raise ValueError(what + ": createCommonParameter is not the last step")
    gi = function_body(c, r"int\s+CommonParameters::getIntegerValue\s*\([^)]*\)\s*")
    full = bool(re.search(r"std::stoi\(\s*strValue\s*,\s*&parsedLength\s*\)", gi)) and bool(re.search(r"parsedLength\s*!=\s*strValue\.size\(\)", gi)) \
        and bool(re.search(r"catch\s*\(\s*\.\.\.\s*\)\s*\{\s*throw\s+ParameterException\(ParameterException::Type::INVALID_NUMERICAL_DATA\)", gi))
    return ck, num, throws(cb), rk, throws(rb), ak, throws(ab), full


def loader_insert_facts():
    """how each collection loader stores a record: emplace (the first record of a uuid wins) or operator[] (the last one wins)"""
    out = []
    for f, var in (("agencies", "ts"), ("services", "ts"), ("nodes", "ts"), ("lines", "ts"), ("paths", "ts"), ("scenarios", "ts"), ("trips_and_connections", "trips")):
        t = strip_comments(src("src/%s_cache_fetcher.cpp" % f))
        em = bool(re.search(r"\b%s\.emplace\(" % var, t)); ix = bool(re.search(r"\b%s\[[^\]]+\]\s*(=|\.)" % var, t))
        if em == ix: raise ValueError("%s loader: emplace=%s operator[]=%s" % (f, em, ix))
        out.append((f, "emplace" if em else "assign"))
    return out


def loader_catch_facts():
    """per cache fetcher: the deserialisation is inside try, with a handler for kj::Exception and one for everything else"""
    facts = {}
    for f in ("agencies", "services", "nodes", "lines", "paths", "scenarios", "trips_and_connections", "data_sources", "persons", "od_trips"):
        t = strip_comments(src("src/%s_cache_fetcher.cpp" % f))
        has_try = bool(re.search(r"\btry\s*\{", t))
        kj = bool(re.search(r"catch\s*\(\s*const\s+kj::Exception\s*&", t))
        rest = bool(re.search(r"catch\s*\(\s*\.\.\.\s*\)", t)) or bool(re.search(r"catch\s*\(\s*const\s+std::exception\s*&", t))
        m = re.search(r"PackedFdMessageReader", t); tr = re.search(r"\btry\s*\{", t)
        facts["loader_%s_reads_inside_try_catch_all" % f] = has_try and kj and rest and bool(m) and bool(tr) and tr.start() < m.start()
    return facts


def structural_facts():
    facts = {}
    cc = strip_comments(src("src/connection_cache.cpp"))
    for cls in ("ScenarioConnectionCacheOne", "ScenarioConnectionCacheAll"):
        g = function_body(cc, r"%s::get\s*\(" % cls)
        s = function_body(cc, r"%s::set\s*\(" % cls)
        fields = r"\b(lastUuid|lastConnection|connectionSets)\b"

        def locked_before_fields(body, kind):
            m = re.search(r"std::%s\s*(<[^>]*>)?\s*\w+\s*\(\s*mutex\s*\)\s*;" % kind, body)
            f = re.search(fields, body)
            return bool(m) and bool(f) and m.start() < f.start()
        facts["%s_get_shared_lock" % cls] = locked_before_fields(g, "shared_lock") or locked_before_fields(g, "unique_lock")
        facts["%s_set_unique_lock" % cls] = locked_before_fields(s, "unique_lock")
    hpp = strip_comments(src("include/connection_cache.hpp"))
    facts["cache_holds_shared_ptr"] = "std::shared_ptr<ConnectionSet>" in hpp
    calc = strip_comments(src("connection_scan_algorithm/include/calculator.hpp"))
    facts["calculator_holds_shared_ptr"] = bool(re.search(r"std::shared_ptr<ConnectionSet>\s+connectionSet\s*;", calc))
    td = strip_comments(src("src/transit_data.cpp"))
    gcs = function_body(td, r"TransitData::getConnectionsForScenario\s*\(")
    facts["cache_touched_only_via_get_set"] = len(re.findall(r"scenarioConnectionCache->(\w+)", gcs)) == 2 and set(re.findall(r"scenarioConnectionCache->(\w+)", gcs)) == {"get", "set"}
    srv = strip_comments(src("connection_scan_algorithm/src/transit_routing_http_server.cpp"))
    handlers = {}
    for name in ("route", "summary", "accessibility"):
        b = function_body(srv, r'server\.resource\["\^/v2/%s\[/\]\?\$"\]\["GET"\]\s*=\s*\[[^\]]*\]\s*\([^)]*\)\s*' % name)
        handlers[name] = b
        # one automatic (not static, not thread_local, not a reference to a shared one) Calculator per invocation
        facts["handler_%s_own_calculator" % name] = len(re.findall(r"(?<![\w&*])Calculator\s+calculator\s*\(\s*transitData\s*,\s*\*geoFilter\s*\)\s*;", b)) == 1 \
            and not re.search(r"\b(static|thread_local)\s+(const\s+)?Calculator\b", b) and not re.search(r"Calculator\s*[&*]", b)
        facts["handler_%s_fast_error_first" % name] = bool(re.search(r"std::string\s+response\s*=\s*getFastErrorResponse\(dataStatus\);\s*if\s*\(!response\.empty\(\)\)", b))
    norm = lambda b: re.sub(r"\s+", " ", re.sub(r"ResultToV2SummaryResponse|ResultToV2Response", "R", re.sub(r"summary|route", "X", b)))
    facts["summary_mirrors_route"] = norm(handlers["route"]) == norm(handlers["summary"])
    # --- where the scans start (C07, C12, C03/C04/C08/C09 index transparency): the hour handed to the index look-ups
    fc = strip_comments(src("connection_scan_algorithm/src/forward_calculation.cpp"))
    rc = strip_comments(src("connection_scan_algorithm/src/reverse_calculation.cpp"))
    fdefs = re.findall(r"int\s+departureTimeHour\s*=\s*([^;]+);", fc)
    fcalls = re.findall(r"getForwardConnectionsBeginAtDepartureHour\(([^)]*)\)", fc)
    facts["forward_scans_start_at_hour_of_departure_time"] = (len(fdefs) == 2 and all(re.sub(r"\s+", "", x) == "departureTimeSeconds/3600" for x in fdefs)
                                                              and len(fcalls) == 2 and all(x.strip() == "departureTimeHour" for x in fcalls))
    rdefs = re.findall(r"int\s+arrivalTimeHour\s*=\s*([^;]+);", rc)
    rcalls = re.findall(r"getReverseConnectionsBeginAtArrivalHour\(([^)]*)\)", rc)
    facts["reverse_scans_start_at_hour_after_arrival_time"] = (len(rdefs) == 2 and all(re.sub(r"\s+", "", x) == "arrivalTimeSeconds/3600" for x in rdefs)
                                                               and len(rcalls) == 2 and all(re.sub(r"\s+", "", x) == "arrivalTimeHour+1" for x in rcalls))
    # --- refresh (/updateCache) and data status (C15, C17)
    for fn, getter in (("updateSchedules", "getSchedules"), ("updateScenarios", "getScenarios")):
        b = function_body(td, r"TransitData::%s\s*\(" % fn)
        c = re.search(r"scenarioConnectionCache->clear\(\)\s*;", b)
        g = re.search(r"dataFetcher\.%s\s*\(" % getter, b)
        facts["%s_clears_cache_first" % fn] = bool(c) and bool(g) and c.start() < g.start()
    b = function_body(cc, r"ScenarioConnectionCacheOne::clear\s*\(")
    facts["cache_one_clear_resets_entry"] = bool(re.search(r"lastUuid\.reset\(\)\s*;", b)) and bool(re.search(r"lastConnection\.reset\(\)\s*;", b))
    b = function_body(cc, r"ScenarioConnectionCacheAll::clear\s*\(")
    facts["cache_all_clear_empties_map"] = bool(re.search(r"connectionSets\.clear\(\)\s*;", b))
    upd = function_body(srv, r'server\.resource\["\^/updateCache\[/\]\?\$"\]\["GET"\]\s*=\s*\[[^\]]*\]\s*\([^)]*\)\s*')
    m1 = re.search(r"if\s*\(atLeastOneCorrectCacheName\)\s*\{\s*dataStatus\s*=\s*transitData\.getDataStatus\(\)\s*;", upd)
    facts["updateCache_recomputes_data_status"] = bool(m1) and bool(re.search(r"\[[^\]]*&dataStatus[^\]]*\]", srv[srv.find('"^/updateCache'):srv.find('"^/updateCache') + 200]))
    facts["updateCache_answers_when_update_throws"] = bool(re.search(r"catch\s*\(const std::exception\s*&\s*\w+\)\s*\{.{0,300}?dataStatus\s*=\s*transitData\.getDataStatus\(\)", upd, re.S))
    ub = function_body(td, r"TransitData::updateSchedules\s*\(")
    facts["updateSchedules_regenerates_connections"] = bool(re.search(r"return\s+generateForwardAndReverseConnections\(\)\s*;", ub))
    # the walking-router client keeps no state between calls (C20)
    og = strip_comments(src("src/osrmgeofilter.cpp")); oh = strip_comments(src("include/osrmgeofilter.hpp"))
    facts["osrm_client_per_call"] = bool(re.search(r"HttpClient\s+client\s*\(\s*host\s*\+", function_body(og, r"OsrmGeoFilter::getAccessibleNodesFootpathsFromPoint\s*\("))) and not re.search(r"\bstatic\b", og)
    members = re.findall(r"^\s*(?:const\s+)?std::string\s+(\w+)\s*;", oh, re.M)
    facts["osrm_filter_members_are_config_strings"] = sorted(members) == ["host", "mode", "port"] and not re.search(r"\bmutable\b|\bstatic\b", oh)
    # the geography filter is ONE object shared by all requests (and all threads): the base class and the Euclidean filter declare no
    # data member at all (every statement of the class bodies is a function declaration or an access label), the OSRM filter only
    # its three configuration strings (above); no mutable / non-function static anywhere in their sources
    def data_members(header, cls):
        h = strip_comments(src(header))
        mm = re.search(r"class\s+%s\b[^{;]*\{(.*?)\n\s*\};" % cls, h, re.S)
        if not mm: return None
        decls = [x.strip() for x in re.sub(r"\b(public|protected|private)\s*:", ";", mm.group(1)).split(";")]
        return [x for x in decls if x and "(" not in x]
    gsrc = strip_comments(src("src/geofilter.cpp") + src("src/euclideangeofilter.cpp") + src("include/geofilter.hpp") + src("include/euclideangeofilter.hpp"))
    facts["geofilters_are_stateless"] = (data_members("include/geofilter.hpp", "GeoFilter") == [] and data_members("include/euclideangeofilter.hpp", "EuclideanGeoFilter") == []
                                         and not re.search(r"\bmutable\b|\bthread_local\b|\bstatic\s+(?!std::tuple<float, float> calculateLengthOfOneDegree|float calculate)", gsrc))
    calcs = strip_comments(src("connection_scan_algorithm/src/calculator.cpp") + src("connection_scan_algorithm/src/alternatives_routing.cpp") + src("connection_scan_algorithm/src/resets.cpp"))
    facts["no_static_state_in_calculator"] = not re.search(r"\bstatic\s+(?!const|std::string\s+\w+\()", calcs)
    return facts


# ------------------------------------------------------------------ emit

def sort_comparators():
    """the two std::stable_sort lambdas of TransitData::generateForwardAndReverseConnections: for each, the (getter, operator) pairs of
    the `if (A.x OP B.x) return true;` tests in source order (the model's fwdLt / revLt compare exactly these keys this way)"""
    src = strip_comments(open(os.path.join(REPO, "src/transit_data.cpp")).read())
    out = []
    for vec in ("forwardConnections", "reverseConnections"):
        m = re.search(r"std::stable_sort\(\s*%s\.begin\(\)\s*,\s*%s\.end\(\)\s*,\s*\[\]\s*\([^)]*\)\s*\{" % (vec, vec), src)
        if not m:
            raise ValueError("stable_sort of %s not found" % vec)
        i = m.end(); depth = 1
        while depth and i < len(src):
            depth += {"{": 1, "}": -1}.get(src[i], 0); i += 1
        body = src[m.end():i - 1]
        keys = []
        for a, op, b in re.findall(r"if\s*\(\s*connectionA\.get\(\)\.([\w().]+?)\s*([<>])\s*connectionB\.get\(\)\.([\w().]+?)\s*\)\s*\{?\s*return\s+true\s*;", body):
            if a != b:
                raise ValueError("comparator of %s compares %s with %s" % (vec, a, b))
            keys.append((a, op))
        if not re.search(r"return\s+false\s*;\s*$", body.strip()):
            raise ValueError("comparator of %s does not end with return false" % vec)
        out.append(keys)
    return out[0], out[1]


def main():
    os.makedirs(OUT, exist_ok=True)
    L = ["/- GENERATED by translator/extract.py from /repo — do not edit. -/", "namespace Tr.Gen", ""]
    enum, rt = guard("reason-tables", reason_tables, (["NO_ROUTING_FOUND"], {"route": ([], ""), "acc": ([], "")}))
    L += ["/-- members of enum NoRoutingReason, in declaration order -/",
          "def reasonEnum : List String := " + llist(enum),
          "/-- reason -> string switch of result_to_v2.cpp (index = NoRoutingReason enum value) -/",
          "def routeReasonTable : List String := " + llist(rt["route"][0]),
          "def routeReasonDefault : String := " + lstr(rt["route"][1]),
          "/-- reason -> string switch of result_to_v2_accessibility.cpp -/",
          "def accReasonTable : List String := " + llist(rt["acc"][0]),
          "def accReasonDefault : String := " + lstr(rt["acc"][1]), ""]
    d, alt = guard("parameter-defaults", param_defaults, ({}, {}))
    for k, v in d.items():
        L.append("def %s : Int := %d" % (k, v))
    for k, v in alt.items():
        L.append("def alt_%s : Int := %d" % (k, v))
    nz = guard("normalisation", normalisation, [])
    L += ["/-- (parameter, comparison that triggers, replacement value) of createCommonParameter -/",
          "def normalisation : List (String × String × String) := " + llist(nz, lambda x: "(%s, %s, %s)" % (lstr(x[0]), lstr(x[1]), lstr(x[2]))), ""]
    b, e, fr = guard("hour-index", hour_index, (0, 0, 0))
    L += ["def hourBegin : Nat := %d" % b, "def hourEnd : Nat := %d" % e,
          "/-- smallest hour the forward look-up guard rejects -/", "def fwdGuardRejectsFrom : Nat := %d" % fr, ""]
    pe, ds = guard("error-codes", error_codes, ([], []))
    L += ["/-- ParameterException::Type -> errorCode (getResponseCode) -/",
          "def paramErrorCodes : List (String × String) := " + llist(pe, lambda x: "(%s, %s)" % (lstr(x[0]), lstr(x[1]))),
          "/-- DataStatus -> errorCode of the data_error fast path (getFastErrorResponse); \"\" = ready -/",
          "def dataStatusCodes : List (String × String) := " + llist(ds, lambda x: "(%s, %s)" % (lstr(x[0]), lstr(x[1]))), ""]
    codes = guard("documented-codes", documented_codes, [])
    L += ["/-- every upper-case enum literal of docs/APIv2/*.yml -/", "def documentedCodes : List String := " + llist(codes), ""]
    names = guard("update-cache-names", update_cache_names, [])
    L += ["/-- /updateCache: cache name -> update call, in handler order -/",
          "def updateCacheNames : List (String × String) := " + llist(names, lambda x: "(%s, %s)" % (lstr(x[0]), lstr(x[1]))), ""]
    dso = guard("data-status-order", data_status_order, [])
    L += ["/-- TransitData::getDataStatus: (collection tested for emptiness, status), in if-chain order; READY when none is empty -/",
          "def dataStatusOrder : List (String × String) := " + llist(dso, lambda x: "(%s, %s)" % (lstr(x[0]), lstr(x[1]))), ""]
    lo = guard("load-order", load_order, [])
    L += ["/-- TransitData::loadAllData: (update call, a missing file is tolerated), in call order; a hard failure returns early -/",
          "def loadOrder : List (String × Bool) := " + llist(lo, lambda x: "(%s, %s)" % (lstr(x[0]), "true" if x[1] else "false")), ""]
    mn, tr = guard("mode-names", mode_names, ([], ""))
    L += ["/-- shortnames of the mode table of CacheFetcher::getModes, in source order; Mode::TRANSFERABLE -/",
          "def modeNames : List String := " + llist(mn), "def transferableName : String := " + lstr(tr), ""]
    tv, cv, nv = guard("loader-validations", loader_validations, ([], [], []))
    L += ["/-- a trip record is skipped when one of these holds (trips_and_connections_cache_fetcher.cpp, before any indexing) -/",
          "def tripValidation : List String := " + llist(tv),
          "/-- arguments of the Connection constructed for hop nodeTimeI (loop: nodeTimeI < nodeTimesCount - 1) -/",
          "def connectionArgs : List String := " + llist(cv),
          "/-- a per-stop file is refused when one of these holds (nodes_cache_fetcher.cpp) -/",
          "def nodeFileValidation : List String := " + llist(nv), ""]
    pf = guard("parameter-facts", parameter_facts, ([], [], [], [], [], [], [], False))
    L += ["/-- createCommonParameter: names compared in the loop, the numeric ones, the throws after the loop; the same for the route and accessibility factories; "
          "getIntegerValue = stoi + full consumption + catch-all -> INVALID_NUMERICAL_DATA -/",
          "def commonKeys : List String := " + llist(pf[0]), "def commonNumericKeys : List String := " + llist(pf[1]),
          "def commonThrows : List String := " + llist(pf[2]), "def routeKeys : List String := " + llist(pf[3]), "def routeThrows : List String := " + llist(pf[4]),
          "def accessKeys : List String := " + llist(pf[5]), "def accessThrows : List String := " + llist(pf[6]),
          "def integerValueIsFullStoi : Bool := " + ("true" if pf[7] else "false"), ""]
    li = guard("loader-insert-facts", loader_insert_facts, [])
    L += ["/-- how each loader stores a record: emplace = the first record of a uuid wins, assign = the last one wins -/",
          "def loaderInsert : List (String × String) := " + llist(li, lambda x: "(%s, %s)" % (lstr(x[0]), lstr(x[1]))), ""]
    fk, rk = guard("sort-comparators", sort_comparators, ([], []))
    L += ["/-- keys of the two stable sorts of TransitData::generateForwardAndReverseConnections: (getter, operator of the `return true` test), in order -/",
          "def fwdSortKeys : List (String × String) := " + llist(fk, lambda x: "(%s, %s)" % (lstr(x[0]), lstr(x[1]))),
          "def revSortKeys : List (String × String) := " + llist(rk, lambda x: "(%s, %s)" % (lstr(x[0]), lstr(x[1]))), ""]
    facts = guard("structural-facts", structural_facts, {})
    facts.update(guard("loader-catch-facts", loader_catch_facts, {}))
    L += ["/-- structural facts read off the source (see translator/extract.py) -/",
          "def facts : List (String × Bool) := " + llist(sorted(facts.items()), lambda x: "(%s, %s)" % (lstr(x[0]), "true" if x[1] else "false")), ""]
    L += ["end Tr.Gen", ""]
    new = "\n".join(L)
    path = os.path.join(OUT, "Tables.lean")
    old = open(path).read() if os.path.exists(path) else None
    if old != new:
        open(path, "w").write(new)
    print("translator: %d tables, %d failures%s" % (10, len(fails), "" if old == new else " (Tables.lean rewritten)"))
    return 0


if __name__ == "__main__":
    sys.exit(main())
