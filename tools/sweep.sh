#!/bin/bash
# usage: tools/sweep.sh "<seeds>" <tier> [ids...]  -- runs every check at the given seeds; prints one line per run; any VIOLATION on the clean tree is an alarm to examine
cd "$(dirname "$0")/.."
SEEDS=${1:-"1 2 3"}; TIER=${2:-quick}; shift 2
IDS=${@:-"C01 C02 C03 C04 C05 C06 C07 C08 C09 C10 C11 C12 C13 C14 C15 C16 C17 C18 C19 C20"}
for s in $SEEDS; do for id in $IDS; do
  t0=$(date +%s)
  VERIF_SEED=$s ./check.py $id --tier $TIER > /tmp/sweep_${id}_${s}.log 2>&1; rc=$?
  echo "$id seed=$s tier=$TIER rc=$rc $(( $(date +%s) - t0 ))s $(grep -m1 '^OK\|^VIOLATION\|^KNOWN' /tmp/sweep_${id}_${s}.log | cut -c1-160)"
done; done
