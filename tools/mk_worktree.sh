#!/bin/bash
# usage: mk_worktree.sh <dir>  -- scratch worktree of /repo (HEAD), configured, built, suite run once
D=$1
[ -d $D ] || git -C /repo worktree add --detach $D HEAD >/dev/null 2>&1 || exit 2
rsync -a /repo/googletest/ $D/googletest/
cd $D && autoreconf -i >/dev/null 2>&1 && ./configure >/dev/null 2>&1 && make -j8 >$D.make.log 2>&1 && make check -j8 >$D.check.log 2>&1
echo "$D rc=$? passed=$(grep -h 'OK \]' $D/tests/cache_fetch/gtest.log $D/tests/connection_scan_algorithm/csa_test.log 2>/dev/null | wc -l)"
