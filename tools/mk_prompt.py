#!/usr/bin/env python3
"""usage: mk_prompt.py <property-id> <worktree> <out-file> [avoid text]
Writes the brief given to a fresh sub-agent for one seeded-change round: property text from properties.jsonl only,
nothing else from /verif."""
import json, sys
pid, wt, out = sys.argv[1:4]
avoid = sys.argv[4] if len(sys.argv) > 4 else ""
prop = None
for l in open('/verif/properties.jsonl'):
    d = json.loads(l)
    if d['id'] == pid: prop = d
T = open('/verif/tools/prompt_template.txt').read()
txt = (T.replace('@WT@', wt).replace('@ID@', pid).replace('@TITLE@', prop['title']).replace('@STATEMENT@', prop['statement'])
        .replace('@QUANT@', prop['quantifier']['text']).replace('@WHY@', prop['why_tests_cant'])
        .replace('@ANCHORS@', json.dumps(prop['anchors'], indent=1))
        .replace('@AVOID@', ("Stay away from these ideas, which were already used: " + avoid + "\n") if avoid else ""))
open(out, 'w').write(txt)
