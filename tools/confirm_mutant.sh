#!/bin/bash
# usage: confirm_mutant.sh <worktree> <seed-id>   -- confirms a seeded change and stores it under /verif/seeded/<seed-id>
set -u
WT=$1; ID=$2
cd $WT || exit 2
OUT=/verif/seeded/$ID; mkdir -p $OUT
git -C $WT diff -- . ':(exclude)MUTANT' > /tmp/confirm_$ID.diff
FILES=$(grep '^+++ b/' MUTANT/patch.diff | sed 's#^+++ b/##')
# never use git stash here: the stash is shared by all worktrees of /repo
echo "== patch applies on clean checkout?"; git -C $WT checkout -- $FILES && git -C $WT apply --check MUTANT/patch.diff && echo yes; git -C $WT apply MUTANT/patch.diff
echo "== tests with change"; make -C $WT check -j16 > /tmp/confirm_$ID.tests.log 2>&1; T=$?; N=$(grep -h "OK \]" $WT/tests/cache_fetch/gtest.log $WT/tests/connection_scan_algorithm/csa_test.log | wc -l); F=$(grep -h "FAILED  \]" $WT/tests/cache_fetch/gtest.log $WT/tests/connection_scan_algorithm/csa_test.log | wc -l); echo "make rc=$T passed=$N failed=$F"
echo "== demo with change"; bash MUTANT/demo/run.sh $WT > /tmp/confirm_$ID.demo_with.log 2>&1; DW=$?; echo "rc=$DW"; tail -3 /tmp/confirm_$ID.demo_with.log
echo "== demo without change"; git -C $WT checkout -- $FILES; bash MUTANT/demo/run.sh $WT > /tmp/confirm_$ID.demo_without.log 2>&1; DO=$?; echo "rc=$DO"; tail -3 /tmp/confirm_$ID.demo_without.log; git -C $WT apply MUTANT/patch.diff
cp MUTANT/patch.diff $OUT/patch.diff; rm -rf $OUT/demo; cp -r MUTANT/demo $OUT/demo
python3 - <<PY
import json
m=json.load(open("$WT/MUTANT/meta.json"))
m["confirmed_by_me"]={"tests_make_rc":$T,"tests_passed":$N,"tests_failed":$F,"demo_rc_with_change":$DW,"demo_rc_without_change":$DO,
  "what_i_ran":"tools/confirm_mutant.sh: make check -j16 in the scratch worktree with the change; MUTANT/demo/run.sh with the change and after stashing it"}
json.dump(m,open("$OUT/meta.json","w"),indent=1)
print("stored", "$OUT")
PY
