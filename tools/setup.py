#!/usr/bin/env python3
"""MANIFEST.setup_cmd: build the framework offline from files on disk (Lean library + driver, C++ harnesses)."""
import os, subprocess, sys
V = os.path.dirname(os.path.dirname(os.path.abspath(__file__)))
sys.path.insert(0, V)
def main():
    rc = subprocess.call([sys.executable, os.path.join(V, "translator", "extract.py")])
    rc |= subprocess.call(["lake", "build"], cwd=os.path.join(V, "lean"))
    from harness import build
    for tgt, var in build.SETUP_TARGETS:
        try:
            print(build.build(tgt, var, quiet=False))
        except build.BuildError as e:
            print("setup: build of %s/%s failed: %s" % (tgt, var, str(e)[:500])); rc |= 1
    return rc
sys.exit(main())
