#!/bin/bash
# usage: tools/run_seeded.sh [seed-id ...]   -- applies each seeded change to /repo, runs the quick check of its property, expects a VIOLATION,
# and undoes the change (git apply / git checkout, never stash). Refuses to run on a dirty /repo. Writes seeded/LAST_RUN.txt (seeded/RESULTS.txt is the curated summary).
set -u
cd /verif
if [ -n "$(git -C /repo status --porcelain --untracked-files=no)" ]; then echo "/repo has uncommitted changes: refusing"; exit 2; fi
IDS=${@:-$(ls seeded | grep '^C')}
OUT=seeded/LAST_RUN.txt; : > $OUT.tmp
for id in $IDS; do
  pid=${id%%-*}
  if ! git -C /repo apply --check /verif/seeded/$id/patch.diff 2>/dev/null; then echo "$id patch-does-not-apply-at-HEAD" | tee -a $OUT.tmp; continue; fi
  git -C /repo apply /verif/seeded/$id/patch.diff
  t0=$(date +%s)
  ./check.py $pid --tier quick > /tmp/seeded_$id.log 2>&1; rc=$?
  first=$(grep -m1 '^VIOLATION' /tmp/seeded_$id.log | cut -c1-160)
  what=$(grep -m1 'detail:\|broken' /tmp/seeded_$id.log | cut -c1-200)
  git -C /repo checkout -- .
  python3 translator/extract.py > /dev/null 2>&1   # the check regenerated lean/TrVerif/Generated/Tables.lean from the changed tree: regenerate it from the clean one
  echo "$id rc=$rc $(( $(date +%s) - t0 ))s ${first:-NO-VIOLATION} | $what" | tee -a $OUT.tmp
done
mv $OUT.tmp $OUT
git -C /repo status --porcelain --untracked-files=no
