#!/bin/bash
# usage: tools/seeded_matrix.sh "<seeds>" [seed-id ...]  -- detection matrix: every seeded change at several VERIF_SEED values (quick tier).
# A change that is caught at one seed only is a generator that hits its trigger by luck: strengthen the stream.
set -u
cd /verif
if [ -n "$(git -C /repo status --porcelain --untracked-files=no)" ]; then echo "/repo has uncommitted changes: refusing"; exit 2; fi
SEEDS=${1:-"1 2 3 4"}; shift
IDS=${@:-$(ls seeded | grep '^C')}
PIDS=""
for id in $IDS; do
  pid=${id%%-*}
  git -C /repo apply --check /verif/seeded/$id/patch.diff 2>/dev/null || { echo "$id patch-does-not-apply"; continue; }
  git -C /repo apply /verif/seeded/$id/patch.diff
  row=""
  for s in $SEEDS; do
    VERIF_SEED=$s ./check.py $pid --tier quick > /tmp/matrix_${id}_$s.log 2>&1; rc=$?
    if [ $rc -eq 0 ]; then row="$row s$s=MISS"; elif grep -q "no-failing-input-found" /tmp/matrix_${id}_$s.log; then row="$row s$s=unproved"; else row="$row s$s=direct"; fi
  done
  git -C /repo checkout -- .
  python3 translator/extract.py > /dev/null 2>&1
  echo "$id $row"
  PIDS="$PIDS $pid"
done
# the runs above rewrote evidence/<pid>.json from a changed tree: write it again from the clean tree
for pid in $(echo $PIDS | tr ' ' '\n' | sort -u); do ./check.py $pid --tier quick > /tmp/matrix_clean_$pid.log 2>&1 || echo "CLEAN-TREE ALARM $pid (see /tmp/matrix_clean_$pid.log)"; done
git -C /repo status --porcelain --untracked-files=no
