#!/usr/bin/env python3
"""writes MANIFEST.json from check/registry.py (kept in one place so the manifest never drifts)"""
import json, os, sys
V = os.path.dirname(os.path.dirname(os.path.abspath(__file__)))
sys.path.insert(0, V)
from check import registry

def main():
    checks = []
    for pid in sorted(registry.CLAIMS):
        c = registry.CLAIMS[pid]
        checks.append({
            "property_id": pid,
            "quick_cmd": "./check.py %s --tier quick" % pid,
            "thorough_cmd": "./check.py %s --tier thorough" % pid,
            "evidence_file": "/verif/evidence/%s.json" % pid,
            "replay_cmd_template": "./check.py %s --replay {path}" % pid,
            "engine": c.get("engine", "lean4+correspondence"),
            "level_claimed": {"category": c["category"], "text": c["text"], "design_ref": c.get("design_ref", "DESIGN.md §6 " + pid)},
            "level_note": c["note"],
            "technique": c["technique"],
        })
    m = {
        "version": 1,
        "setup_cmd": "cd /verif && python3 tools/setup.py",
        "hooks": {
            "guard": "TRROUTING_VERIF",
            "enable": "harness/build.py compiles /repo's sources with -DTRROUTING_VERIF (yield points in TransitData::getConnectionsForScenario call the harness-supplied trrouting_verif_point)",
            "baseline_off_cmd": "make -C /repo check -j16",
            "source_commits": registry.HOOK_COMMITS,
            "add_only": True,
        },
        "engines": [
            {"name": "lean4+correspondence", "path": "/verif/lean", "serves_properties": sorted(registry.CLAIMS),
             "kind_free_text": "Lean 4 executable model + theorems (lean/TrVerif), tied to /repo by translator/extract.py (tables, structural facts) and by differential runs of the compiled model driver against C++ harnesses built from /repo's working tree"},
        ],
        "checks": checks,
        "notes": "All checks: ./check.py <id> --tier quick|thorough, honour VERIF_SEED / VERIF_TIER, rewrite evidence/<id>.json, known findings in known_findings.json. See DESIGN.md.",
        "not_applicable": registry.NOT_APPLICABLE,
    }
    json.dump(m, open(os.path.join(V, "MANIFEST.json"), "w"), indent=1)
    print("MANIFEST.json: %d checks, %d not applicable" % (len(checks), len(registry.NOT_APPLICABLE)))

main()
