/-
  Proofs/LoadColl — round trip of the collection files: what the loaders build from `encode ds`
  for agencies, services, lines, paths and scenarios.
-/
import TrVerif.Proofs.LoadMaps
namespace Tr.Load

theorem lookup_none_of_lt {α} : ∀ (m : Map α) (k : Nat), (∀ p ∈ m, p.1 < k) → m.lookup k = none := by
  intro m
  induction m with
  | nil => intro k _; rfl
  | cons q m ih =>
    intro k h
    obtain ⟨k', v'⟩ := q
    have hk : k' < k := h (k', v') (by simp)
    rw [List.lookup_cons]
    have : (k == k') = false := by simp; omega
    rw [this]; exact ih k (fun p hp => h p (List.mem_cons_of_mem _ hp))

theorem lt_append_last {α} (m : Map α) (k i : Nat) (v : α) (h : ∀ p ∈ m, p.1 < K k i) :
    ∀ p ∈ m ++ [(K k i, v)], p.1 < K k (i+1) := by
  intro p hp
  rcases List.mem_append.1 hp with hp | hp
  · exact Nat.lt_trans (h p hp) (K_lt.2 (Nat.lt_succ_self i))
  · simp only [List.mem_singleton] at hp; subst hp; exact K_lt.2 (Nat.lt_succ_self i)

/-! ### agencies, services, the stop collection -/

def expIds (k n : Nat) : Map Unit := expFrom k (fun _ _ => ()) 0 (List.replicate n ())

theorem idsLoop_enc (k : Nat) : ∀ (n i : Nat) (m : Map Unit), (∀ p ∈ m, p.1 < K k i) →
    idsLoop (idsFrom k i n) m = (0, m ++ expFrom k (fun _ _ => ()) i (List.replicate n ())) := by
  intro n
  induction n with
  | zero => intro i m _; simp [idsFrom, idsLoop, expFrom]
  | succ n ih =>
    intro i m h
    rw [idsFrom, idsLoop]
    simp only [UTok.parse]
    rw [set_last m _ _ h, ih (i+1) _ (lt_append_last m k i () h)]
    simp [List.replicate_succ, expFrom]

theorem getIds_enc (k n : Nat) : getIds (.ok, idsFrom k 0 n) = (0, expIds k n) := by
  unfold getIds
  simp only
  rw [idsLoop_enc k n 0 [] (by intro p hp; simp at hp)]; rfl

theorem expIds_has (k n j : Nat) : (expIds k n).has (K k j) = decide (j < n) := by
  unfold expIds; rw [expFrom_has]; simp

/-! ### lines -/

def gLine (_ : Nat) (l : LineRec) : LLine := ⟨K 2 l.agency, modeName l.mode⟩
def expLines (ds : Dataset) : Map LLine := expFrom 4 gLine 0 ds.lines

theorem modeName_known (m : Nat) : Gen.modeNames.contains (modeName m) = true := by
  unfold modeName
  split
  · decide
  · split <;> decide

theorem linesLoop_enc (ag : Map Unit) (nA : Nat) (hag : ∀ a, ag.has (K 2 a) = decide (a < nA)) :
    ∀ (ls : List LineRec) (i : Nat) (m : Map LLine), (∀ l ∈ ls, l.agency < nA) → (∀ p ∈ m, p.1 < K 4 i) →
    linesLoop ag (encLinesFrom i ls) m = (0, m ++ expFrom 4 gLine i ls) := by
  intro ls
  induction ls with
  | nil => intro i m _ _; simp [encLinesFrom, linesLoop, expFrom]
  | cons l ls ih =>
    intro i m hl h
    rw [encLinesFrom, linesLoop]
    simp only [UTok.parse]
    have ha : ag.has (K 2 l.agency) = true := by rw [hag]; simpa using hl l (by simp)
    rw [if_pos ⟨ha, modeName_known _⟩, emplace_last m _ _ h,
      ih (i+1) _ (fun x hx => hl x (List.mem_cons_of_mem _ hx)) (lt_append_last m 4 i _ h)]
    simp [expFrom, gLine]

/-! ### paths -/

def gPath (_ : Nat) (p : PathRec) : LPath := ⟨K 4 p.line, p.stops.map (K 1), p.dist.take p.stops.length⟩
def expPaths (ds : Dataset) : Map LPath := expFrom 5 gPath 0 ds.paths

theorem resolveNodes_enc (nodes : Map LNode) : ∀ (stops : List Nat), (∀ s ∈ stops, nodes.has (K 1 s) = true) →
    resolveNodes nodes (stops.map fun s => UTok.id (K 1 s)) = some (stops.map (K 1)) := by
  intro stops
  induction stops with
  | nil => intro _; rfl
  | cons s ss ih =>
    intro h
    simp only [List.map_cons, resolveNodes, UTok.parse]
    rw [if_pos (h s (by simp)), ih (fun x hx => h x (List.mem_cons_of_mem _ hx))]; rfl

theorem segLoop_allAbsent (dist : List Int) : ∀ (n k : Nat), dist.length ≤ k → segLoop n (encSegsFrom dist k n) = some [] := by
  intro n
  induction n with
  | zero => intro k _; rfl
  | succ n ih =>
    intro k hk
    rw [encSegsFrom, List.getElem?_eq_none hk]
    simp only [segLoop]
    exact ih (k+1) (by omega)

theorem segLoop_enc (dist : List Int) : ∀ (n k : Nat), segLoop n (encSegsFrom dist k n) = some ((dist.drop k).take n) := by
  intro n
  induction n with
  | zero => intro k; simp [encSegsFrom, segLoop]
  | succ n ih =>
    intro k
    rw [encSegsFrom]
    by_cases hk : k < dist.length
    · rw [List.getElem?_eq_getElem hk]
      simp only [segLoop]
      rw [if_neg (by simp), ih (k+1)]
      have hd : List.drop k dist = dist[k] :: List.drop (k+1) dist := List.drop_eq_getElem_cons hk
      simp only [Option.map_some, hd, List.take_succ_cons]
    · have hk' : dist.length ≤ k := Nat.le_of_not_lt hk
      rw [List.getElem?_eq_none hk']
      simp only [segLoop]
      rw [segLoop_allAbsent dist n (k+1) (by omega), List.drop_eq_nil_of_le hk']; simp

theorem pathsLoop_enc (lines : Map LLine) (nodes : Map LNode) (nL nS : Nat)
    (hl : ∀ a, lines.has (K 4 a) = decide (a < nL)) (hn : ∀ a, nodes.has (K 1 a) = decide (a < nS)) :
    ∀ (ps : List PathRec) (i : Nat) (m : Map LPath), (∀ p ∈ ps, p.line < nL ∧ ∀ s ∈ p.stops, s < nS) → (∀ p ∈ m, p.1 < K 5 i) →
    pathsLoop lines nodes (encPathsFrom i ps) m = (0, m ++ expFrom 5 gPath i ps) := by
  intro ps
  induction ps with
  | nil => intro i m _ _; simp [encPathsFrom, pathsLoop, expFrom]
  | cons p ps ih =>
    intro i m hp h
    rw [encPathsFrom, pathsLoop]
    simp only [UTok.parse]
    have h1 := hp p (by simp)
    rw [resolveNodes_enc nodes p.stops (fun s hs => by rw [hn]; simpa using h1.2 s hs)]
    simp only [encSegs, List.length_map, segLoop_enc, List.drop_zero]
    rw [if_pos (by rw [hl]; simpa using h1.1), emplace_last m _ _ h,
      ih (i+1) _ (fun x hx => hp x (List.mem_cons_of_mem _ hx)) (lt_append_last m 5 i _ h)]
    simp [expFrom, gPath]

/-! ### scenarios -/

def gScen (_ : Nat) (sc : Scenario) : LScen :=
  ⟨[sc.services.map (fun x => Val.id (K 3 x)), sc.onlyLines.map (fun x => Val.id (K 4 x)), sc.onlyAgencies.map (fun x => Val.id (K 2 x)), [],
    sc.onlyModes.map (fun x => Val.mode (modeName x)), sc.exceptLines.map (fun x => Val.id (K 4 x)),
    sc.exceptAgencies.map (fun x => Val.id (K 2 x)), [], sc.exceptModes.map (fun x => Val.mode (modeName x))]⟩
def expScen (ds : Dataset) : Map LScen := expFrom 6 gScen 0 ds.scenarios

theorem resolveList_ids (known : Nat → Bool) (kind : Nat) : ∀ (l : List Nat), (∀ x ∈ l, known (K kind x) = true) →
    resolveList (byId known) (l.map fun x => Tok.u (.id (K kind x))) = some (l.map fun x => Val.id (K kind x)) := by
  intro l
  induction l with
  | nil => intro _; rfl
  | cons x xs ih =>
    intro h
    simp only [List.map_cons, resolveList, byId, UTok.parse]
    rw [if_pos (h x (by simp))]
    simp only
    rw [ih (fun y hy => h y (List.mem_cons_of_mem _ hy))]; rfl

theorem resolveList_modes : ∀ (l : List Nat),
    resolveList byMode (l.map fun x => Tok.s (modeName x)) = some (l.map fun x => Val.mode (modeName x)) := by
  intro l
  induction l with
  | nil => rfl
  | cons x xs ih =>
    simp only [List.map_cons, resolveList, byMode]
    rw [if_pos (modeName_known x)]
    simp only
    rw [ih]; rfl

theorem resolveList_nil (f : Tok → R) : resolveList f [] = some [] := rfl

structure ScenInRange (nSv nL nA : Nat) (sc : Scenario) : Prop where
  sv : ∀ x ∈ sc.services, x < nSv
  ol : ∀ x ∈ sc.onlyLines, x < nL
  el : ∀ x ∈ sc.exceptLines, x < nL
  oa : ∀ x ∈ sc.onlyAgencies, x < nA
  ea : ∀ x ∈ sc.exceptAgencies, x < nA

theorem assign_enc (kn : Known) (nSv nL nA : Nat)
    (hs : ∀ a, kn.services (K 3 a) = decide (a < nSv)) (hl : ∀ a, kn.lines (K 4 a) = decide (a < nL))
    (ha : ∀ a, kn.agencies (K 2 a) = decide (a < nA)) (i : Nat) (sc : Scenario) (hr : ScenInRange nSv nL nA sc) :
    assignLists kn 0 (encScenario i sc).lists {} = (false, gScen i sc) := by
  have e0 := resolveList_ids kn.services 3 sc.services (fun x hx => by rw [hs]; simpa using hr.sv x hx)
  have e1 := resolveList_ids kn.lines 4 sc.onlyLines (fun x hx => by rw [hl]; simpa using hr.ol x hx)
  have e2 := resolveList_ids kn.agencies 2 sc.onlyAgencies (fun x hx => by rw [ha]; simpa using hr.oa x hx)
  have e5 := resolveList_ids kn.lines 4 sc.exceptLines (fun x hx => by rw [hl]; simpa using hr.el x hx)
  have e6 := resolveList_ids kn.agencies 2 sc.exceptAgencies (fun x hx => by rw [ha]; simpa using hr.ea x hx)
  have e4 := resolveList_modes sc.onlyModes
  have e8 := resolveList_modes sc.exceptModes
  simp only [encScenario, assignLists, Known.resolver, e0, e1, e2, e4, e5, e6, e8, resolveList_nil, gScen]
  rfl

theorem scenLoop_enc (kn : Known) (nSv nL nA : Nat)
    (hs : ∀ a, kn.services (K 3 a) = decide (a < nSv)) (hl : ∀ a, kn.lines (K 4 a) = decide (a < nL))
    (ha : ∀ a, kn.agencies (K 2 a) = decide (a < nA)) :
    ∀ (ss : List Scenario) (i : Nat) (m : Map LScen), (∀ sc ∈ ss, ScenInRange nSv nL nA sc) → (∀ p ∈ m, p.1 < K 6 i) →
    scenLoop kn (encScenariosFrom i ss) m = (0, m ++ expFrom 6 gScen i ss) := by
  intro ss
  induction ss with
  | nil => intro i m _ _; simp [encScenariosFrom, scenLoop, expFrom]
  | cons sc ss ih =>
    intro i m hr h
    rw [encScenariosFrom, scenLoop]
    have hu : (encScenario i sc).uuid.parse = some (K 6 i) := rfl
    have hsim : (encScenario i sc).sim = .empty := rfl
    simp only [hu, hsim]
    rw [if_neg (by decide)]
    have hget : m.get? (K 6 i) = none := lookup_none_of_lt m _ h
    simp only [hget, Option.getD_none]
    rw [assign_enc kn nSv nL nA hs hl ha i sc (hr sc (by simp))]
    simp only
    rw [set_last m _ _ h, ih (i+1) _ (fun x hx => hr x (List.mem_cons_of_mem _ hx)) (lt_append_last m 6 i _ h)]
    simp [expFrom]

end Tr.Load
