/-
  TrVerif.Proofs.Achieve — the route a calculation returns is itself an admissible journey in the
  sense of the optimality theorems: from the internal validity predicate `JourneyOK` (legs that are
  rides, linked by footpaths in time) to the inductive specifications `Reach` / `RReach`
  (`AdmFwd`, `AdmRev`). With the optimality theorems this makes the reported arrival / departure the
  minimum / maximum over admissible journeys, not just a bound.

  The query's excluded trips are handled by running the validity chain over the NON-excluded
  connections: the reverse scan skips an excluded connection, so it is the scan of the filtered
  list, and every connection of the journey is then a member of that list.
-/
import TrVerif.Props.C03
namespace Tr

/-- connections whose trip the query does not exclude -/
def Ctx.allowed (cx : Ctx) (c : Conn) : Bool := !cx.disabled c.trip

theorem revStep_disabled (cx : Ctx) (u : Nat → Bool) (single : Bool) (s : RState) (c : Conn) (h : cx.disabled c.trip = true) :
    revStep cx u single s c = s := by
  unfold revStep
  by_cases h1 : s.stop = true
  · rw [if_pos h1]
  · rw [if_neg h1]
    by_cases h2 : ¬ (c.arr ≤ cx.arrT - (if single = true then cx.minEgress else 0))
    · rw [if_pos h2]
    · rw [if_neg h2, if_pos (by rw [h]; simp)]

theorem revFold_allowed (cx : Ctx) (u : Nat → Bool) (single : Bool) : ∀ (l : List Conn) (s : RState),
    l.foldl (revStep cx u single) s = (l.filter cx.allowed).foldl (revStep cx u single) s := by
  intro l
  induction l with
  | nil => intro s; rfl
  | cons c rest ih =>
    intro s
    rw [List.foldl_cons]
    by_cases hd : cx.disabled c.trip = true
    · rw [revStep_disabled cx u single s c hd, List.filter_cons_of_neg (by simp [Ctx.allowed, hd])]; exact ih _
    · rw [List.filter_cons_of_pos (by simp [Ctx.allowed]; simpa using hd), List.foldl_cons]; exact ih _

/-- every returned route is `emit` of a journey that is valid over the allowed connections -/
theorem singleReverse_emits_allowed {cx : Ctx} (usable : Nat → Bool)
    (hs : SortedRev cx.cs.rev) (hm : ArrMono cx.cs.rev) (hmw : 0 ≤ cx.p.minWait)
    (hclean : CleanupPreserves cx (cx.cs.rev.filter cx.allowed)) {r : Route} (h : singleReverse cx usable = .ok r) :
    ∃ bd j, r = emit cx.ds cx.p.minWait bd j ∧ JourneyOK cx (cx.cs.rev.filter cx.allowed) bd j ∧
      0 ≤ bd ∧ cx.arrT - bd ≤ cx.p.maxTotal ∧ (cx.depT ≠ -1 → cx.depT ≤ bd) := by
  unfold singleReverse at h
  cases hl : lookupPos (revLookup cx.cs.rev cx.cs.revIdx (hourOf cx.arrT + 1)) with
  | none => rw [hl] at h; cases h
  | some start =>
    rw [hl] at h
    simp only at h
    have hfold : revScan cx usable true start =
        ((cx.cs.rev.drop start).filter cx.allowed).foldl (revStep cx usable true) (RState.init cx) := by
      unfold revScan; exact revFold_allowed cx usable true _ _
    rw [hfold] at h
    split at h
    · cases h
    · have hsub : ∀ a ∈ (cx.cs.rev.drop start).filter cx.allowed, a ∈ cx.cs.rev.filter cx.allowed :=
        fun a ha => List.mem_filter.mpr ⟨List.mem_of_mem_drop (List.mem_filter.mp ha).1, (List.mem_filter.mp ha).2⟩
      have hsorted : SortedRev ([] ++ (cx.cs.rev.drop start).filter cx.allowed) := by
        show List.Pairwise _ ([] ++ (cx.cs.rev.drop start).filter cx.allowed)
        rw [List.nil_append]
        exact List.Pairwise.sublist (List.Sublist.trans List.filter_sublist (List.drop_sublist _ _)) hs
      have hm' : ArrMono (cx.cs.rev.filter cx.allowed) :=
        fun a ha b hb => hm a (List.mem_filter.mp ha).1 b (List.mem_filter.mp hb).1
      have hinv := revScanList_inv usable true (cx.cs.rev.filter cx.allowed) hm' hmw ((cx.cs.rev.drop start).filter cx.allowed) []
        (RState.init cx) (by simpa using hsub) hsorted (init_RInv cx)
      simp only [List.nil_append] at hinv
      exact reverseJourney_emits (hinv.mono_pre hsub) hclean h

/-! ### from legs to the inductive specifications -/

/-- backwards along the legs: if the place is reached in time from the last alighting, it is reached
    in time from the first one -/
theorem legs_unboard {cx : Ctx} {C : List Conn} (hnd : ∀ c ∈ C, cx.disabled c.trip = false) :
    ∀ (legs : List JStep), LegsOK cx C legs → legs ≠ [] →
      (∀ l x, legs.getLast? = some l → l.exit = some x → UnboardP cx C x) →
      ∀ l1 x1, legs.head? = some l1 → l1.exit = some x1 → UnboardP cx C x1 := by
  intro legs
  induction legs with
  | nil => intro _ h; exact absurd rfl h
  | cons l rest ih =>
    intro hok _ hlast l1 x1 hh hx1
    simp only [List.head?_cons, Option.some.injEq] at hh
    subst hh
    cases rest with
    | nil => exact hlast l x1 (by simp) hx1
    | cons l' rest' =>
      obtain ⟨⟨e, x, e', h1, h2, h3, h4, ⟨d, hfoot⟩, hw, htime⟩, hrest⟩ := hok
      rw [hx1] at h2; cases h2
      -- the next leg's ride
      have hnext : ∃ x', l'.exit = some x' ∧ Ride C e' x' := by
        cases rest' with
        | nil => obtain ⟨e0, x0, a, b, c⟩ := hrest; rw [h4] at a; cases a; exact ⟨x0, b, c⟩
        | cons l'' r'' => obtain ⟨⟨e0, x0, _, a, b, c, _⟩, _⟩ := hrest; rw [h4] at a; cases a; exact ⟨x0, b, c⟩
      obtain ⟨x', hx', hr'⟩ := hnext
      obtain ⟨hcu', hdis', tz, hrz, htz⟩ := ih hrest (by simp)
        (fun l0 x0 hl0 hx0 => hlast l0 x0 (by rw [List.getLast?_cons_cons]; exact hl0) hx0) l' x' (by simp) hx'
      refine ⟨h3.2.2.2.2.2, hnd x1 h3.2.1, e'.dep - l.walk - e'.effWait cx.p.minWait, ?_, by omega⟩
      exact RReach.ride x'.arrStop tz e' x' ⟨x1.arrStop, l.walk, d⟩ hrz hr'.1 hr'.2.1 rfl htz hr'.2.2.1 hr'.2.2.2.1 hr'.2.2.2.2.1
        hr'.2.2.2.2.2 (hnd e' hr'.1) hfoot hw

/-- forwards along the legs: if the first boarding can be reached from the place, so can the last -/
theorem legs_board {cx : Ctx} {C : List Conn} (hnd : ∀ c ∈ C, cx.disabled c.trip = false) :
    ∀ (legs : List JStep), LegsOK cx C legs → legs ≠ [] →
      (∀ l e, legs.head? = some l → l.enter = some e → BoardP cx C e) →
      ∀ ln en, legs.getLast? = some ln → ln.enter = some en → BoardP cx C en := by
  intro legs
  induction legs with
  | nil => intro _ h; exact absurd rfl h
  | cons l rest ih =>
    intro hok _ hfirst ln en hl hen
    cases rest with
    | nil =>
      simp only [List.getLast?_singleton, Option.some.injEq] at hl
      subst hl
      exact hfirst l en (by simp) hen
    | cons l' rest' =>
      obtain ⟨⟨e, x, e', h1, h2, h3, h4, ⟨d, hfoot⟩, hw, htime⟩, hrest⟩ := hok
      obtain ⟨hcb, hdis, t, hr, ht⟩ := hfirst l e (by simp) h1
      have hf' : (⟨e'.depStop, l.walk, d⟩ : NTD) ∈ cx.ds.footOf x.arrStop := rfoot_flip hfoot
      have hreach : Reach cx C e'.depStop (x.arr + l.walk) :=
        Reach.ride e.depStop t e x ⟨e'.depStop, l.walk, d⟩ hr h3.1 h3.2.1 rfl ht h3.2.2.1 h3.2.2.2.1 h3.2.2.2.2.1 h3.2.2.2.2.2 hdis hf' hw
      have hride' : ∃ x', Ride C e' x' := by
        cases rest' with
        | nil => obtain ⟨e0, x0, a, b, c⟩ := hrest; rw [h4] at a; cases a; exact ⟨x0, c⟩
        | cons l'' r'' => obtain ⟨⟨e0, x0, _, a, b, c, _⟩, _⟩ := hrest; rw [h4] at a; cases a; exact ⟨x0, c⟩
      obtain ⟨x', hr'⟩ := hride'
      rw [List.getLast?_cons_cons] at hl
      exact ih hrest (by simp)
        (fun l0 e0 hl0 he0 => by
          simp only [List.head?_cons, Option.some.injEq] at hl0
          subst hl0
          rw [h4] at he0; cases he0
          exact ⟨hr'.2.2.2.2.1, hnd e' hr'.1, _, hreach, htime⟩)
        ln en hl hen

/-- **a valid journey is an admissible journey of the reverse kind**, leaving no earlier than its
    recorded departure, when it arrives by the context's arrival time -/
theorem journeyOK_admRev {cx : Ctx} {C : List Conn} (hnd : ∀ c ∈ C, cx.disabled c.trip = false) {bd : Int} {j : List JStep}
    (h : JourneyOK cx C bd j) (hen : cx.EgrNodup) :
    ∃ a0 e0 x0, AdmRev cx C a0 e0 x0 ∧ bd ≤ admDeparture cx a0 e0 := by
  obtain ⟨acc, legs, egr, rfl, hacc, hegr, hne, hok, hfirst, hlast⟩ := h
  obtain ⟨l1, rest, rfl⟩ : ∃ l1 rest, legs = l1 :: rest := by
    cases legs with
    | nil => exact absurd rfl hne
    | cons a b => exact ⟨a, b, rfl⟩
  obtain ⟨e1, x1, he1, hx1⟩ := hok.allLegs l1 (List.mem_cons_self ..)
  obtain ⟨hf1, hf2, _⟩ := hfirst e1 (by simp [he1])
  have hride1 : Ride C e1 x1 := by
    cases rest with
    | nil => obtain ⟨e0, x0, a, b, c⟩ := hok; rw [he1] at a; cases a; rw [hx1] at b; cases b; exact c
    | cons l' r' => obtain ⟨⟨e0, x0, _, a, b, c, _⟩, _⟩ := hok; rw [he1] at a; cases a; rw [hx1] at b; cases b; exact c
  have hunb := legs_unboard hnd (l1 :: rest) hok hne (by
    intro l x hl hx
    obtain ⟨hmem, harr⟩ := hlast l x hl hx
    obtain ⟨e', x', he', hx', hrr⟩ : ∃ e' x', l.enter = some e' ∧ l.exit = some x' ∧ Ride C e' x' := by
      have := hok.isRide l (List.mem_of_getLast? hl)
      obtain ⟨e', x', a, b, c⟩ := this
      exact ⟨e', x', a, b, c⟩
    rw [hx] at hx'; cases hx'
    refine ⟨hrr.2.2.2.2.2, hnd x hrr.2.1, cx.arrT - egr.walk, ?_, by have := harr hen; omega⟩
    exact RReach.egress (cx := cx) (C := C) ⟨x.arrStop, egr.walk, egr.dist⟩ hmem) l1 x1 (by simp) hx1
  refine ⟨⟨e1.depStop, acc.walk, acc.dist⟩, e1, x1,
    ⟨hf1, rfl, hride1.1, hride1.2.1, hride1.2.2.1, hride1.2.2.2.1, hride1.2.2.2.2.1, hunb⟩, ?_⟩
  unfold admDeparture
  simp only
  omega

/-- **a valid journey of a departure-time calculation is an admissible journey of the forward kind**,
    arriving exactly when the emitted route arrives -/
theorem journeyOK_admFwd {cx : Ctx} {C : List Conn} (hnd : ∀ c ∈ C, cx.disabled c.trip = false) {bd : Int} {j : List JStep}
    (h : JourneyOK cx C bd j) (hdep : cx.depT ≤ bd) :
    ∃ e x g, AdmFwd cx C e x g ∧ x.arr + g.time = (emit cx.ds cx.p.minWait bd j).arrivalTime := by
  obtain ⟨acc, legs, egr, rfl, hacc, hegr, hne, hok, hfirst, hlast⟩ := h
  obtain ⟨ln, hln⟩ : ∃ l, legs.getLast? = some l := by
    cases hg : legs.getLast? with
    | none => simp at hg; exact absurd hg hne
    | some l => exact ⟨l, rfl⟩
  obtain ⟨en, xn, hen, hxn, hrn⟩ := hok.isRide ln (List.mem_of_getLast? hln)
  have hb := legs_board hnd legs hok hne (by
    intro l e hl he
    obtain ⟨hf1, hf2, _⟩ := hfirst e (by rw [hl]; simp [he])
    obtain ⟨e', x', he', hx', hr'⟩ := hok.isRide l (List.mem_of_mem_head? hl)
    rw [he] at he'; cases he'
    refine ⟨hr'.2.2.2.2.1, hnd e hr'.1, cx.depT + acc.walk, ?_, by omega⟩
    exact Reach.access (cx := cx) (C := C) ⟨e.depStop, acc.walk, acc.dist⟩ hf1) ln en hln hen
  obtain ⟨hmem, _⟩ := hlast ln xn hln hxn
  refine ⟨en, xn, ⟨xn.arrStop, egr.walk, egr.dist⟩, ⟨hb, hrn.1, hrn.2.1, hrn.2.2.1, hrn.2.2.2.1, hrn.2.2.2.2.2, hmem, rfl⟩, ?_⟩
  rw [emit_arrival _ _ _ acc egr legs hacc hegr hne hok.allLegs, finalArrival_last egr legs ln xn hln hxn]

end Tr
