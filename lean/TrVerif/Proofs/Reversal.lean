/-
  TrVerif.Proofs.Reversal — a journey seen from its start (`Reach`: how the traveller got to a
  boarding) and from its end (`RReach`: how the place is reached from an alighting) are the same
  journey: the forward derivation of a boarding plus the reverse derivation of the matching
  alighting give an admissible journey in the sense of the reverse pass (`AdmRev`), leaving no
  earlier than the requested departure. Used for the second pass of a departure-time query.
-/
import TrVerif.Proofs.ForwardSingle
import TrVerif.Props.C04
namespace Tr

theorem foot_flip {ds : Dataset} {z : Nat} {f : NTD} (h : f ∈ ds.footOf z) :
    (⟨z, f.time, f.dist⟩ : NTD) ∈ ds.rfootOf f.stop := by
  have hm := footOf_mem h
  simp only [Dataset.rfootOf, List.mem_filterMap]
  exact ⟨_, hm, by simp⟩

theorem RReach.mono_set {cx : Ctx} {P P' : List Conn} (hp : ∀ a ∈ P, a ∈ P') {y : Nat} {t : Int} (h : RReach cx P y t) :
    RReach cx P' y t := by
  induction h with
  | egress g hg => exact RReach.egress g hg
  | ride z t e x f _ he hx h1 h2 h3 h4 h5 h6 h7 h8 h9 ih => exact RReach.ride z t e x f ih (hp e he) (hp x hx) h1 h2 h3 h4 h5 h6 h7 h8 h9

theorem UnboardP.mono_set {cx : Ctx} {P P' : List Conn} (hp : ∀ a ∈ P, a ∈ P') {x : Conn} (h : UnboardP cx P x) : UnboardP cx P' x := by
  obtain ⟨a, b, t, hr, ht⟩ := h
  exact ⟨a, b, t, hr.mono_set hp, ht⟩

theorem AdmRev.mono_set {cx : Ctx} {P P' : List Conn} (hp : ∀ a ∈ P, a ∈ P') {a0 : NTD} {e0 x0 : Conn} (h : AdmRev cx P a0 e0 x0) :
    AdmRev cx P' a0 e0 x0 :=
  ⟨h.acc, h.stop, hp _ h.he, hp _ h.hx, h.trip, h.seq, h.board, h.unboard.mono_set hp⟩

/-- `Reach` does not look at the arrival time of the context -/
theorem Reach.arrT {cx : Ctx} (t' : Int) {C : List Conn} {y : Nat} {t : Int} (h : Reach cx C y t) :
    Reach { cx with arrT := t' } C y t := by
  induction h with
  | access a ha => exact Reach.access (cx := { cx with arrT := t' }) a ha
  | ride y t e x f _ he hx h1 h2 h3 h4 h5 h6 h7 h8 h9 ih =>
    exact Reach.ride (cx := { cx with arrT := t' }) y t e x f ih he hx h1 h2 h3 h4 h5 h6 h7 h8 h9

/-- **the journey reversal** -/
theorem reach_reverse {cx : Ctx} {C : List Conn} {y : Nat} {t : Int} (h : Reach cx C y t) :
    ∀ (e x : Conn), e ∈ C → x ∈ C → e.depStop = y → t + e.effWait cx.p.minWait ≤ e.dep → e.trip = x.trip → e.seq ≤ x.seq →
      e.canBoard = true → UnboardP cx C x →
      ∃ a0 e0 x0, AdmRev cx C a0 e0 x0 ∧ cx.depT ≤ admDeparture cx a0 e0 := by
  induction h with
  | access a ha =>
    intro e x he hx hs ht htr hsq hcb hu
    refine ⟨a, e, x, ⟨ha, hs.symm, he, hx, htr, hsq, hcb, hu⟩, ?_⟩
    unfold admDeparture
    omega
  | ride y' t' e' x' f hsub he' hx' h1 h2 h3 h4 h5 h6 h7 h8 h9 ih =>
    intro e x he hx hs ht htr hsq hcb hu
    obtain ⟨hcu, hdis, tz, hrz, hrt⟩ := hu
    -- the place is still reached from the alighting of the previous ride
    have hflip : (⟨x'.arrStop, f.time, f.dist⟩ : NTD) ∈ cx.ds.rfootOf e.depStop := by
      rw [hs]; exact foot_flip h8
    have hrr : RReach cx C x'.arrStop (e.dep - f.time - e.effWait cx.p.minWait) :=
      RReach.ride x.arrStop tz e x ⟨x'.arrStop, f.time, f.dist⟩ hrz he hx rfl hrt htr hsq hcb hcu
        (by rw [htr]; exact hdis) hflip h9
    exact ih e' x' he' hx' h1 h2 h3 h4 h5 ⟨h6, by rw [← h3]; exact h7, _, hrr, by omega⟩

/-- the scan with a usable flag per trip is the all-usable scan of the usable connections -/
theorem revStep_usable (cx : Ctx) (u : Nat → Bool) (single : Bool) (s : RState) (c : Conn) :
    revStep cx u single s c = if u c.trip = true then revStep cx (fun _ => true) single s c else s := by
  unfold revStep
  by_cases hu : u c.trip = true
  · rw [if_pos hu]; simp [hu]
  · rw [if_neg hu]
    have : u c.trip = false := by simpa using hu
    simp [this]

theorem revFold_usable (cx : Ctx) (u : Nat → Bool) (single : Bool) : ∀ (l : List Conn) (s : RState),
    l.foldl (revStep cx u single) s = (l.filter fun c => u c.trip).foldl (revStep cx (fun _ => true) single) s := by
  intro l
  induction l with
  | nil => intro s; rfl
  | cons c rest ih =>
    intro s
    rw [List.foldl_cons, revStep_usable]
    by_cases hu : u c.trip = true
    · rw [if_pos hu, List.filter_cons_of_pos (by simpa using hu), List.foldl_cons]; exact ih _
    · rw [if_neg hu, List.filter_cons_of_neg (by simpa using hu)]; exact ih _

theorem RW.mono {cx : Ctx} {L L' : List Conn} (w : RW cx L) (h : ∀ a ∈ L', a ∈ L) : RW cx L' :=
  ⟨fun c hc => w.posHop c (h c hc), fun a ha b hb => w.depMono a (h a ha) b (h b hb),
   fun a ha b hb => w.arrMono a (h a ha) b (h b hb), fun a ha b hb => w.unique a (h a ha) b (h b hb),
   w.footNonneg, fun c hc => w.selfFoot c (h c hc), w.mw, w.egrNonneg, w.egrNodup⟩

/-- **the single reverse pass, in general**: any usable-flag function, with or without a requested
    departure. If an admissible journey exists among the usable connections whose first boarding
    passes the acceptance tests, the pass returns a route that leaves no earlier - or the model's
    `exception` outcome -, never no_routing_found. -/
theorem singleReverse_gen {cx : Ctx} (u : Nat → Bool) (w : RW cx cx.cs.rev) (hs : SortedRev cx.cs.rev)
    (hidx : cx.cs.revIdx = revIndex cx.cs.rev)
    (huni : ∀ c ∈ cx.cs.rev, c.effWait cx.p.minWait ≤ cx.p.minWait)
    (hand : (cx.accessFoot.map (·.stop)).Nodup) (haccNonneg : ∀ a ∈ cx.accessFoot, 0 ≤ a.time)
    (hbound : ∀ c ∈ cx.cs.rev, c.dep < MAX_INT) (h0 : 0 ≤ cx.arrT)
    {a0 : NTD} {e0 x0 : Conn} (hJ : AdmRev cx (cx.cs.rev.filter fun c => u c.trip) a0 e0 x0)
    (hok : AccOK cx e0)
    (hdep : cx.depT = -1 ∨ (cx.p.maxFirstWait < 0 ∧ cx.depT ≤ admDeparture cx a0 e0))
    (hd0 : 0 ≤ admDeparture cx a0 e0) (hdT : cx.arrT - admDeparture cx a0 e0 ≤ cx.p.maxTotal) :
    (∀ r, singleReverse cx u = .ok r → admDeparture cx a0 e0 ≤ r.departureTime) ∧
    (∀ reason, singleReverse cx u ≠ .noRouting reason) := by
  unfold admDeparture at hd0 hdT hdep ⊢
  unfold singleReverse
  cases hl : lookupPos (revLookup cx.cs.rev cx.cs.revIdx (hourOf cx.arrT + 1)) with
  | none => simp
  | some start =>
    simp only
    generalize hsdef : revScan cx u true start = s
    have hsfold : s = ((cx.cs.rev.drop start).filter fun c => u c.trip).foldl (revStep cx (fun _ => true) true) (RState.init cx) := by
      rw [← hsdef]; unfold revScan; exact revFold_usable cx u true _ _
    obtain ⟨θ, hθdef⟩ : ∃ θ : Int, θ = if s.reached = true ∧ cx.maxAccess ≥ 0 ∧ cx.arrT - cx.p.maxTotal ≤ s.tentAccDep - cx.maxAccess - cx.p.minWait
        then s.tentAccDep - cx.maxAccess - cx.p.minWait else cx.arrT - cx.p.maxTotal := ⟨_, rfl⟩
    have hθ1 : cx.arrT - cx.p.maxTotal ≤ θ := by
      rw [hθdef]
      by_cases hc : s.reached = true ∧ cx.maxAccess ≥ 0 ∧ cx.arrT - cx.p.maxTotal ≤ s.tentAccDep - cx.maxAccess - cx.p.minWait
      · rw [if_pos hc]; exact hc.2.2
      · rw [if_neg hc]; exact Int.le_refl _
    have hfin : s.reached = true → cx.maxAccess ≥ 0 → s.tentAccDep - cx.maxAccess - cx.p.minWait ≤ θ := by
      intro hr hm
      rw [hθdef]
      by_cases hc : s.reached = true ∧ cx.maxAccess ≥ 0 ∧ cx.arrT - cx.p.maxTotal ≤ s.tentAccDep - cx.maxAccess - cx.p.minWait
      · rw [if_pos hc]; exact Int.le_refl _
      · rw [if_neg hc]
        have : ¬ (cx.arrT - cx.p.maxTotal ≤ s.tentAccDep - cx.maxAccess - cx.p.minWait) := fun hh => hc ⟨hr, hm, hh⟩
        omega
    have hsubd : ∀ a ∈ (cx.cs.rev.drop start).filter (fun c => u c.trip), a ∈ cx.cs.rev :=
      fun a ha => List.mem_of_mem_drop (List.mem_filter.mp ha).1
    have hsubL : ∀ a ∈ (cx.cs.rev.drop start).filter (fun c => u c.trip), a ∈ cx.cs.rev.filter (fun c => u c.trip) :=
      fun a ha => List.mem_filter.mpr ⟨List.mem_of_mem_drop (List.mem_filter.mp ha).1, (List.mem_filter.mp ha).2⟩
    have hsorted : SortedRev ([] ++ (cx.cs.rev.drop start).filter fun c => u c.trip) := by
      show List.Pairwise _ ([] ++ (cx.cs.rev.drop start).filter fun c => u c.trip)
      rw [List.nil_append]
      exact List.Pairwise.sublist (List.Sublist.trans List.filter_sublist (List.drop_sublist _ _)) hs
    have hC := revScanList1_RCθ w θ hθ1 ((cx.cs.rev.drop start).filter fun c => u c.trip) [] (RState.init cx) (by simpa using hsubd) hsorted
      (init_RCθ cx θ w.egrNodup) (by rw [← hsfold]; exact hfin)
    simp only [List.nil_append] at hC
    rw [← hsfold] at hC
    have wL : RW cx (cx.cs.rev.filter fun c => u c.trip) := w.mono (fun a ha => (List.mem_filter.mp ha).1)
    have hin : ∀ a ∈ cx.cs.rev.filter (fun c => u c.trip), a.arr ≤ cx.arrT →
        a ∈ (cx.cs.rev.drop start).filter (fun c => u c.trip) := by
      intro a ha hd
      obtain ⟨ha1, ha2⟩ := List.mem_filter.mp ha
      rw [← List.take_append_drop start cx.cs.rev] at ha1
      rcases List.mem_append.mp ha1 with h1 | h1
      · have := before_start_late cx.cs hidx cx.arrT h0 start hl a h1
        omega
      · exact List.mem_filter.mpr ⟨h1, ha2⟩
    obtain ⟨hcu, hdis, t, hr, hrt⟩ := hJ.unboard
    have hrP := hr.restrict wL hsubL hin
    have hle := hrP.time_le wL hsubL
    have ham := wL.arrMono e0 hJ.he x0 hJ.hx hJ.trip hJ.seq
    have hphe := wL.posHop e0 hJ.he
    have hwe := effWait_nonneg e0 cx.p.minWait w.mw
    have hat0 := haccNonneg a0 hJ.acc
    have heP := hin e0 hJ.he (by omega)
    have hxP := hin x0 hJ.hx (by omega)
    have hbnd : ∀ y js e, s.acc y = some js → js.enter = some e → e.dep < MAX_INT :=
      fun y js e hj he => hbound e (hsubd e (hC.accMem y js e hj he))
    have hkey : ∃ a1 ∈ cx.accessFoot, ∃ b, AccGe cx s a1.stop b ∧ e0.dep - e0.effWait cx.p.minWait - a0.time ≤ b - a1.time ∧
        1 ≤ s.count := by
      by_cases hcut : θ ≤ e0.arr
      · obtain ⟨hacc, hcnt⟩ := hC.acc e0 heP x0 hxP ⟨hcu, hdis, t, hrP, hrt⟩ hJ.trip hJ.seq hJ.board hok hcut
        exact ⟨a0, hJ.acc, _, by rw [hJ.stop]; exact hacc, Int.le_refl _, hcnt⟩
      · have hθ : s.reached = true ∧ cx.maxAccess ≥ 0 ∧ θ = s.tentAccDep - cx.maxAccess - cx.p.minWait := by
          by_cases hc : s.reached = true ∧ cx.maxAccess ≥ 0 ∧ cx.arrT - cx.p.maxTotal ≤ s.tentAccDep - cx.maxAccess - cx.p.minWait
          · exact ⟨hc.1, hc.2.1, by rw [hθdef, if_pos hc]⟩
          · have : θ = cx.arrT - cx.p.maxTotal := by rw [hθdef, if_neg hc]
            omega
        obtain ⟨c1, hc1, hdep1, ⟨a1, hna1⟩, hacc1, hcnt1⟩ := hC.reach hθ.1
        have hm1 := nodes_mem hna1
        have hmax := maxTime_ge cx.accessFoot a1 hm1.1
        have hu1 := huni c1 (hsubd c1 hc1)
        have hu0 := huni e0 (List.mem_filter.mp hJ.he).1
        have hw1 := effWait_nonneg c1 cx.p.minWait w.mw
        have hmaxdef : cx.maxAccess = maxTime cx.accessFoot := rfl
        -- the boarding that set the mark passes the acceptance tests, or the journey is too early itself
        have hok1 : AccOK cx c1 := by
          rcases hdep with hd | ⟨hcap, hdJ⟩
          · exact Or.inl hd
          · by_cases hearly : cx.depT ≤ c1.dep - a1.time - c1.effWait cx.p.minWait
            · exact Or.inr ⟨a1, hna1, hearly, Or.inl (by omega)⟩
            · exfalso; omega
        refine ⟨a1, hm1.1, _, by rw [hm1.2]; exact hacc1 hok1, ?_, hcnt1⟩
        omega
    obtain ⟨a1, ha1, b, hacc1, hb1, hcnt⟩ := hkey
    obtain ⟨bd, node, hbest, hbd⟩ := bestAccess_ge hand ha1 hacc1 (by omega) (by omega) hbnd w.mw haccNonneg
    rw [if_neg (by omega), hbest]
    obtain ⟨k1, k2⟩ := reverseJourney_some cx s bd node
    exact ⟨fun r hr' => by rw [k1 r hr']; omega, k2⟩

theorem rfoot_flip {ds : Dataset} {z : Nat} {f : NTD} (h : f ∈ ds.rfootOf z) :
    (⟨z, f.time, f.dist⟩ : NTD) ∈ ds.footOf f.stop := by
  have hm := rfootOf_mem h
  simp only [Dataset.footOf, List.mem_filterMap]
  exact ⟨_, hm, by simp⟩

/-- a later requested arrival only helps -/
theorem RReach.arrT_mono {cx : Ctx} {A' : Int} (hA : cx.arrT ≤ A') {C : List Conn} {y : Nat} {t : Int} (h : RReach cx C y t) :
    ∃ t', t ≤ t' ∧ RReach { cx with arrT := A' } C y t' := by
  induction h with
  | egress g hg =>
    exact ⟨A' - g.time, by omega, RReach.egress (cx := { cx with arrT := A' }) g hg⟩
  | ride z t e x f _ he hx h1 h2 h3 h4 h5 h6 h7 h8 h9 ih =>
    obtain ⟨t', ht', hr'⟩ := ih
    exact ⟨_, Int.le_refl _, RReach.ride (cx := { cx with arrT := A' }) z t' e x f hr' he hx h1 (by omega) h3 h4 h5 h6 h7 h8 h9⟩

/-- **the continuation of a journey whose earlier part the forward scan has seen only uses trips
    flagged usable**: walk the reverse derivation forwards, boarding each of its rides -/
theorem rreach_usable {cx cx' : Ctx} {L P Lr : List Conn} {s : FState} {β : Int} (w : FW cx L) (wr : RW cx' Lr)
    (hPL : ∀ a ∈ P, a ∈ L) (hLr : ∀ a ∈ Lr, a ∈ L)
    (hF : FCβ cx β P s) (hin : ∀ a ∈ L, cx.depT ≤ a.dep → a ∈ P) (hβ : cx'.arrT ≤ β)
    (hsame : cx'.ds = cx.ds ∧ cx'.p = cx.p ∧ cx'.disabled = cx.disabled)
    {y : Nat} {t : Int} (h : RReach cx' Lr y t) :
    ∀ (e x : Conn), e ∈ P → x ∈ P → BoardP cx P e → e.trip = x.trip → e.seq ≤ x.seq → x.canUnboard = true →
      x.arrStop = y → x.arr ≤ t →
      RReach cx' (Lr.filter fun c => s.usable c.trip) y t := by
  induction h with
  | egress g hg => intro _ _ _ _ _ _ _ _ _ _; exact RReach.egress g hg
  | ride z tz e1 x1 f hsub he1 hx1 h1 h2 h3 h4 h5 h6 h7 h8 h9 ih =>
    intro e x he hx hb htr hsq hcu hstop harr
    obtain ⟨hds, hpp, hdis⟩ := hsame
    have hb0 := hb
    obtain ⟨hcb, hdi, te, hre, hte⟩ := hb
    have hf' : (⟨e1.depStop, f.time, f.dist⟩ : NTD) ∈ cx.ds.footOf x.arrStop := by
      rw [hstop, ← hds]; exact rfoot_flip h8
    have hw1 := effWait_nonneg e1 cx.p.minWait w.mw
    have hwe := effWait_nonneg e cx.p.minWait w.mw
    have hfn := w.footNonneg _ _ hf'
    have hge := hre.time_ge w hPL
    have hmin : 0 ≤ cx.minAccess := minTime_nonneg cx.accessFoot w.accNonneg
    have hdm := w.depMono e (hPL e he) x (hPL x hx) htr hsq
    have hph := w.posHop x (hPL x hx)
    have hmw1 : e1.effWait cx'.p.minWait = e1.effWait cx.p.minWait := by rw [hpp]
    have harr' : x.arr ≤ e1.dep - f.time - e1.effWait cx.p.minWait := by rw [← hmw1]; exact harr
    have hfn' : 0 ≤ f.time := hfn
    have hreach1 : Reach cx P e1.depStop (x.arr + f.time) :=
      Reach.ride e.depStop te e x ⟨e1.depStop, f.time, f.dist⟩ hre he hx rfl hte htr hsq hcb hcu hdi hf' (by rw [← hpp]; exact h9)
    have hboard1 : BoardP cx P e1 := ⟨h5, by rw [← hdis]; exact h7, _, hreach1, by omega⟩
    have he1L := hLr e1 he1
    have hx1L := hLr x1 hx1
    have he1P : e1 ∈ P := hin e1 he1L (by omega)
    have hdm1 := w.depMono e1 he1L x1 hx1L h3 h4
    have hx1P : x1 ∈ P := hin x1 hx1L (by omega)
    have hph1 := w.posHop x1 hx1L
    have htz := hsub.time_le wr (fun a ha => ha)
    have hen1 := hF.enter e1 he1P hboard1 (by omega)
    have hu1 := hF.usable e1.trip hen1
    have hsub' := ih e1 x1 he1P hx1P hboard1 h3 h4 h6 h1 h2
    exact RReach.ride z tz e1 x1 f hsub' (List.mem_filter.mpr ⟨he1, hu1⟩) (List.mem_filter.mpr ⟨hx1, by rw [← h3]; exact hu1⟩)
      h1 h2 h3 h4 h5 h6 h7 h8 h9

end Tr
