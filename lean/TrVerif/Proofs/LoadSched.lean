/-
  Proofs/LoadSched — round trip of the per-line schedule files: `getSchedules` on `encode ds` creates,
  trip by trip, exactly the connections `Dataset.tripConns` describes (stop i -> stop i+1, departure
  of i, arrival of i+1, boarding flag of i, alighting flag of i+1, sequence i+1, minimum waiting 0
  for a `transferable` line) — in the order lines / services / trips of the files.
-/
import TrVerif.Proofs.LoadNodes
namespace Tr.Load

def liftConn (c : Conn) : LConn :=
  ⟨K 1 c.depStop, K 1 c.arrStop, c.dep, c.arr, K 7 c.trip, c.seq, c.canBoard, c.canUnboard, c.minWait⟩

theorem b2i_eq (b : Bool) : (b2i b == 1) = b := by cases b <;> rfl

/-- the path record a trip names -/
def pathOfRec (ds : Dataset) (t : TripRec) : PathRec := ds.paths.getD t.path default

theorem pathOfRec_get (ds : Dataset) (t : TripRec) (h : t.path < ds.paths.length) : ds.paths[t.path]? = some (pathOfRec ds t) := by
  simp [pathOfRec, List.getD_eq_getElem?_getD, List.getElem?_eq_getElem h]

/-- validity of a trip record against the dataset (what `encode` needs so that nothing is dropped) -/
structure TripOK (ds : Dataset) (t : TripRec) : Prop where
  path : t.path < ds.paths.length
  line : (pathOfRec ds t).line < ds.lines.length
  mode : (ds.lineRec (pathOfRec ds t).line).mode ≤ 2
  dep : t.dep.length = t.arr.length
  cb : t.cb.length = t.arr.length
  cu : t.cu.length = t.arr.length
  two : 2 ≤ t.arr.length
  stops : t.arr.length ≤ (pathOfRec ds t).stops.length
  fwd : goesBack t.arr t.dep = false
  service : t.service < ds.nServices

theorem connLoop_enc (t : TripRec) (stops : List Nat) (mw : Int) (hd : t.dep.length = t.arr.length)
    (hb : t.cb.length = t.arr.length) (hu : t.cu.length = t.arr.length) :
    ∀ (n i : Nat), i + n + 1 ≤ stops.length → i + n + 1 ≤ t.arr.length →
      connLoop (K 7 t.id) mw (stops.map (K 1)) (encTrip t) i n = .val ((tripConnsAux t stops mw i n).map liftConn) := by
  intro n
  induction n with
  | zero => intro i _ _; simp [connLoop, tripConnsAux]
  | succ n ih =>
    intro i hs ha
    have h1 : i < stops.length := by omega
    have h2 : i + 1 < stops.length := by omega
    have h3 : i < t.dep.length := by omega
    have h4 : i + 1 < t.arr.length := by omega
    have h5 : i < t.cb.length := by omega
    have h6 : i + 1 < t.cu.length := by omega
    rw [connLoop, tripConnsAux]
    simp only [encTrip, List.getElem?_map, List.getElem?_eq_getElem h1, List.getElem?_eq_getElem h2,
      List.getElem?_eq_getElem h3, List.getElem?_eq_getElem h4, List.getElem?_eq_getElem h5,
      List.getElem?_eq_getElem h6, Option.map_some]
    have := ih (i+1) (by omega) (by omega)
    simp only [encTrip] at this
    rw [this]
    simp only [List.map_cons, liftConn, b2i_eq, List.getD_eq_getElem?_getD, List.getElem?_eq_getElem h1,
      List.getElem?_eq_getElem h2, List.getElem?_eq_getElem h3, List.getElem?_eq_getElem h4,
      List.getElem?_eq_getElem h5, List.getElem?_eq_getElem h6, Option.getD_some]

/-- the trip table entry of `t` -/
def gTrip (ds : Dataset) (t : TripRec) : LTrip :=
  let p := pathOfRec ds t
  ⟨K 5 t.path, K 4 p.line, K 2 (ds.lineRec p.line).agency, modeName (ds.lineRec p.line).mode, K 3 t.service⟩

/-- the effect of reading the record of `t` -/
def addTrip (ds : Dataset) (s : Sch) (t : TripRec) : Sch :=
  { s with trips := s.trips.emplace (K 7 t.id) (gTrip ds t), conns := s.conns ++ (ds.tripConns t).map liftConn }

theorem tripCountsOk_enc (ds : Dataset) (t : TripRec) (h : TripOK ds t) :
    tripCountsOk (encTrip t) (gPath t.path (pathOfRec ds t)) = true := by
  have h1 := h.two; have h2 := h.stops; have h3 := h.dep; have h4 := h.cb; have h5 := h.cu
  simp [tripCountsOk, encTrip, gPath]
  refine ⟨⟨⟨⟨?_, ?_⟩, ?_⟩, ?_⟩, ?_⟩ <;> first | omega | (apply decide_eq_false; omega)

theorem mw_enc (m : Nat) (h : m ≤ 2) : (if modeName m = "transferable" then (0 : Int) else -1) = if (m == 2) = true then 0 else -1 := by
  have : m = 0 ∨ m = 1 ∨ m = 2 := by omega
  rcases this with rfl | rfl | rfl <;> decide

theorem fileLoop_trip (ds : Dataset) (services : Map Unit) (t : TripRec) (h : TripOK ds t)
    (rest : List LItem) (s : Sch) :
    fileLoop (K 4 (pathOfRec ds t).line) (gLine 0 (ds.lineRec (pathOfRec ds t).line)) services (expPaths ds)
        (LItem.trip (encTrip t) :: rest) (some (K 3 t.service)) s =
      fileLoop (K 4 (pathOfRec ds t).line) (gLine 0 (ds.lineRec (pathOfRec ds t).line)) services (expPaths ds)
        rest (some (K 3 t.service)) (addTrip ds s t) := by
  have hk : (encTrip t).uuid.parse = some (K 7 t.id) := rfl
  have hpk : (encTrip t).path.parse = some (K 5 t.path) := rfl
  rw [fileLoop.eq_4 _ _ _ _ _ _ _ _ _ _ hk hpk]
  have hget : (expPaths ds).get? (K 5 t.path) = some (gPath t.path (pathOfRec ds t)) := by
    unfold expPaths
    rw [expFrom_get, pathOfRec_get ds t h.path]; rfl
  simp only [hget]
  rw [if_neg (by simp [tripCountsOk_enc ds t h])]
  have hg : goesBack (encTrip t).arr (encTrip t).dep = false := h.fwd
  rw [if_neg (by simp [hg])]
  have hc := connLoop_enc t (pathOfRec ds t).stops
    (if (gLine 0 (ds.lineRec (pathOfRec ds t).line)).mode = "transferable" then 0 else -1)
    h.dep h.cb h.cu (t.arr.length - 1) 0 (by have h1 := h.two; have h2 := h.stops; omega) (by have h1 := h.two; omega)
  have hl : (encTrip t).arr.length = t.arr.length := rfl
  simp only [gPath, hl]
  have hmw : (if (gLine 0 (ds.lineRec (pathOfRec ds t).line)).mode = "transferable" then (0 : Int) else -1) =
      if ((ds.lineRec (pathOfRec ds t).line).mode == 2) = true then 0 else -1 := mw_enc _ h.mode
  rw [hc, hmw]
  rfl

theorem fileLoop_trips (ds : Dataset) (services : Map Unit) (li : Nat) (sv : Nat) :
    ∀ (l : List TripRec) (rest : List LItem) (s : Sch),
      (∀ t ∈ l, TripOK ds t ∧ (pathOfRec ds t).line = li ∧ t.service = sv) →
      fileLoop (K 4 li) (gLine 0 (ds.lineRec li)) services (expPaths ds) (l.map (fun t => LItem.trip (encTrip t)) ++ rest) (some (K 3 sv)) s =
      fileLoop (K 4 li) (gLine 0 (ds.lineRec li)) services (expPaths ds) rest (some (K 3 sv)) (l.foldl (addTrip ds) s) := by
  intro l
  induction l with
  | nil => intro rest s _; rfl
  | cons t l ih =>
    intro rest s h
    obtain ⟨hok, hli, hsv⟩ := h t (by simp)
    simp only [List.map_cons, List.cons_append, List.foldl_cons]
    have := fileLoop_trip ds services t hok (l.map (fun t => LItem.trip (encTrip t)) ++ rest) s
    rw [hli, hsv] at this
    rw [this]
    exact ih rest _ (fun x hx => h x (List.mem_cons_of_mem _ hx))

/-- the trips of the schedule of service `sv` in the file of line `li` -/
def schedTrips (ds : Dataset) (li sv : Nat) : List TripRec := (tripsOfLine ds li).filter (fun t => t.service = sv)

theorem fileLoop_scheds (ds : Dataset) (services : Map Unit) (li : Nat)
    (hsv : ∀ a, services.has (K 3 a) = decide (a < ds.nServices)) (hall : ∀ t ∈ ds.trips, TripOK ds t) :
    ∀ (svs : List Nat) (svc : Option Nat) (s : Sch), (∀ sv ∈ svs, sv < ds.nServices) →
      fileLoop (K 4 li) (gLine 0 (ds.lineRec li)) services (expPaths ds) (svs.flatMap (encSchedule (tripsOfLine ds li))) svc s =
      (false, svs.foldl (fun s sv => (schedTrips ds li sv).foldl (addTrip ds) s) s) := by
  intro svs
  induction svs with
  | nil => intro svc s _; simp [fileLoop]
  | cons sv svs ih =>
    intro svc s h
    simp only [List.flatMap_cons, encSchedule, List.append_assoc, List.cons_append, List.nil_append, List.foldl_cons]
    rw [fileLoop.eq_3]
    simp only [UTok.parse]
    rw [if_pos (by rw [hsv]; simpa using h sv (by simp)), fileLoop.eq_2]
    rw [fileLoop_trips ds services li sv _ _ s (by
      intro t ht
      simp only [schedTrips, List.mem_filter, tripsOfLine, decide_eq_true_eq] at ht
      exact ⟨hall t ht.1.1, ht.1.2, ht.2⟩)]
    exact ih _ _ (fun x hx => h x (List.mem_cons_of_mem _ hx))

/-- what reading the file of line `li` adds -/
def addLine (ds : Dataset) (s : Sch) (li : Nat) : Sch :=
  (servicesOf (tripsOfLine ds li)).foldl (fun s sv => (schedTrips ds li sv).foldl (addTrip ds) s) s

theorem servicesOf_lt (ds : Dataset) (li : Nat) (hall : ∀ t ∈ ds.trips, TripOK ds t) :
    ∀ sv ∈ servicesOf (tripsOfLine ds li), sv < ds.nServices := by
  intro sv hsv
  simp only [servicesOf, List.mem_eraseDups, List.mem_map, tripsOfLine, List.mem_filter] at hsv
  obtain ⟨t, ht, rfl⟩ := hsv
  exact (hall t ht.1).service

theorem lineFiles_lookup (ds : Dataset) : ∀ (n j i : Nat),
    lookupFile (lineFilesFrom ds j n) (K 4 i) = if j ≤ i ∧ i < j + n then some (some (encLineFile ds i)) else none := by
  intro n
  induction n with
  | zero => intro j i; simp [lineFilesFrom, lookupFile]
  | succ n ih =>
    intro j i
    have := ih (j+1) i
    simp only [lookupFile] at this ⊢
    rw [lineFilesFrom, List.lookup_cons]
    by_cases hij : i = j
    · subst hij; simp
    · have hne : (K 4 i == K 4 j) = false := by simp [K_inj, hij]
      rw [hne]; simp only
      rw [this]
      by_cases h1 : j ≤ i ∧ i < j + (n + 1)
      · rw [if_pos h1, if_pos (by omega)]
      · rw [if_neg h1, if_neg (by omega)]

theorem schedLoop_enc (ds : Dataset) (services : Map Unit)
    (hsv : ∀ a, services.has (K 3 a) = decide (a < ds.nServices)) (hall : ∀ t ∈ ds.trips, TripOK ds t) :
    ∀ (ls : List LineRec) (i : Nat) (s : Sch), i + ls.length = ds.lines.length → (∀ j, ls[j]? = ds.lines[i + j]?) →
      schedLoop (lineFilesFrom ds 0 ds.lines.length) services (expPaths ds) (expFrom 4 gLine i ls) s =
      (List.range' i ls.length).foldl (addLine ds) s := by
  intro ls
  induction ls with
  | nil => intro i s _ _; rfl
  | cons l ls ih =>
    intro i s hlen hsub
    simp only [expFrom, List.length_cons, List.range'_succ, List.foldl_cons]
    rw [schedLoop.eq_2, lineFiles_lookup, if_pos (by simp only [List.length_cons] at hlen; omega)]
    simp only
    have hl : ds.lineRec i = l := by
      have := hsub 0
      simp only [List.getElem?_cons_zero, Nat.add_zero] at this
      simp [Dataset.lineRec, List.getD_eq_getElem?_getD, ← this]
    have hg : gLine i l = gLine 0 (ds.lineRec i) := by rw [hl]; rfl
    rw [hg, encLineFile, fileLoop_scheds ds services i hsv hall _ none s (servicesOf_lt ds i hall)]
    simp only
    exact ih (i+1) _ (by simp only [List.length_cons] at hlen; omega) (fun j => by
      have := hsub (j+1)
      simp only [List.getElem?_cons_succ] at this
      rw [this]; congr 1; omega)

end Tr.Load
