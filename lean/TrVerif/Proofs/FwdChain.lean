/-
  TrVerif.Proofs.FwdChain — the chain walk of the departure accessibility map
  (`forwardJourneyStepAllNodes`: follow `forwardJourneysSteps` back to the origin, counting legs)
  terminates: the tentative times of the stops it visits strictly decrease.

  Invariant `FCh` of the forward scan: the boarding kept for a trip left a stop no earlier than
  that stop's tentative time; the step stored for a stop alights no later than the stop's
  tentative time from a ride boarded strictly earlier, at a stop whose tentative time is no later
  than that boarding.  Tentative times only decrease, so all of this is stable.
-/
import TrVerif.Proofs.NoException
import TrVerif.Proofs.Forward
namespace Tr

structure FCh (cx : Ctx) (C : List Conn) (d : Int) (s : FState) : Prop where
  enter : ∀ T e, s.enterC T = some e → e ∈ C ∧ e.dep ≤ d ∧ s.tent e.depStop ≤ e.dep
  step : ∀ y e, (s.steps y).enter = some e → ∃ x, (s.steps y).exit = some x ∧ e ∈ C ∧ e.dep < x.arr ∧
    x.arr ≤ s.tent y ∧ s.tent e.depStop ≤ e.dep
  egr : ∀ y js e, s.egr y = some js → js.enter = some e → e ∈ C ∧ s.tent e.depStop ≤ e.dep

theorem FCh.mono {cx : Ctx} {C : List Conn} {d d' : Int} {s : FState} (h : FCh cx C d s) (hd : d ≤ d') : FCh cx C d' s :=
  ⟨fun T e he => let ⟨a, b, c⟩ := h.enter T e he; ⟨a, by omega, c⟩, h.step, h.egr⟩

theorem init_FCh (cx : Ctx) (C : List Conn) (d : Int) : FCh cx C d (FState.init cx) := by
  refine ⟨fun T e he => by simp [FState.init] at he, ?_, fun y js e he => by simp [FState.init] at he⟩
  intro y e he
  have := foldl_upd_enter cx.accessFoot (fun _ => {}) (fun _ => rfl) y
  simp only [FState.init] at he
  rw [this] at he; cases he

/-- what the forward chain needs from the timetable -/
structure FChainWF (cx : Ctx) (C : List Conn) : Prop where
  posHop : ∀ c ∈ C, c.dep < c.arr
  footNonneg : ∀ z, ∀ f ∈ cx.ds.footOf z, 0 ≤ f.time
  mw : 0 ≤ cx.p.minWait

theorem fwdFoot_FCh {cx : Ctx} {C : List Conn} (w : FChainWF cx C) {s : FState} {c : Conn} {f : NTD} (hc : c ∈ C)
    (hf : f ∈ cx.ds.footOf c.arrStop) (h : FCh cx C c.dep s) : FCh cx C c.dep (fwdFoot cx c s f) := by
  have hfn := w.footNonneg _ f hf
  have hpos := w.posHop c hc
  -- facts about the step that may be stored
  have hjs : ∀ e, s.enterC c.trip = some e → e ∈ C ∧ e.dep < c.arr ∧ s.tent e.depStop ≤ e.dep := by
    intro e he
    obtain ⟨a, b, d⟩ := h.enter _ e he
    exact ⟨a, by omega, d⟩
  unfold fwdFoot
  simp only
  by_cases h1 : f.stop ≠ c.arrStop ∧ s.tent f.stop < c.arr
  · rw [if_pos h1]; exact h
  · rw [if_neg h1]
    by_cases h2 : f.time ≤ cx.p.maxTransfer
    · rw [if_pos h2]
      -- the state after the tentative-time update
      have hS1 : FCh cx C c.dep (if f.time + c.arr < s.tent f.stop then
          { s with tent := upd s.tent f.stop (f.time + c.arr),
                   steps := upd s.steps f.stop { enter := s.enterC c.trip, exit := some c, walk := f.time, dist := f.dist } }
          else s) := by
        by_cases h3 : f.time + c.arr < s.tent f.stop
        · rw [if_pos h3]
          have hle : ∀ z, (upd s.tent f.stop (f.time + c.arr)) z ≤ s.tent z := by
            intro z
            by_cases hz : z = f.stop
            · subst hz; simp; omega
            · simp [upd, hz]
          refine ⟨?_, ?_, ?_⟩
          · intro T e he
            obtain ⟨a, b, d⟩ := h.enter T e he
            exact ⟨a, b, Int.le_trans (hle _) d⟩
          · intro y e he
            by_cases hy : y = f.stop
            · subst hy
              simp only [upd_same] at he ⊢
              obtain ⟨a, b, d⟩ := hjs e he
              exact ⟨c, rfl, a, b, by omega, Int.le_trans (hle _) d⟩
            · simp only [upd_other _ _ _ _ hy] at he ⊢
              obtain ⟨x, a, b, c', d, g⟩ := h.step y e he
              exact ⟨x, a, b, c', d, Int.le_trans (hle _) g⟩
          · intro y js e hy he
            obtain ⟨a, b⟩ := h.egr y js e hy he
            exact ⟨a, Int.le_trans (hle _) b⟩
        · rw [if_neg h3]; exact h
      generalize hS : (if f.time + c.arr < s.tent f.stop then
          { s with tent := upd s.tent f.stop (f.time + c.arr),
                   steps := upd s.steps f.stop { enter := s.enterC c.trip, exit := some c, walk := f.time, dist := f.dist } }
          else s) = s1 at hS1 ⊢
      have htle : ∀ z, s1.tent z ≤ s.tent z := by
        intro z
        rw [← hS]
        split
        · by_cases hz : z = f.stop
          · subst hz; simp; omega
          · simp [upd, hz]
        · exact Int.le_refl _
      split
      · refine ⟨hS1.enter, hS1.step, ?_⟩
        intro y js e hy he
        simp only at hy
        by_cases hyf : y = f.stop
        · subst hyf
          simp only [upd_same, Option.some.injEq] at hy
          subst hy
          simp only at he
          obtain ⟨a, _, d⟩ := hjs e he
          exact ⟨a, Int.le_trans (htle _) d⟩
        · rw [upd_other _ _ _ _ hyf] at hy
          exact hS1.egr y js e hy he
      · exact hS1
    · rw [if_neg h2]; exact h

theorem fwdFoot_fold_FCh {cx : Ctx} {C : List Conn} (w : FChainWF cx C) {c : Conn} (hc : c ∈ C) :
    ∀ (l : List NTD) (s : FState), (∀ f ∈ l, f ∈ cx.ds.footOf c.arrStop) → FCh cx C c.dep s →
      FCh cx C c.dep (l.foldl (fwdFoot cx c) s) := by
  intro l
  induction l with
  | nil => intro s _ h; exact h
  | cons f rest ih =>
    intro s hl h
    rw [List.foldl_cons]
    exact ih _ (fun g hg => hl g (List.mem_cons_of_mem _ hg)) (fwdFoot_FCh w hc (hl f (List.mem_cons_self ..)) h)

theorem fwdStep_FCh {cx : Ctx} {C : List Conn} (w : FChainWF cx C) {s : FState} {c : Conn} (single : Bool) (hc : c ∈ C)
    {d : Int} (hd : d ≤ c.dep) (h : FCh cx C d s) : FCh cx C c.dep (fwdStep cx single s c) := by
  have hm := h.mono hd
  rcases fwdStep_cases cx single s c with h1 | h1 | ⟨hdis, hcond, h1⟩
  · rw [h1]; exact hm
  · rw [h1]; exact ⟨hm.enter, hm.step, hm.egr⟩
  · rw [h1]
    have hE : FCh cx C c.dep (fwdEnter s c) := by
      unfold fwdEnter
      by_cases hcb : c.canBoard = true ∧ (s.enterC c.trip).isNone = true
      · rw [if_pos hcb]
        refine ⟨?_, hm.step, hm.egr⟩
        intro T e he
        simp only at he
        by_cases hT : T = c.trip
        · subst hT
          simp only [upd_same, Option.some.injEq] at he
          subst he
          have hnone : (s.enterC c.trip).isSome = false := by
            cases hx : s.enterC c.trip with
            | none => rfl
            | some v => rw [hx] at hcb; simp at hcb
          rcases hcond with hc1 | hc1
          · rw [hnone] at hc1; cases hc1
          · have hw := effWait_nonneg c cx.p.minWait w.mw
            exact ⟨hc, Int.le_refl _, by show s.tent c.depStop ≤ c.dep; omega⟩
        · rw [upd_other _ _ _ _ hT] at he; exact hm.enter T e he
      · rw [if_neg hcb]; exact hm
    have hA : FCh cx C c.dep (fwdAlight cx single (fwdEnter s c) c) := by
      unfold fwdAlight
      by_cases hcu : c.canUnboard = true ∧ ((fwdEnter s c).enterC c.trip).isSome = true
      · rw [if_pos hcu]
        simp only
        apply fwdFoot_fold_FCh w hc _ _ (fun f hf => hf)
        split
        · exact ⟨hE.enter, hE.step, hE.egr⟩
        · exact hE
      · rw [if_neg hcu]; exact hE
    exact ⟨hA.enter, hA.step, hA.egr⟩

theorem fwdScanList_FCh {cx : Ctx} {C : List Conn} (w : FChainWF cx C) (single : Bool) :
    ∀ (post : List Conn) (s : FState) (d : Int), (∀ a ∈ post, a ∈ C) → SortedFwd post → (∀ a ∈ post, d ≤ a.dep) →
      FCh cx C d s → ∃ d', FCh cx C d' (post.foldl (fwdStep cx single) s) := by
  intro post
  induction post with
  | nil => intro s d _ _ _ h; exact ⟨d, h⟩
  | cons c rest ih =>
    intro s d hC hs hd h
    rw [List.foldl_cons]
    have hp := List.pairwise_cons.mp hs
    apply ih _ c.dep (fun a ha => hC a (List.mem_cons_of_mem _ ha)) hp.2
    · intro a ha
      have := hp.1 a ha
      simp only [fwdLt, Bool.or_eq_false_iff, Bool.and_eq_false_iff, decide_eq_false_iff_not] at this
      omega
    · exact fwdStep_FCh w single (hC c (List.mem_cons_self ..)) (hd c (List.mem_cons_self ..)) h

/-! ### the chain walk -/

def below (tent : Nat → Int) (n : Nat) (y : Nat) : Nat := (List.range n).countP (fun z => decide (tent z < tent y))

theorem below_le (tent : Nat → Int) (n y : Nat) : below tent n y ≤ n := by
  unfold below
  have := List.countP_le_length (p := fun z => decide (tent z < tent y)) (l := List.range n)
  simpa using this

theorem below_lt {tent : Nat → Int} {n y y' : Nat} (hy : y' < n) (hl : tent y' < tent y) : below tent n y' < below tent n y := by
  unfold below
  apply countP_lt_of
  · intro z _ hz
    simp only [decide_eq_true_eq] at hz ⊢
    omega
  · exact ⟨y', List.mem_range.mpr hy, by simpa using hl, by simp⟩

theorem fwdChain_terminates {cx : Ctx} {C : List Conn} {d : Int} {s : FState} (h : FCh cx C d s)
    (hr : ∀ c ∈ C, c.depStop < cx.ds.nStops) :
    ∀ (fuel : Nat) (y : Nat) (n : Int), below s.tent cx.ds.nStops y < fuel →
      ∃ r, fwdChain cx.ds s.steps fuel (s.steps y) n = some r := by
  intro fuel
  induction fuel with
  | zero => intro y n hlt; omega
  | succ fuel ih =>
    intro y n hlt
    rw [fwdChain]
    cases he : (s.steps y).enter with
    | none => exact ⟨n, rfl⟩
    | some e =>
      cases hx : (s.steps y).exit with
      | none => exact ⟨n, rfl⟩
      | some x =>
        simp only
        obtain ⟨x', hx', heC, h1, h2, h3⟩ := h.step y e he
        rw [hx] at hx'; cases hx'
        apply ih
        have := below_lt (tent := s.tent) (n := cx.ds.nStops) (y := y) (y' := e.depStop) (hr e heC) (by omega)
        omega

/-- **no exception from the chain walk of one stop of a departure accessibility map** -/
theorem forwardNode_no_exception {cx : Ctx} {C : List Conn} {d : Int} {s : FState} (h : FCh cx C d s)
    (hr : ∀ c ∈ C, c.depStop < cx.ds.nStops) (node : Nat) (what : String) :
    forwardNode cx s node ≠ .exception what := by
  unfold forwardNode
  cases hegr : s.egr node with
  | none => simp
  | some first =>
    simp only
    have hterm : ∃ r, fwdChain cx.ds s.steps (cx.ds.nStops + 2) first (-1) = some r := by
      show ∃ r, fwdChain cx.ds s.steps ((cx.ds.nStops + 1) + 1) first (-1) = some r
      rw [fwdChain]
      cases he : first.enter with
      | none => exact ⟨_, rfl⟩
      | some e =>
        cases hx : first.exit with
        | none => exact ⟨_, rfl⟩
        | some x =>
          simp only
          apply fwdChain_terminates h hr
          exact Nat.lt_succ_of_le (below_le _ _ _)
    obtain ⟨r, hr'⟩ := hterm
    rw [hr']
    simp only
    split
    · split <;> simp
    · simp

end Tr
