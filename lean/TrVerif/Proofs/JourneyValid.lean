/-
  TrVerif.Proofs.JourneyValid — validity of a journey (list of legs with the walk that follows
  each leg), and: journey reconstruction from the tables of the reverse scan yields a valid
  journey (`reverse_journey.cpp:42-72`).
-/
import TrVerif.Proofs.Reverse
import TrVerif.Model.Journey
namespace Tr

/-- a ride `e … x` on connections of `C`: same trip, boards no later in the trip than it alights,
    boarding / alighting permitted -/
def Ride (C : List Conn) (e x : Conn) : Prop :=
  e ∈ C ∧ x ∈ C ∧ e.trip = x.trip ∧ e.seq ≤ x.seq ∧ e.canBoard = true ∧ x.canUnboard = true

/-- after alighting from `x`, walking `(w, d)` reaches the stop of `e'` in time to board it -/
def Link (cx : Ctx) (x : Conn) (w : Int) (e' : Conn) : Prop :=
  (∃ d, (⟨x.arrStop, w, d⟩ : NTD) ∈ cx.ds.rfootOf e'.depStop) ∧ w ≤ cx.p.maxTransfer ∧
  x.arr + w + e'.effWait cx.p.minWait ≤ e'.dep

/-- every leg is a ride and consecutive legs are linked by the walk stored with the earlier leg -/
def LegsOK (cx : Ctx) (C : List Conn) : List JStep → Prop
  | [] => True
  | [l] => ∃ e x, l.enter = some e ∧ l.exit = some x ∧ Ride C e x
  | l :: l' :: rest =>
    (∃ e x e', l.enter = some e ∧ l.exit = some x ∧ Ride C e x ∧ l'.enter = some e' ∧ Link cx x l.walk e') ∧
    LegsOK cx C (l' :: rest)

theorem RideFact.ride {pre : List Conn} {s : RState} {e x : Conn} (h : RideFact pre s e x) : Ride pre e x :=
  ⟨h.1, h.2.1, h.2.2.1, h.2.2.2.1, h.2.2.2.2.1, h.2.2.2.2.2.1⟩

/-- append a leg: the former last leg receives the walk that leads to the new one -/
theorem LegsOK_snoc (cx : Ctx) (C : List Conn) : ∀ (a : List JStep) (l cur : JStep) (e x e' x' : Conn) (w d : Int),
    LegsOK cx C (a ++ [l]) → l.enter = some e → l.exit = some x → cur.enter = some e' → cur.exit = some x' →
    Ride C e' x' → Link cx x w e' →
    LegsOK cx C (a ++ [{ l with walk := w, dist := d }] ++ [cur]) := by
  intro a
  induction a with
  | nil =>
    intro l cur e x e' x' w d h he hx he' hx' hr hl
    obtain ⟨e0, x0, h1, h2, h3⟩ := h
    rw [he] at h1; cases h1; rw [hx] at h2; cases h2
    exact ⟨⟨e, x, e', he, hx, h3, he', hl⟩, ⟨e', x', he', hx', hr⟩⟩
  | cons b rest ih =>
    intro l cur e x e' x' w d h he hx he' hx' hr hl
    cases rest with
    | nil =>
      obtain ⟨⟨e0, x0, e1, h1, h2, h3, h4, h5⟩, h6⟩ := h
      have := ih l cur e x e' x' w d h6 he hx he' hx' hr hl
      refine ⟨⟨e0, x0, e1, h1, h2, h3, ?_, h5⟩, this⟩
      simpa using h4
    | cons b2 rest2 =>
      obtain ⟨h1, h6⟩ := h
      have := ih l cur e x e' x' w d h6 he hx he' hx' hr hl
      exact ⟨h1, this⟩

/-- what the reconstruction loop knows about its accumulator -/
def RecInv (cx : Ctx) (pre : List Conn) (s : RState) (acc : List JStep) (cur : JStep) (last : Option Nat) : Prop :=
  LegsOK cx pre acc ∧
  (match acc.getLast? with
   | none => last = none
   | some l => ∃ e x, l.enter = some e ∧ l.exit = some x ∧ x.arr ≤ s.lab x.arrStop ∧
       last = some x.arrStop ∧ cur = s.steps x.arrStop) ∧
  (∀ e, cur.enter = some e → ∃ x, cur.exit = some x ∧ RideFact pre s e x) ∧
  (acc ≠ [] → ∀ e, cur.enter = some e → ∃ y, last = some y ∧ StepFact cx pre s y cur e)

/-- result of the reconstruction: valid legs ending at a stop that still has its initial values -/
structure RecResult (cx : Ctx) (pre : List Conn) (s : RState) (legs : List JStep) (last : Option Nat) : Prop where
  ok : LegsOK cx pre legs
  ne : legs ≠ []
  fin : ∃ l e x, legs.getLast? = some l ∧ l.enter = some e ∧ l.exit = some x ∧ last = some x.arrStop ∧
      x.arr ≤ (RState.init cx).lab x.arrStop ∧ (s.steps x.arrStop).enter = none ∧
      s.steps x.arrStop = (RState.init cx).steps x.arrStop

theorem hasConns_iff (j : JStep) : j.hasConns = true ↔ (∃ e x, j.enter = some e ∧ j.exit = some x) := by
  unfold JStep.hasConns
  cases j.enter <;> cases j.exit <;> simp

theorem reconLoop_valid {cx : Ctx} {pre : List Conn} {s : RState} (hI : RInv cx pre s) :
    ∀ (fuel : Nat) (cur : JStep) (acc : List JStep) (last : Option Nat) (legs : List JStep) (lastStop : Option Nat),
      RecInv cx pre s acc cur last → (acc = [] → cur.hasConns = true) →
      reconLoop s.steps fuel cur acc last = some (legs, lastStop) → RecResult cx pre s legs lastStop := by
  intro fuel
  have finish : ∀ (cur : JStep) (acc : List JStep) (last : Option Nat),
      RecInv cx pre s acc cur last → (acc = [] → cur.hasConns = true) → cur.hasConns = false →
      RecResult cx pre s acc last := by
    intro cur acc last hinv hne hnc
    have hacc : acc ≠ [] := fun h => by rw [hne h] at hnc; cases hnc
    obtain ⟨h1, h2, h3, _⟩ := hinv
    cases hg : acc.getLast? with
    | none => rw [List.getLast?_eq_none_iff] at hg; exact absurd hg hacc
    | some l =>
      rw [hg] at h2
      obtain ⟨e, x, he, hx, hle, hlast, hcur⟩ := h2
      have hen : cur.enter = none := by
        cases hce : cur.enter with
        | none => rfl
        | some e' =>
          obtain ⟨x', hx', _⟩ := h3 e' hce
          have : cur.hasConns = true := (hasConns_iff cur).mpr ⟨e', x', hce, hx'⟩
          rw [this] at hnc; cases hnc
      rw [hcur] at hen
      obtain ⟨i1, i2⟩ := hI.init _ hen
      exact ⟨h1, hacc, l, e, x, hg, he, hx, hlast, by rw [← i2]; exact hle, hen, i1⟩
  induction fuel with
  | zero =>
    intro cur acc last legs lastStop hinv hne hr
    simp only [reconLoop] at hr
    split at hr
    · cases hr
    · rename_i hnc
      cases hr
      exact finish cur _ _ hinv hne (by simpa using hnc)
  | succ fuel ih =>
    intro cur acc last legs lastStop hinv hne hr
    simp only [reconLoop] at hr
    split at hr
    · rename_i hc
      obtain ⟨e, x, he, hx⟩ := (hasConns_iff cur).mp hc
      obtain ⟨h1, h2, h3, h4⟩ := hinv
      obtain ⟨x', hx', hride⟩ := h3 e he
      rw [hx] at hx'; cases hx'
      simp only [hx] at hr
      refine ih _ _ _ _ _ ?_ (by simp) hr
      -- the new accumulator
      have hnext : ∀ e2, (s.steps x.arrStop).enter = some e2 →
          ∃ x2, (s.steps x.arrStop).exit = some x2 ∧ RideFact pre s e2 x2 := by
        intro e2 he2
        obtain ⟨x2, a, b, _⟩ := hI.step _ _ he2
        exact ⟨x2, a, b⟩
      have hnext2 : ∀ e2, (s.steps x.arrStop).enter = some e2 →
          ∃ y, some x.arrStop = some y ∧ StepFact cx pre s y (s.steps x.arrStop) e2 :=
        fun e2 he2 => ⟨_, rfl, hI.step _ _ he2⟩
      cases hg : acc.getLast? with
      | none =>
        have hnil : acc = [] := List.getLast?_eq_none_iff.mp hg
        subst hnil
        simp only [List.getLast?_nil, List.nil_append]
        refine ⟨⟨e, x, he, hx, hride.ride⟩, ?_, hnext, fun _ => hnext2⟩
        simp only [List.getLast?_singleton]
        exact ⟨e, x, he, hx, hride.2.2.2.2.2.2, rfl, rfl⟩
      | some l =>
        rw [hg] at h2
        obtain ⟨e0, x0, he0, hx0, hle0, hlast0, hcur0⟩ := h2
        have haccne : acc ≠ [] := by intro h; rw [h] at hg; simp at hg
        obtain ⟨y, hy, hstep⟩ := h4 haccne e he
        rw [hlast0] at hy; cases hy
        obtain ⟨x1, hx1, _, hfoot, hmax, hlab⟩ := hstep
        have hsplit : acc = acc.dropLast ++ [l] := by
          have h1' := List.dropLast_concat_getLast haccne
          have h2' : acc.getLast haccne = l := by
            have := List.getLast?_eq_some_getLast haccne
            rw [hg] at this; cases this; rfl
          rw [h2'] at h1'; exact h1'.symm
        simp only []
        have hlink : Link cx x0 cur.walk e := ⟨⟨_, hfoot⟩, hmax, by omega⟩
        have hok : LegsOK cx pre (acc.dropLast ++ [{ l with walk := cur.walk, dist := cur.dist }] ++ [cur]) := by
          apply LegsOK_snoc cx pre acc.dropLast l cur e0 x0 e x cur.walk cur.dist _ he0 hx0 he hx hride.ride hlink
          rw [← hsplit]; exact h1
        refine ⟨hok, ?_, hnext, fun _ => hnext2⟩
        simp only [List.getLast?_append, List.getLast?_singleton, Option.some_or]
        exact ⟨e, x, he, hx, hride.2.2.2.2.2.2, rfl, rfl⟩
    · rename_i hnc
      cases hr
      exact finish cur _ _ ⟨hinv.1, hinv.2.1, hinv.2.2.1, hinv.2.2.2⟩ hne (by simpa using hnc)

end Tr
