/-
  TrVerif.Proofs.RenderValid — a valid journey is rendered (by `emit`) to a valid itinerary.
-/
import TrVerif.Proofs.JourneyValid
import TrVerif.Proofs.Emit
import TrVerif.Spec.Itinerary
namespace Tr

theorem rfootOf_mem {ds : Dataset} {z : Nat} {n : NTD} (h : n ∈ ds.rfootOf z) :
    (⟨n.stop, z, n.time, n.dist⟩ : Foot) ∈ ds.foot := by
  simp only [Dataset.rfootOf, List.mem_filterMap] at h
  obtain ⟨f, hf, hn⟩ := h
  by_cases hb : f.b = z
  · simp [hb] at hn
    subst hn; subst hb
    cases f; exact hf
  · simp [hb] at hn

/-- legs → steps -/
theorem stepsOfLegs_valid (cx : Ctx) (C T : List Conn) (hCT : ∀ c ∈ C, c ∈ T) (mwOf : Nat → Int)
    (egress : List NTD) (egr : JStep) :
    ∀ (legs : List JStep) (t : Int), legs ≠ [] → LegsOK cx C legs →
      (∀ l ∈ legs, ∀ e, l.enter = some e → e.effWait cx.p.minWait = mwOf e.trip) →
      (∀ e, legs.head?.bind (·.enter) = some e → t + e.effWait cx.p.minWait ≤ e.dep) →
      (∀ l x, legs.getLast? = some l → l.exit = some x → ∃ d, (⟨x.arrStop, egr.walk, d⟩ : NTD) ∈ egress) →
      ridesValid T cx.ds.foot egress mwOf t (stepsOfLegs cx.ds cx.p.minWait t legs egr) := by
  intro legs
  induction legs with
  | nil => intro t h; exact absurd rfl h
  | cons l rest ih =>
    intro t _ hok hmw hfirst hlast
    cases rest with
    | nil =>
      obtain ⟨e, x, he, hx, hr⟩ := hok
      obtain ⟨d, hd⟩ := hlast l x (by simp) hx
      have ht := hfirst e (by simp [he])
      have hm := hmw l (List.mem_cons_self ..) e he
      simp only [stepsOfLegs, he, hx, ridesValid, boardOf, unboardOf, Step.tripOf, Step.clock, Step.stopOf]
      refine ⟨⟨e, hCT _ hr.1, x, hCT _ hr.2.1, hr.2.2.1, hr.2.2.2.1, hr.2.2.2.2.1, hr.2.2.2.2.2, rfl, ?_⟩, by rw [← hm]; exact ht, d, hd⟩
      exact ⟨_, _, by rw [hr.2.2.1]⟩
    | cons l2 r2 =>
      obtain ⟨⟨e, x, e', he, hx, hr, he', hlink⟩, hrest⟩ := hok
      have ht := hfirst e (by simp [he])
      have hm := hmw l (List.mem_cons_self ..) e he
      have hrec := ih (x.arr + l.walk) (by simp) hrest
        (fun y hy => hmw y (List.mem_cons_of_mem _ hy))
        (by intro e2 h2; simp [he'] at h2; subst h2; have := hlink.2.2; omega)
        (by intro y xx hy hxx; exact hlast y xx (by simpa using hy) hxx)
      -- shape of the recursive part: it starts with the boarding of `e'`
      obtain ⟨x', hx'⟩ : ∃ x', l2.exit = some x' := by
        cases r2 with
        | nil => obtain ⟨_, x', _, h, _⟩ := hrest; exact ⟨x', h⟩
        | cons a b => obtain ⟨⟨_, x', _, _, h, _⟩, _⟩ := hrest; exact ⟨x', h⟩
      have hhead := stepsOfLegs_head cx.ds cx.p.minWait egr l2 r2 (x.arr + l.walk) e' x' he' hx'
      obtain ⟨tail, htail⟩ : ∃ tail, stepsOfLegs cx.ds cx.p.minWait (x.arr + l.walk) (l2 :: r2) egr
          = boardOf (x.arr + l.walk) e' :: tail := by
        cases hs : stepsOfLegs cx.ds cx.p.minWait (x.arr + l.walk) (l2 :: r2) egr with
        | nil => rw [hs] at hhead; simp at hhead
        | cons a b => rw [hs] at hhead; simp at hhead; exact ⟨b, by rw [hhead]⟩
      obtain ⟨dd, hdd⟩ := hlink.1
      have hfoot := rfootOf_mem hdd
      simp only [stepsOfLegs, he, hx, List.cons_append, List.nil_append, htail, ridesValid, boardOf, unboardOf,
        Step.tripOf, Step.clock, Step.stopOf]
      rw [htail] at hrec
      refine ⟨⟨e, hCT _ hr.1, x, hCT _ hr.2.1, hr.2.2.1, hr.2.2.2.1, hr.2.2.2.2.1, hr.2.2.2.2.2, rfl, ?_⟩,
        by rw [← hm]; exact ht, ⟨dd, hfoot⟩, ?_⟩
      · exact ⟨_, _, by rw [hr.2.2.1]⟩
      · simpa [boardOf] using hrec

end Tr
