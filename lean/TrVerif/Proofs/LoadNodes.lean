/-
  Proofs/LoadNodes — round trip of the stop files: `getNodes (encode ds)` builds, for every stop,
  the footpath vector of the dataset and the reverse vector in the order the loader creates it
  (stops in uuid order, each stop's own footpaths in file order, then the `(self, 0, 0)` entry
  that `nodes_cache_fetcher.cpp` appends).
-/
import TrVerif.Proofs.LoadColl
namespace Tr.Load

def liftNTD (x : NTD) : NTDu := ⟨K 1 x.stop, x.time, x.dist⟩

/-- what the file of stop `a` contributes to the reverse vector of stop `b` -/
def rcontrib (ds : Dataset) (a b : Nat) : List NTDu :=
  ((ds.footOf a).filter (fun x => x.stop = b)).map (fun x => (⟨K 1 a, x.time, x.dist⟩ : NTDu)) ++
    (if a = b then [⟨K 1 b, 0, 0⟩] else [])

def rfootUpTo (ds : Dataset) (i b : Nat) : List NTDu := (List.range i).flatMap (fun a => rcontrib ds a b)

/-- stop `b` after the files of the stops `< i` were read -/
def nodeAt (ds : Dataset) (i b : Nat) : LNode :=
  ⟨if b < i then (ds.footOf b).map liftNTD else [], rfootUpTo ds i b⟩

def mkNodes (n : Nat) (F : Nat → LNode) : Map LNode := expFrom 1 (fun b _ => F b) 0 (List.replicate n ())

theorem mkNodes_has (n : Nat) (F : Nat → LNode) (j : Nat) : (mkNodes n F).has (K 1 j) = decide (j < n) := by
  unfold mkNodes; rw [expFrom_has]; simp

theorem mkNodes_modify (n : Nat) (F : Nat → LNode) (f : LNode → LNode) (v : Nat) :
    (mkNodes n F).modify (K 1 v) f = mkNodes n (fun b => if b = v then f (F b) else F b) := by
  unfold mkNodes; rw [expFrom_modify]

theorem footLoop_enc (n i : Nat) : ∀ (l : List NTD) (acc : List NTDu) (F : Nat → LNode), (∀ x ∈ l, x.stop < n ∧ 0 ≤ x.time) →
    footLoop (K 1 i) (l.map fun x => UTok.id (K 1 x.stop)) (l.map (·.time)) (l.map (·.dist)) acc (mkNodes n F) =
      (false, acc ++ l.map liftNTD,
       mkNodes n (fun b => { F b with rfoot := (F b).rfoot ++ ((l.filter (fun x => x.stop = b)).map fun x => (⟨K 1 i, x.time, x.dist⟩ : NTDu)) })) := by
  intro l
  induction l with
  | nil =>
    intro acc F _
    simp only [List.map_nil, footLoop, List.append_nil, List.filter_nil]
  | cons x l ih =>
    intro acc F h
    have hx := h x (by simp)
    simp only [List.map_cons, footLoop, UTok.parse]
    rw [mkNodes_has, if_neg (by simpa using hx.1), if_neg (by omega), mkNodes_modify,
      ih _ _ (fun y hy => h y (List.mem_cons_of_mem _ hy))]
    refine Prod.ext rfl (Prod.ext ?_ ?_)
    · simp [liftNTD]
    · simp only
      congr 1
      funext b
      by_cases hb : b = x.stop
      · subst hb; simp [List.filter_cons]
      · have : ¬ x.stop = b := fun e => hb e.symm
        simp [List.filter_cons, hb, this]

theorem nodeFiles_lookup (ds : Dataset) : ∀ (n j i : Nat),
    lookupFile (nodeFilesFrom ds j n) (K 1 i) = if j ≤ i ∧ i < j + n then some (some (encFootFile ds i)) else none := by
  intro n
  induction n with
  | zero => intro j i; simp [nodeFilesFrom, lookupFile]
  | succ n ih =>
    intro j i
    have := ih (j+1) i
    simp only [lookupFile] at this ⊢
    rw [nodeFilesFrom, List.lookup_cons]
    by_cases hij : i = j
    · subst hij; simp
    · have hne : (K 1 i == K 1 j) = false := by simp [K_inj, hij]
      rw [hne]; simp only
      rw [this]
      by_cases h1 : j ≤ i ∧ i < j + (n + 1)
      · rw [if_pos h1, if_pos (by omega)]
      · rw [if_neg h1, if_neg (by omega)]

theorem rfootUpTo_succ (ds : Dataset) (i b : Nat) : rfootUpTo ds (i+1) b = rfootUpTo ds i b ++ rcontrib ds i b := by
  simp [rfootUpTo, List.range_succ, List.flatMap_append]

theorem nodeLoop_enc (ds : Dataset) (n : Nat) (hfoot : ∀ a, ∀ x ∈ ds.footOf a, x.stop < n ∧ 0 ≤ x.time) :
    ∀ (m i : Nat), i + m = n →
      nodeLoop (nodeFilesFrom ds 0 n) ((List.range' i m).map (K 1)) (mkNodes n (nodeAt ds i)) = (0, mkNodes n (nodeAt ds n)) := by
  intro m
  induction m with
  | zero => intro i h; have : i = n := by omega
            subst this; simp [nodeLoop]
  | succ m ih =>
    intro i h
    simp only [List.range'_succ, List.map_cons]
    rw [nodeLoop, nodeFiles_lookup, if_pos (by omega)]
    simp only [encFootFile, List.length_map, Nat.lt_irrefl, or_self, if_false]
    rw [footLoop_enc n i (ds.footOf i) [] _ (hfoot i)]
    simp only [List.nil_append]
    rw [mkNodes_modify]
    have : (fun b => if b = i then
              ({ (fun b => ({ nodeAt ds i b with rfoot := (nodeAt ds i b).rfoot ++
                    ((ds.footOf i).filter (fun x => x.stop = b)).map fun x => (⟨K 1 i, x.time, x.dist⟩ : NTDu) } : LNode)) b with
                  foot := (ds.footOf i).map liftNTD,
                  rfoot := ((fun b => ({ nodeAt ds i b with rfoot := (nodeAt ds i b).rfoot ++
                    ((ds.footOf i).filter (fun x => x.stop = b)).map fun x => (⟨K 1 i, x.time, x.dist⟩ : NTDu) } : LNode)) b).rfoot ++ [⟨K 1 i, 0, 0⟩] } : LNode)
            else ({ nodeAt ds i b with rfoot := (nodeAt ds i b).rfoot ++
                    ((ds.footOf i).filter (fun x => x.stop = b)).map fun x => (⟨K 1 i, x.time, x.dist⟩ : NTDu) } : LNode))
          = nodeAt ds (i+1) := by
      funext b
      by_cases hb : b = i
      · subst hb
        simp [nodeAt, rfootUpTo_succ, rcontrib]
      · have h1 : (b < i + 1) = (b < i) := by apply propext; omega
        have h2 : ¬ i = b := fun e => hb e.symm
        simp [nodeAt, rfootUpTo_succ, rcontrib, hb, h1, h2]
    rw [this]
    exact ih (i+1) (by omega)

theorem nodesCollLoop_enc : ∀ (n i : Nat) (m : Map LNode), (∀ p ∈ m, p.1 < K 1 i) →
    nodesCollLoop (idsFrom 1 i n) m = (0, m ++ expFrom 1 (fun _ _ => ({} : LNode)) i (List.replicate n ())) := by
  intro n
  induction n with
  | zero => intro i m _; simp [idsFrom, nodesCollLoop, expFrom]
  | succ n ih =>
    intro i m h
    rw [idsFrom, nodesCollLoop]
    simp only [UTok.parse]
    rw [emplace_last m _ _ h, ih (i+1) _ (lt_append_last m 1 i _ h)]
    simp [List.replicate_succ, expFrom]

/-- what `getNodes` builds from the encoded stop files -/
def expNodes (ds : Dataset) : Map LNode := mkNodes ds.nStops (nodeAt ds ds.nStops)

theorem footOf_mem (ds : Dataset) (n : Nat) (h : ∀ f ∈ ds.foot, f.a < n ∧ f.b < n ∧ 0 ≤ f.time) :
    ∀ a, ∀ x ∈ ds.footOf a, x.stop < n ∧ 0 ≤ x.time := by
  intro a x hx
  simp only [Dataset.footOf, List.mem_filterMap] at hx
  obtain ⟨f, hf, hfx⟩ := hx
  split at hfx
  · simp only [Option.some.injEq] at hfx; subst hfx; exact ⟨(h f hf).2.1, (h f hf).2.2⟩
  · simp at hfx

theorem getNodes_enc (ds : Dataset) (h : ∀ f ∈ ds.foot, f.a < ds.nStops ∧ f.b < ds.nStops ∧ 0 ≤ f.time) :
    getNodes (encode ds) = (0, expNodes ds) := by
  unfold getNodes
  simp only [encode]
  rw [nodesCollLoop_enc ds.nStops 0 [] (by intro p hp; simp at hp)]
  simp only [List.nil_append]
  have e0 : expFrom 1 (fun _ _ => ({} : LNode)) 0 (List.replicate ds.nStops ()) = mkNodes ds.nStops (nodeAt ds 0) := by
    unfold mkNodes
    apply expFrom_congr
    intro j x _ _
    simp [nodeAt, rfootUpTo]
  rw [e0]
  have hk : (mkNodes ds.nStops (nodeAt ds 0)).keys = (List.range' 0 ds.nStops).map (K 1) := by
    unfold mkNodes; rw [expFrom_keys]; simp
  rw [hk]
  exact nodeLoop_enc ds ds.nStops (footOf_mem ds ds.nStops h) ds.nStops 0 (by omega)

end Tr.Load
