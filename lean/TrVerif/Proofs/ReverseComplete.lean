/-
  TrVerif.Proofs.ReverseComplete — completeness of the reverse scan (all-nodes variant): whenever
  a traveller standing at a stop at some time can still reach the place by the requested arrival
  (`RReach`), the scan's label of that stop is at least that time; every trip with a usable
  alighting has an exit connection; every boarding that starts such a journey is matched by a kept
  boarding of its stop that is at least as late.
-/
import TrVerif.Proofs.ForwardComplete
namespace Tr

/-- "a traveller who stands at stop `y` at time `t` can reach the place by `cx.arrT`": by the
    egress walk, or - after the minimum waiting time - by walking one footpath to a boarding, riding
    one trip (boarding and alighting permitted, trip not excluded) and continuing from there -/
inductive RReach (cx : Ctx) (C : List Conn) : Nat → Int → Prop
  | egress (g : NTD) : g ∈ cx.egressFoot → RReach cx C g.stop (cx.arrT - g.time)
  | ride (z : Nat) (t : Int) (e x : Conn) (f : NTD) :
      RReach cx C z t → e ∈ C → x ∈ C → x.arrStop = z → x.arr ≤ t →
      e.trip = x.trip → e.seq ≤ x.seq → e.canBoard = true → x.canUnboard = true → cx.disabled e.trip = false →
      f ∈ cx.ds.rfootOf e.depStop → f.time ≤ cx.p.maxTransfer →
      RReach cx C f.stop (e.dep - f.time - e.effWait cx.p.minWait)

structure RW (cx : Ctx) (L : List Conn) : Prop where
  posHop : ∀ c ∈ L, c.dep < c.arr
  depMono : ∀ a ∈ L, ∀ b ∈ L, a.trip = b.trip → a.seq ≤ b.seq → a.dep ≤ b.dep
  arrMono : ∀ a ∈ L, ∀ b ∈ L, a.trip = b.trip → a.seq ≤ b.seq → a.arr ≤ b.arr
  unique : ∀ a ∈ L, ∀ b ∈ L, a.trip = b.trip → a.seq = b.seq → a = b
  footNonneg : ∀ z, ∀ f ∈ cx.ds.rfootOf z, 0 ≤ f.time
  selfFoot : ∀ c ∈ L, ∃ f ∈ cx.ds.rfootOf c.depStop, f.stop = c.depStop ∧ f.time ≤ cx.p.maxTransfer
  mw : 0 ≤ cx.p.minWait
  egrNonneg : ∀ g ∈ cx.egressFoot, 0 ≤ g.time
  egrNodup : (cx.egressFoot.map (·.stop)).Nodup

/-- nobody needs to stand anywhere after the requested arrival -/
theorem RReach.time_le {cx : Ctx} {L P : List Conn} (w : RW cx L) (hP : ∀ a ∈ P, a ∈ L) {y : Nat} {t : Int}
    (h : RReach cx P y t) : t ≤ cx.arrT := by
  induction h with
  | egress g hg => have := w.egrNonneg g hg; omega
  | ride z t e x f _ he hx h1 h2 h3 h4 h5 h6 h7 h8 h9 ih =>
    have hw := effWait_nonneg e cx.p.minWait w.mw
    have h10 := w.depMono e (hP e he) x (hP x hx) h3 h4
    have h11 := w.posHop x (hP x hx)
    have h12 := w.footNonneg _ f h8
    omega

/-- a journey that starts no earlier than `c` arrives does not use `c` -/
theorem RReach.strengthen {cx : Ctx} {L P : List Conn} {c : Conn} (w : RW cx L) (hP : ∀ a ∈ P ++ [c], a ∈ L)
    {y : Nat} {t : Int} (h : RReach cx (P ++ [c]) y t) (ht : c.arr ≤ t) : RReach cx P y t := by
  induction h with
  | egress g hg => exact RReach.egress g hg
  | ride z t e x f _ he hx h1 h2 h3 h4 h5 h6 h7 h8 h9 ih =>
    have hcL : c ∈ L := hP c (by simp)
    have hw := effWait_nonneg e cx.p.minWait w.mw
    have hdm := w.depMono e (hP e he) x (hP x hx) h3 h4
    have hphe := w.posHop e (hP e he)
    have hphx := w.posHop x (hP x hx)
    have hfn := w.footNonneg _ f h8
    have ham := w.arrMono e (hP e he) x (hP x hx) h3 h4
    have hec : e ≠ c := by intro hh; subst hh; omega
    have hxc : x ≠ c := by intro hh; subst hh; omega
    have he' : e ∈ P := by
      rcases List.mem_append.mp he with h | h
      · exact h
      · simp at h; exact absurd h hec
    have hx' : x ∈ P := by
      rcases List.mem_append.mp hx with h | h
      · exact h
      · simp at h; exact absurd h hxc
    exact RReach.ride z t e x f (ih (by omega)) he' hx' h1 h2 h3 h4 h5 h6 h7 h8 h9

/-! ### the tables only improve -/

/-- the acceptance tests a boarding at its own stop must pass to be kept (`reverse_calculation.cpp:153-168`):
    none for an arrival-time query; for the second pass of a departure-time query the stop must be an
    access stop from which the boarding is not before the requested departure, within the
    first-waiting cap (or the cap is below the minimum waiting time in force) -/
def AccOK (cx : Ctx) (c : Conn) : Prop :=
  cx.depT = -1 ∨ ∃ a, cx.nodesAccess c.depStop = some a ∧ cx.depT ≤ c.dep - a.time - c.effWait cx.p.minWait ∧
    (cx.p.maxFirstWait < c.effWait cx.p.minWait ∨ c.dep - cx.depT - a.time ≤ cx.p.maxFirstWait)

/-- stop `y` keeps a boarding whose departure minus minimum waiting is at least `b` -/
def AccGe (cx : Ctx) (s : RState) (y : Nat) (b : Int) : Prop :=
  ∃ js e, s.acc y = some js ∧ js.enter = some e ∧ b ≤ e.dep - e.effWait cx.p.minWait

structure RBetter (cx : Ctx) (s s' : RState) : Prop where
  lab : ∀ y, s.lab y ≤ s'.lab y
  exit : ∀ T, (s.exitC T).isSome = true → (s'.exitC T).isSome = true
  acc : ∀ y b, AccGe cx s y b → AccGe cx s' y b

theorem RBetter.refl (cx : Ctx) (s : RState) : RBetter cx s s := ⟨fun _ => Int.le_refl _, fun _ h => h, fun _ _ h => h⟩

theorem RBetter.trans {cx : Ctx} {a b c : RState} (h1 : RBetter cx a b) (h2 : RBetter cx b c) : RBetter cx a c :=
  ⟨fun y => Int.le_trans (h1.lab y) (h2.lab y), fun T h => h2.exit T (h1.exit T h), fun y b h => h2.acc y b (h1.acc y b h)⟩

theorem revFootLabel_better (cx : Ctx) (c : Conn) (mw : Int) (s : RState) (f : NTD) : RBetter cx s (revFootLabel c mw s f) := by
  unfold revFootLabel
  by_cases h : c.dep - f.time - mw > s.lab f.stop
  · rw [if_pos h]
    refine ⟨?_, fun _ h => h, fun _ _ h => h⟩
    intro y
    simp only
    by_cases hy : y = f.stop
    · subst hy; simp only [upd_same]; omega
    · rw [upd_other _ _ _ _ hy]; exact Int.le_refl _
  · rw [if_neg h]; exact RBetter.refl cx s

theorem revFootAcc_better (cx : Ctx) (c : Conn) (s : RState) (f : NTD)
    (hwf : ∀ y js, s.acc y = some js → ∃ e, js.enter = some e) :
    RBetter cx s (revFootAcc cx c (c.effWait cx.p.minWait) s f) := by
  unfold revFootAcc
  by_cases h : revAccAccept cx c (c.effWait cx.p.minWait) s f = true
  · rw [if_pos h]
    refine ⟨fun _ => Int.le_refl _, fun _ h => h, ?_⟩
    intro y b ⟨js, e, hj, he, hb⟩
    by_cases hy : y = f.stop
    · subst hy
      unfold revAccAccept at h
      simp only [Bool.and_eq_true] at h
      have hkeep := h.1.1.2
      rw [hj] at hkeep
      simp only [Option.all_some, he, Option.any_some, decide_eq_true_eq] at hkeep
      exact ⟨{ enter := some c, exit := s.exitC c.trip, walk := 0, dist := 0 }, c, by simp, rfl, by omega⟩
    · exact ⟨js, e, by simp only; rw [upd_other _ _ _ _ hy]; exact hj, he, hb⟩
  · rw [if_neg h]; exact RBetter.refl cx s

theorem revFootLabel_acc (c : Conn) (mw : Int) (s : RState) (f : NTD) : (revFootLabel c mw s f).acc = s.acc := by
  unfold revFootLabel; split <;> rfl

theorem revFoot_better (cx : Ctx) (c : Conn) (s : RState) (f : NTD)
    (hwf : ∀ y js, s.acc y = some js → ∃ e, js.enter = some e) :
    RBetter cx s (revFoot cx c (c.effWait cx.p.minWait) s f) := by
  unfold revFoot
  split
  · exact RBetter.refl cx s
  · split
    · exact RBetter.trans (revFootLabel_better cx c _ s f)
        (revFootAcc_better cx c _ f (by rw [revFootLabel_acc]; exact hwf))
    · exact RBetter.refl cx s

theorem revFoot_accWF (cx : Ctx) (c : Conn) (mw : Int) (s : RState) (f : NTD)
    (hwf : ∀ y js, s.acc y = some js → ∃ e, js.enter = some e) :
    ∀ y js, (revFoot cx c mw s f).acc y = some js → ∃ e, js.enter = some e := by
  unfold revFoot
  split
  · exact hwf
  · split
    · unfold revFootAcc
      split
      · intro y js hj
        simp only at hj
        by_cases hy : y = f.stop
        · subst hy; simp only [upd_same, Option.some.injEq] at hj; subst hj; exact ⟨c, rfl⟩
        · rw [upd_other _ _ _ _ hy, revFootLabel_acc] at hj; exact hwf y js hj
      · intro y js hj; rw [revFootLabel_acc] at hj; exact hwf y js hj
    · exact hwf

theorem revFoot_fold_better (cx : Ctx) (c : Conn) : ∀ (l : List NTD) (s : RState),
    (∀ y js, s.acc y = some js → ∃ e, js.enter = some e) →
    RBetter cx s (l.foldl (revFoot cx c (c.effWait cx.p.minWait)) s) ∧
    (∀ y js, (l.foldl (revFoot cx c (c.effWait cx.p.minWait)) s).acc y = some js → ∃ e, js.enter = some e) := by
  intro l
  induction l with
  | nil => intro s h; exact ⟨RBetter.refl cx s, h⟩
  | cons f rest ih =>
    intro s h
    rw [List.foldl_cons]
    obtain ⟨a, b⟩ := ih _ (revFoot_accWF cx c _ s f h)
    exact ⟨RBetter.trans (revFoot_better cx c s f h) a, b⟩

/-! ### what the footpath loop achieves -/

theorem revFootAcc_lab (cx : Ctx) (c : Conn) (mw : Int) (s : RState) (f : NTD) : (revFootAcc cx c mw s f).lab = s.lab := by
  unfold revFootAcc; split <;> rfl

theorem revFoot_lab (cx : Ctx) (c : Conn) (mw : Int) (s : RState) (f : NTD) (hf : f.time ≤ cx.p.maxTransfer) (hn : 0 ≤ f.time) :
    c.dep - f.time - mw ≤ (revFoot cx c mw s f).lab f.stop := by
  unfold revFoot
  by_cases h1 : f.stop ≠ c.depStop ∧ s.lab f.stop > c.dep - mw
  · rw [if_pos h1]; omega
  · rw [if_neg h1, if_pos hf, revFootAcc_lab]
    unfold revFootLabel
    by_cases h2 : c.dep - f.time - mw > s.lab f.stop
    · rw [if_pos h2]; simp only [upd_same]; omega
    · rw [if_neg h2]; omega

theorem revFoot_fold_lab (cx : Ctx) (c : Conn) (f : NTD) (hf : f.time ≤ cx.p.maxTransfer) (hn : 0 ≤ f.time) :
    ∀ (l : List NTD) (s : RState), (∀ y js, s.acc y = some js → ∃ e, js.enter = some e) → f ∈ l →
      c.dep - f.time - c.effWait cx.p.minWait ≤ (l.foldl (revFoot cx c (c.effWait cx.p.minWait)) s).lab f.stop := by
  intro l
  induction l with
  | nil => intro s _ h; cases h
  | cons g rest ih =>
    intro s hwf h
    rw [List.foldl_cons]
    rcases List.mem_cons.mp h with rfl | h'
    · exact Int.le_trans (revFoot_lab cx c _ s f hf hn)
        ((revFoot_fold_better cx c rest _ (revFoot_accWF cx c _ s f hwf)).1.lab _)
    · exact ih _ (revFoot_accWF cx c _ s g hwf) h'

theorem revFoot_acc (cx : Ctx) (c : Conn) (s : RState) (f : NTD) (hf : f.time ≤ cx.p.maxTransfer) (hs : f.stop = c.depStop)
    (hok : AccOK cx c) (hwf : ∀ y js, s.acc y = some js → ∃ e, js.enter = some e) :
    AccGe cx (revFoot cx c (c.effWait cx.p.minWait) s f) c.depStop (c.dep - c.effWait cx.p.minWait) := by
  unfold revFoot
  rw [if_neg (by intro h; exact h.1 hs), if_pos hf]
  unfold revFootAcc
  by_cases h : revAccAccept cx c (c.effWait cx.p.minWait) (revFootLabel c (c.effWait cx.p.minWait) s f) f = true
  · rw [if_pos h]
    exact ⟨{ enter := some c, exit := (revFootLabel c (c.effWait cx.p.minWait) s f).exitC c.trip, walk := 0, dist := 0 }, c,
      by simp only; rw [← hs]; simp, rfl, Int.le_refl _⟩
  · rw [if_neg h]
    -- not accepted: the other tests pass, so the keep rule refused: a later boarding is kept
    unfold revAccAccept at h
    rw [revFootLabel_acc] at h
    have h1 : decide (f.stop = c.depStop) = true := by simpa using hs
    have h2 : (decide (cx.depT = -1) || ((cx.nodesAccess c.depStop).any fun a => decide (c.dep - a.time - c.effWait cx.p.minWait ≥ cx.depT))) = true := by
      rcases hok with h0 | ⟨a, ha, hb, _⟩
      · simp [h0]
      · simp [ha, hb]
    have h3 : (decide (cx.depT = -1) || decide (cx.p.maxFirstWait < c.effWait cx.p.minWait) ||
        ((cx.nodesAccess c.depStop).any fun a => decide (c.dep - cx.depT - a.time ≤ cx.p.maxFirstWait))) = true := by
      rcases hok with h0 | ⟨a, ha, _, hc⟩
      · simp [h0]
      · rcases hc with hc | hc
        · simp [hc]
        · simp [ha, hc]
    simp only [h1, h2, h3, Bool.true_and, Bool.and_true] at h
    cases hj : s.acc f.stop with
    | none => rw [hj] at h; simp at h
    | some js =>
      rw [hj] at h
      obtain ⟨e, he⟩ := hwf f.stop js hj
      simp only [Option.all_some, he, Option.any_some, decide_eq_true_eq] at h
      exact ⟨js, e, by rw [revFootLabel_acc, ← hs]; exact hj, he, by omega⟩

theorem revFoot_fold_acc (cx : Ctx) (c : Conn) (f : NTD) (hf : f.time ≤ cx.p.maxTransfer) (hs : f.stop = c.depStop)
    (hd : AccOK cx c) :
    ∀ (l : List NTD) (s : RState), (∀ y js, s.acc y = some js → ∃ e, js.enter = some e) → f ∈ l →
      AccGe cx (l.foldl (revFoot cx c (c.effWait cx.p.minWait)) s) c.depStop (c.dep - c.effWait cx.p.minWait) := by
  intro l
  induction l with
  | nil => intro s _ h; cases h
  | cons g rest ih =>
    intro s hwf h
    rw [List.foldl_cons]
    rcases List.mem_cons.mp h with rfl | h'
    · exact (revFoot_fold_better cx c rest _ (revFoot_accWF cx c _ s f hwf)).1.acc _ _ (revFoot_acc cx c s f hf hs hd hwf)
    · exact ih _ (revFoot_accWF cx c _ s g hwf) h'

/-! ### one connection (all-nodes variant, every trip usable) -/

theorem revFoot_stop (cx : Ctx) (c : Conn) (mw : Int) (s : RState) (f : NTD) : (revFoot cx c mw s f).stop = s.stop := by
  unfold revFoot
  split
  · rfl
  · split
    · unfold revFootAcc revFootLabel; split <;> split <;> rfl
    · rfl

theorem revFoot_fold_stop (cx : Ctx) (c : Conn) (mw : Int) : ∀ (l : List NTD) (s : RState), (l.foldl (revFoot cx c mw) s).stop = s.stop := by
  intro l
  induction l with
  | nil => intro s; rfl
  | cons f rest ih => intro s; rw [List.foldl_cons, ih, revFoot_stop]

theorem revUnboard_better (cx : Ctx) (s : RState) (c : Conn) : RBetter cx s (revUnboard cx s c) := by
  unfold revUnboard
  split
  · refine ⟨fun _ => Int.le_refl _, ?_, fun _ _ h => h⟩
    intro T hT
    simp only
    by_cases h : T = c.trip
    · subst h; simp
    · rw [upd_other _ _ _ _ h]; exact hT
  · exact RBetter.refl cx s

theorem revUnboard_stop (cx : Ctx) (s : RState) (c : Conn) : (revUnboard cx s c).stop = s.stop := by
  unfold revUnboard; split <;> rfl
theorem revUnboard_acc (cx : Ctx) (s : RState) (c : Conn) : (revUnboard cx s c).acc = s.acc := by
  unfold revUnboard; split <;> rfl
theorem revUnboard_lab (cx : Ctx) (s : RState) (c : Conn) : (revUnboard cx s c).lab = s.lab := by
  unfold revUnboard; split <;> rfl

theorem revUnboard_exit (cx : Ctx) (s : RState) (c : Conn) (hcu : c.canUnboard = true) :
    ((revUnboard cx s c).exitC c.trip).isSome = true := by
  unfold revUnboard
  by_cases h : c.canUnboard = true ∧ ((s.exitC c.trip).isNone = true ∨ closerExit cx s c = true)
  · rw [if_pos h]; simp
  · rw [if_neg h]
    cases hx : s.exitC c.trip with
    | some v => rfl
    | none => exact absurd ⟨hcu, Or.inl (by rw [hx]; rfl)⟩ h

theorem revBoard_better (cx : Ctx) (s : RState) (c : Conn) (hwf : ∀ y js, s.acc y = some js → ∃ e, js.enter = some e) :
    RBetter cx s (revBoard cx false s c) ∧ (∀ y js, (revBoard cx false s c).acc y = some js → ∃ e, js.enter = some e) ∧
    (revBoard cx false s c).stop = s.stop := by
  unfold revBoard
  split
  · simp only [Bool.false_eq_true, false_and, if_false]
    obtain ⟨a, b⟩ := revFoot_fold_better cx c (cx.ds.rfootOf c.depStop) s hwf
    exact ⟨a, b, revFoot_fold_stop cx c _ _ _⟩
  · exact ⟨RBetter.refl cx s, hwf, rfl⟩

theorem revStep_cases2 (cx : Ctx) (s : RState) (c : Conn) :
    revStep cx (fun _ => true) false s c = s ∨
    (revStep cx (fun _ => true) false s c = { s with stop := true } ∧ cx.arrT - c.arr > cx.p.maxTotal) ∨
    (s.stop = false ∧
      revStep cx (fun _ => true) false s c =
        { revBoard cx false (revUnboard cx s c) c with count := (revBoard cx false (revUnboard cx s c) c).count + 1 }) := by
  unfold revStep
  by_cases h1 : s.stop = true
  · left; rw [if_pos h1]
  · rw [if_neg h1]
    by_cases h2 : ¬ (c.arr ≤ cx.arrT - (if false = true then cx.minEgress else 0))
    · left; rw [if_pos h2]
    · rw [if_neg h2]
      by_cases h3 : ¬ ((fun _ => true) c.trip = true ∧ ¬ cx.disabled c.trip = true)
      · left; rw [if_pos h3]
      · rw [if_neg h3]
        by_cases h4 : revBreak cx false s c = true
        · right; left; rw [if_pos h4]
          refine ⟨rfl, ?_⟩
          unfold revBreak at h4
          simp only [decide_eq_true_eq] at h4
          rcases h4 with ⟨hf, _⟩ | h4
          · cases hf
          · exact h4
        · rw [if_neg h4]
          by_cases h5 : ¬ ((s.exitC c.trip).isSome = true ∨ s.lab c.arrStop ≥ c.arr)
          · left; rw [if_pos h5]
          · rw [if_neg h5]
            right; right
            exact ⟨by simpa using h1, rfl⟩

theorem revStep_main (cx : Ctx) (s : RState) (c : Conn) (h0 : s.stop = false) (h1 : c.arr ≤ cx.arrT)
    (h2 : cx.disabled c.trip = false) (h3 : cx.arrT - c.arr ≤ cx.p.maxTotal)
    (h4 : (s.exitC c.trip).isSome = true ∨ s.lab c.arrStop ≥ c.arr) :
    revStep cx (fun _ => true) false s c =
      { revBoard cx false (revUnboard cx s c) c with count := (revBoard cx false (revUnboard cx s c) c).count + 1 } := by
  unfold revStep
  rw [if_neg (by rw [h0]; simp)]
  rw [if_neg (by simp; omega)]
  rw [if_neg (by rw [h2]; simp)]
  rw [if_neg (by
    unfold revBreak
    simp only [decide_eq_true_eq]
    intro hh
    rcases hh with ⟨hf, _⟩ | hh
    · cases hf
    · omega)]
  rw [if_neg (by intro hh; exact hh h4)]

/-! ### the completeness invariant -/

/-- alighting from `x` leaves the traveller in time to continue, using connections of `P` only -/
def UnboardP (cx : Ctx) (P : List Conn) (x : Conn) : Prop :=
  x.canUnboard = true ∧ cx.disabled x.trip = false ∧ ∃ t, RReach cx P x.arrStop t ∧ x.arr ≤ t

structure RC (cx : Ctx) (P : List Conn) (s : RState) : Prop where
  lab : ∀ y t, RReach cx P y t → cx.arrT - t ≤ cx.p.maxTotal → t ≤ s.lab y
  exit : ∀ x ∈ P, UnboardP cx P x → cx.arrT - x.arr ≤ cx.p.maxTotal → (s.exitC x.trip).isSome = true
  acc : ∀ e ∈ P, ∀ x ∈ P, UnboardP cx P x → e.trip = x.trip → e.seq ≤ x.seq → e.canBoard = true → AccOK cx e →
    cx.arrT - e.arr ≤ cx.p.maxTotal → AccGe cx s e.depStop (e.dep - e.effWait cx.p.minWait)
  stop : s.stop = true → ∃ c0 ∈ P, cx.arrT - c0.arr > cx.p.maxTotal
  accWF : ∀ y js, s.acc y = some js → ∃ e, js.enter = some e

theorem UnboardP.strengthen {cx : Ctx} {L P : List Conn} {c x : Conn} (w : RW cx L) (hP : ∀ a ∈ P ++ [c], a ∈ L)
    (h : UnboardP cx (P ++ [c]) x) (hx : c.arr ≤ x.arr) : UnboardP cx P x := by
  obtain ⟨h1, h2, t, hr, ht⟩ := h
  exact ⟨h1, h2, t, hr.strengthen w hP (by omega), ht⟩

theorem init_RC (cx : Ctx) (hnd : (cx.egressFoot.map (·.stop)).Nodup) : RC cx [] (RState.init cx) := by
  refine ⟨?_, ?_, ?_, ?_, ?_⟩
  · intro y t h _
    cases h with
    | egress g hg =>
      have : (RState.init cx).lab g.stop = cx.arrT - g.time := by
        unfold RState.init
        exact foldl_upd_nodup (fun e => cx.arrT - e.time) cx.egressFoot _ hnd g hg
      omega
    | ride z t e x f _ he => cases he
  · intro x hx; cases hx
  · intro e he; cases he
  · intro h; simp [RState.init] at h
  · intro y js h; simp [RState.init] at h

theorem revStep_RC {cx : Ctx} {L P : List Conn} {s : RState} {c : Conn} (w : RW cx L)
    (hP : ∀ a ∈ P ++ [c], a ∈ L) (hbefore : ∀ a ∈ P, revLt c a = false) (h : RC cx P s) :
    RC cx (P ++ [c]) (revStep cx (fun _ => true) false s c) := by
  have hcL : c ∈ L := hP c (by simp)
  have hPL : ∀ a ∈ P, a ∈ L := fun a ha => hP a (List.mem_append_left _ ha)
  have hmonoP : ∀ a ∈ P, a ∈ P ++ [c] := fun a ha => List.mem_append_left _ ha
  -- elements of P arrive no earlier than c
  have harrP : ∀ a ∈ P, c.arr ≤ a.arr := by
    intro a ha
    have := hbefore a ha
    simp only [revLt, Bool.or_eq_false_iff, decide_eq_false_iff_not] at this
    omega
  -- a member of P in c's trip with a sequence number not above c's is c itself
  have hsame : ∀ e ∈ P, e.trip = c.trip → e.seq ≤ c.seq → e = c := by
    intro e he ht hs
    have h1 := w.arrMono e (hPL e he) c hcL ht hs
    have h2 := harrP e he
    have hlt := hbefore e he
    simp only [revLt, Bool.or_eq_false_iff, Bool.and_eq_false_iff, decide_eq_false_iff_not] at hlt
    have heq : c.arr = e.arr := by omega
    have hseq : e.seq = c.seq := by
      rcases hlt.2 with h3 | h3
      · exact absurd heq h3
      · rcases h3.2 with h4 | h4
        · exact absurd ht.symm h4
        · omega
    exact w.unique e (hPL e he) c hcL ht hseq
  have hns : cx.arrT - c.arr ≤ cx.p.maxTotal → s.stop = false := by
    intro hc
    cases hst : s.stop with
    | false => rfl
    | true =>
      obtain ⟨c0, hc0, hlate⟩ := h.stop hst
      have := harrP c0 hc0
      omega
  -- the main branch, for a ride that starts with `c`
  have hmain : ∀ x ∈ P ++ [c], UnboardP cx (P ++ [c]) x → c.trip = x.trip → c.seq ≤ x.seq → cx.arrT - c.arr ≤ cx.p.maxTotal →
      revStep cx (fun _ => true) false s c =
        { revBoard cx false (revUnboard cx s c) c with count := (revBoard cx false (revUnboard cx s c) c).count + 1 } ∧
      ((revUnboard cx s c).exitC c.trip).isSome = true := by
    intro x hx hu ht hs hc
    have hxa : c.arr ≤ x.arr := w.arrMono c hcL x (hP x hx) ht hs
    have huP := hu.strengthen w hP hxa
    obtain ⟨hcu, hdis, t, hr, hrt⟩ := huP
    have hle := hr.time_le w hPL
    have hcond : (s.exitC c.trip).isSome = true ∨ s.lab c.arrStop ≥ c.arr := by
      rcases List.mem_append.mp hx with hxP | hxC
      · left; rw [ht]; exact h.exit x hxP ⟨hcu, hdis, t, hr, hrt⟩ (by omega)
      · simp at hxC; subst hxC
        right
        have := h.lab _ _ hr (by omega)
        omega
    refine ⟨revStep_main cx s c (hns hc) (by omega) (by rw [ht]; exact hdis) hc hcond, ?_⟩
    rcases List.mem_append.mp hx with hxP | hxC
    · exact (revUnboard_better cx s c).exit _ (by rw [ht]; exact h.exit x hxP ⟨hcu, hdis, t, hr, hrt⟩ (by omega))
    · simp at hxC; subst hxC; exact revUnboard_exit cx s x hcu
  have hbet : RBetter cx s (revStep cx (fun _ => true) false s c) := by
    rcases revStep_cases2 cx s c with h1 | ⟨h1, _⟩ | ⟨_, h1⟩
    · rw [h1]; exact RBetter.refl cx s
    · rw [h1]; exact ⟨fun _ => Int.le_refl _, fun _ h => h, fun _ _ h => h⟩
    · rw [h1]
      have h2 := (revBoard_better cx (revUnboard cx s c) c (by rw [revUnboard_acc]; exact h.accWF)).1
      have := RBetter.trans (revUnboard_better cx s c) h2
      exact ⟨this.lab, this.exit, this.acc⟩
  refine ⟨?_, ?_, ?_, ?_, ?_⟩
  · -- labels
    intro y t hr ht
    cases hr with
    | egress g hg => exact Int.le_trans (h.lab _ _ (RReach.egress g hg) ht) (hbet.lab _)
    | ride z tz e x f hsub he hx h1 h2 h3 h4 h5 h6 h7 h8 h9 =>
      have hxL := hP x hx
      have heL := hP e he
      have hphe := w.posHop e heL
      have hfn := w.footNonneg _ f h8
      have hw := effWait_nonneg e cx.p.minWait w.mw
      have ham := w.arrMono e heL x hxL h3 h4
      by_cases hec : e = c
      · subst hec
        obtain ⟨hm, hex⟩ := hmain x hx ⟨h6, by rw [← h3]; exact h7, tz, by rw [h1]; exact hsub, h2⟩ h3 h4 (by omega)
        rw [hm]
        simp only
        unfold revBoard
        rw [if_pos ⟨h5, hex⟩]
        simp only [Bool.false_eq_true, false_and, if_false]
        exact revFoot_fold_lab cx e f h9 hfn _ _ (by rw [revUnboard_acc]; exact h.accWF) h8
      · have heP : e ∈ P := by
          rcases List.mem_append.mp he with h' | h'
          · exact h'
          · simp at h'; exact absurd h' hec
        have hxP : x ∈ P := by
          rcases List.mem_append.mp hx with h' | h'
          · exact h'
          · simp at h'; subst h'
            exact absurd (hsame e heP h3 h4) hec
        have hxa := harrP x hxP
        have hsubP := hsub.strengthen w hP (by omega)
        exact Int.le_trans (h.lab _ _ (RReach.ride z tz e x f hsubP heP hxP h1 h2 h3 h4 h5 h6 h7 h8 h9) ht) (hbet.lab _)
  · -- exit connections
    intro x hx hu hd
    rcases List.mem_append.mp hx with hxP | hxC
    · exact hbet.exit _ (h.exit x hxP (hu.strengthen w hP (harrP x hxP)) hd)
    · simp at hxC; subst hxC
      obtain ⟨hm, hex⟩ := hmain x hx hu rfl (Nat.le_refl _) hd
      rw [hm]
      simp only
      exact (revBoard_better cx (revUnboard cx s x) x (by rw [revUnboard_acc]; exact h.accWF)).1.exit _ hex
  · -- kept boardings
    intro e he x hx hu ht hs hcb hok hd
    by_cases hec : e = c
    · subst hec
      obtain ⟨hm, hex⟩ := hmain x hx hu ht hs hd
      rw [hm]
      obtain ⟨f0, hf0, hf0s, hf0t⟩ := w.selfFoot e hcL
      show AccGe cx (revBoard cx false (revUnboard cx s e) e) e.depStop (e.dep - e.effWait cx.p.minWait)
      unfold revBoard
      rw [if_pos ⟨hcb, hex⟩]
      simp only [Bool.false_eq_true, false_and, if_false]
      exact revFoot_fold_acc cx e f0 hf0t hf0s hok _ _ (by rw [revUnboard_acc]; exact h.accWF) hf0
    · have heP : e ∈ P := by
        rcases List.mem_append.mp he with h' | h'
        · exact h'
        · simp at h'; exact absurd h' hec
      have hxP : x ∈ P := by
        rcases List.mem_append.mp hx with h' | h'
        · exact h'
        · simp at h'; subst h'
          exact absurd (hsame e heP ht hs) hec
      exact hbet.acc _ _ (h.acc e heP x hxP (hu.strengthen w hP (harrP x hxP)) ht hs hcb hok hd)
  · -- the stop flag
    intro hst
    rcases revStep_cases2 cx s c with h1 | ⟨_, h1⟩ | ⟨h0, h1⟩
    · rw [h1] at hst
      obtain ⟨c0, hc0, hl⟩ := h.stop hst
      exact ⟨c0, hmonoP c0 hc0, hl⟩
    · exact ⟨c, by simp, h1⟩
    · rw [h1] at hst
      simp only at hst
      rw [(revBoard_better cx (revUnboard cx s c) c (by rw [revUnboard_acc]; exact h.accWF)).2.2, revUnboard_stop, h0] at hst
      cases hst
  · -- kept boardings carry their connection
    rcases revStep_cases2 cx s c with h1 | ⟨h1, _⟩ | ⟨_, h1⟩
    · rw [h1]; exact h.accWF
    · rw [h1]; exact h.accWF
    · rw [h1]
      exact (revBoard_better cx (revUnboard cx s c) c (by rw [revUnboard_acc]; exact h.accWF)).2.1

theorem revScanList_RC {cx : Ctx} {L : List Conn} (w : RW cx L) :
    ∀ (post pre : List Conn) (s : RState), (∀ a ∈ pre ++ post, a ∈ L) → SortedRev (pre ++ post) →
      RC cx pre s → RC cx (pre ++ post) (post.foldl (revStep cx (fun _ => true) false) s) := by
  intro post
  induction post with
  | nil => intro pre s _ _ h; simpa using h
  | cons c rest ih =>
    intro pre s hC hs h
    have hstep := revStep_RC (c := c) w (fun a ha => hC a (by
        rcases List.mem_append.mp ha with h1 | h1
        · exact List.mem_append_left _ h1
        · simp at h1; subst h1; simp))
      (fun a ha => (List.pairwise_append.mp hs).2.2 a ha c (List.mem_cons_self ..)) h
    have := ih (pre ++ [c]) _ (by simpa using hC) (by simpa [SortedRev] using hs) hstep
    simpa using this

end Tr
