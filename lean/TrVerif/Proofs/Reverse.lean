/-
  TrVerif.Proofs.Reverse — invariant of the reverse scan (used by C01, C02, C10).

  For every prefix `pre` of the scanned connections the tables of the scan satisfy `RInv`:
  every trip's exit connection is alightable and arrives no later than the label of its stop;
  every stored per-stop step boards a scanned connection whose trip has such an exit further
  along, reached over a real footpath within the transfer maximum, and the label of the stop is
  exactly "boarding departure - walk - minimum waiting"; stops without such a step still carry
  their initial (egress) values; access candidates board at their own stop.
-/
import TrVerif.Model.Scan
namespace Tr

theorem effWait_nonneg (c : Conn) (d : Int) (hd : 0 ≤ d) : 0 ≤ c.effWait d := by
  unfold Conn.effWait; split <;> omega

/-- the arrival times along a trip do not decrease with the sequence number -/
def ArrMono (C : List Conn) : Prop :=
  ∀ a ∈ C, ∀ b ∈ C, a.trip = b.trip → a.seq ≤ b.seq → a.arr ≤ b.arr

/-- sorted the way the reverse list is: no earlier element is strictly "smaller" in the order of
    `revLt` than a later one, i.e. for `a` before `c`: `revLt c a = false` -/
def SortedRev (l : List Conn) : Prop := l.Pairwise (fun a c => revLt c a = false)

theorem SortedRev.before {l : List Conn} (h : SortedRev l) (a c : Conn) (pre rest : List Conn)
    (hl : l = pre ++ c :: rest) (ha : a ∈ pre) : revLt c a = false := by
  subst hl
  have := List.pairwise_append.mp h
  exact this.2.2 a ha c (List.mem_cons_self ..)

def ExitFact (pre : List Conn) (s : RState) (T : Nat) (x : Conn) : Prop :=
  x ∈ pre ∧ x.trip = T ∧ x.canUnboard = true ∧ x.arr ≤ s.lab x.arrStop

/-- a ride `e … x` usable from the tables: same trip, boards before it alights, permissions, and
    the alighting is early enough for whatever follows at its stop -/
def RideFact (pre : List Conn) (s : RState) (e x : Conn) : Prop :=
  e ∈ pre ∧ x ∈ pre ∧ e.trip = x.trip ∧ e.seq ≤ x.seq ∧ e.canBoard = true ∧ x.canUnboard = true ∧
  x.arr ≤ s.lab x.arrStop

def StepFact (cx : Ctx) (pre : List Conn) (s : RState) (y : Nat) (js : JStep) (e : Conn) : Prop :=
  ∃ x, js.exit = some x ∧ RideFact pre s e x ∧
    (⟨y, js.walk, js.dist⟩ : NTD) ∈ cx.ds.rfootOf e.depStop ∧ js.walk ≤ cx.p.maxTransfer ∧
    s.lab y = e.dep - js.walk - e.effWait cx.p.minWait

/-- the acceptance tests a boarding kept for an access stop has passed (departure-time queries):
    not before the requested departure, and within the first-waiting cap unless the cap is
    smaller than the minimum waiting time in force -/
def AccAccepted (cx : Ctx) (y : Nat) (e : Conn) : Prop :=
  cx.depT ≠ -1 → ∃ ac, cx.nodesAccess y = some ac ∧ cx.depT ≤ e.dep - ac.time - e.effWait cx.p.minWait ∧
    (cx.p.maxFirstWait < e.effWait cx.p.minWait ∨ e.dep - cx.depT - ac.time ≤ cx.p.maxFirstWait)

def AccFact (cx : Ctx) (pre : List Conn) (s : RState) (y : Nat) (a : JStep) : Prop :=
  ∃ e x, a.enter = some e ∧ a.exit = some x ∧ RideFact pre s e x ∧ e.depStop = y ∧ AccAccepted cx y e

structure RInv (cx : Ctx) (pre : List Conn) (s : RState) : Prop where
  exit : ∀ T x, s.exitC T = some x → ExitFact pre s T x
  step : ∀ y e, (s.steps y).enter = some e → StepFact cx pre s y (s.steps y) e
  init : ∀ y, (s.steps y).enter = none → s.steps y = (RState.init cx).steps y ∧ s.lab y = (RState.init cx).lab y
  acc : ∀ y a, s.acc y = some a → AccFact cx pre s y a

theorem RideFact.mono {pre pre' : List Conn} {s s' : RState} {e x : Conn}
    (h : RideFact pre s e x) (hp : ∀ a ∈ pre, a ∈ pre') (hl : ∀ y, s.lab y ≤ s'.lab y) : RideFact pre' s' e x :=
  ⟨hp _ h.1, hp _ h.2.1, h.2.2.1, h.2.2.2.1, h.2.2.2.2.1, h.2.2.2.2.2.1, Int.le_trans h.2.2.2.2.2.2 (hl _)⟩

theorem RInv.mono_pre {cx : Ctx} {pre pre' : List Conn} {s : RState} (h : RInv cx pre s) (hp : ∀ a ∈ pre, a ∈ pre') :
    RInv cx pre' s where
  exit := fun T x hx => let ⟨a, b, c, d⟩ := h.exit T x hx; ⟨hp _ a, b, c, d⟩
  step := fun y e he => let ⟨x, a, b, c⟩ := h.step y e he; ⟨x, a, b.mono hp (fun _ => Int.le_refl _), c⟩
  init := h.init
  acc := fun y a ha => let ⟨e, x, a1, a2, a3, a4⟩ := h.acc y a ha; ⟨e, x, a1, a2, a3.mono hp (fun _ => Int.le_refl _), a4⟩

/-- replace label and step of one stop `y` by a strictly later label with a justified step -/
theorem RInv.updStep {cx : Ctx} {pre : List Conn} {s : RState} (h : RInv cx pre s)
    (y : Nat) (v : Int) (js : JStep) (e : Conn) (hv : s.lab y < v) (hje : js.enter = some e)
    (hjs : StepFact cx pre { s with lab := upd s.lab y v, steps := upd s.steps y js } y js e) :
    RInv cx pre { s with lab := upd s.lab y v, steps := upd s.steps y js } := by
  have hl : ∀ z, s.lab z ≤ (upd s.lab y v) z := by
    intro z; by_cases hz : z = y
    · subst hz; simp; omega
    · simp [upd, hz]
  constructor
  · intro T x hx
    obtain ⟨a, b, c, d⟩ := h.exit T x hx
    exact ⟨a, b, c, Int.le_trans d (hl _)⟩
  · intro z e' he'
    by_cases hz : z = y
    · subst hz
      simp only [upd_same] at he' ⊢
      rw [hje] at he'; cases he'
      exact hjs
    · simp only [upd_other _ _ _ _ hz] at he' ⊢
      obtain ⟨x, a, b, c, d, f⟩ := h.step z e' he'
      refine ⟨x, a, b.mono (fun _ m => m) hl, c, d, ?_⟩
      simp [upd, hz, f]
  · intro z hz'
    by_cases hz : z = y
    · subst hz; simp only [upd_same] at hz'; rw [hje] at hz'; cases hz'
    · simp only [upd_other _ _ _ _ hz] at hz' ⊢
      exact h.init z hz'
  · intro z a ha
    obtain ⟨e', x, a1, a2, a3, a4⟩ := h.acc z a ha
    exact ⟨e', x, a1, a2, a3.mono (fun _ m => m) hl, a4⟩

theorem RInv.updAcc {cx : Ctx} {pre : List Conn} {s : RState} (h : RInv cx pre s)
    (y : Nat) (a : JStep) (ha : AccFact cx pre s y a) :
    RInv cx pre { s with acc := upd s.acc y (some a) } where
  exit := h.exit
  step := h.step
  init := h.init
  acc := by
    intro z b hb
    by_cases hz : z = y
    · subst hz; simp only [upd_same] at hb; cases hb; exact ha
    · simp only [upd_other _ _ _ _ hz] at hb; exact h.acc z b hb

/-- what the boarding part knows when it handles connection `c` -/
structure BoardCtx (cx : Ctx) (pre : List Conn) (s : RState) (c x : Conn) : Prop where
  hc : c ∈ pre
  hcb : c.canBoard = true
  hx : s.exitC c.trip = some x
  hseq : c.seq ≤ x.seq

theorem BoardCtx.ride {cx : Ctx} {pre : List Conn} {s : RState} {c x : Conn} (b : BoardCtx cx pre s c x)
    (h : RInv cx pre s) (s' : RState) (hl : ∀ y, s.lab y ≤ s'.lab y) : RideFact pre s' c x := by
  obtain ⟨xa, xb, xc, xd⟩ := h.exit _ _ b.hx
  exact ⟨b.hc, xa, xb.symm, b.hseq, b.hcb, xc, Int.le_trans xd (hl _)⟩

/-- a state transformer of the boarding part: keeps the invariant and the exit table, only
    increases labels -/
def Keeps (cx : Ctx) (pre : List Conn) (s s' : RState) : Prop :=
  RInv cx pre s' ∧ s'.exitC = s.exitC ∧ ∀ y, s.lab y ≤ s'.lab y

theorem Keeps.refl {cx : Ctx} {pre : List Conn} {s : RState} (h : RInv cx pre s) : Keeps cx pre s s :=
  ⟨h, rfl, fun _ => Int.le_refl _⟩

theorem revFootLabel_keeps {cx : Ctx} {pre : List Conn} {s : RState} {c x : Conn} {f : NTD}
    (h : RInv cx pre s) (b : BoardCtx cx pre s c x) (hf : f ∈ cx.ds.rfootOf c.depStop)
    (hmax : f.time ≤ cx.p.maxTransfer) :
    Keeps cx pre s (revFootLabel c (c.effWait cx.p.minWait) s f) ∧
    (revFootLabel c (c.effWait cx.p.minWait) s f).acc = s.acc := by
  unfold revFootLabel
  split
  · rename_i hgt
    have hl : ∀ z, s.lab z ≤ (upd s.lab f.stop (c.dep - f.time - c.effWait cx.p.minWait)) z := by
      intro z; by_cases hz : z = f.stop
      · subst hz; simp; omega
      · simp [upd, hz]
    refine ⟨⟨?_, rfl, hl⟩, rfl⟩
    apply h.updStep f.stop _ _ c hgt rfl
    refine ⟨x, b.hx, b.ride h _ hl, ?_, hmax, by simp⟩
    cases f; exact hf
  · exact ⟨Keeps.refl h, rfl⟩

theorem revFootAcc_keeps {cx : Ctx} {pre : List Conn} {s s1 : RState} {c x : Conn} {f : NTD}
    (h : RInv cx pre s) (b : BoardCtx cx pre s c x) (k : Keeps cx pre s s1) :
    Keeps cx pre s (revFootAcc cx c (c.effWait cx.p.minWait) s1 f) := by
  unfold revFootAcc
  split
  · rename_i hacc
    refine ⟨?_, k.2.1, k.2.2⟩
    apply k.1.updAcc
    simp only [revAccAccept, Bool.and_eq_true, Bool.or_eq_true, decide_eq_true_eq] at hacc
    have hself : f.stop = c.depStop := hacc.1.1.1
    refine ⟨c, x, rfl, ?_, b.ride h _ k.2.2, hself.symm, ?_⟩
    · show s1.exitC c.trip = some x
      rw [k.2.1]; exact b.hx
    · intro hd
      have h3 := hacc.1.2
      have h4 := hacc.2
      rcases h3 with h3 | h3
      · exact absurd h3 hd
      · cases hna : cx.nodesAccess c.depStop with
        | none => rw [hna] at h3; simp at h3
        | some ac =>
          rw [hna] at h3 h4
          simp only [Option.any_some, decide_eq_true_eq] at h3 h4
          refine ⟨ac, by rw [hself]; exact hna, by omega, ?_⟩
          rcases h4 with (h4 | h4) | h4
          · exact absurd h4 hd
          · exact Or.inl h4
          · exact Or.inr h4
  · exact k

/-- one footpath of the boarding part -/
theorem revFoot_keeps {cx : Ctx} {pre : List Conn} {s : RState} {c x : Conn} {f : NTD}
    (h : RInv cx pre s) (b : BoardCtx cx pre s c x) (hf : f ∈ cx.ds.rfootOf c.depStop) :
    Keeps cx pre s (revFoot cx c (c.effWait cx.p.minWait) s f) := by
  unfold revFoot
  split
  · exact Keeps.refl h
  · split
    · rename_i hmax
      exact revFootAcc_keeps h b (revFootLabel_keeps h b hf hmax).1
    · exact Keeps.refl h

theorem Keeps.trans {cx : Ctx} {pre : List Conn} {s s1 s2 : RState} (a : Keeps cx pre s s1) (b : Keeps cx pre s1 s2) :
    Keeps cx pre s s2 :=
  ⟨b.1, by rw [b.2.1, a.2.1], fun y => Int.le_trans (a.2.2 y) (b.2.2 y)⟩

theorem BoardCtx.of_keeps {cx : Ctx} {pre : List Conn} {s s1 : RState} {c x : Conn} (b : BoardCtx cx pre s c x)
    (k : Keeps cx pre s s1) : BoardCtx cx pre s1 c x :=
  ⟨b.hc, b.hcb, by rw [k.2.1]; exact b.hx, b.hseq⟩

/-- the whole footpath loop -/
theorem revFootLoop_keeps {cx : Ctx} {pre : List Conn} {c x : Conn} :
    ∀ (fs : List NTD) (s : RState), RInv cx pre s → BoardCtx cx pre s c x → (∀ f ∈ fs, f ∈ cx.ds.rfootOf c.depStop) →
      Keeps cx pre s (fs.foldl (revFoot cx c (c.effWait cx.p.minWait)) s) := by
  intro fs
  induction fs with
  | nil => intro s h _ _; exact Keeps.refl h
  | cons f rest ih =>
    intro s h b hfs
    have k1 := revFoot_keeps h b (hfs f (List.mem_cons_self ..))
    have k2 := ih _ k1.1 (b.of_keeps k1) (fun g hg => hfs g (List.mem_cons_of_mem _ hg))
    exact k1.trans k2

/-- states that differ only in the bookkeeping of the early termination -/
theorem RInv.congr {cx : Ctx} {pre : List Conn} {s s' : RState} (h : RInv cx pre s)
    (h1 : s'.lab = s.lab) (h2 : s'.steps = s.steps) (h3 : s'.exitC = s.exitC) (h4 : s'.acc = s.acc) : RInv cx pre s' := by
  constructor
  · intro T x hx; rw [h3] at hx; obtain ⟨a, b, c, d⟩ := h.exit T x hx; exact ⟨a, b, c, by rw [h1]; exact d⟩
  · intro y e he; rw [h2] at he ⊢
    obtain ⟨x, a, b, c, d, f⟩ := h.step y e he
    exact ⟨x, a, b.mono (fun _ m => m) (fun z => by rw [h1]; exact Int.le_refl _), c, d, by rw [h1]; exact f⟩
  · intro y hy; rw [h2] at hy ⊢; rw [h1]; exact h.init y hy
  · intro y a ha; rw [h4] at ha
    obtain ⟨e, x, a1, a2, a3, a4⟩ := h.acc y a ha
    exact ⟨e, x, a1, a2, a3.mono (fun _ m => m) (fun z => by rw [h1]; exact Int.le_refl _), a4⟩

theorem revBoard_keeps {cx : Ctx} {pre : List Conn} {s : RState} {c : Conn} (single : Bool)
    (h : RInv cx pre s) (hc : c ∈ pre)
    (hseq : ∀ x, s.exitC c.trip = some x → c.seq ≤ x.seq) :
    RInv cx pre (revBoard cx single s c) := by
  unfold revBoard
  split
  · rename_i hg
    obtain ⟨x, hx⟩ := Option.isSome_iff_exists.mp hg.2
    have b : BoardCtx cx pre s c x := ⟨hc, hg.1, hx, hseq x hx⟩
    -- the `reached` bookkeeping does not touch the tables
    split
    · have h' : RInv cx pre { s with reached := true, tentAccDep := c.dep } := h.congr rfl rfl rfl rfl
      have b' : BoardCtx cx pre { s with reached := true, tentAccDep := c.dep } c x := ⟨hc, hg.1, hx, hseq x hx⟩
      exact (revFootLoop_keeps _ _ h' b' (fun f hf => hf)).1
    · exact (revFootLoop_keeps _ _ h b (fun f hf => hf)).1
  · exact h

theorem revUnboard_inv {cx : Ctx} {pre : List Conn} {s : RState} {c : Conn}
    (hmw : 0 ≤ cx.p.minWait) (h : RInv cx pre s) (hc : c ∈ pre)
    (hreach : (s.exitC c.trip).isSome ∨ s.lab c.arrStop ≥ c.arr) :
    RInv cx pre (revUnboard cx s c) ∧
    (∀ x, (revUnboard cx s c).exitC c.trip = some x → x = c ∨ s.exitC c.trip = some x) := by
  have setExit : ∀ w : Int, c.canUnboard = true → c.arr ≤ s.lab c.arrStop →
      RInv cx pre { s with exitC := upd s.exitC c.trip (some c), exitW := upd s.exitW c.trip w } := by
    intro w hcu hle
    constructor
    · intro T x hx
      by_cases hT : T = c.trip
      · subst hT; simp only [upd_same] at hx; cases hx; exact ⟨hc, rfl, hcu, hle⟩
      · simp only [upd_other _ _ _ _ hT] at hx; exact h.exit T x hx
    · exact h.step
    · exact h.init
    · exact h.acc
  unfold revUnboard
  by_cases hcond : c.canUnboard = true ∧ ((s.exitC c.trip).isNone = true ∨ closerExit cx s c = true)
  · rw [if_pos hcond]
    have hle : c.arr ≤ s.lab c.arrStop := by
      rcases hcond.2 with hnone | hcl
      · rcases hreach with h1 | h1
        · rw [Option.isNone_iff_eq_none] at hnone; rw [hnone] at h1; simp at h1
        · exact h1
      · simp only [closerExit, Bool.and_eq_true, decide_eq_true_eq] at hcl
        have hnn : 0 ≤ enterWait cx.p.minWait (s.steps c.arrStop) := by
          unfold enterWait; split
          · exact effWait_nonneg _ _ hmw
          · exact Int.le_refl _
        omega
    exact ⟨setExit _ hcond.1 hle, fun x hx => by simp only [upd_same] at hx; cases hx; exact Or.inl rfl⟩
  · rw [if_neg hcond]
    exact ⟨h, fun x hx => Or.inr hx⟩

/-- sequence numbers: an exit chosen earlier in the descending-arrival order lies further along -/
theorem seq_le_of_sorted {C : List Conn} (hm : ArrMono C) {c x : Conn} (hc : c ∈ C) (hx : x ∈ C)
    (ht : x.trip = c.trip) (hs : revLt c x = false) : c.seq ≤ x.seq := by
  simp only [revLt, Bool.or_eq_false_iff, Bool.and_eq_false_iff, decide_eq_false_iff_not] at hs
  by_cases hlt : c.seq ≤ x.seq
  · exact hlt
  · have : x.arr ≤ c.arr := hm x hx c hc ht (by omega)
    omega

/-- the three ways one iteration can end -/
theorem revStep_cases (cx : Ctx) (usable : Nat → Bool) (single : Bool) (s : RState) (c : Conn) :
    revStep cx usable single s c = s ∨
    revStep cx usable single s c = { s with stop := true } ∨
    (((s.exitC c.trip).isSome ∨ s.lab c.arrStop ≥ c.arr) ∧
      revStep cx usable single s c =
        { revBoard cx single (revUnboard cx s c) c with count := (revBoard cx single (revUnboard cx s c) c).count + 1 }) := by
  unfold revStep
  by_cases h1 : s.stop = true
  · left; rw [if_pos h1]
  · rw [if_neg h1]
    by_cases h2 : ¬ (c.arr ≤ cx.arrT - (if single = true then cx.minEgress else 0))
    · left; rw [if_pos h2]
    · rw [if_neg h2]
      by_cases h3 : ¬ (usable c.trip = true ∧ ¬ cx.disabled c.trip = true)
      · left; rw [if_pos h3]
      · rw [if_neg h3]
        by_cases h4 : revBreak cx single s c = true
        · right; left; rw [if_pos h4]
        · rw [if_neg h4]
          by_cases h5 : ¬ ((s.exitC c.trip).isSome = true ∨ s.lab c.arrStop ≥ c.arr)
          · left; rw [if_pos h5]
          · rw [if_neg h5]
            right; right
            exact ⟨Classical.not_not.mp h5, rfl⟩

/-- **one connection of the reverse scan keeps the invariant** -/
theorem revStep_inv {cx : Ctx} {pre0 : List Conn} {s : RState} {c : Conn} (usable : Nat → Bool) (single : Bool)
    (C : List Conn) (hm : ArrMono C) (hcC : c ∈ C) (hpC : ∀ a ∈ pre0, a ∈ C)
    (hsorted : ∀ a ∈ pre0, revLt c a = false) (hmw : 0 ≤ cx.p.minWait)
    (h : RInv cx pre0 s) : RInv cx (pre0 ++ [c]) (revStep cx usable single s c) := by
  have h' : RInv cx (pre0 ++ [c]) s := h.mono_pre (fun a ha => List.mem_append_left _ ha)
  have hc : c ∈ pre0 ++ [c] := by simp
  rcases revStep_cases cx usable single s c with e | e | ⟨hreach, e⟩
  · rw [e]; exact h'
  · rw [e]; exact h'.congr rfl rfl rfl rfl
  · rw [e]
    obtain ⟨hu, hex⟩ := revUnboard_inv hmw h' hc hreach
    have hseq : ∀ x, (revUnboard cx s c).exitC c.trip = some x → c.seq ≤ x.seq := by
      intro x hx
      rcases hex x hx with e | e
      · subst e; exact Nat.le_refl _
      · obtain ⟨xa, xb, _, _⟩ := h.exit _ _ e
        exact seq_le_of_sorted hm hcC (hpC _ xa) xb (hsorted _ xa)
    exact (revBoard_keeps single hu hc hseq).congr rfl rfl rfl rfl

/-- the scan over a sorted list -/
theorem revScanList_inv {cx : Ctx} (usable : Nat → Bool) (single : Bool) (C : List Conn) (hm : ArrMono C)
    (hmw : 0 ≤ cx.p.minWait) :
    ∀ (post pre : List Conn) (s : RState), (∀ a ∈ pre ++ post, a ∈ C) → SortedRev (pre ++ post) →
      RInv cx pre s → RInv cx (pre ++ post) (post.foldl (revStep cx usable single) s) := by
  intro post
  induction post with
  | nil => intro pre s _ _ h; simpa using h
  | cons c rest ih =>
    intro pre s hC hs h
    have hstep := revStep_inv usable single C hm (hC c (by simp)) (fun a ha => hC a (List.mem_append_left _ ha))
      (fun a ha => hs.before a c pre rest rfl ha) hmw h
    have := ih (pre ++ [c]) _ (by simpa using hC) (by simpa using hs) hstep
    simpa using this

end Tr
