/-
  TrVerif.Proofs.Cleanup — the journey clean-up (`optimizeJourney`, cases CSL / BTS / GTF / CSS)
  maps valid journeys to valid journeys.
-/
import TrVerif.Proofs.Assembly
import TrVerif.Proofs.Slice
namespace Tr

/-- the link condition between two consecutive legs -/
def LinkOK (cx : Ctx) (l l' : JStep) : Prop :=
  ∃ x e', l.exit = some x ∧ l'.enter = some e' ∧ Link cx x l.walk e'

def IsRide (C : List Conn) (l : JStep) : Prop := ∃ e x, l.enter = some e ∧ l.exit = some x ∧ Ride C e x

theorem LegsOK_cons2 {cx : Ctx} {C : List Conn} {l l' : JStep} {rest : List JStep} :
    LegsOK cx C (l :: l' :: rest) ↔ IsRide C l ∧ LinkOK cx l l' ∧ LegsOK cx C (l' :: rest) := by
  constructor
  · rintro ⟨⟨e, x, e', he, hx, hr, he', hl⟩, hrest⟩
    exact ⟨⟨e, x, he, hx, hr⟩, ⟨x, e', hx, he', hl⟩, hrest⟩
  · rintro ⟨⟨e, x, he, hx, hr⟩, ⟨x', e', hx', he', hl⟩, hrest⟩
    rw [hx] at hx'; cases hx'
    exact ⟨⟨e, x, e', he, hx, hr, he', hl⟩, hrest⟩

theorem LegsOK_single {cx : Ctx} {C : List Conn} {l : JStep} : LegsOK cx C [l] ↔ IsRide C l := Iff.rfl

theorem LegsOK.head {cx : Ctx} {C : List Conn} {l : JStep} {rest : List JStep} (h : LegsOK cx C (l :: rest)) : IsRide C l := by
  cases rest with
  | nil => exact h
  | cons a b => exact (LegsOK_cons2.mp h).1

theorem LegsOK.tail {cx : Ctx} {C : List Conn} {l : JStep} {rest : List JStep} (h : LegsOK cx C (l :: rest)) : LegsOK cx C rest := by
  cases rest with
  | nil => trivial
  | cons a b => exact (LegsOK_cons2.mp h).2.2

/-- split at any point -/
theorem LegsOK_append_left {cx : Ctx} {C : List Conn} : ∀ {P Q : List JStep}, LegsOK cx C (P ++ Q) → LegsOK cx C P := by
  intro P
  induction P with
  | nil => intro Q _; trivial
  | cons a rest ih =>
    intro Q h
    cases rest with
    | nil => exact h.head
    | cons b r2 =>
      have h' := LegsOK_cons2.mp h
      exact LegsOK_cons2.mpr ⟨h'.1, h'.2.1, ih h'.2.2⟩

theorem LegsOK_append_right {cx : Ctx} {C : List Conn} : ∀ {P Q : List JStep}, LegsOK cx C (P ++ Q) → LegsOK cx C Q := by
  intro P
  induction P with
  | nil => intro Q h; exact h
  | cons a rest ih => intro Q h; exact ih h.tail

/-- glue two valid pieces whose junction is linked -/
theorem LegsOK_glue {cx : Ctx} {C : List Conn} : ∀ {P : List JStep} {l l' : JStep} {Q : List JStep},
    LegsOK cx C (P ++ [l]) → LegsOK cx C (l' :: Q) → LinkOK cx l l' → LegsOK cx C (P ++ [l] ++ l' :: Q) := by
  intro P
  induction P with
  | nil => intro l l' Q hP hQ hl; exact LegsOK_cons2.mpr ⟨hP, hl, hQ⟩
  | cons a rest ih =>
    intro l l' Q hP hQ hl
    cases rest with
    | nil =>
      have h' := LegsOK_cons2.mp hP
      exact LegsOK_cons2.mpr ⟨h'.1, h'.2.1, LegsOK_cons2.mpr ⟨h'.2.2, hl, hQ⟩⟩
    | cons b r2 =>
      have h' := LegsOK_cons2.mp hP
      exact LegsOK_cons2.mpr ⟨h'.1, h'.2.1, ih h'.2.2 hQ hl⟩

/-- the link across a junction, read off a valid list -/
theorem LegsOK_junction {cx : Ctx} {C : List Conn} : ∀ {P : List JStep} {l l' : JStep} {Q : List JStep},
    LegsOK cx C (P ++ l :: l' :: Q) → LinkOK cx l l' := by
  intro P l l' Q h
  exact (LegsOK_cons2.mp (LegsOK_append_right h)).2.1

/-- timing facts the clean-up argument uses -/
structure TimeWF (cx : Ctx) (C : List Conn) : Prop where
  depArr : ∀ e ∈ C, ∀ x ∈ C, e.trip = x.trip → e.seq ≤ x.seq → e.dep ≤ x.arr
  arrMono : ArrMono C
  depMono : ∀ a ∈ C, ∀ b ∈ C, a.trip = b.trip → a.seq ≤ b.seq → a.dep ≤ b.dep
  waitTrip : ∀ a ∈ C, ∀ b ∈ C, a.trip = b.trip → a.effWait cx.p.minWait = b.effWait cx.p.minWait
  mw : 0 ≤ cx.p.minWait
  footNonneg : ∀ z, ∀ n ∈ cx.ds.rfootOf z, 0 ≤ n.time
  selfFoot : ∀ c ∈ C, ∃ d, (⟨c.depStop, 0, d⟩ : NTD) ∈ cx.ds.rfootOf c.depStop
  maxTransfer : 0 ≤ cx.p.maxTransfer

/-- along a valid list, a later leg is boarded no earlier than an earlier leg is left, plus the
    minimum waiting time of the later boarding -/
theorem chain_time {cx : Ctx} {C : List Conn} (w : TimeWF cx C) : ∀ {M : List JStep} {F T : JStep} {Q : List JStep} {xF eT : Conn},
    LegsOK cx C (F :: (M ++ T :: Q)) → F.exit = some xF → T.enter = some eT →
    xF.arr + eT.effWait cx.p.minWait ≤ eT.dep := by
  intro M
  induction M with
  | nil =>
    intro F T Q xF eT h hx he
    obtain ⟨x, e', hx', he', hl⟩ := (LegsOK_cons2.mp h).2.1
    rw [hx] at hx'; cases hx'; rw [he] at he'; cases he'
    obtain ⟨⟨d, hd⟩, _, ht⟩ := hl
    have := w.footNonneg _ _ hd
    simp at this; omega
  | cons a rest ih =>
    intro F T Q xF eT h hx he
    have h' := LegsOK_cons2.mp h
    obtain ⟨x, e', hx', he', hl⟩ := h'.2.1
    rw [hx] at hx'; cases hx'
    obtain ⟨ea, xa, hea, hxa, hra⟩ := h'.2.2.head
    rw [hea] at he'; cases he'
    have hrec := ih h'.2.2 hxa he
    obtain ⟨⟨d, hd⟩, _, ht⟩ := hl
    have h1 := w.footNonneg _ _ hd
    have h2 := w.depArr _ hra.1 _ hra.2.1 hra.2.2.1 hra.2.2.2.1
    have h3 := effWait_nonneg e' cx.p.minWait w.mw
    simp at h1; omega

/-! ### list surgery in decomposition form -/

theorem getD_decomp_F {α : Type} (P : List α) (F : α) (R : List α) (d : α) : (P ++ F :: R).getD P.length d = F := by
  simp [List.getD]

theorem getD_decomp_T {α : Type} (P : List α) (F : α) (M : List α) (T : α) (Q : List α) (d : α) :
    (P ++ F :: (M ++ T :: Q)).getD (P.length + 1 + M.length) d = T := by
  have : P ++ F :: (M ++ T :: Q) = (P ++ F :: M) ++ T :: Q := by simp
  rw [this]
  have hl : (P ++ F :: M).length = P.length + 1 + M.length := by simp; omega
  rw [← hl]; exact getD_decomp_F _ _ _ _

theorem modifyAt_decomp_F {α : Type} (P : List α) (F : α) (R : List α) (g : α → α) :
    modifyAt (P ++ F :: R) P.length g = P ++ g F :: R := by
  simp [modifyAt]

theorem modifyAt_decomp_T {α : Type} (P : List α) (F : α) (M : List α) (T : α) (Q : List α) (g : α → α) :
    modifyAt (P ++ F :: (M ++ T :: Q)) (P.length + 1 + M.length) g = P ++ F :: (M ++ g T :: Q) := by
  have : P ++ F :: (M ++ T :: Q) = (P ++ F :: M) ++ T :: Q := by simp
  rw [this]
  have hl : (P ++ F :: M).length = P.length + 1 + M.length := by simp; omega
  rw [← hl, modifyAt_decomp_F]; simp

theorem eraseRange_decomp {α : Type} (P : List α) (F : α) (M R : List α) :
    eraseRange (P ++ F :: (M ++ R)) (P.length + 1) (P.length + 1 + M.length) = P ++ F :: R := by
  have e : P ++ F :: (M ++ R) = (P ++ [F]) ++ (M ++ R) := by simp
  have hl : (P ++ [F]).length = P.length + 1 := by simp
  unfold eraseRange
  rw [e, ← hl, List.take_left' rfl, List.drop_append]
  have h1 : List.drop ((P ++ [F]).length + M.length) (P ++ [F]) = [] := List.drop_eq_nil_of_le (by omega)
  have h2 : (P ++ [F]).length + M.length - (P ++ [F]).length = M.length := by omega
  rw [h1, h2, List.drop_left' rfl]
  simp

/-! ### replacing the ends of valid pieces -/

theorem LegsOK_replace_last {cx : Ctx} {C : List Conn} : ∀ {A : List JStep} {F F' : JStep},
    LegsOK cx C (A ++ [F]) → F'.enter = F.enter → IsRide C F' → LegsOK cx C (A ++ [F']) := by
  intro A
  induction A with
  | nil => intro F F' _ _ hr; exact hr
  | cons a rest ih =>
    intro F F' h he hr
    cases rest with
    | nil =>
      have h' := LegsOK_cons2.mp h
      obtain ⟨x, e', hx, he', hl⟩ := h'.2.1
      exact LegsOK_cons2.mpr ⟨h'.1, ⟨x, e', hx, by rw [he]; exact he', hl⟩, hr⟩
    | cons b r2 =>
      have h' := LegsOK_cons2.mp h
      exact LegsOK_cons2.mpr ⟨h'.1, h'.2.1, ih h'.2.2 he hr⟩

theorem LegsOK_replace_head {cx : Ctx} {C : List Conn} {T T' : JStep} {B : List JStep}
    (h : LegsOK cx C (T :: B)) (hx : T'.exit = T.exit) (hw : T'.walk = T.walk) (hr : IsRide C T') :
    LegsOK cx C (T' :: B) := by
  cases B with
  | nil => exact hr
  | cons b r2 =>
    have h' := LegsOK_cons2.mp h
    obtain ⟨x, e', hx', he', hl⟩ := h'.2.1
    exact LegsOK_cons2.mpr ⟨hr, ⟨x, e', by rw [hx]; exact hx', he', by rw [hw]; exact hl⟩, h'.2.2⟩

/-- BTS / GTF / CSS: the two rides now meet at one stop; the legs between them disappear -/
theorem splice2 {cx : Ctx} {C : List Conn} (w : TimeWF cx C) {A M B : List JStep} {F T F' T' : JStep}
    {eF xF eT xT xF' eT' : Conn}
    (h : LegsOK cx C (A ++ F :: (M ++ T :: B)))
    (hFe : F.enter = some eF) (hFx : F.exit = some xF) (hTe : T.enter = some eT) (hTx : T.exit = some xT)
    (hF'e : F'.enter = some eF) (hF'x : F'.exit = some xF') (hF'w : F'.walk = 0) (hrF : Ride C eF xF') (hFa : xF'.arr ≤ xF.arr)
    (hT'e : T'.enter = some eT') (hT'x : T'.exit = some xT) (hT'w : T'.walk = T.walk) (hrT : Ride C eT' xT)
    (hTd : eT.dep ≤ eT'.dep) (hTw : eT'.effWait cx.p.minWait = eT.effWait cx.p.minWait)
    (hstop : xF'.arrStop = eT'.depStop) :
    LegsOK cx C (A ++ F' :: T' :: B) := by
  have hAF : LegsOK cx C (A ++ [F]) := by
    have : A ++ F :: (M ++ T :: B) = (A ++ [F]) ++ (M ++ T :: B) := by simp
    rw [this] at h; exact LegsOK_append_left h
  have hTB : LegsOK cx C (T :: B) := by
    have : A ++ F :: (M ++ T :: B) = (A ++ F :: M) ++ (T :: B) := by simp
    rw [this] at h; exact LegsOK_append_right h
  have hFM : LegsOK cx C (F :: (M ++ T :: B)) := LegsOK_append_right h
  have ht := chain_time w hFM hFx hTe
  have h1 := LegsOK_replace_last hAF (by rw [hF'e, hFe]) ⟨eF, xF', hF'e, hF'x, hrF⟩
  have h2 := LegsOK_replace_head hTB (by rw [hT'x, hTx]) hT'w ⟨eT', xT, hT'e, hT'x, hrT⟩
  have hlink : LinkOK cx F' T' := by
    refine ⟨xF', eT', hF'x, hT'e, ?_, ?_, ?_⟩
    · obtain ⟨d, hd⟩ := w.selfFoot eT' hrT.1
      exact ⟨d, by rw [hF'w, hstop]; exact hd⟩
    · rw [hF'w]; exact w.maxTransfer
    · rw [hF'w, hTw]; omega
  have := LegsOK_glue h1 h2 hlink
  simpa using this

/-- CSL: the first ride is cut at the stop where the last superfluous ride ended -/
theorem splice1 {cx : Ctx} {C : List Conn} (w : TimeWF cx C) {A M B : List JStep} {F T F' : JStep}
    {eF xF eT xT c : Conn}
    (h : LegsOK cx C (A ++ F :: (M ++ T :: B)))
    (hFe : F.enter = some eF) (hFx : F.exit = some xF) (hTe : T.enter = some eT) (hTx : T.exit = some xT)
    (hrT : Ride C eT xT)
    (hF'e : F'.enter = some eF) (hF'x : F'.exit = some c) (hF'w : F'.walk = T.walk) (hrF : Ride C eF c) (hca : c.arr ≤ xF.arr)
    (hstop : c.arrStop = xT.arrStop) :
    LegsOK cx C (A ++ F' :: B) := by
  have hAF : LegsOK cx C (A ++ [F]) := by
    have : A ++ F :: (M ++ T :: B) = (A ++ [F]) ++ (M ++ T :: B) := by simp
    rw [this] at h; exact LegsOK_append_left h
  have hTB : LegsOK cx C (T :: B) := by
    have : A ++ F :: (M ++ T :: B) = (A ++ F :: M) ++ (T :: B) := by simp
    rw [this] at h; exact LegsOK_append_right h
  have hFM : LegsOK cx C (F :: (M ++ T :: B)) := LegsOK_append_right h
  have ht := chain_time w hFM hFx hTe
  have hTda := w.depArr _ hrT.1 _ hrT.2.1 hrT.2.2.1 hrT.2.2.2.1
  have hmw := effWait_nonneg eT cx.p.minWait w.mw
  have h1 := LegsOK_replace_last hAF (by rw [hF'e, hFe]) ⟨eF, c, hF'e, hF'x, hrF⟩
  cases B with
  | nil => simpa using h1
  | cons b r2 =>
    have h' := LegsOK_cons2.mp hTB
    obtain ⟨x, e', hx', he', hl⟩ := h'.2.1
    rw [hTx] at hx'; cases hx'
    have hlink : LinkOK cx F' b := by
      refine ⟨c, e', hF'x, he', ?_, ?_, ?_⟩
      · obtain ⟨d, hd⟩ := hl.1; exact ⟨d, by rw [hF'w, hstop]; exact hd⟩
      · rw [hF'w]; exact hl.2.1
      · rw [hF'w]; have := hl.2.2; omega
    have := LegsOK_glue h1 h'.2.2 hlink
    simpa using this

/-! ### what the search returns -/

theorem legInfo_some {ds : Dataset} {js : JStep} {li : LegInfo} (h : legInfo ds js = some li) :
    ∃ e x, js.enter = some e ∧ js.exit = some x ∧ li.first = e.depStop ∧ li.last = x.arrStop := by
  unfold legInfo at h
  cases he : js.enter with
  | none => simp [he] at h
  | some e =>
    cases hx : js.exit with
    | none => simp [he, hx] at h
    | some x =>
      simp only [he, hx, Option.some.injEq] at h
      subst h
      exact ⟨e, x, rfl, rfl, rfl, rfl⟩

structure PairSpec (infos : List (Option LegInfo)) (idx : Nat) (cur : LegInfo) (lo hi : Nat) (f : Found) : Prop where
  to : f.to = idx
  lo : lo ≤ f.from_
  hi : f.from_ < hi
  leg : ∃ li, infos.getD f.from_ none = some li ∧ (f.case = 2 → f.node = li.last)
  c1 : f.case = 1 → f.node = cur.last
  c3 : f.case = 3 → f.node = cur.first
  cases : f.case = 1 ∨ f.case = 2 ∨ f.case = 3 ∨ f.case = 4

theorem pairCase_spec {ignore : List Nat} {oi : Option LegInfo} {cur : LegInfo} {c nd : Nat}
    (h : pairCase ignore oi cur = some (c, nd)) :
    (∃ li, oi = some li ∧ (c = 2 → nd = li.last)) ∧ (c = 1 → nd = cur.last) ∧ (c = 3 → nd = cur.first) ∧
    (c = 1 ∨ c = 2 ∨ c = 3 ∨ c = 4) := by
  unfold pairCase at h
  have hb : ¬ (betweenOf oi).isEmpty = true → ∃ li, oi = some li := by
    intro hne
    cases oi with
    | none => simp [betweenOf] at hne
    | some li => exact ⟨li, rfl⟩
  by_cases h1 : ¬ (betweenOf oi).isEmpty = true ∧ (betweenOf oi).contains cur.last = true ∧ ¬ ignore.contains cur.last = true
  · rw [if_pos h1] at h
    obtain ⟨li, hli⟩ := hb h1.1
    simp only [Option.some.injEq, Prod.mk.injEq] at h
    obtain ⟨rfl, rfl⟩ := h
    exact ⟨⟨li, hli, by simp⟩, fun _ => rfl, by simp, Or.inl rfl⟩
  · rw [if_neg h1] at h
    by_cases h2 : ¬ cur.between.isEmpty = true ∧ ((oi.map (·.last)).any fun l => cur.between.contains l && !ignore.contains l) = true
    · rw [if_pos h2] at h
      simp only [Option.some.injEq, Prod.mk.injEq] at h
      obtain ⟨rfl, rfl⟩ := h
      cases oi with
      | none => simp at h2
      | some li => exact ⟨⟨li, rfl, by simp⟩, by simp, by simp, Or.inr (Or.inl rfl)⟩
    · rw [if_neg h2] at h
      by_cases h3 : ¬ (betweenOf oi).isEmpty = true ∧ (betweenOf oi).contains cur.first = true ∧ ¬ ignore.contains cur.first = true
      · rw [if_pos h3] at h
        obtain ⟨li, hli⟩ := hb h3.1
        simp only [Option.some.injEq, Prod.mk.injEq] at h
        obtain ⟨rfl, rfl⟩ := h
        exact ⟨⟨li, hli, by simp⟩, by simp, fun _ => rfl, Or.inr (Or.inr (Or.inl rfl))⟩
      · rw [if_neg h3] at h
        by_cases h4 : ¬ (betweenOf oi).isEmpty = true ∧ ¬ cur.between.isEmpty = true
        · rw [if_pos h4] at h
          obtain ⟨li, hli⟩ := hb h4.1
          cases hf : (betweenOf oi).find? (fun nd => cur.between.contains nd && !ignore.contains nd) with
          | none => rw [hf] at h; simp at h
          | some x =>
            rw [hf] at h
            simp only [Option.map_some, Option.some.injEq, Prod.mk.injEq] at h
            obtain ⟨rfl, rfl⟩ := h
            exact ⟨⟨li, hli, by simp⟩, by simp, by simp, Or.inr (Or.inr (Or.inr rfl))⟩
        · rw [if_neg h4] at h; cases h

theorem searchPair_spec (ignore : List Nat) (infos : List (Option LegInfo)) (idx : Nat) (cur : LegInfo) :
    ∀ (n i : Nat) (f : Found), searchPair ignore infos idx cur i n = some f → PairSpec infos idx cur i (i + n) f := by
  intro n
  induction n with
  | zero => intro i f h; simp [searchPair] at h
  | succ n ih =>
    intro i f h
    simp only [searchPair] at h
    cases hp : pairCase ignore (infos.getD i none) cur with
    | none =>
      rw [hp] at h
      have r := ih (i + 1) f h
      exact ⟨r.to, by have := r.lo; omega, by have := r.hi; omega, r.leg, r.c1, r.c3, r.cases⟩
    | some cn =>
      obtain ⟨c, nd⟩ := cn
      rw [hp] at h
      simp only [Option.some.injEq] at h
      subst h
      obtain ⟨⟨li, hli, h2⟩, h1, h3, hc⟩ := pairCase_spec hp
      exact ⟨rfl, Nat.le_refl _, by show i < i + (n + 1); omega, ⟨li, hli, h2⟩, h1, h3, hc⟩

/-- the two legs a found case refers to, and how its stop relates to them -/
structure FoundSpec (j : List JStep) (f : Found) : Prop where
  lt : f.from_ < f.to
  len : f.to < j.length
  legs : ∃ eF xF eT xT, (j.getD f.from_ {}).enter = some eF ∧ (j.getD f.from_ {}).exit = some xF ∧
      (j.getD f.to {}).enter = some eT ∧ (j.getD f.to {}).exit = some xT ∧
      (f.case = 1 → f.node = xT.arrStop) ∧ (f.case = 2 → f.node = xF.arrStop) ∧ (f.case = 3 → f.node = eT.depStop)
  cases : f.case = 1 ∨ f.case = 2 ∨ f.case = 3 ∨ f.case = 4

theorem searchJourney_spec (ds : Dataset) (ignore : List Nat) (j : List JStep) :
    ∀ (js pre : List JStep) (f : Found), j = pre ++ js →
      searchJourney ds ignore js pre.length (pre.map (legInfo ds)) = some f → FoundSpec j f := by
  intro js
  induction js with
  | nil => intro pre f _ h; simp [searchJourney] at h
  | cons s rest ih =>
    intro pre f hj h
    simp only [searchJourney] at h
    have hnext : j = (pre ++ [s]) ++ rest := by simp [hj]
    cases hl : legInfo ds s with
    | none =>
      rw [hl] at h
      simp only at h
      have := ih (pre ++ [s]) f hnext (by simpa [hl] using h)
      exact this
    | some cur =>
      rw [hl] at h
      simp only at h
      cases hp : searchPair ignore (pre.map (legInfo ds) ++ [some cur]) pre.length cur 0 pre.length with
      | none =>
        rw [hp] at h
        simp only at h
        exact ih (pre ++ [s]) f hnext (by simpa [hl] using h)
      | some f' =>
        rw [hp] at h
        simp only [Option.some.injEq] at h
        subst h
        have sp := searchPair_spec ignore _ pre.length cur pre.length 0 f' hp
        obtain ⟨eT, xT, heT, hxT, hfirst, hlast⟩ := legInfo_some hl
        obtain ⟨li, hli, hc2⟩ := sp.leg
        have hfr : f'.from_ < pre.length := by have := sp.hi; omega
        have hgetF : j.getD f'.from_ {} = pre.getD f'.from_ {} := by
          rw [hj]; simp [List.getD, List.getElem?_append_left hfr]
        have hgetT : j.getD f'.to {} = s := by
          rw [hj, sp.to]; exact getD_decomp_F pre s rest {}
        have hliF : legInfo ds (pre.getD f'.from_ {}) = some li := by
          have : (pre.map (legInfo ds) ++ [some cur]).getD f'.from_ none = (pre.map (legInfo ds)).getD f'.from_ none := by
            have hlen : f'.from_ < (pre.map (legInfo ds)).length := by simpa using hfr
            simp only [List.getD, List.getElem?_append_left hlen]
          rw [this] at hli
          simp only [List.getD, List.getElem?_map] at hli
          cases hg : pre[f'.from_]? with
          | none => rw [hg] at hli; simp at hli
          | some a => rw [hg] at hli; simp at hli; simp [List.getD, hg, hli]
        obtain ⟨eF, xF, heF, hxF, _, hlastF⟩ := legInfo_some hliF
        refine ⟨by rw [sp.to]; exact hfr, by rw [sp.to, hj]; simp, ?_, sp.cases⟩
        refine ⟨eF, xF, eT, xT, by rw [hgetF]; exact heF, by rw [hgetF]; exact hxF,
          by rw [hgetT]; exact heT, by rw [hgetT]; exact hxT, ?_, ?_, ?_⟩
        · intro h1; rw [sp.c1 h1, hlast]
        · intro h2; rw [hc2 h2, hlastF]
        · intro h3; rw [sp.c3 h3, hfirst]

/-! ### decomposition at two positions -/

theorem decomp2 {α : Type} (l : List α) (i k : Nat) (hik : i < k) (hk : k < l.length) :
    ∃ A F M T B, l = A ++ F :: (M ++ T :: B) ∧ A.length = i ∧ A.length + 1 + M.length = k := by
  have hi : i < l.length := by omega
  have h1 : l = l.take i ++ l[i] :: l.drop (i + 1) := by
    rw [← List.drop_eq_getElem_cons hi, List.take_append_drop]
  have hk' : k - i - 1 < (l.drop (i + 1)).length := by simp; omega
  have h2 : l.drop (i + 1) = (l.drop (i + 1)).take (k - i - 1) ++ (l.drop (i + 1))[k - i - 1] :: (l.drop (i + 1)).drop (k - i - 1 + 1) := by
    rw [← List.drop_eq_getElem_cons hk', List.take_append_drop]
  refine ⟨l.take i, l[i], (l.drop (i + 1)).take (k - i - 1), (l.drop (i + 1))[k - i - 1], (l.drop (i + 1)).drop (k - i - 1 + 1), ?_, ?_, ?_⟩
  · rw [← h2]; exact h1
  · simp; omega
  · simp; omega

/-! ### the first and the last leg -/

def firstEnter (legs : List JStep) : Option Conn := legs.head?.bind (·.enter)
def lastStop (legs : List JStep) : Option Nat := legs.getLast?.bind (fun l => l.exit.map (·.arrStop))

theorem firstEnter_congr (A : List JStep) {F F' : JStep} (R R' : List JStep) (h : F'.enter = F.enter) :
    firstEnter (A ++ F' :: R') = firstEnter (A ++ F :: R) := by
  cases A with
  | nil => simp [firstEnter, h]
  | cons a b => simp [firstEnter]

theorem lastStop_congr (X Y : List JStep) {T T' : JStep} (B : List JStep)
    (h : T'.exit.map (·.arrStop) = T.exit.map (·.arrStop)) :
    lastStop (X ++ T' :: B) = lastStop (Y ++ T :: B) := by
  cases B with
  | nil => simp [lastStop, h]
  | cons b r =>
    simp only [lastStop]
    rw [List.getLast?_append, List.getLast?_append]
    have : (T' :: b :: r).getLast? = (b :: r).getLast? := List.getLast?_cons_cons
    have h2 : (T :: b :: r).getLast? = (b :: r).getLast? := List.getLast?_cons_cons
    rw [this, h2]
    cases hg : (b :: r).getLast? with
    | none => simp at hg
    | some l => simp

/-- the conditions on access and egress, in terms of `firstEnter` / `lastStop` -/
structure EndsOK (cx : Ctx) (bd : Int) (acc egr : JStep) (legs : List JStep) : Prop where
  first : ∀ e, firstEnter legs = some e →
    (⟨e.depStop, acc.walk, acc.dist⟩ : NTD) ∈ cx.accessFoot ∧ bd + acc.walk + e.effWait cx.p.minWait ≤ e.dep
  last : ∀ y, lastStop legs = some y → (⟨y, egr.walk, egr.dist⟩ : NTD) ∈ cx.egressFoot

theorem journeyOK_iff {cx : Ctx} {C : List Conn} {bd : Int} {j : List JStep} :
    JourneyOK cx C bd j ↔ ∃ acc legs egr, j = [acc] ++ legs ++ [egr] ∧ acc.enter = none ∧ egr.enter = none ∧
      legs ≠ [] ∧ LegsOK cx C legs ∧ EndsOK cx bd acc egr legs := by
  constructor
  · rintro ⟨acc, legs, egr, hj, ha, he, hne, hok, hf, hl⟩
    refine ⟨acc, legs, egr, hj, ha, he, hne, hok, ⟨hf, ?_⟩⟩
    intro y hy
    simp only [lastStop] at hy
    cases hg : legs.getLast? with
    | none => rw [hg] at hy; simp at hy
    | some l =>
      rw [hg] at hy
      simp only [Option.bind_some] at hy
      cases hx : l.exit with
      | none => rw [hx] at hy; simp at hy
      | some x => rw [hx] at hy; simp at hy; subst hy; exact hl l x hg hx
  · rintro ⟨acc, legs, egr, hj, ha, he, hne, hok, ⟨hf, hl⟩⟩
    refine ⟨acc, legs, egr, hj, ha, he, hne, hok, hf, ?_⟩
    intro l x hg hx
    exact hl x.arrStop (by simp [lastStop, hg, hx])

end Tr
