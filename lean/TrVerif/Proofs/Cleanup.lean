/-
  TrVerif.Proofs.Cleanup — the journey clean-up (`optimizeJourney`, cases CSL / BTS / GTF / CSS)
  maps valid journeys to valid journeys.
-/
import TrVerif.Proofs.Assembly
import TrVerif.Proofs.Slice
namespace Tr

/-- the link condition between two consecutive legs -/
def LinkOK (cx : Ctx) (l l' : JStep) : Prop :=
  ∃ x e', l.exit = some x ∧ l'.enter = some e' ∧ Link cx x l.walk e'

def IsRide (C : List Conn) (l : JStep) : Prop := ∃ e x, l.enter = some e ∧ l.exit = some x ∧ Ride C e x

theorem LegsOK_cons2 {cx : Ctx} {C : List Conn} {l l' : JStep} {rest : List JStep} :
    LegsOK cx C (l :: l' :: rest) ↔ IsRide C l ∧ LinkOK cx l l' ∧ LegsOK cx C (l' :: rest) := by
  constructor
  · rintro ⟨⟨e, x, e', he, hx, hr, he', hl⟩, hrest⟩
    exact ⟨⟨e, x, he, hx, hr⟩, ⟨x, e', hx, he', hl⟩, hrest⟩
  · rintro ⟨⟨e, x, he, hx, hr⟩, ⟨x', e', hx', he', hl⟩, hrest⟩
    rw [hx] at hx'; cases hx'
    exact ⟨⟨e, x, e', he, hx, hr, he', hl⟩, hrest⟩

theorem LegsOK_single {cx : Ctx} {C : List Conn} {l : JStep} : LegsOK cx C [l] ↔ IsRide C l := Iff.rfl

theorem LegsOK.head {cx : Ctx} {C : List Conn} {l : JStep} {rest : List JStep} (h : LegsOK cx C (l :: rest)) : IsRide C l := by
  cases rest with
  | nil => exact h
  | cons a b => exact (LegsOK_cons2.mp h).1

theorem LegsOK.tail {cx : Ctx} {C : List Conn} {l : JStep} {rest : List JStep} (h : LegsOK cx C (l :: rest)) : LegsOK cx C rest := by
  cases rest with
  | nil => trivial
  | cons a b => exact (LegsOK_cons2.mp h).2.2

/-- split at any point -/
theorem LegsOK_append_left {cx : Ctx} {C : List Conn} : ∀ {P Q : List JStep}, LegsOK cx C (P ++ Q) → LegsOK cx C P := by
  intro P
  induction P with
  | nil => intro Q _; trivial
  | cons a rest ih =>
    intro Q h
    cases rest with
    | nil => exact h.head
    | cons b r2 =>
      have h' := LegsOK_cons2.mp h
      exact LegsOK_cons2.mpr ⟨h'.1, h'.2.1, ih h'.2.2⟩

theorem LegsOK_append_right {cx : Ctx} {C : List Conn} : ∀ {P Q : List JStep}, LegsOK cx C (P ++ Q) → LegsOK cx C Q := by
  intro P
  induction P with
  | nil => intro Q h; exact h
  | cons a rest ih => intro Q h; exact ih h.tail

/-- glue two valid pieces whose junction is linked -/
theorem LegsOK_glue {cx : Ctx} {C : List Conn} : ∀ {P : List JStep} {l l' : JStep} {Q : List JStep},
    LegsOK cx C (P ++ [l]) → LegsOK cx C (l' :: Q) → LinkOK cx l l' → LegsOK cx C (P ++ [l] ++ l' :: Q) := by
  intro P
  induction P with
  | nil => intro l l' Q hP hQ hl; exact LegsOK_cons2.mpr ⟨hP, hl, hQ⟩
  | cons a rest ih =>
    intro l l' Q hP hQ hl
    cases rest with
    | nil =>
      have h' := LegsOK_cons2.mp hP
      exact LegsOK_cons2.mpr ⟨h'.1, h'.2.1, LegsOK_cons2.mpr ⟨h'.2.2, hl, hQ⟩⟩
    | cons b r2 =>
      have h' := LegsOK_cons2.mp hP
      exact LegsOK_cons2.mpr ⟨h'.1, h'.2.1, ih h'.2.2 hQ hl⟩

/-- the link across a junction, read off a valid list -/
theorem LegsOK_junction {cx : Ctx} {C : List Conn} : ∀ {P : List JStep} {l l' : JStep} {Q : List JStep},
    LegsOK cx C (P ++ l :: l' :: Q) → LinkOK cx l l' := by
  intro P l l' Q h
  exact (LegsOK_cons2.mp (LegsOK_append_right h)).2.1

/-- timing facts the clean-up argument uses -/
structure TimeWF (cx : Ctx) (C : List Conn) : Prop where
  depArr : ∀ e ∈ C, ∀ x ∈ C, e.trip = x.trip → e.seq ≤ x.seq → e.dep ≤ x.arr
  arrMono : ArrMono C
  depMono : ∀ a ∈ C, ∀ b ∈ C, a.trip = b.trip → a.seq ≤ b.seq → a.dep ≤ b.dep
  waitTrip : ∀ a ∈ C, ∀ b ∈ C, a.trip = b.trip → a.effWait cx.p.minWait = b.effWait cx.p.minWait
  mw : 0 ≤ cx.p.minWait
  footNonneg : ∀ z, ∀ n ∈ cx.ds.rfootOf z, 0 ≤ n.time
  selfFoot : ∀ c ∈ C, ∃ d, (⟨c.depStop, 0, d⟩ : NTD) ∈ cx.ds.rfootOf c.depStop
  maxTransfer : 0 ≤ cx.p.maxTransfer

/-- along a valid list, a later leg is boarded no earlier than an earlier leg is left, plus the
    minimum waiting time of the later boarding -/
theorem chain_time {cx : Ctx} {C : List Conn} (w : TimeWF cx C) : ∀ {M : List JStep} {F T : JStep} {Q : List JStep} {xF eT : Conn},
    LegsOK cx C (F :: (M ++ T :: Q)) → F.exit = some xF → T.enter = some eT →
    xF.arr + eT.effWait cx.p.minWait ≤ eT.dep := by
  intro M
  induction M with
  | nil =>
    intro F T Q xF eT h hx he
    obtain ⟨x, e', hx', he', hl⟩ := (LegsOK_cons2.mp h).2.1
    rw [hx] at hx'; cases hx'; rw [he] at he'; cases he'
    obtain ⟨⟨d, hd⟩, _, ht⟩ := hl
    have := w.footNonneg _ _ hd
    simp at this; omega
  | cons a rest ih =>
    intro F T Q xF eT h hx he
    have h' := LegsOK_cons2.mp h
    obtain ⟨x, e', hx', he', hl⟩ := h'.2.1
    rw [hx] at hx'; cases hx'
    obtain ⟨ea, xa, hea, hxa, hra⟩ := h'.2.2.head
    rw [hea] at he'; cases he'
    have hrec := ih h'.2.2 hxa he
    obtain ⟨⟨d, hd⟩, _, ht⟩ := hl
    have h1 := w.footNonneg _ _ hd
    have h2 := w.depArr _ hra.1 _ hra.2.1 hra.2.2.1 hra.2.2.2.1
    have h3 := effWait_nonneg e' cx.p.minWait w.mw
    simp at h1; omega

/-! ### list surgery in decomposition form -/

theorem getD_decomp_F {α : Type} (P : List α) (F : α) (R : List α) (d : α) : (P ++ F :: R).getD P.length d = F := by
  simp [List.getD]

theorem getD_decomp_T {α : Type} (P : List α) (F : α) (M : List α) (T : α) (Q : List α) (d : α) :
    (P ++ F :: (M ++ T :: Q)).getD (P.length + 1 + M.length) d = T := by
  have : P ++ F :: (M ++ T :: Q) = (P ++ F :: M) ++ T :: Q := by simp
  rw [this]
  have hl : (P ++ F :: M).length = P.length + 1 + M.length := by simp; omega
  rw [← hl]; exact getD_decomp_F _ _ _ _

theorem modifyAt_decomp_F {α : Type} (P : List α) (F : α) (R : List α) (g : α → α) :
    modifyAt (P ++ F :: R) P.length g = P ++ g F :: R := by
  simp [modifyAt]

theorem modifyAt_decomp_T {α : Type} (P : List α) (F : α) (M : List α) (T : α) (Q : List α) (g : α → α) :
    modifyAt (P ++ F :: (M ++ T :: Q)) (P.length + 1 + M.length) g = P ++ F :: (M ++ g T :: Q) := by
  have : P ++ F :: (M ++ T :: Q) = (P ++ F :: M) ++ T :: Q := by simp
  rw [this]
  have hl : (P ++ F :: M).length = P.length + 1 + M.length := by simp; omega
  rw [← hl, modifyAt_decomp_F]; simp

theorem eraseRange_decomp {α : Type} (P : List α) (F : α) (M R : List α) :
    eraseRange (P ++ F :: (M ++ R)) (P.length + 1) (P.length + 1 + M.length) = P ++ F :: R := by
  have e : P ++ F :: (M ++ R) = (P ++ [F]) ++ (M ++ R) := by simp
  have hl : (P ++ [F]).length = P.length + 1 := by simp
  unfold eraseRange
  rw [e, ← hl, List.take_left' rfl, List.drop_append]
  have h1 : List.drop ((P ++ [F]).length + M.length) (P ++ [F]) = [] := List.drop_eq_nil_of_le (by omega)
  have h2 : (P ++ [F]).length + M.length - (P ++ [F]).length = M.length := by omega
  rw [h1, h2, List.drop_left' rfl]
  simp

/-! ### replacing the ends of valid pieces -/

theorem LegsOK_replace_last {cx : Ctx} {C : List Conn} : ∀ {A : List JStep} {F F' : JStep},
    LegsOK cx C (A ++ [F]) → F'.enter = F.enter → IsRide C F' → LegsOK cx C (A ++ [F']) := by
  intro A
  induction A with
  | nil => intro F F' _ _ hr; exact hr
  | cons a rest ih =>
    intro F F' h he hr
    cases rest with
    | nil =>
      have h' := LegsOK_cons2.mp h
      obtain ⟨x, e', hx, he', hl⟩ := h'.2.1
      exact LegsOK_cons2.mpr ⟨h'.1, ⟨x, e', hx, by rw [he]; exact he', hl⟩, hr⟩
    | cons b r2 =>
      have h' := LegsOK_cons2.mp h
      exact LegsOK_cons2.mpr ⟨h'.1, h'.2.1, ih h'.2.2 he hr⟩

theorem LegsOK_replace_head {cx : Ctx} {C : List Conn} {T T' : JStep} {B : List JStep}
    (h : LegsOK cx C (T :: B)) (hx : T'.exit = T.exit) (hw : T'.walk = T.walk) (hr : IsRide C T') :
    LegsOK cx C (T' :: B) := by
  cases B with
  | nil => exact hr
  | cons b r2 =>
    have h' := LegsOK_cons2.mp h
    obtain ⟨x, e', hx', he', hl⟩ := h'.2.1
    exact LegsOK_cons2.mpr ⟨hr, ⟨x, e', by rw [hx]; exact hx', he', by rw [hw]; exact hl⟩, h'.2.2⟩

/-- BTS / GTF / CSS: the two rides now meet at one stop; the legs between them disappear -/
theorem splice2 {cx : Ctx} {C : List Conn} (w : TimeWF cx C) {A M B : List JStep} {F T F' T' : JStep}
    {eF xF eT xT xF' eT' : Conn}
    (h : LegsOK cx C (A ++ F :: (M ++ T :: B)))
    (hFe : F.enter = some eF) (hFx : F.exit = some xF) (hTe : T.enter = some eT) (hTx : T.exit = some xT)
    (hF'e : F'.enter = some eF) (hF'x : F'.exit = some xF') (hF'w : F'.walk = 0) (hrF : Ride C eF xF') (hFa : xF'.arr ≤ xF.arr)
    (hT'e : T'.enter = some eT') (hT'x : T'.exit = some xT) (hT'w : T'.walk = T.walk) (hrT : Ride C eT' xT)
    (hTd : eT.dep ≤ eT'.dep) (hTw : eT'.effWait cx.p.minWait = eT.effWait cx.p.minWait)
    (hstop : xF'.arrStop = eT'.depStop) :
    LegsOK cx C (A ++ F' :: T' :: B) := by
  have hAF : LegsOK cx C (A ++ [F]) := by
    have : A ++ F :: (M ++ T :: B) = (A ++ [F]) ++ (M ++ T :: B) := by simp
    rw [this] at h; exact LegsOK_append_left h
  have hTB : LegsOK cx C (T :: B) := by
    have : A ++ F :: (M ++ T :: B) = (A ++ F :: M) ++ (T :: B) := by simp
    rw [this] at h; exact LegsOK_append_right h
  have hFM : LegsOK cx C (F :: (M ++ T :: B)) := LegsOK_append_right h
  have ht := chain_time w hFM hFx hTe
  have h1 := LegsOK_replace_last hAF (by rw [hF'e, hFe]) ⟨eF, xF', hF'e, hF'x, hrF⟩
  have h2 := LegsOK_replace_head hTB (by rw [hT'x, hTx]) hT'w ⟨eT', xT, hT'e, hT'x, hrT⟩
  have hlink : LinkOK cx F' T' := by
    refine ⟨xF', eT', hF'x, hT'e, ?_, ?_, ?_⟩
    · obtain ⟨d, hd⟩ := w.selfFoot eT' hrT.1
      exact ⟨d, by rw [hF'w, hstop]; exact hd⟩
    · rw [hF'w]; exact w.maxTransfer
    · rw [hF'w, hTw]; omega
  have := LegsOK_glue h1 h2 hlink
  simpa using this

/-- CSL: the first ride is cut at the stop where the last superfluous ride ended -/
theorem splice1 {cx : Ctx} {C : List Conn} (w : TimeWF cx C) {A M B : List JStep} {F T F' : JStep}
    {eF xF eT xT c : Conn}
    (h : LegsOK cx C (A ++ F :: (M ++ T :: B)))
    (hFe : F.enter = some eF) (hFx : F.exit = some xF) (hTe : T.enter = some eT) (hTx : T.exit = some xT)
    (hrT : Ride C eT xT)
    (hF'e : F'.enter = some eF) (hF'x : F'.exit = some c) (hF'w : F'.walk = T.walk) (hrF : Ride C eF c) (hca : c.arr ≤ xF.arr)
    (hstop : c.arrStop = xT.arrStop) :
    LegsOK cx C (A ++ F' :: B) := by
  have hAF : LegsOK cx C (A ++ [F]) := by
    have : A ++ F :: (M ++ T :: B) = (A ++ [F]) ++ (M ++ T :: B) := by simp
    rw [this] at h; exact LegsOK_append_left h
  have hTB : LegsOK cx C (T :: B) := by
    have : A ++ F :: (M ++ T :: B) = (A ++ F :: M) ++ (T :: B) := by simp
    rw [this] at h; exact LegsOK_append_right h
  have hFM : LegsOK cx C (F :: (M ++ T :: B)) := LegsOK_append_right h
  have ht := chain_time w hFM hFx hTe
  have hTda := w.depArr _ hrT.1 _ hrT.2.1 hrT.2.2.1 hrT.2.2.2.1
  have hmw := effWait_nonneg eT cx.p.minWait w.mw
  have h1 := LegsOK_replace_last hAF (by rw [hF'e, hFe]) ⟨eF, c, hF'e, hF'x, hrF⟩
  cases B with
  | nil => simpa using h1
  | cons b r2 =>
    have h' := LegsOK_cons2.mp hTB
    obtain ⟨x, e', hx', he', hl⟩ := h'.2.1
    rw [hTx] at hx'; cases hx'
    have hlink : LinkOK cx F' b := by
      refine ⟨c, e', hF'x, he', ?_, ?_, ?_⟩
      · obtain ⟨d, hd⟩ := hl.1; exact ⟨d, by rw [hF'w, hstop]; exact hd⟩
      · rw [hF'w]; exact hl.2.1
      · rw [hF'w]; have := hl.2.2; omega
    have := LegsOK_glue h1 h'.2.2 hlink
    simpa using this

/-! ### what the search returns -/

theorem legInfo_some {ds : Dataset} {js : JStep} {li : LegInfo} (h : legInfo ds js = some li) :
    ∃ e x, js.enter = some e ∧ js.exit = some x ∧ li.first = e.depStop ∧ li.last = x.arrStop := by
  unfold legInfo at h
  cases he : js.enter with
  | none => simp [he] at h
  | some e =>
    cases hx : js.exit with
    | none => simp [he, hx] at h
    | some x =>
      simp only [he, hx, Option.some.injEq] at h
      subst h
      exact ⟨e, x, rfl, rfl, rfl, rfl⟩

structure PairSpec (infos : List (Option LegInfo)) (idx : Nat) (cur : LegInfo) (lo hi : Nat) (f : Found) : Prop where
  to : f.to = idx
  lo : lo ≤ f.from_
  hi : f.from_ < hi
  leg : ∃ li, infos.getD f.from_ none = some li ∧ (f.case = 2 → f.node = li.last)
  c1 : f.case = 1 → f.node = cur.last
  c3 : f.case = 3 → f.node = cur.first
  cases : f.case = 1 ∨ f.case = 2 ∨ f.case = 3 ∨ f.case = 4

theorem pairCase_spec {ignore : List Nat} {oi : Option LegInfo} {cur : LegInfo} {c nd : Nat}
    (h : pairCase ignore oi cur = some (c, nd)) :
    (∃ li, oi = some li ∧ (c = 2 → nd = li.last)) ∧ (c = 1 → nd = cur.last) ∧ (c = 3 → nd = cur.first) ∧
    (c = 1 ∨ c = 2 ∨ c = 3 ∨ c = 4) := by
  unfold pairCase at h
  have hb : ¬ (betweenOf oi).isEmpty = true → ∃ li, oi = some li := by
    intro hne
    cases oi with
    | none => simp [betweenOf] at hne
    | some li => exact ⟨li, rfl⟩
  by_cases h1 : ¬ (betweenOf oi).isEmpty = true ∧ (betweenOf oi).contains cur.last = true ∧ ¬ ignore.contains cur.last = true
  · rw [if_pos h1] at h
    obtain ⟨li, hli⟩ := hb h1.1
    simp only [Option.some.injEq, Prod.mk.injEq] at h
    obtain ⟨rfl, rfl⟩ := h
    exact ⟨⟨li, hli, by simp⟩, fun _ => rfl, by simp, Or.inl rfl⟩
  · rw [if_neg h1] at h
    by_cases h2 : ¬ cur.between.isEmpty = true ∧ ((oi.map (·.last)).any fun l => cur.between.contains l && !ignore.contains l) = true
    · rw [if_pos h2] at h
      simp only [Option.some.injEq, Prod.mk.injEq] at h
      obtain ⟨rfl, rfl⟩ := h
      cases oi with
      | none => simp at h2
      | some li => exact ⟨⟨li, rfl, by simp⟩, by simp, by simp, Or.inr (Or.inl rfl)⟩
    · rw [if_neg h2] at h
      by_cases h3 : ¬ (betweenOf oi).isEmpty = true ∧ (betweenOf oi).contains cur.first = true ∧ ¬ ignore.contains cur.first = true
      · rw [if_pos h3] at h
        obtain ⟨li, hli⟩ := hb h3.1
        simp only [Option.some.injEq, Prod.mk.injEq] at h
        obtain ⟨rfl, rfl⟩ := h
        exact ⟨⟨li, hli, by simp⟩, by simp, fun _ => rfl, Or.inr (Or.inr (Or.inl rfl))⟩
      · rw [if_neg h3] at h
        by_cases h4 : ¬ (betweenOf oi).isEmpty = true ∧ ¬ cur.between.isEmpty = true
        · rw [if_pos h4] at h
          obtain ⟨li, hli⟩ := hb h4.1
          cases hf : (betweenOf oi).find? (fun nd => cur.between.contains nd && !ignore.contains nd) with
          | none => rw [hf] at h; simp at h
          | some x =>
            rw [hf] at h
            simp only [Option.map_some, Option.some.injEq, Prod.mk.injEq] at h
            obtain ⟨rfl, rfl⟩ := h
            exact ⟨⟨li, hli, by simp⟩, by simp, by simp, Or.inr (Or.inr (Or.inr rfl))⟩
        · rw [if_neg h4] at h; cases h

theorem searchPair_spec (ignore : List Nat) (infos : List (Option LegInfo)) (idx : Nat) (cur : LegInfo) :
    ∀ (n i : Nat) (f : Found), searchPair ignore infos idx cur i n = some f → PairSpec infos idx cur i (i + n) f := by
  intro n
  induction n with
  | zero => intro i f h; simp [searchPair] at h
  | succ n ih =>
    intro i f h
    simp only [searchPair] at h
    cases hp : pairCase ignore (infos.getD i none) cur with
    | none =>
      rw [hp] at h
      have r := ih (i + 1) f h
      exact ⟨r.to, by have := r.lo; omega, by have := r.hi; omega, r.leg, r.c1, r.c3, r.cases⟩
    | some cn =>
      obtain ⟨c, nd⟩ := cn
      rw [hp] at h
      simp only [Option.some.injEq] at h
      subst h
      obtain ⟨⟨li, hli, h2⟩, h1, h3, hc⟩ := pairCase_spec hp
      exact ⟨rfl, Nat.le_refl _, by show i < i + (n + 1); omega, ⟨li, hli, h2⟩, h1, h3, hc⟩

/-- the two legs a found case refers to, and how its stop relates to them -/
structure FoundSpec (j : List JStep) (f : Found) : Prop where
  lt : f.from_ < f.to
  len : f.to < j.length
  legs : ∃ eF xF eT xT, (j.getD f.from_ {}).enter = some eF ∧ (j.getD f.from_ {}).exit = some xF ∧
      (j.getD f.to {}).enter = some eT ∧ (j.getD f.to {}).exit = some xT ∧
      (f.case = 1 → f.node = xT.arrStop) ∧ (f.case = 2 → f.node = xF.arrStop) ∧ (f.case = 3 → f.node = eT.depStop)
  cases : f.case = 1 ∨ f.case = 2 ∨ f.case = 3 ∨ f.case = 4

theorem searchJourney_spec (ds : Dataset) (ignore : List Nat) (j : List JStep) :
    ∀ (js pre : List JStep) (f : Found), j = pre ++ js →
      searchJourney ds ignore js pre.length (pre.map (legInfo ds)) = some f → FoundSpec j f := by
  intro js
  induction js with
  | nil => intro pre f _ h; simp [searchJourney] at h
  | cons s rest ih =>
    intro pre f hj h
    simp only [searchJourney] at h
    have hnext : j = (pre ++ [s]) ++ rest := by simp [hj]
    cases hl : legInfo ds s with
    | none =>
      rw [hl] at h
      simp only at h
      have := ih (pre ++ [s]) f hnext (by simpa [hl] using h)
      exact this
    | some cur =>
      rw [hl] at h
      simp only at h
      cases hp : searchPair ignore (pre.map (legInfo ds) ++ [some cur]) pre.length cur 0 pre.length with
      | none =>
        rw [hp] at h
        simp only at h
        exact ih (pre ++ [s]) f hnext (by simpa [hl] using h)
      | some f' =>
        rw [hp] at h
        simp only [Option.some.injEq] at h
        subst h
        have sp := searchPair_spec ignore _ pre.length cur pre.length 0 f' hp
        obtain ⟨eT, xT, heT, hxT, hfirst, hlast⟩ := legInfo_some hl
        obtain ⟨li, hli, hc2⟩ := sp.leg
        have hfr : f'.from_ < pre.length := by have := sp.hi; omega
        have hgetF : j.getD f'.from_ {} = pre.getD f'.from_ {} := by
          rw [hj]; simp [List.getD, List.getElem?_append_left hfr]
        have hgetT : j.getD f'.to {} = s := by
          rw [hj, sp.to]; exact getD_decomp_F pre s rest {}
        have hliF : legInfo ds (pre.getD f'.from_ {}) = some li := by
          have : (pre.map (legInfo ds) ++ [some cur]).getD f'.from_ none = (pre.map (legInfo ds)).getD f'.from_ none := by
            have hlen : f'.from_ < (pre.map (legInfo ds)).length := by simpa using hfr
            simp only [List.getD, List.getElem?_append_left hlen]
          rw [this] at hli
          simp only [List.getD, List.getElem?_map] at hli
          cases hg : pre[f'.from_]? with
          | none => rw [hg] at hli; simp at hli
          | some a => rw [hg] at hli; simp at hli; simp [List.getD, hg, hli]
        obtain ⟨eF, xF, heF, hxF, _, hlastF⟩ := legInfo_some hliF
        refine ⟨by rw [sp.to]; exact hfr, by rw [sp.to, hj]; simp, ?_, sp.cases⟩
        refine ⟨eF, xF, eT, xT, by rw [hgetF]; exact heF, by rw [hgetF]; exact hxF,
          by rw [hgetT]; exact heT, by rw [hgetT]; exact hxT, ?_, ?_, ?_⟩
        · intro h1; rw [sp.c1 h1, hlast]
        · intro h2; rw [hc2 h2, hlastF]
        · intro h3; rw [sp.c3 h3, hfirst]

/-! ### decomposition at two positions -/

theorem decomp2 {α : Type} (l : List α) (i k : Nat) (hik : i < k) (hk : k < l.length) :
    ∃ A F M T B, l = A ++ F :: (M ++ T :: B) ∧ A.length = i ∧ A.length + 1 + M.length = k := by
  have hi : i < l.length := by omega
  have h1 : l = l.take i ++ l[i] :: l.drop (i + 1) := by
    rw [← List.drop_eq_getElem_cons hi, List.take_append_drop]
  have hk' : k - i - 1 < (l.drop (i + 1)).length := by simp; omega
  have h2 : l.drop (i + 1) = (l.drop (i + 1)).take (k - i - 1) ++ (l.drop (i + 1))[k - i - 1] :: (l.drop (i + 1)).drop (k - i - 1 + 1) := by
    rw [← List.drop_eq_getElem_cons hk', List.take_append_drop]
  refine ⟨l.take i, l[i], (l.drop (i + 1)).take (k - i - 1), (l.drop (i + 1))[k - i - 1], (l.drop (i + 1)).drop (k - i - 1 + 1), ?_, ?_, ?_⟩
  · rw [← h2]; exact h1
  · simp; omega
  · simp; omega

/-! ### the first and the last leg -/

def firstEnter (legs : List JStep) : Option Conn := legs.head?.bind (·.enter)
def lastExit (legs : List JStep) : Option Conn := legs.getLast?.bind (·.exit)

theorem firstEnter_congr (A : List JStep) {F F' : JStep} (R R' : List JStep) (h : F'.enter = F.enter) :
    firstEnter (A ++ F' :: R') = firstEnter (A ++ F :: R) := by
  cases A with
  | nil => simp [firstEnter, h]
  | cons a b => simp [firstEnter]

/-- the last exit after replacing the leg before `B`: the same one when `B` is not empty, else the new leg's -/
theorem lastExit_split (X : List JStep) (T : JStep) (B : List JStep) :
    lastExit (X ++ T :: B) = if B = [] then T.exit else lastExit B := by
  cases B with
  | nil => simp [lastExit]
  | cons b r =>
    simp only [lastExit]
    rw [List.getLast?_append]
    have : (T :: b :: r).getLast? = (b :: r).getLast? := List.getLast?_cons_cons
    rw [this]
    cases hg : (b :: r).getLast? with
    | none => simp at hg
    | some l => simp

/-- the conditions on access and egress, in terms of `firstEnter` / `lastStop` -/
structure EndsOK (cx : Ctx) (bd : Int) (acc egr : JStep) (legs : List JStep) : Prop where
  first : ∀ e, firstEnter legs = some e →
    (⟨e.depStop, acc.walk, acc.dist⟩ : NTD) ∈ cx.accessFoot ∧ bd + acc.walk + e.effWait cx.p.minWait ≤ e.dep ∧
    FirstWaitOK cx e acc.walk
  last : ∀ x, lastExit legs = some x → (⟨x.arrStop, egr.walk, egr.dist⟩ : NTD) ∈ cx.egressFoot ∧
    (cx.EgrNodup → x.arr + egr.walk ≤ cx.arrT)

theorem journeyOK_iff {cx : Ctx} {C : List Conn} {bd : Int} {j : List JStep} :
    JourneyOK cx C bd j ↔ ∃ acc legs egr, j = [acc] ++ legs ++ [egr] ∧ acc.enter = none ∧ egr.enter = none ∧
      legs ≠ [] ∧ LegsOK cx C legs ∧ EndsOK cx bd acc egr legs := by
  constructor
  · rintro ⟨acc, legs, egr, hj, ha, he, hne, hok, hf, hl⟩
    refine ⟨acc, legs, egr, hj, ha, he, hne, hok, ⟨hf, ?_⟩⟩
    intro x hy
    simp only [lastExit] at hy
    cases hg : legs.getLast? with
    | none => rw [hg] at hy; simp at hy
    | some l =>
      rw [hg] at hy
      simp only [Option.bind_some] at hy
      exact hl l x hg hy
  · rintro ⟨acc, legs, egr, hj, ha, he, hne, hok, ⟨hf, hl⟩⟩
    refine ⟨acc, legs, egr, hj, ha, he, hne, hok, hf, ?_⟩
    intro l x hg hx
    exact hl x (by simp [lastExit, hg, hx])

/-! ### applying a found case -/

/-- what the clean-up needs to know about the index slices it scans (discharged for datasets in
    `Proofs/Slice.lean`) -/
def SliceOK (cx : Ctx) (C : List Conn) : Prop :=
  ∀ e ∈ C, ∀ x ∈ C, e.trip = x.trip → e.seq ≤ x.seq → ∀ c ∈ revSlice cx.ds e.trip (e.seq - 1) (x.seq - 1),
    c ∈ C ∧ c.trip = e.trip ∧ e.seq ≤ c.seq ∧ c.seq ≤ x.seq

theorem LegsOK.isRide {cx : Ctx} {C : List Conn} : ∀ {legs : List JStep}, LegsOK cx C legs → ∀ l ∈ legs, IsRide C l := by
  intro legs
  induction legs with
  | nil => intro _ l hl; cases hl
  | cons a rest ih =>
    intro h l hl
    rcases List.mem_cons.mp hl with rfl | h'
    · exact h.head
    · exact ih h.tail l h'

/-- the journey seen from a found case -/
structure Setup (cx : Ctx) (C : List Conn) (bd : Int) (j : List JStep) (f : Found)
    (acc egr : JStep) (A : List JStep) (F : JStep) (M : List JStep) (T : JStep) (B : List JStep)
    (eF xF eT xT : Conn) : Prop where
  hj : j = (acc :: A) ++ F :: (M ++ T :: (B ++ [egr]))
  hfrom : (acc :: A).length = f.from_
  hto : (acc :: A).length + 1 + M.length = f.to
  hacc : acc.enter = none
  hegr : egr.enter = none
  hok : LegsOK cx C (A ++ F :: (M ++ T :: B))
  hends : EndsOK cx bd acc egr (A ++ F :: (M ++ T :: B))
  hFe : F.enter = some eF
  hFx : F.exit = some xF
  hTe : T.enter = some eT
  hTx : T.exit = some xT
  hrF : Ride C eF xF
  hrT : Ride C eT xT
  n1 : f.case = 1 → f.node = xT.arrStop
  n2 : f.case = 2 → f.node = xF.arrStop
  n3 : f.case = 3 → f.node = eT.depStop

theorem setup_of {cx : Ctx} {C : List Conn} {bd : Int} {j : List JStep} {f : Found}
    (hJ : JourneyOK cx C bd j) (hf : FoundSpec j f) :
    ∃ acc egr A F M T B eF xF eT xT, Setup cx C bd j f acc egr A F M T B eF xF eT xT := by
  obtain ⟨acc, legs, egr, hj, ha, he, hne, hok, hends⟩ := journeyOK_iff.mp hJ
  obtain ⟨eF, xF, eT, xT, h1, h2, h3, h4, n1, n2, n3⟩ := hf.legs
  have hjl : j.length = legs.length + 2 := by rw [hj]; simp
  have hj' : j = acc :: (legs ++ [egr]) := by rw [hj]; simp
  have hfrom1 : 1 ≤ f.from_ := by
    rcases Nat.eq_zero_or_pos f.from_ with h0 | h0
    · rw [h0, hj'] at h1; simp [List.getD] at h1; rw [ha] at h1; cases h1
    · exact h0
  have hto1 : f.to ≤ legs.length := by
    have hlt := hf.len
    rcases Nat.lt_or_ge legs.length f.to with hgt | hle
    · have : f.to = legs.length + 1 := by omega
      rw [this, hj'] at h3
      have : (acc :: (legs ++ [egr])).getD (legs.length + 1) {} = egr := by
        simp [List.getD, List.getElem?_append_right]
      rw [this, he] at h3; cases h3
    · exact hle
  have hlt := hf.lt
  obtain ⟨A, F, M, T, B, hl, hA, hM⟩ := decomp2 legs (f.from_ - 1) (f.to - 1) (by omega) (by omega)
  have hjd : j = (acc :: A) ++ F :: (M ++ T :: (B ++ [egr])) := by rw [hj', hl]; simp
  have hPl : (acc :: A).length = f.from_ := by simp; omega
  have hPM : (acc :: A).length + 1 + M.length = f.to := by simp; omega
  have hF : j.getD f.from_ {} = F := by rw [hjd, ← hPl]; exact getD_decomp_F _ _ _ _
  have hT : j.getD f.to {} = T := by rw [hjd, ← hPM]; exact getD_decomp_T _ _ _ _ _ _
  rw [hF] at h1 h2; rw [hT] at h3 h4
  rw [hl] at hok hends
  obtain ⟨e1, x1, a1, a2, a3⟩ := hok.isRide F (by simp)
  obtain ⟨e2, x2, b1, b2, b3⟩ := hok.isRide T (by simp)
  rw [h1] at a1; cases a1; rw [h2] at a2; cases a2
  rw [h3] at b1; cases b1; rw [h4] at b2; cases b2
  exact ⟨acc, egr, A, F, M, T, B, eF, xF, eT, xT, ⟨hjd, hPl, hPM, ha, he, hok, hends, h1, h2, h3, h4, a3, b3, n1, n2, n3⟩⟩

/-- after a BTS / GTF / CSS rewrite -/
theorem conclude2 {cx : Ctx} {C : List Conn} {bd : Int} {j : List JStep} {f : Found}
    {acc egr : JStep} {A : List JStep} {F : JStep} {M : List JStep} {T : JStep} {B : List JStep} {eF xF eT xT : Conn}
    (s : Setup cx C bd j f acc egr A F M T B eF xF eT xT) {F' T' : JStep}
    (hFe : F'.enter = F.enter) (hTx : T'.exit = T.exit) (hok : LegsOK cx C (A ++ F' :: T' :: B)) :
    JourneyOK cx C bd ((acc :: A) ++ F' :: T' :: (B ++ [egr])) := by
  apply journeyOK_iff.mpr
  refine ⟨acc, A ++ F' :: T' :: B, egr, by simp, s.hacc, s.hegr, by simp, hok, ⟨?_, ?_⟩⟩
  · intro e he
    rw [firstEnter_congr A (M ++ T :: B) (T' :: B) hFe] at he
    exact s.hends.first e he
  · intro x hy
    have : lastExit (A ++ F' :: T' :: B) = lastExit (A ++ F :: (M ++ T :: B)) := by
      have e1 : A ++ F' :: T' :: B = (A ++ [F']) ++ T' :: B := by simp
      have e2 : A ++ F :: (M ++ T :: B) = (A ++ F :: M) ++ T :: B := by simp
      rw [e1, e2, lastExit_split, lastExit_split, hTx]
    rw [this] at hy
    exact s.hends.last x hy

/-- after a CSL rewrite -/
theorem conclude1 {cx : Ctx} {C : List Conn} {bd : Int} {j : List JStep} {f : Found}
    {acc egr : JStep} {A : List JStep} {F : JStep} {M : List JStep} {T : JStep} {B : List JStep} {eF xF eT xT : Conn}
    (s : Setup cx C bd j f acc egr A F M T B eF xF eT xT) {F' : JStep} {c : Conn}
    (hFe : F'.enter = F.enter) (hFx : F'.exit = some c) (hstop : c.arrStop = xT.arrStop) (harr : c.arr ≤ xT.arr)
    (hok : LegsOK cx C (A ++ F' :: B)) :
    JourneyOK cx C bd ((acc :: A) ++ F' :: (B ++ [egr])) := by
  apply journeyOK_iff.mpr
  refine ⟨acc, A ++ F' :: B, egr, by simp, s.hacc, s.hegr, by simp, hok, ⟨?_, ?_⟩⟩
  · intro e he
    rw [firstEnter_congr A (M ++ T :: B) B hFe] at he
    exact s.hends.first e he
  · intro x hy
    have e2 : A ++ F :: (M ++ T :: B) = (A ++ F :: M) ++ T :: B := by simp
    have hold := s.hends.last
    rw [e2] at hold
    rw [lastExit_split] at hy
    by_cases hB : B = []
    · simp only [hB, if_true] at hy
      rw [hFx] at hy; cases hy
      have h0 := hold xT (by rw [lastExit_split]; simp [hB, s.hTx])
      rw [hstop]
      exact ⟨h0.1, fun hnd => by have := h0.2 hnd; omega⟩
    · simp only [hB, if_false] at hy
      exact hold x (by rw [lastExit_split]; simp [hB, hy])

/-! ### the list computations of the four rewrites -/

theorem csl_lists {α : Type} (P : List α) (F : α) (M : List α) (T : α) (Q : List α) (g1 g2 : α → α) :
    modifyAt (eraseRange (modifyAt (P ++ F :: (M ++ T :: Q)) P.length g1) (P.length + 1) (P.length + 1 + M.length + 1)) P.length g2
      = P ++ g2 (g1 F) :: Q := by
  rw [modifyAt_decomp_F]
  have e : P ++ g1 F :: (M ++ T :: Q) = P ++ g1 F :: ((M ++ [T]) ++ Q) := by simp
  have hl : P.length + 1 + M.length + 1 = P.length + 1 + (M ++ [T]).length := by simp; omega
  rw [e, hl, eraseRange_decomp, modifyAt_decomp_F]

theorem gtf_lists {α : Type} (P : List α) (F : α) (M : List α) (T : α) (Q : List α) (g : α → α) :
    eraseRange (modifyAt (P ++ F :: (M ++ T :: Q)) P.length g) (P.length + 1) (P.length + 1 + M.length)
      = P ++ g F :: T :: Q := by
  rw [modifyAt_decomp_F, eraseRange_decomp]

theorem bts_lists {α : Type} (P : List α) (F : α) (M : List α) (T : α) (Q : List α) (gF gT : α → α) :
    eraseRange (modifyAt (modifyAt (P ++ F :: (M ++ T :: Q)) (P.length + 1 + M.length) gT) P.length gF)
        (P.length + 1) (P.length + 1 + M.length)
      = P ++ gF F :: gT T :: Q := by
  rw [modifyAt_decomp_T, modifyAt_decomp_F, eraseRange_decomp]

/-! ### CSS loops -/

theorem cssExit_spec (node : Nat) : ∀ (l : List Conn) (acc : Option Conn) (x : Conn),
    (∀ y, acc = some y → y.arrStop = node ∧ y.canUnboard = true) →
    cssExit node l acc = some x → (x ∈ l ∨ acc = some x) ∧ x.arrStop = node ∧ x.canUnboard = true := by
  intro l
  induction l with
  | nil => intro acc x hacc h; simp [cssExit] at h; exact ⟨Or.inr h, hacc x h⟩
  | cons c rest ih =>
    intro acc x hacc h
    simp only [cssExit] at h
    split at h
    · rename_i hn
      split at h
      · rename_i hu
        obtain ⟨h1, h2⟩ := ih (some c) x (by intro y hy; cases hy; exact ⟨hn, hu⟩) h
        refine ⟨?_, h2⟩
        rcases h1 with h1 | h1
        · exact Or.inl (List.mem_cons_of_mem _ h1)
        · cases h1; exact Or.inl (List.mem_cons_self ..)
      · exact ⟨Or.inr h, hacc x h⟩
    · obtain ⟨h1, h2⟩ := ih acc x hacc h
      refine ⟨?_, h2⟩
      rcases h1 with h1 | h1
      · exact Or.inl (List.mem_cons_of_mem _ h1)
      · exact Or.inr h1

/-- second CSS loop without an exit connection: nothing is rewritten -/
theorem cssEnter_none (node from_ to : Nat) : ∀ (l : List Conn) (j : List JStep) (ig us : List Nat) (ap : Bool),
    ∃ ig', cssEnter node from_ to none l (j, ig, us, ap) = (j, ig', us, ap) := by
  intro l
  induction l with
  | nil => intro j ig us ap; exact ⟨ig, rfl⟩
  | cons c rest ih =>
    intro j ig us ap
    simp only [cssEnter]
    split
    · exact ⟨ig ++ [node], rfl⟩
    · exact ih j ig us ap

/-- second CSS loop with exit connection `x`: shape of the journey -/
theorem cssEnter_some (node : Nat) (P : List JStep) (F : JStep) (M : List JStep) (T : JStep) (Q : List JStep)
    (x : Conn) (S : List Conn) :
    ∀ (l : List Conn) (F0 T0 : JStep) (ig us : List Nat) (ap : Bool), (∀ c ∈ l, c ∈ S) →
      (ap = false → F0 = F ∧ T0 = T) →
      (ap = true → ∃ c, F0 = { F with exit := some x } ∧ c ∈ S ∧ c.depStop = node ∧ c.canBoard = true ∧
          T0 = { T with enter := some c }) →
      ∃ F1 T1 ig' us' ap',
        cssEnter node P.length (P.length + 1 + M.length) (some x) l (P ++ F0 :: (M ++ T0 :: Q), ig, us, ap)
          = (P ++ F1 :: (M ++ T1 :: Q), ig', us', ap') ∧
        (ap' = false → F1 = F ∧ T1 = T) ∧
        (ap' = true → ∃ c, F1 = { F with exit := some x } ∧ c ∈ S ∧ c.depStop = node ∧ c.canBoard = true ∧
          T1 = { T with enter := some c }) := by
  intro l
  induction l with
  | nil => intro F0 T0 ig us ap _ h0 h1; exact ⟨F0, T0, ig, us, ap, rfl, h0, h1⟩
  | cons c rest ih =>
    intro F0 T0 ig us ap hS h0 h1
    simp only [cssEnter]
    split
    · rename_i hn
      split
      · rename_i hcb
        rw [modifyAt_decomp_F, modifyAt_decomp_T]
        have hF0 : ({ F0 with exit := some x } : JStep) = { F with exit := some x } := by
          cases ap with
          | false => rw [(h0 rfl).1]
          | true => obtain ⟨c2, b, _⟩ := h1 rfl; rw [b]
        have hT0 : ({ T0 with enter := some c } : JStep) = { T with enter := some c } := by
          cases ap with
          | false => rw [(h0 rfl).2]
          | true => obtain ⟨c2, _, _, _, _, e⟩ := h1 rfl; rw [e]
        exact ih { F0 with exit := some x } { T0 with enter := some c } ig (us ++ [4]) true
          (fun y hy => hS y (List.mem_cons_of_mem _ hy))
          (by intro h; cases h) (by intro _; exact ⟨c, hF0, hS c (List.mem_cons_self ..), hn, hcb, hT0⟩)
      · exact ⟨F0, T0, ig ++ [node], us, ap, rfl, h0, h1⟩
    · exact ih F0 T0 ig us ap (fun y hy => hS y (List.mem_cons_of_mem _ hy)) h0 h1

/-! ### the four rewrites preserve validity -/

theorem find_some_mem {l : List Conn} {p : Conn → Bool} {c : Conn} (h : l.find? p = some c) : c ∈ l ∧ p c = true :=
  ⟨List.mem_of_find?_eq_some h, List.find?_some h⟩

theorem applyFound_ok {cx : Ctx} {C : List Conn} (w : TimeWF cx C) (hs : SliceOK cx C) {bd : Int}
    {st : OptState} {f : Found} (hJ : JourneyOK cx C bd st.journey) (hf : FoundSpec st.journey f) :
    JourneyOK cx C bd (applyFound cx.ds st f).1.journey := by
  obtain ⟨acc, egr, A, F, M, T, B, eF, xF, eT, xT, su⟩ := setup_of hJ hf
  have hgF : st.journey.getD f.from_ {} = F := by rw [su.hj, ← su.hfrom]; exact getD_decomp_F _ _ _ _
  have hgT : st.journey.getD f.to {} = T := by rw [su.hj, ← su.hto]; exact getD_decomp_T _ _ _ _ _ _
  -- facts about the slices of the two legs
  have sliceF := hs eF su.hrF.1 xF su.hrF.2.1 su.hrF.2.2.1 su.hrF.2.2.2.1
  have sliceT := hs eT su.hrT.1 xT su.hrT.2.1 su.hrT.2.2.1 su.hrT.2.2.2.1
  -- a connection of F's slice as new exit
  have newExit : ∀ c ∈ revSlice cx.ds eF.trip (eF.seq - 1) (xF.seq - 1), c.canUnboard = true →
      Ride C eF c ∧ c.arr ≤ xF.arr := by
    intro c hc hcu
    obtain ⟨a, b, c1, d⟩ := sliceF c hc
    exact ⟨⟨su.hrF.1, a, b.symm, c1, su.hrF.2.2.2.2.1, hcu⟩,
      w.arrMono c a xF su.hrF.2.1 (by rw [b, su.hrF.2.2.1]) d⟩
  -- a connection of T's slice as new enter
  have newEnter : ∀ c ∈ revSlice cx.ds eT.trip (eT.seq - 1) (xT.seq - 1), c.canBoard = true →
      Ride C c xT ∧ eT.dep ≤ c.dep ∧ c.effWait cx.p.minWait = eT.effWait cx.p.minWait := by
    intro c hc hcb
    obtain ⟨a, b, c1, d⟩ := sliceT c hc
    exact ⟨⟨a, su.hrT.2.1, by rw [b, su.hrT.2.2.1], d, hcb, su.hrT.2.2.2.2.2⟩,
      w.depMono eT su.hrT.1 c a b.symm c1, w.waitTrip c a eT su.hrT.1 b⟩
  unfold applyFound
  rcases hf.cases with h1 | h2 | h3 | h4
  · -- CSL
    simp only [h1, hgF, hgT, su.hFe, su.hFx]
    cases hfind : (revSlice cx.ds eF.trip (eF.seq - 1) (xF.seq - 1)).find? (fun c => decide (c.arrStop = f.node)) with
    | none => exact hJ
    | some c =>
      simp only
      obtain ⟨hcm, hcp⟩ := find_some_mem hfind
      have hcn : c.arrStop = f.node := by simpa using hcp
      split
      · exact hJ
      · rename_i hcu
        have hcu' : c.canUnboard = true := by simpa using hcu
        obtain ⟨hr, ha⟩ := newExit c hcm hcu'
        have hl : (modifyAt (eraseRange (modifyAt st.journey f.from_ fun s => { s with walk := T.walk, dist := T.dist })
            (f.from_ + 1) (f.to + 1)) f.from_ fun s => { s with exit := some c })
            = (acc :: A) ++ ({ F with walk := T.walk, dist := T.dist, exit := some c } : JStep) :: (B ++ [egr]) := by
          rw [su.hj, ← su.hfrom, ← su.hto]
          exact csl_lists _ _ _ _ _ _ _
        simp only [hl]
        have hok := splice1 w su.hok su.hFe su.hFx su.hTe su.hTx su.hrT
          (F' := { F with walk := T.walk, dist := T.dist, exit := some c }) su.hFe rfl rfl hr ha (by rw [hcn, su.n1 h1])
        have hcT : c.arr ≤ xT.arr := by
          have hFM : LegsOK cx C (F :: (M ++ T :: B)) := LegsOK_append_right su.hok
          have ht := chain_time w hFM su.hFx su.hTe
          have hTda := w.depArr _ su.hrT.1 _ su.hrT.2.1 su.hrT.2.2.1 su.hrT.2.2.2.1
          have hmw := effWait_nonneg eT cx.p.minWait w.mw
          omega
        exact conclude1 su (F' := { F with walk := T.walk, dist := T.dist, exit := some c }) rfl rfl
          (by rw [hcn, su.n1 h1]) hcT hok
  · -- BTS
    simp only [h2, hgF, hgT, su.hTe, su.hTx]
    cases hfind : (revSlice cx.ds eT.trip (eT.seq - 1) (xT.seq - 1)).find? (fun c => decide (c.depStop = f.node)) with
    | none => exact hJ
    | some c =>
      simp only
      obtain ⟨hcm, hcp⟩ := find_some_mem hfind
      have hcn : c.depStop = f.node := by simpa using hcp
      split
      · exact hJ
      · rename_i hcb
        have hcb' : c.canBoard = true := by simpa using hcb
        obtain ⟨hr, hd, hw⟩ := newEnter c hcm hcb'
        have hl : eraseRange (modifyAt (modifyAt st.journey f.to fun s => { s with enter := some c }) f.from_
              fun s => { s with walk := 0, dist := 0 }) (f.from_ + 1) f.to
            = (acc :: A) ++ ({ F with walk := 0, dist := 0 } : JStep) :: ({ T with enter := some c } : JStep) :: (B ++ [egr]) := by
          rw [su.hj, ← su.hfrom, ← su.hto]
          exact bts_lists _ _ _ _ _ _ _
        simp only [hl]
        have hok := splice2 w su.hok su.hFe su.hFx su.hTe su.hTx
          (F' := { F with walk := 0, dist := 0 }) (T' := { T with enter := some c })
          su.hFe su.hFx rfl su.hrF (Int.le_refl _) rfl su.hTx rfl hr hd hw (by rw [hcn, su.n2 h2])
        exact conclude2 su (F' := { F with walk := 0, dist := 0 }) (T' := { T with enter := some c }) rfl rfl hok
  · -- GTF
    simp only [h3, hgF, hgT, su.hFe, su.hFx]
    cases hfind : (revSlice cx.ds eF.trip (eF.seq - 1) (xF.seq - 1)).find? (fun c => decide (c.arrStop = f.node)) with
    | none => exact hJ
    | some c =>
      simp only
      obtain ⟨hcm, hcp⟩ := find_some_mem hfind
      have hcn : c.arrStop = f.node := by simpa using hcp
      split
      · exact hJ
      · rename_i hcu
        have hcu' : c.canUnboard = true := by simpa using hcu
        obtain ⟨hr, ha⟩ := newExit c hcm hcu'
        have hl : eraseRange (modifyAt st.journey f.from_ fun s => { s with exit := some c, walk := 0, dist := 0 })
              (f.from_ + 1) f.to
            = (acc :: A) ++ ({ F with exit := some c, walk := 0, dist := 0 } : JStep) :: T :: (B ++ [egr]) := by
          rw [su.hj, ← su.hfrom, ← su.hto]
          exact gtf_lists _ _ _ _ _ _
        simp only [hl]
        have hok := splice2 w su.hok su.hFe su.hFx su.hTe su.hTx
          (F' := { F with exit := some c, walk := 0, dist := 0 }) (T' := T)
          su.hFe rfl rfl hr ha su.hTe su.hTx rfl su.hrT (Int.le_refl _) rfl (by rw [hcn, su.n3 h3])
        exact conclude2 su (F' := { F with exit := some c, walk := 0, dist := 0 }) (T' := T) rfl rfl hok
  · -- CSS
    have hc4 : ¬ f.case = 1 ∧ ¬ f.case = 2 ∧ ¬ f.case = 3 := by omega
    simp only [h4, hgF, hgT, su.hFe, su.hFx, su.hTe, su.hTx]
    cases hex : cssExit f.node (revSlice cx.ds eF.trip (eF.seq - 1) (xF.seq - 1)) none with
    | none =>
      obtain ⟨ig', heq⟩ := cssEnter_none f.node f.from_ f.to (revSlice cx.ds eT.trip (eT.seq - 1) (xT.seq - 1))
        st.journey st.ignore st.used false
      simp only [heq]
      exact hJ
    | some x =>
      obtain ⟨hxm, hxn, hxu⟩ := cssExit_spec f.node _ none x (by intro y hy; cases hy) hex
      have hxm' : x ∈ revSlice cx.ds eF.trip (eF.seq - 1) (xF.seq - 1) := by
        rcases hxm with h | h
        · exact h
        · cases h
      obtain ⟨F1, T1, ig', us', ap', heq, r0, r1⟩ := cssEnter_some f.node (acc :: A) F M T (B ++ [egr]) x
        (revSlice cx.ds eT.trip (eT.seq - 1) (xT.seq - 1)) (revSlice cx.ds eT.trip (eT.seq - 1) (xT.seq - 1))
        F T st.ignore st.used false (fun c hc => hc) (fun _ => ⟨rfl, rfl⟩) (by intro h; cases h)
      rw [su.hto, su.hfrom, ← su.hj] at heq
      simp only [heq]
      cases ap' with
      | false =>
        obtain ⟨rF, rT⟩ := r0 rfl
        subst rF; subst rT
        simp only [Bool.false_eq_true, if_false]
        rw [← su.hj]; exact hJ
      | true =>
        obtain ⟨c, rF, hcS, hcn, hcb, rT⟩ := r1 rfl
        subst rF; subst rT
        simp only [if_true]
        obtain ⟨hrx, hax⟩ := newExit x hxm' hxu
        obtain ⟨hrc, hd, hw⟩ := newEnter c hcS hcb
        have hl : eraseRange (modifyAt ((acc :: A) ++ ({ F with exit := some x } : JStep) :: (M ++ ({ T with enter := some c } : JStep) :: (B ++ [egr])))
              f.from_ fun s => { s with walk := 0, dist := 0 }) (f.from_ + 1) f.to
            = (acc :: A) ++ ({ F with exit := some x, walk := 0, dist := 0 } : JStep) :: ({ T with enter := some c } : JStep) :: (B ++ [egr]) := by
          rw [← su.hfrom, ← su.hto]
          exact gtf_lists _ _ _ _ _ _
        simp only [hl]
        have hok := splice2 w su.hok su.hFe su.hFx su.hTe su.hTx
          (F' := { F with exit := some x, walk := 0, dist := 0 }) (T' := { T with enter := some c })
          su.hFe rfl rfl hrx hax rfl su.hTx rfl hrc hd hw (by rw [hxn, hcn])
        exact conclude2 su (F' := { F with exit := some x, walk := 0, dist := 0 }) (T' := { T with enter := some c }) rfl rfl hok

/-- the `while` of `optimizeJourney` -/
theorem optimizeLoop_ok {cx : Ctx} {C : List Conn} (w : TimeWF cx C) (hs : SliceOK cx C) {bd : Int} :
    ∀ (fuel : Nat) (st o : OptState), JourneyOK cx C bd st.journey → optimizeLoop cx.ds fuel st = some o →
      JourneyOK cx C bd o.journey := by
  intro fuel
  induction fuel with
  | zero => intro st o _ h; simp [optimizeLoop] at h
  | succ fuel ih =>
    intro st o hJ h
    simp only [optimizeLoop] at h
    cases hsj : searchJourney cx.ds st.ignore st.journey 0 [] with
    | none => rw [hsj] at h; cases h; exact hJ
    | some f =>
      rw [hsj] at h
      simp only at h
      have hf : FoundSpec st.journey f := searchJourney_spec cx.ds st.ignore st.journey st.journey [] f rfl hsj
      have hnext := applyFound_ok w hs hJ hf
      split at h
      · exact ih _ o hnext h
      · cases h; exact hnext

/-- **the journey clean-up preserves validity** -/
theorem cleanupPreserves {cx : Ctx} {C : List Conn} (w : TimeWF cx C) (hs : SliceOK cx C) : CleanupPreserves cx C := by
  intro bd j o hJ h
  exact optimizeLoop_ok w hs _ { journey := j } o hJ h

end Tr
