/-
  TrVerif.Proofs.Slice — the per-trip reverse list is the trip's connections in descending
  sequence order, hence the index slice `optimizeJourney` scans contains exactly the connections
  of the leg (sequence numbers between the leg's boarding and alighting connection).
-/
import TrVerif.Proofs.DataFacts
import TrVerif.Model.Journey
namespace Tr

theorem insertBy_all_lt {α : Type} (lt : α → α → Bool) (a : α) : ∀ (l : List α), (∀ y ∈ l, lt y a = true) →
    insertBy lt a l = l ++ [a] := by
  intro l
  induction l with
  | nil => intro _; rfl
  | cons b rest ih =>
    intro h
    simp only [insertBy, h b (List.mem_cons_self ..), if_true, List.cons_append]
    rw [ih (fun y hy => h y (List.mem_cons_of_mem _ hy))]

/-- sorting a list whose later elements are strictly smaller reverses it -/
theorem isort_reverse {α : Type} (lt : α → α → Bool) : ∀ (l : List α), l.Pairwise (fun a b => lt b a = true) →
    isort lt l = l.reverse := by
  intro l
  induction l with
  | nil => intro _; rfl
  | cons a rest ih =>
    intro h
    have hp := List.pairwise_cons.mp h
    have e : isort lt (a :: rest) = insertBy lt a (isort lt rest) := rfl
    rw [e, ih hp.2, insertBy_all_lt lt a _ (fun y hy => hp.1 y (List.mem_reverse.mp hy))]
    simp

theorem tripConnsAux_length (tr : TripRec) (stops : List Nat) (mw : Int) : ∀ (n k : Nat),
    (tripConnsAux tr stops mw k n).length = n := by
  intro n; induction n with
  | zero => intro k; rfl
  | succ n ih => intro k; simp [tripConnsAux, ih]

theorem tripConnsAux_getElem (tr : TripRec) (stops : List Nat) (mw : Int) : ∀ (n k i : Nat) (h : i < (tripConnsAux tr stops mw k n).length),
    ((tripConnsAux tr stops mw k n)[i]).seq = k + i + 1 := by
  intro n
  induction n with
  | zero => intro k i h; simp [tripConnsAux] at h
  | succ n ih =>
    intro k i h
    cases i with
    | zero => simp [tripConnsAux]
    | succ i =>
      simp only [tripConnsAux, List.getElem_cons_succ]
      rw [ih (k + 1) i]; omega

theorem tripConns_pairwise {ds : Dataset} (h : WFSchedule ds) {tr : TripRec} (htr : tr ∈ ds.trips) :
    (ds.tripConns tr).Pairwise (fun a b => revLt b a = true) := by
  rw [List.pairwise_iff_getElem]
  intro i j hi hj hij
  have hmem_i : (ds.tripConns tr)[i] ∈ ds.tripConns tr := List.getElem_mem hi
  have hmem_j : (ds.tripConns tr)[j] ∈ ds.tripConns tr := List.getElem_mem hj
  obtain ⟨a1, _, _, a4, _⟩ := tripConns_facts ds tr _ hmem_i
  obtain ⟨b1, _, b3, b4, _⟩ := tripConns_facts ds tr _ hmem_j
  have si : ((ds.tripConns tr)[i]).seq = 0 + i + 1 := tripConnsAux_getElem _ _ _ _ 0 i hi
  have sj : ((ds.tripConns tr)[j]).seq = 0 + j + 1 := tripConnsAux_getElem _ _ _ _ 0 j hj
  have harr : ((ds.tripConns tr)[i]).arr ≤ ((ds.tripConns tr)[j]).arr := by
    rw [a4, b4]; exact h.arrMono tr htr _ _ (by omega) (by omega)
  simp only [revLt, Bool.or_eq_true, Bool.and_eq_true, decide_eq_true_eq]
  omega

theorem filter_conns_trip {ds : Dataset} (h : WFSchedule ds) {tr : TripRec} (htr : tr ∈ ds.trips) :
    ds.conns.filter (fun c => decide (c.trip = tr.id)) = ds.tripConns tr := by
  simp only [Dataset.conns]
  have : ∀ (l : List TripRec), (∀ t ∈ l, t ∈ ds.trips) → (l.map (·.id)).Nodup →
      (l.flatMap ds.tripConns).filter (fun c => decide (c.trip = tr.id)) = if tr ∈ l then ds.tripConns tr else [] := by
    intro l
    induction l with
    | nil => intro _ _; simp
    | cons t rest ih =>
      intro hsub hnd
      simp only [List.map_cons, List.nodup_cons] at hnd
      have hrest := ih (fun x hx => hsub x (List.mem_cons_of_mem _ hx)) hnd.2
      simp only [List.flatMap_cons, List.filter_append, hrest]
      by_cases ht : t = tr
      · subst ht
        have hnot : t ∉ rest := fun hm => hnd.1 (List.mem_map_of_mem hm)
        have : (ds.tripConns t).filter (fun c => decide (c.trip = t.id)) = ds.tripConns t := by
          rw [List.filter_eq_self]; intro c hc; simp [tripConns_trip ds t c hc]
        simp [this, hnot]
      · have hid : t.id ≠ tr.id := fun e => ht (trip_unique h.nodup (hsub t (List.mem_cons_self ..)) htr e)
        have : (ds.tripConns t).filter (fun c => decide (c.trip = tr.id)) = [] := by
          rw [List.filter_eq_nil_iff]; intro c hc; simp [tripConns_trip ds t c hc, hid]
        have hne : ¬ tr = t := fun e => ht e.symm
        simp [this, List.mem_cons, hne]
  rw [this ds.trips (fun _ h => h) h.nodup]
  simp [htr]

/-- `Trip::reverseConnections` of a well-formed dataset: the trip's connections, last hop first -/
theorem tripRev_eq {ds : Dataset} (h : WFSchedule ds) {tr : TripRec} (htr : tr ∈ ds.trips) :
    ds.tripRev tr.id = (ds.tripConns tr).reverse := by
  simp only [Dataset.tripRev, Dataset.revAll]
  rw [filter_isort revLt revLt_strictWeak, filter_conns_trip h htr, isort_reverse revLt _ (tripConns_pairwise h htr)]

/-- members of the index slice scanned by the clean-up -/
theorem revSlice_mem {ds : Dataset} (h : WFSchedule ds) {tr : TripRec} (htr : tr ∈ ds.trips)
    {s0 s1 : Nat} (hs : s0 ≤ s1) (hs1 : s1 + 1 ≤ (ds.tripConns tr).length) {c : Conn}
    (hc : c ∈ revSlice ds tr.id s0 s1) :
    c ∈ ds.tripConns tr ∧ s0 + 1 ≤ c.seq ∧ c.seq ≤ s1 + 1 := by
  simp only [revSlice, tripRev_eq h htr, List.length_reverse] at hc
  generalize hL : ds.tripConns tr = L at hc hs1 ⊢
  obtain ⟨k, hk, hget⟩ := List.mem_iff_getElem.mp hc
  simp only [List.length_take, List.length_drop, List.length_reverse] at hk
  have key : ∃ idx, ∃ (hi : idx < L.length), L[idx] = c ∧ s0 ≤ idx ∧ idx ≤ s1 := by
    refine ⟨L.length - 1 - (L.length - 1 - s1 + k), by omega, ?_, by omega, by omega⟩
    rw [← hget]
    simp only [List.getElem_take, List.getElem_drop, List.getElem_reverse]
  obtain ⟨idx, hi, hcL, h0, h1⟩ := key
  have hseq : (L[idx]).seq = 0 + idx + 1 := by
    subst hL
    exact tripConnsAux_getElem tr _ _ _ 0 idx hi
  refine ⟨by rw [← hcL]; exact List.getElem_mem _, ?_, ?_⟩
  · rw [← hcL, hseq]; omega
  · rw [← hcL, hseq]; omega

end Tr
