/-
  TrVerif.Proofs.Forward — soundness invariant of the forward scan (`forward_calculation.cpp`):
  every tentative time, every entered trip and every recorded alighting is justified by a journey
  (`Reach`) that leaves the place at the requested time.
-/
import TrVerif.Proofs.Cleanup
namespace Tr

/-- "a traveller leaving the place at `cx.depT` can stand at stop `y` at time `t`": by the access
    walk, or after a ride of one trip of `C` (boarding and alighting permitted, trip not excluded,
    boarded no earlier than the minimum waiting time after standing at its stop) followed by one
    footpath within the transfer maximum -/
inductive Reach (cx : Ctx) (C : List Conn) : Nat → Int → Prop
  | access (a : NTD) : a ∈ cx.accessFoot → Reach cx C a.stop (cx.depT + a.time)
  | ride (y : Nat) (t : Int) (e x : Conn) (f : NTD) :
      Reach cx C y t → e ∈ C → x ∈ C → e.depStop = y → t + e.effWait cx.p.minWait ≤ e.dep →
      e.trip = x.trip → e.seq ≤ x.seq → e.canBoard = true → x.canUnboard = true → cx.disabled e.trip = false →
      f ∈ cx.ds.footOf x.arrStop → f.time ≤ cx.p.maxTransfer → Reach cx C f.stop (x.arr + f.time)

/-- connection `e` can be boarded by such a traveller -/
def Boardable (cx : Ctx) (C : List Conn) (e : Conn) : Prop :=
  e ∈ C ∧ e.canBoard = true ∧ cx.disabled e.trip = false ∧
    ∃ t, Reach cx C e.depStop t ∧ t + e.effWait cx.p.minWait ≤ e.dep

structure FInv (cx : Ctx) (C pre : List Conn) (s : FState) : Prop where
  tent : ∀ y, s.tent y < MAX_INT → Reach cx C y (s.tent y)
  enter : ∀ T e, s.enterC T = some e → e ∈ pre ∧ e.trip = T ∧ Boardable cx C e
  egr : ∀ y js, s.egr y = some js → ∃ e x, js.enter = some e ∧ js.exit = some x ∧ x.arrStop = y ∧ x ∈ C ∧
      e.trip = x.trip ∧ e.seq ≤ x.seq ∧ x.canUnboard = true ∧ Boardable cx C e

theorem FInv.mono_pre {cx : Ctx} {C pre pre' : List Conn} {s : FState} (h : FInv cx C pre s) (hp : ∀ a ∈ pre, a ∈ pre') :
    FInv cx C pre' s :=
  ⟨h.tent, fun T e he => let ⟨a, b, c⟩ := h.enter T e he; ⟨hp _ a, b, c⟩, h.egr⟩

/-! ### initial state -/

theorem init_tent (cx : Ctx) : ∀ y, (FState.init cx).tent y < MAX_INT →
    ∃ a ∈ cx.accessFoot, a.stop = y ∧ (FState.init cx).tent y = cx.depT + a.time := by
  intro y
  unfold FState.init
  simp only
  have key : ∀ (l : List NTD) (f : Nat → Int), (∀ a ∈ l, a ∈ cx.accessFoot) →
      (f y < MAX_INT → ∃ a ∈ cx.accessFoot, a.stop = y ∧ f y = cx.depT + a.time) →
      (l.foldl (fun f e => upd f e.stop (cx.depT + e.time)) f) y < MAX_INT →
      ∃ a ∈ cx.accessFoot, a.stop = y ∧ (l.foldl (fun f e => upd f e.stop (cx.depT + e.time)) f) y = cx.depT + a.time := by
    intro l
    induction l with
    | nil => intro f _ h0 h1; exact h0 h1
    | cons b rest ih =>
      intro f hl h0
      rw [List.foldl_cons]
      apply ih _ (fun a ha => hl a (List.mem_cons_of_mem _ ha))
      intro hlt
      by_cases hy : y = b.stop
      · refine ⟨b, hl b (List.mem_cons_self ..), hy.symm, ?_⟩
        rw [hy]; simp
      · rw [upd_other _ _ _ _ hy] at hlt ⊢
        exact h0 hlt
  exact key cx.accessFoot _ (fun a ha => ha) (by intro h; exact absurd h (by simp [MAX_INT]))

theorem init_FInv (cx : Ctx) (C : List Conn) : FInv cx C [] (FState.init cx) := by
  refine ⟨?_, ?_, ?_⟩
  · intro y hy
    obtain ⟨a, ha, hs, ht⟩ := init_tent cx y hy
    rw [ht, ← hs]; exact Reach.access a ha
  · intro T e he; simp [FState.init] at he
  · intro y js h; simp [FState.init] at h

/-! ### the footpath loop -/

theorem fwdFoot_enterC (cx : Ctx) (c : Conn) (s : FState) (f : NTD) : (fwdFoot cx c s f).enterC = s.enterC := by
  unfold fwdFoot
  simp only
  split
  · rfl
  · split
    · split <;> split <;> rfl
    · rfl

theorem fwdFoot_inv {cx : Ctx} {C pre : List Conn} {s : FState} {c e : Conn} {f : NTD} (h : FInv cx C pre s)
    (hc : c ∈ C) (he : s.enterC c.trip = some e) (hseq : e.seq ≤ c.seq) (hcu : c.canUnboard = true)
    (hf : f ∈ cx.ds.footOf c.arrStop) : FInv cx C pre (fwdFoot cx c s f) := by
  obtain ⟨hepre, hetrip, hboard⟩ := h.enter c.trip e he
  obtain ⟨hemem, hecb, hedis, t, hr, ht⟩ := hboard
  unfold fwdFoot
  simp only
  by_cases h1 : f.stop ≠ c.arrStop ∧ s.tent f.stop < c.arr
  · rw [if_pos h1]; exact h
  · rw [if_neg h1]
    by_cases h2 : f.time ≤ cx.p.maxTransfer
    · rw [if_pos h2]
      have hreach : Reach cx C f.stop (f.time + c.arr) := by
        rw [Int.add_comm]
        exact Reach.ride e.depStop t e c f hr hemem hc rfl ht hetrip hseq hecb hcu hedis hf h2
      -- the tentative-time update
      have hs1 : FInv cx C pre (if f.time + c.arr < s.tent f.stop then
          { s with tent := upd s.tent f.stop (f.time + c.arr),
                   steps := upd s.steps f.stop { enter := s.enterC c.trip, exit := some c, walk := f.time, dist := f.dist } }
          else s) := by
        by_cases h3 : f.time + c.arr < s.tent f.stop
        · rw [if_pos h3]
          refine ⟨?_, h.enter, h.egr⟩
          intro y hy
          simp only at hy ⊢
          by_cases hyf : y = f.stop
          · subst hyf; simp only [upd_same]; exact hreach
          · rw [upd_other _ _ _ _ hyf] at hy ⊢; exact h.tent y hy
        · rw [if_neg h3]; exact h
      generalize hS1 : (if f.time + c.arr < s.tent f.stop then
          { s with tent := upd s.tent f.stop (f.time + c.arr),
                   steps := upd s.steps f.stop { enter := s.enterC c.trip, exit := some c, walk := f.time, dist := f.dist } }
          else s) = s1 at hs1 ⊢
      split
      · rename_i h4
        refine ⟨hs1.tent, hs1.enter, ?_⟩
        intro y js hjs
        simp only at hjs
        by_cases hyf : y = f.stop
        · subst hyf
          simp only [upd_same, Option.some.injEq] at hjs
          subst hjs
          exact ⟨e, c, he, rfl, h4.1.symm, hc, hetrip, hseq, hcu, hemem, hecb, hedis, t, hr, ht⟩
        · rw [upd_other _ _ _ _ hyf] at hjs; exact hs1.egr y js hjs
      · exact hs1
    · rw [if_neg h2]; exact h

theorem fwdFoot_fold_inv {cx : Ctx} {C pre : List Conn} {c e : Conn} (hc : c ∈ C) (hseq : e.seq ≤ c.seq) (hcu : c.canUnboard = true) :
    ∀ (l : List NTD) (s : FState), (∀ f ∈ l, f ∈ cx.ds.footOf c.arrStop) → FInv cx C pre s → s.enterC c.trip = some e →
      FInv cx C pre (l.foldl (fwdFoot cx c) s) ∧ (l.foldl (fwdFoot cx c) s).enterC = s.enterC := by
  intro l
  induction l with
  | nil => intro s _ h _; exact ⟨h, rfl⟩
  | cons f rest ih =>
    intro s hl h he
    rw [List.foldl_cons]
    have h1 := fwdFoot_inv h hc he hseq hcu (hl f (List.mem_cons_self ..))
    have h2 := fwdFoot_enterC cx c s f
    obtain ⟨a, b⟩ := ih (fwdFoot cx c s f) (fun g hg => hl g (List.mem_cons_of_mem _ hg)) h1 (by rw [h2]; exact he)
    exact ⟨a, by rw [b, h2]⟩

/-! ### one connection -/

/-- the boarding part of `fwdStep` -/
def fwdEnter (s : FState) (c : Conn) : FState :=
  if c.canBoard ∧ (s.enterC c.trip).isNone then
    { s with usable := upd s.usable c.trip true, enterC := upd s.enterC c.trip (some c) }
  else s

/-- the alighting part of `fwdStep` -/
def fwdAlight (cx : Ctx) (single : Bool) (s1 : FState) (c : Conn) : FState :=
  if c.canUnboard ∧ (s1.enterC c.trip).isSome then
    let s1' : FState := if single ∧ ¬ s1.reached ∧
        ((cx.nodesEgress c.arrStop).any fun (e : NTD) => decide (e.time ≠ -1)) then
        { s1 with reached := true, tentEgrArr := c.arr }
      else s1
    (cx.ds.footOf c.arrStop).foldl (fwdFoot cx c) s1'
  else s1

theorem fwdStep_cases (cx : Ctx) (single : Bool) (s : FState) (c : Conn) :
    fwdStep cx single s c = s ∨ fwdStep cx single s c = { s with stop := true } ∨
    (cx.disabled c.trip = false ∧
      ((s.enterC c.trip).isSome ∨ s.tent c.depStop ≤ c.dep - c.effWait cx.p.minWait) ∧
      fwdStep cx single s c =
        { fwdAlight cx single (fwdEnter s c) c with count := (fwdAlight cx single (fwdEnter s c) c).count + 1 }) := by
  unfold fwdStep
  by_cases h0 : s.stop = true
  · left; rw [if_pos h0]
  · rw [if_neg h0]
    by_cases h1 : ¬ (c.dep ≥ cx.depT + cx.minAccess)
    · left; rw [if_pos h1]
    · rw [if_neg h1]
      by_cases h2 : cx.disabled c.trip = true
      · left; rw [if_pos h2]
      · rw [if_neg h2]
        by_cases h3 : (single = true ∧ s.reached = true ∧ cx.maxEgress ≥ 0 ∧ s.tentEgrArr < MAX_INT ∧ c.dep > s.tentEgrArr + cx.maxEgress)
            ∨ c.dep - cx.depT > cx.p.maxTotal
        · right; left
          simp only
          rw [if_pos h3]
        · simp only
          rw [if_neg h3]
          split
          · left; rfl
          · rename_i h4
            right; right
            refine ⟨by simpa using h2, ?_, ?_⟩
            · have := Classical.not_not.mp h4
              exact this.1
            · unfold fwdEnter fwdAlight; rfl

theorem fwdStep_inv {cx : Ctx} {C pre : List Conn} {s : FState} {c : Conn} (single : Bool)
    (hdm : ∀ a ∈ C, ∀ b ∈ C, a.trip = b.trip → a.seq ≤ b.seq → a.dep ≤ b.dep)
    (hc : c ∈ C) (hpre : ∀ a ∈ pre, a ∈ C) (hbefore : ∀ a ∈ pre, fwdLt c a = false)
    (hmw : 0 ≤ cx.p.minWait) (hb : c.dep < MAX_INT) (h : FInv cx C pre s) :
    FInv cx C (pre ++ [c]) (fwdStep cx single s c) := by
  have hmono : FInv cx C (pre ++ [c]) s := h.mono_pre (fun a ha => List.mem_append_left _ ha)
  rcases fwdStep_cases cx single s c with h1 | h1 | ⟨hdis, hcond, h1⟩
  · rw [h1]; exact hmono
  · rw [h1]; exact ⟨hmono.tent, hmono.enter, hmono.egr⟩
  · rw [h1]
    -- after the boarding part
    have hE : FInv cx C (pre ++ [c]) (fwdEnter s c) := by
      unfold fwdEnter
      by_cases hcb : c.canBoard = true ∧ (s.enterC c.trip).isNone = true
      · rw [if_pos hcb]
        refine ⟨hmono.tent, ?_, hmono.egr⟩
        intro T e he
        simp only at he
        by_cases hT : T = c.trip
        · subst hT
          simp only [upd_same, Option.some.injEq] at he
          subst he
          have hnone : (s.enterC c.trip).isSome = false := by
            cases hx : s.enterC c.trip with
            | none => rfl
            | some v => rw [hx] at hcb; simp at hcb
          rcases hcond with hc1 | hc1
          · rw [hnone] at hc1; cases hc1
          · have hw := effWait_nonneg c cx.p.minWait hmw
            have hlt : s.tent c.depStop < MAX_INT := by omega
            exact ⟨by simp, rfl, hc, hcb.1, hdis, s.tent c.depStop, h.tent _ hlt, by omega⟩
        · rw [upd_other _ _ _ _ hT] at he; exact hmono.enter T e he
      · rw [if_neg hcb]; exact hmono
    -- the alighting part
    have hA : FInv cx C (pre ++ [c]) (fwdAlight cx single (fwdEnter s c) c) := by
      unfold fwdAlight
      by_cases hcu : c.canUnboard = true ∧ ((fwdEnter s c).enterC c.trip).isSome = true
      · rw [if_pos hcu]
        simp only
        cases hen : (fwdEnter s c).enterC c.trip with
        | none => rw [hen] at hcu; simp at hcu
        | some e =>
          obtain ⟨hepre, hetrip, _⟩ := hE.enter c.trip e hen
          -- `e` was scanned no later than `c`, in the same trip: its sequence number is not larger
          have hseq : e.seq ≤ c.seq := by
            rcases List.mem_append.mp hepre with hp | hp
            · have hlt := hbefore e hp
              have hd := hdm
              simp only [fwdLt, Bool.or_eq_false_iff, Bool.and_eq_false_iff, decide_eq_false_iff_not] at hlt
              by_cases hs : e.seq ≤ c.seq
              · exact hs
              · have := hdm c hc e (hpre e hp) hetrip.symm (by omega)
                omega
            · simp at hp; subst hp; exact Nat.le_refl _
          generalize hS : (if single = true ∧ ¬ (fwdEnter s c).reached = true ∧
              ((cx.nodesEgress c.arrStop).any fun (e : NTD) => decide (e.time ≠ -1)) = true then
              { fwdEnter s c with reached := true, tentEgrArr := c.arr } else fwdEnter s c) = s1'
          have hs1 : FInv cx C (pre ++ [c]) s1' ∧ s1'.enterC = (fwdEnter s c).enterC := by
            rw [← hS]
            split
            · exact ⟨⟨hE.tent, hE.enter, hE.egr⟩, rfl⟩
            · exact ⟨hE, rfl⟩
          exact (fwdFoot_fold_inv hc hseq hcu.1 _ s1' (fun f hf => hf) hs1.1 (by rw [hs1.2]; exact hen)).1
      · rw [if_neg hcu]; exact hE
    exact ⟨hA.tent, hA.enter, hA.egr⟩

/-- sorted the way the forward list is -/
def SortedFwd (l : List Conn) : Prop := l.Pairwise (fun a c => fwdLt c a = false)

theorem fwdScanList_inv {cx : Ctx} (single : Bool) (C : List Conn)
    (hdm : ∀ a ∈ C, ∀ b ∈ C, a.trip = b.trip → a.seq ≤ b.seq → a.dep ≤ b.dep)
    (hmw : 0 ≤ cx.p.minWait) (hb : ∀ c ∈ C, c.dep < MAX_INT) :
    ∀ (post pre : List Conn) (s : FState), (∀ a ∈ pre ++ post, a ∈ C) → SortedFwd (pre ++ post) →
      FInv cx C pre s → FInv cx C (pre ++ post) (post.foldl (fwdStep cx single) s) := by
  intro post
  induction post with
  | nil => intro pre s _ _ h; simpa using h
  | cons c rest ih =>
    intro pre s hC hs h
    have hcC := hC c (by simp)
    have hstep := fwdStep_inv single hdm hcC (fun a ha => hC a (List.mem_append_left _ ha))
      (fun a ha => (List.pairwise_append.mp hs).2.2 a ha c (List.mem_cons_self ..)) hmw (hb c hcC) h
    have := ih (pre ++ [c]) _ (by simpa using hC) (by simpa [SortedFwd] using hs) hstep
    simpa using this

end Tr
