/-
  TrVerif.Proofs.DataFacts — facts about the connections built from a well-formed dataset.
-/
import TrVerif.Props.C11
import TrVerif.Proofs.Reverse
namespace Tr

/-- schedule well-formedness: unique trip identifiers, arrival times non-decreasing along each trip -/
structure WFSchedule (ds : Dataset) : Prop where
  nodup : (ds.trips.map (·.id)).Nodup
  arrMono : ∀ tr ∈ ds.trips, ∀ i j, i ≤ j → j < tr.arr.length → tr.arr.getD i 0 ≤ tr.arr.getD j 0

theorem tripConnsAux_facts (tr : TripRec) (stops : List Nat) (mw : Int) : ∀ (n k : Nat),
    ∀ c ∈ tripConnsAux tr stops mw k n, c.trip = tr.id ∧ k + 1 ≤ c.seq ∧ c.seq ≤ k + n ∧
      c.arr = tr.arr.getD c.seq 0 ∧ c.minWait = mw := by
  intro n
  induction n with
  | zero => intro k c hc; simp [tripConnsAux] at hc
  | succ n ih =>
    intro k c hc
    simp only [tripConnsAux, List.mem_cons] at hc
    rcases hc with e | e
    · subst e; simp
    · obtain ⟨a, b, c', d, f⟩ := ih (k + 1) c e
      exact ⟨a, by omega, by omega, d, f⟩

def Dataset.lineMinWait (ds : Dataset) (tr : TripRec) : Int :=
  if (ds.lineRec (ds.paths.getD tr.path default).line).mode == 2 then 0 else -1

theorem tripConns_facts (ds : Dataset) (tr : TripRec) : ∀ c ∈ ds.tripConns tr,
    c.trip = tr.id ∧ 1 ≤ c.seq ∧ c.seq ≤ tr.arr.length - 1 ∧ c.arr = tr.arr.getD c.seq 0 ∧
      c.minWait = ds.lineMinWait tr := by
  intro c hc
  obtain ⟨a, b, c', d, f⟩ := tripConnsAux_facts tr _ _ _ 0 c hc
  exact ⟨a, by omega, by omega, d, f⟩

theorem mem_conns {ds : Dataset} {c : Conn} (h : c ∈ ds.conns) : ∃ tr ∈ ds.trips, c ∈ ds.tripConns tr := by
  simpa [Dataset.conns, List.mem_flatMap] using h

theorem trip_unique {ds : Dataset} (h : (ds.trips.map (·.id)).Nodup) {t1 t2 : TripRec}
    (h1 : t1 ∈ ds.trips) (h2 : t2 ∈ ds.trips) (he : t1.id = t2.id) : t1 = t2 := by
  have a := find_of_mem_nodup h h1
  have b := find_of_mem_nodup h h2
  rw [he] at a; rw [a] at b; cases b; rfl

theorem conns_arrMono {ds : Dataset} (h : WFSchedule ds) : ArrMono ds.conns := by
  intro a ha b hb ht hs
  obtain ⟨t1, h1, ha'⟩ := mem_conns ha
  obtain ⟨t2, h2, hb'⟩ := mem_conns hb
  obtain ⟨a1, a2, a3, a4, _⟩ := tripConns_facts ds t1 a ha'
  obtain ⟨b1, b2, b3, b4, _⟩ := tripConns_facts ds t2 b hb'
  have : t1 = t2 := trip_unique h.nodup h1 h2 (by rw [← a1, ← b1, ht])
  subst this
  rw [a4, b4]
  exact h.arrMono t1 h1 _ _ hs (by omega)

/-- minimum waiting time in force for boarding a trip: 0 for lines of the `transferable` mode,
    the query's value otherwise -/
def Dataset.mwOfTrip (ds : Dataset) (p : Params) (t : Nat) : Int := if ds.transferable t then 0 else p.minWait

theorem conns_effWait {ds : Dataset} (h : WFSchedule ds) (p : Params) : ∀ c ∈ ds.conns,
    c.effWait p.minWait = ds.mwOfTrip p c.trip := by
  intro c hc
  obtain ⟨tr, htr, hc'⟩ := mem_conns hc
  obtain ⟨a1, _, _, _, a5⟩ := tripConns_facts ds tr c hc'
  have hf : ds.tripRec? c.trip = some tr := by rw [a1]; exact find_of_mem_nodup h.nodup htr
  simp only [Conn.effWait, Dataset.mwOfTrip, Dataset.transferable, Dataset.modeOfTrip, Dataset.lineOfTrip,
    Dataset.pathOfTrip, hf, a5, Dataset.lineMinWait]
  by_cases hm : (ds.lineRec (ds.paths[tr.path]?.getD default).line).mode = 2
  · simp [hm]
  · simp [hm]

theorem connSetOf_rev_sub (ds : Dataset) (sc : Scenario) : ∀ c ∈ (ds.connSetOf sc).rev, c ∈ ds.conns := by
  intro c hc
  simp only [Dataset.connSetOf, mkConnSet, Dataset.revAll, List.mem_filter] at hc
  exact (mem_isort revLt c _).mp hc.1

end Tr
