/-
  TrVerif.Proofs.Emit — the emission pass (`emit`) described denotationally (`stepsOfLegs`) and
  the accumulator lemmas that relate the two.  Used by C06 (totals) and C01 (rendering).
-/
import TrVerif.Model.Journey
import TrVerif.Spec.Totals
namespace Tr

/-! ### sums over appended step lists -/
theorem sumWalk_append (a b : List Step) : sumWalk (a ++ b) = sumWalk a + sumWalk b := by
  simp [sumWalk, List.map_append, List.sum_append]
theorem sumTransferWalk_append (a b : List Step) : sumTransferWalk (a ++ b) = sumTransferWalk a + sumTransferWalk b := by
  simp [sumTransferWalk, List.map_append, List.sum_append]
theorem sumRide_append (a b : List Step) : sumRide (a ++ b) = sumRide a + sumRide b := by
  simp [sumRide, List.map_append, List.sum_append]
theorem sumWait_append (a b : List Step) : sumWait (a ++ b) = sumWait a + sumWait b := by
  simp [sumWait, List.map_append, List.sum_append]
theorem countBoard_append (a b : List Step) : countBoard (a ++ b) = countBoard a + countBoard b := by
  simp [countBoard, List.filter_append]

@[simp] theorem countBoard_nil : countBoard [] = 0 := rfl
@[simp] theorem countBoard_board (t s st : Nat) (d w : Int) (l : List Step) :
    countBoard (.board t s st d w :: l) = countBoard l + 1 := by simp [countBoard, List.filter, Step.isBoard]
@[simp] theorem countBoard_unboard (t s st : Nat) (a i d : Int) (l : List Step) :
    countBoard (.unboard t s st a i d :: l) = countBoard l := by simp [countBoard, List.filter, Step.isBoard]
@[simp] theorem countBoard_walk (k : Nat) (a b c d e : Int) (l : List Step) :
    countBoard (.walk k a b c d e :: l) = countBoard l := by simp [countBoard, List.filter, Step.isBoard]

/-! ### denotational description of the emitted steps -/

def boardOf (t : Int) (e : Conn) : Step := .board e.trip e.seq e.depStop e.dep (e.dep - t)
def unboardOf (ds : Dataset) (e x : Conn) : Step := .unboard e.trip x.seq x.arrStop x.arr (x.arr - e.dep) (legIvd ds e x)

/-- steps emitted for the legs (all of which have connections) followed by the egress step,
    when the traveller stands at the first boarding stop at time `t` -/
def stepsOfLegs (ds : Dataset) (mw : Int) : Int → List JStep → JStep → List Step
  | _, [], _ => []
  | t, [l], egr =>
    match l.enter, l.exit with
    | some e, some x => [boardOf t e, unboardOf ds e x, .walk 2 egr.walk egr.dist x.arr (x.arr + egr.walk) 0]
    | _, _ => []
  | t, l :: l2 :: rest, egr =>
    match l.enter, l.exit with
    | some e, some x =>
      [boardOf t e, unboardOf ds e x, .walk 1 l.walk l.dist x.arr (x.arr + l.walk) (x.arr + l.walk + nextWaitOf mw (some l2))]
        ++ stepsOfLegs ds mw (x.arr + l.walk) (l2 :: rest) egr
    | _, _ => []

/-- arrival at the destination: last alighting + egress walk -/
def finalArrival : List JStep → JStep → Int
  | [], _ => -1
  | [l], egr => (match l.exit with | some x => x.arr | none => -1) + egr.walk
  | _ :: l2 :: rest, egr => finalArrival (l2 :: rest) egr

def AllLegs (legs : List JStep) : Prop := ∀ l ∈ legs, ∃ e x, l.enter = some e ∧ l.exit = some x
def NoXfer (ds : Dataset) (legs : List JStep) : Prop := ∀ l ∈ legs, ∀ e, l.enter = some e → ds.transferable e.trip = false

end Tr

namespace Tr
variable (ds : Dataset) (mw bd : Int) (n : Nat)

/-- what one or more emission steps did to the accumulators, in terms of the steps `L` they appended
    (`nox`: no leg among them rides a `transferable` line) -/
structure StepRel (a a' : EAcc) (L : List Step) (nox : Prop) : Prop where
  steps : a'.steps = a.steps ++ L
  ivt : a'.totalIVT = a.totalIVT + sumRide L
  wait : a'.totalWait = a.totalWait + sumWait L
  accessWalk : a'.accessWalk = a.accessWalk
  walk : nox → a'.totalWalk = a.totalWalk + sumWalk L
  twalk : nox → a'.totalTransferWalk = a.totalTransferWalk + sumTransferWalk L
  nt : nox → a'.numTransfers = a.numTransfers + countBoard L

theorem StepRel.trans {a a1 a2 : EAcc} {L1 L2 : List Step} {p1 p2 : Prop}
    (h1 : StepRel a a1 L1 p1) (h2 : StepRel a1 a2 L2 p2) : StepRel a a2 (L1 ++ L2) (p1 ∧ p2) where
  steps := by rw [h2.steps, h1.steps, List.append_assoc]
  ivt := by rw [h2.ivt, h1.ivt, sumRide_append]; omega
  wait := by rw [h2.wait, h1.wait, sumWait_append]; omega
  accessWalk := by rw [h2.accessWalk, h1.accessWalk]
  walk := fun ⟨x, y⟩ => by rw [h2.walk y, h1.walk x, sumWalk_append]; omega
  twalk := fun ⟨x, y⟩ => by rw [h2.twalk y, h1.twalk x, sumTransferWalk_append]; omega
  nt := fun ⟨x, y⟩ => by rw [h2.nt y, h1.nt x, countBoard_append]; omega

/-- the three steps of a leg that is followed by another leg -/
def midSteps (t : Int) (js : JStep) (e x : Conn) (next : Option JStep) : List Step :=
  [boardOf t e, unboardOf ds e x, .walk 1 js.walk js.dist x.arr (x.arr + js.walk) (x.arr + js.walk + nextWaitOf mw next)]

/-- the two steps of the last leg -/
def lastSteps (t : Int) (e x : Conn) : List Step := [boardOf t e, unboardOf ds e x]

theorem emitLeg_mid {a : EAcc} {i : Nat} {js : JStep} {next : Option JStep} {e x : Conn} (hn : i + 2 < n) :
    StepRel a (emitLeg ds mw n a i js e x next) (midSteps ds mw a.transferArr js e x next) (ds.transferable e.trip = false) := by
  constructor
  all_goals (try intro hx)
  all_goals simp [emitLeg, midSteps, boardOf, unboardOf, hn, sumRide, sumWait, sumWalk, sumTransferWalk,
    Step.rideTime, Step.waitTime, Step.walkTime, Step.transferWalkTime, *]
  all_goals omega

theorem emitLeg_last {a : EAcc} {i : Nat} {js : JStep} {next : Option JStep} {e x : Conn} (hn : ¬ i + 2 < n) :
    StepRel a (emitLeg ds mw n a i js e x next) (lastSteps ds a.transferArr e x) (ds.transferable e.trip = false) := by
  constructor
  all_goals (try intro hx)
  all_goals simp [emitLeg, lastSteps, boardOf, unboardOf, hn, sumRide, sumWait, sumWalk, sumTransferWalk,
    Step.rideTime, Step.waitTime, Step.walkTime, Step.transferWalkTime, *]

theorem emitEgress_rel (a : EAcc) (js : JStep) :
    StepRel a (emitEgress a js) [.walk 2 js.walk js.dist a.arrival (a.arrival + js.walk) 0] True := by
  constructor
  all_goals (try intro hx)
  all_goals simp [emitEgress, sumRide, sumWait, sumWalk, sumTransferWalk,
    Step.rideTime, Step.waitTime, Step.walkTime, Step.transferWalkTime]

theorem emitLeg_state (a : EAcc) (i : Nat) (js : JStep) (next : Option JStep) (e x : Conn) :
    let a' := emitLeg ds mw n a i js e x next
    a'.transferArr = x.arr + js.walk ∧ a'.arrival = x.arr ∧ a'.egressWalk = a.egressWalk ∧
    (i ≠ 1 → a'.accessWait = a.accessWait ∧ a'.totalTransferWait = a.totalTransferWait + (e.dep - a.transferArr)) ∧
    (i = 1 → a'.accessWait = e.dep - a.transferArr ∧ a'.totalTransferWait = a.totalTransferWait) := by
  refine ⟨rfl, rfl, rfl, ?_, ?_⟩ <;> intro h <;> simp [emitLeg, h]

theorem emitStep_leg {a : EAcc} {i : Nat} {js : JStep} {next : Option JStep} {e x : Conn}
    (h1 : js.enter = some e) (h2 : js.exit = some x) :
    emitStep ds mw bd n a i js next = emitLeg ds mw n a i js e x next := by
  simp [emitStep, h1, h2]

theorem emitStep_egress {a : EAcc} {i : Nat} {js : JStep} {next : Option JStep}
    (h1 : js.enter = none) (hi : i ≠ 0) :
    emitStep ds mw bd n a i js next = emitEgress a js := by
  simp [emitStep, h1, hi]

theorem sumWait_lastSteps (t : Int) (e x : Conn) : sumWait (lastSteps ds t e x) = e.dep - t := by
  simp [lastSteps, sumWait, boardOf, unboardOf, Step.waitTime]
theorem sumWait_midSteps (t : Int) (js : JStep) (e x : Conn) (nx : Option JStep) :
    sumWait (midSteps ds mw t js e x nx) = e.dep - t := by
  simp [midSteps, sumWait, boardOf, unboardOf, Step.waitTime]

/-- the legs after the first one (index >= 2) and the egress step -/
theorem emitLoop_legs (egr : JStep) (hegr : egr.enter = none) :
    ∀ (legs : List JStep) (a : EAcc) (i : Nat), legs ≠ [] → AllLegs legs → 2 ≤ i → n = i + legs.length + 1 →
      StepRel a (emitLoop ds mw bd n (legs ++ [egr]) i a) (stepsOfLegs ds mw a.transferArr legs egr) (NoXfer ds legs) ∧
      (emitLoop ds mw bd n (legs ++ [egr]) i a).arrival = finalArrival legs egr ∧
      (emitLoop ds mw bd n (legs ++ [egr]) i a).egressWalk = egr.walk ∧
      (emitLoop ds mw bd n (legs ++ [egr]) i a).accessWait = a.accessWait ∧
      (emitLoop ds mw bd n (legs ++ [egr]) i a).totalTransferWait
        = a.totalTransferWait + sumWait (stepsOfLegs ds mw a.transferArr legs egr) := by
  intro legs
  induction legs with
  | nil => intro a i h; exact absurd rfl h
  | cons l rest ih =>
    intro a i _ hall hi hn
    obtain ⟨e, x, he, hx⟩ := hall l (List.mem_cons_self ..)
    cases rest with
    | nil =>
      have hlast : ¬ i + 2 < n := by simp at hn; omega
      have h1 := emitLeg_last ds mw n (a := a) (i := i) (js := l) (next := some egr) (e := e) (x := x) hlast
      have hst := emitLeg_state ds mw n a i l (some egr) e x
      have h2 := emitEgress_rel (emitLeg ds mw n a i l e x (some egr)) egr
      have hrel := h1.trans h2
      have hi0 : i + 1 ≠ 0 := by omega
      have hi1 : i ≠ 1 := by omega
      simp only [List.cons_append, List.nil_append, emitLoop, List.head?_cons, List.head?_nil,
        emitStep_leg ds mw bd n he hx, emitStep_egress ds mw bd n hegr hi0]
      refine ⟨?_, ?_, ?_, ?_, ?_⟩
      · have : stepsOfLegs ds mw a.transferArr [l] egr
            = lastSteps ds a.transferArr e x ++ [.walk 2 egr.walk egr.dist x.arr (x.arr + egr.walk) 0] := by
          simp [stepsOfLegs, he, hx, lastSteps]
        rw [this]
        have harr : (emitLeg ds mw n a i l e x (some egr)).arrival = x.arr := hst.2.1
        rw [harr] at hrel
        refine ⟨hrel.steps, hrel.ivt, hrel.wait, hrel.accessWalk, ?_, ?_, ?_⟩
        · intro hnx; exact hrel.walk ⟨hnx l (List.mem_cons_self ..) e he, trivial⟩
        · intro hnx; exact hrel.twalk ⟨hnx l (List.mem_cons_self ..) e he, trivial⟩
        · intro hnx; exact hrel.nt ⟨hnx l (List.mem_cons_self ..) e he, trivial⟩
      · simp [emitEgress, finalArrival, hx, hst.2.1]
      · simp [emitEgress]
      · simp [emitEgress, (hst.2.2.2.1 hi1).1]
      · simp [emitEgress, (hst.2.2.2.1 hi1).2, stepsOfLegs, he, hx, sumWait, boardOf, unboardOf, Step.waitTime]
    | cons l2 rest2 =>
      have hmid : i + 2 < n := by simp at hn; omega
      have h1 := emitLeg_mid ds mw n (a := a) (i := i) (js := l) (next := some l2) (e := e) (x := x) hmid
      have hst := emitLeg_state ds mw n a i l (some l2) e x
      have hall2 : AllLegs (l2 :: rest2) := fun y hy => hall y (List.mem_cons_of_mem _ hy)
      have hn2 : n = (i + 1) + (l2 :: rest2).length + 1 := by simp at hn ⊢; omega
      have hi1 : i ≠ 1 := by omega
      obtain ⟨r1, r2, r3, r4, r5⟩ := ih (emitLeg ds mw n a i l e x (some l2)) (i + 1) (by simp) hall2 (by omega) hn2
      have hstep : emitLoop ds mw bd n ((l :: l2 :: rest2) ++ [egr]) i a
          = emitLoop ds mw bd n ((l2 :: rest2) ++ [egr]) (i + 1) (emitLeg ds mw n a i l e x (some l2)) := by
        simp [emitLoop, emitStep_leg ds mw bd n he hx]
      rw [hstep]
      have hsteps : stepsOfLegs ds mw a.transferArr (l :: l2 :: rest2) egr
          = midSteps ds mw a.transferArr l e x (some l2) ++ stepsOfLegs ds mw (x.arr + l.walk) (l2 :: rest2) egr := by
        simp [stepsOfLegs, he, hx, midSteps]
      rw [hsteps]
      rw [hst.1] at r1 r5
      have hrel := h1.trans r1
      refine ⟨?_, ?_, r3, ?_, ?_⟩
      · refine ⟨hrel.steps, hrel.ivt, hrel.wait, hrel.accessWalk, ?_, ?_, ?_⟩
        · intro hnx; exact hrel.walk ⟨hnx l (List.mem_cons_self ..) e he, fun y hy => hnx y (List.mem_cons_of_mem _ hy)⟩
        · intro hnx; exact hrel.twalk ⟨hnx l (List.mem_cons_self ..) e he, fun y hy => hnx y (List.mem_cons_of_mem _ hy)⟩
        · intro hnx; exact hrel.nt ⟨hnx l (List.mem_cons_self ..) e he, fun y hy => hnx y (List.mem_cons_of_mem _ hy)⟩
      · rw [r2]; simp [finalArrival]
      · rw [r4, (hst.2.2.2.1 hi1).1]
      · rw [r5, (hst.2.2.2.1 hi1).2, sumWait_append, sumWait_midSteps]; omega

/-- waiting time of the first boarding of `stepsOfLegs t legs egr` -/
def firstLegWait (t : Int) : List JStep → Int
  | [] => -1
  | l :: _ => match l.enter with
    | some e => e.dep - t
    | none => -1

/-- all legs, starting at index 1 (right after the access step) -/
theorem emitLoop_from1 (egr : JStep) (hegr : egr.enter = none) (legs : List JStep) (a : EAcc)
    (hne : legs ≠ []) (hall : AllLegs legs) (hn : n = legs.length + 2) :
      StepRel a (emitLoop ds mw bd n (legs ++ [egr]) 1 a) (stepsOfLegs ds mw a.transferArr legs egr) (NoXfer ds legs) ∧
      (emitLoop ds mw bd n (legs ++ [egr]) 1 a).arrival = finalArrival legs egr ∧
      (emitLoop ds mw bd n (legs ++ [egr]) 1 a).egressWalk = egr.walk ∧
      (emitLoop ds mw bd n (legs ++ [egr]) 1 a).accessWait = firstLegWait a.transferArr legs ∧
      (emitLoop ds mw bd n (legs ++ [egr]) 1 a).totalTransferWait
        = a.totalTransferWait + sumWait (stepsOfLegs ds mw a.transferArr legs egr) - firstLegWait a.transferArr legs := by
  cases legs with
  | nil => exact absurd rfl hne
  | cons l rest =>
    obtain ⟨e, x, he, hx⟩ := hall l (List.mem_cons_self ..)
    cases rest with
    | nil =>
      have hlast : ¬ 1 + 2 < n := by simp at hn; omega
      have h1 := emitLeg_last ds mw n (a := a) (i := 1) (js := l) (next := some egr) (e := e) (x := x) hlast
      have hst := emitLeg_state ds mw n a 1 l (some egr) e x
      have h2 := emitEgress_rel (emitLeg ds mw n a 1 l e x (some egr)) egr
      have hrel := h1.trans h2
      simp only [List.cons_append, List.nil_append, emitLoop, List.head?_cons, List.head?_nil,
        emitStep_leg ds mw bd n he hx, emitStep_egress ds mw bd n hegr (show 1 + 1 ≠ 0 by omega)]
      refine ⟨?_, ?_, ?_, ?_, ?_⟩
      · have : stepsOfLegs ds mw a.transferArr [l] egr
            = lastSteps ds a.transferArr e x ++ [.walk 2 egr.walk egr.dist x.arr (x.arr + egr.walk) 0] := by
          simp [stepsOfLegs, he, hx, lastSteps]
        rw [this]
        have harr : (emitLeg ds mw n a 1 l e x (some egr)).arrival = x.arr := hst.2.1
        rw [harr] at hrel
        refine ⟨hrel.steps, hrel.ivt, hrel.wait, hrel.accessWalk, ?_, ?_, ?_⟩
        · intro hnx; exact hrel.walk ⟨hnx l (List.mem_cons_self ..) e he, trivial⟩
        · intro hnx; exact hrel.twalk ⟨hnx l (List.mem_cons_self ..) e he, trivial⟩
        · intro hnx; exact hrel.nt ⟨hnx l (List.mem_cons_self ..) e he, trivial⟩
      · simp [emitEgress, finalArrival, hx, hst.2.1]
      · simp [emitEgress]
      · simp [emitEgress, (hst.2.2.2.2 rfl).1, firstLegWait, he]
      · simp [emitEgress, (hst.2.2.2.2 rfl).2, stepsOfLegs, he, hx, sumWait, boardOf, unboardOf, Step.waitTime, firstLegWait]
    | cons l2 rest2 =>
      have hmid : 1 + 2 < n := by simp at hn; omega
      have h1 := emitLeg_mid ds mw n (a := a) (i := 1) (js := l) (next := some l2) (e := e) (x := x) hmid
      have hst := emitLeg_state ds mw n a 1 l (some l2) e x
      have hall2 : AllLegs (l2 :: rest2) := fun y hy => hall y (List.mem_cons_of_mem _ hy)
      have hn2 : n = (1 + 1) + (l2 :: rest2).length + 1 := by simp at hn ⊢; omega
      obtain ⟨r1, r2, r3, r4, r5⟩ := emitLoop_legs ds mw bd n egr hegr (l2 :: rest2)
        (emitLeg ds mw n a 1 l e x (some l2)) (1 + 1) (by simp) hall2 (by omega) hn2
      have hstep : emitLoop ds mw bd n ((l :: l2 :: rest2) ++ [egr]) 1 a
          = emitLoop ds mw bd n ((l2 :: rest2) ++ [egr]) (1 + 1) (emitLeg ds mw n a 1 l e x (some l2)) := by
        simp [emitLoop, emitStep_leg ds mw bd n he hx]
      rw [hstep]
      have hsteps : stepsOfLegs ds mw a.transferArr (l :: l2 :: rest2) egr
          = midSteps ds mw a.transferArr l e x (some l2) ++ stepsOfLegs ds mw (x.arr + l.walk) (l2 :: rest2) egr := by
        simp [stepsOfLegs, he, hx, midSteps]
      rw [hsteps]
      rw [hst.1] at r1 r5
      have hrel := h1.trans r1
      refine ⟨?_, ?_, r3, ?_, ?_⟩
      · refine ⟨hrel.steps, hrel.ivt, hrel.wait, hrel.accessWalk, ?_, ?_, ?_⟩
        · intro hnx; exact hrel.walk ⟨hnx l (List.mem_cons_self ..) e he, fun y hy => hnx y (List.mem_cons_of_mem _ hy)⟩
        · intro hnx; exact hrel.twalk ⟨hnx l (List.mem_cons_self ..) e he, fun y hy => hnx y (List.mem_cons_of_mem _ hy)⟩
        · intro hnx; exact hrel.nt ⟨hnx l (List.mem_cons_self ..) e he, fun y hy => hnx y (List.mem_cons_of_mem _ hy)⟩
      · rw [r2]; simp [finalArrival]
      · rw [r4, (hst.2.2.2.2 rfl).1]; simp [firstLegWait, he]
      · rw [r5, (hst.2.2.2.2 rfl).2, sumWait_append, sumWait_midSteps]; simp [firstLegWait, he]; omega

/-! ### pure facts about `stepsOfLegs` -/

theorem stepsOfLegs_shape (egr : JStep) : ∀ (legs : List JStep) (t : Int), legs ≠ [] → AllLegs legs →
    ridesShape (stepsOfLegs ds mw t legs egr) := by
  intro legs
  induction legs with
  | nil => intro t h; exact absurd rfl h
  | cons l rest ih =>
    intro t _ hall
    obtain ⟨e, x, he, hx⟩ := hall l (List.mem_cons_self ..)
    cases rest with
    | nil => simp [stepsOfLegs, he, hx, ridesShape, boardOf, unboardOf]
    | cons l2 r2 =>
      have := ih (x.arr + l.walk) (by simp) (fun y hy => hall y (List.mem_cons_of_mem _ hy))
      simp [stepsOfLegs, he, hx, ridesShape, boardOf, unboardOf, this]

theorem stepsOfLegs_head (egr : JStep) (l : JStep) (rest : List JStep) (t : Int) (e x : Conn)
    (he : l.enter = some e) (hx : l.exit = some x) :
    (stepsOfLegs ds mw t (l :: rest) egr).head? = some (boardOf t e) := by
  cases rest <;> simp [stepsOfLegs, he, hx]

theorem stepsOfLegs_chain (mwOf : Nat → Int) (egr : JStep) :
    ∀ (legs : List JStep) (t : Int), legs ≠ [] → AllLegs legs →
      (∀ l ∈ legs, ∀ e, l.enter = some e → e.effWait mw = mwOf e.trip) →
      chainFrom mwOf t (stepsOfLegs ds mw t legs egr) (finalArrival legs egr) := by
  intro legs
  induction legs with
  | nil => intro t h; exact absurd rfl h
  | cons l rest ih =>
    intro t _ hall hmw
    obtain ⟨e, x, he, hx⟩ := hall l (List.mem_cons_self ..)
    cases rest with
    | nil => simp [stepsOfLegs, he, hx, chainFrom, boardOf, unboardOf, finalArrival]
    | cons l2 r2 =>
      have hall2 : AllLegs (l2 :: r2) := fun y hy => hall y (List.mem_cons_of_mem _ hy)
      obtain ⟨e2, x2, he2, hx2⟩ := hall2 l2 (List.mem_cons_self ..)
      have := ih (x.arr + l.walk) (by simp) hall2 (fun y hy => hmw y (List.mem_cons_of_mem _ hy))
      have hh := stepsOfLegs_head ds mw egr l2 r2 (x.arr + l.walk) e2 x2 he2 hx2
      have hm2 : e2.effWait mw = mwOf e2.trip := hmw l2 (List.mem_cons_of_mem _ (List.mem_cons_self ..)) e2 he2
      simp only [stepsOfLegs, he, hx, List.cons_append, List.nil_append, chainFrom, boardOf, unboardOf, finalArrival]
      refine ⟨trivial, trivial, trivial, trivial, ?_, this⟩
      intro _ trip seq stop bdep w hhead
      rw [hh] at hhead
      simp [boardOf] at hhead
      simp [nextWaitOf, he2, hm2, hhead.1]

theorem stepsOfLegs_sum (egr : JStep) : ∀ (legs : List JStep) (t : Int), legs ≠ [] → AllLegs legs →
    sumWalk (stepsOfLegs ds mw t legs egr) + sumRide (stepsOfLegs ds mw t legs egr) + sumWait (stepsOfLegs ds mw t legs egr)
      = finalArrival legs egr - t := by
  intro legs
  induction legs with
  | nil => intro t h; exact absurd rfl h
  | cons l rest ih =>
    intro t _ hall
    obtain ⟨e, x, he, hx⟩ := hall l (List.mem_cons_self ..)
    cases rest with
    | nil =>
      simp [stepsOfLegs, he, hx, sumWalk, sumRide, sumWait, boardOf, unboardOf, finalArrival,
        Step.walkTime, Step.rideTime, Step.waitTime]
      omega
    | cons l2 r2 =>
      have := ih (x.arr + l.walk) (by simp) (fun y hy => hall y (List.mem_cons_of_mem _ hy))
      simp only [stepsOfLegs, he, hx, sumWalk_append, sumRide_append, sumWait_append, finalArrival]
      simp [sumWalk, sumRide, sumWait, boardOf, unboardOf, Step.walkTime, Step.rideTime, Step.waitTime] at this ⊢
      omega

theorem stepsOfLegs_getLast (egr : JStep) : ∀ (legs : List JStep) (t : Int), legs ≠ [] → AllLegs legs →
    ∃ a b, (stepsOfLegs ds mw t legs egr).getLast? = some (.walk 2 egr.walk egr.dist a b 0) := by
  intro legs
  induction legs with
  | nil => intro t h; exact absurd rfl h
  | cons l rest ih =>
    intro t _ hall
    obtain ⟨e, x, he, hx⟩ := hall l (List.mem_cons_self ..)
    cases rest with
    | nil => exact ⟨x.arr, x.arr + egr.walk, by simp [stepsOfLegs, he, hx]⟩
    | cons l2 r2 =>
      obtain ⟨a, b, h⟩ := ih (x.arr + l.walk) (by simp) (fun y hy => hall y (List.mem_cons_of_mem _ hy))
      refine ⟨a, b, ?_⟩
      simp only [stepsOfLegs, he, hx]
      rw [List.getLast?_append, h]; simp

theorem stepsOfLegs_count (egr : JStep) : ∀ (legs : List JStep) (t : Int), AllLegs legs →
    countBoard (stepsOfLegs ds mw t legs egr) = legs.length := by
  intro legs
  induction legs with
  | nil => intro t _; simp [stepsOfLegs]
  | cons l rest ih =>
    intro t hall
    obtain ⟨e, x, he, hx⟩ := hall l (List.mem_cons_self ..)
    cases rest with
    | nil => simp [stepsOfLegs, he, hx, boardOf, unboardOf]
    | cons l2 r2 =>
      have := ih (x.arr + l.walk) (fun y hy => hall y (List.mem_cons_of_mem _ hy))
      simp only [stepsOfLegs, he, hx, countBoard_append, this]
      simp [boardOf, unboardOf]; omega

theorem stepsOfLegs_firstWait (egr : JStep) (legs : List JStep) (t : Int) (hne : legs ≠ []) (hall : AllLegs legs) :
    firstWait (stepsOfLegs ds mw t legs egr) = firstLegWait t legs := by
  cases legs with
  | nil => exact absurd rfl hne
  | cons l rest =>
    obtain ⟨e, x, he, hx⟩ := hall l (List.mem_cons_self ..)
    cases rest <;> simp [stepsOfLegs, he, hx, firstWait, firstLegWait, boardOf, List.filter, Step.isBoard, Step.waitTime]

/-- the steps `emit` renders for a journey of the form access, legs, egress -/
theorem emit_steps (acc egr : JStep) (legs : List JStep) (hacc : acc.enter = none) (hegr : egr.enter = none)
    (hne : legs ≠ []) (hall : AllLegs legs) :
    (emit ds mw bd ([acc] ++ legs ++ [egr])).steps =
      .walk 0 acc.walk acc.dist bd (bd + acc.walk) (bd + acc.walk + nextWaitOf mw legs.head?)
        :: stepsOfLegs ds mw (bd + acc.walk) legs egr ∧
    (emit ds mw bd ([acc] ++ legs ++ [egr])).departureTime = bd := by
  refine ⟨?_, rfl⟩
  obtain ⟨l1, rest, rfl⟩ : ∃ l1 rest, legs = l1 :: rest := by
    cases legs with
    | nil => exact absurd rfl hne
    | cons a b => exact ⟨a, b, rfl⟩
  have hn : ([acc] ++ (l1 :: rest) ++ [egr]).length = (l1 :: rest).length + 2 := by simp
  have hloop : emitLoop ds mw bd ([acc] ++ (l1 :: rest) ++ [egr]).length ([acc] ++ (l1 :: rest) ++ [egr]) 0 {}
      = emitLoop ds mw bd ([acc] ++ (l1 :: rest) ++ [egr]).length ((l1 :: rest) ++ [egr]) 1
          (emitAccess mw bd {} acc (some l1)) := by
    simp [emitLoop, emitStep, hacc]
  obtain ⟨rel, _⟩ := emitLoop_from1 ds mw bd _ egr hegr (l1 :: rest) (emitAccess mw bd {} acc (some l1)) hne hall hn
  simp only [emit, hloop]
  rw [rel.steps]
  simp [emitAccess]

end Tr
