/-
  TrVerif.Proofs.DataWF — a well-formed dataset meets the hypotheses of the clean-up lemma
  (`TimeWF`, `SliceOK`), for the restricted dataset a calculation runs on.
-/
import TrVerif.Proofs.Cleanup
namespace Tr

/-- the well-formedness of the quantifier of C01: unique trip identifiers, times non-decreasing
    along each trip (arrivals, departures, and each hop takes >= 0 s), walks >= 0, every stop a
    vehicle leaves from is transferable to itself in 0 s -/
structure WFData (ds : Dataset) : Prop extends WFSchedule ds where
  depMono : ∀ tr ∈ ds.trips, ∀ i j, i ≤ j → j < tr.arr.length → tr.dep.getD i 0 ≤ tr.dep.getD j 0
  hop : ∀ tr ∈ ds.trips, ∀ i, i + 1 < tr.arr.length → tr.dep.getD i 0 ≤ tr.arr.getD (i + 1) 0
  footNonneg : ∀ f ∈ ds.foot, 0 ≤ f.time
  selfFoot : ∀ c ∈ ds.conns, ∃ d, (⟨c.depStop, c.depStop, 0, d⟩ : Foot) ∈ ds.foot

theorem tripConnsAux_dep (tr : TripRec) (stops : List Nat) (mw : Int) : ∀ (n k : Nat),
    ∀ c ∈ tripConnsAux tr stops mw k n, c.dep = tr.dep.getD (c.seq - 1) 0 := by
  intro n
  induction n with
  | zero => intro k c hc; simp [tripConnsAux] at hc
  | succ n ih =>
    intro k c hc
    simp only [tripConnsAux, List.mem_cons] at hc
    rcases hc with e | e
    · subst e; simp
    · exact ih (k + 1) c e

theorem restrict_trips_sub (ds : Dataset) (cs : ConnSet) : ∀ tr ∈ (ds.restrict cs).trips, tr ∈ ds.trips := by
  intro tr h; simp only [Dataset.restrict] at h; exact (List.mem_filter.mp h).1

theorem restrict_wfSchedule {ds : Dataset} (h : WFSchedule ds) (cs : ConnSet) : WFSchedule (ds.restrict cs) := by
  constructor
  · simp only [Dataset.restrict]
    exact List.Nodup.sublist (List.Sublist.map _ List.filter_sublist) h.nodup
  · intro tr htr; exact h.arrMono tr (restrict_trips_sub ds cs tr htr)

theorem restrict_tripConns (ds : Dataset) (cs : ConnSet) (tr : TripRec) : (ds.restrict cs).tripConns tr = ds.tripConns tr := rfl

/-- the trip record behind a connection of the scenario's connection set is kept by `restrict` -/
theorem conn_trip_in_restrict {ds : Dataset} (h : WFSchedule ds) (sc : Scenario) {c : Conn}
    (hc : c ∈ (ds.connSetOf sc).rev) :
    ∃ tr, tr ∈ (ds.restrict (ds.connSetOf sc)).trips ∧ tr ∈ ds.trips ∧ c ∈ ds.tripConns tr ∧ c.trip = tr.id := by
  have hcc := connSetOf_rev_sub ds sc c hc
  obtain ⟨tr, htr, hct⟩ := mem_conns hcc
  have hid := tripConns_trip ds tr c hct
  have hen : ds.tripEnabled sc c.trip = true := by
    simp only [Dataset.connSetOf, mkConnSet, List.mem_filter] at hc; exact hc.2
  refine ⟨tr, ?_, htr, hct, hid⟩
  simp only [Dataset.restrict, List.mem_filter]
  refine ⟨htr, ?_⟩
  simp only [Dataset.connSetOf, mkConnSet, List.contains_iff_mem, List.mem_filter]
  exact ⟨List.mem_map_of_mem htr, by rw [← hid]; exact hen⟩

theorem sliceOK_dataset {ds : Dataset} (h : WFData ds) (p : Params) (sc : Scenario) (a e : List NTD) (depT arrT : Int) :
    SliceOK (mkCtx (ds.restrict (ds.connSetOf sc)) p (ds.connSetOf sc) a e depT arrT) (ds.connSetOf sc).rev := by
  intro ec hec xc hxc htrip hseq c hc
  obtain ⟨tr, htrR, htr, hect, heid⟩ := conn_trip_in_restrict h.toWFSchedule sc hec
  obtain ⟨tr2, _, htr2, hxct, hxid⟩ := conn_trip_in_restrict h.toWFSchedule sc hxc
  have : tr = tr2 := trip_unique h.nodup htr htr2 (by rw [← heid, ← hxid, htrip])
  subst this
  obtain ⟨_, e2, _, _, _⟩ := tripConns_facts ds tr ec hect
  obtain ⟨_, x2, x3, _, _⟩ := tripConns_facts ds tr xc hxct
  have hlen : (ds.tripConns tr).length = tr.arr.length - 1 := tripConnsAux_length _ _ _ _ _
  have hwfR := restrict_wfSchedule h.toWFSchedule (ds.connSetOf sc)
  have hc' : c ∈ revSlice (ds.restrict (ds.connSetOf sc)) tr.id (ec.seq - 1) (xc.seq - 1) := by rw [← heid]; exact hc
  obtain ⟨m1, m2, m3⟩ := revSlice_mem hwfR htrR (s0 := ec.seq - 1) (s1 := xc.seq - 1) (by omega)
    (by rw [restrict_tripConns, hlen]; omega) hc'
  rw [restrict_tripConns] at m1
  have hcid := tripConns_trip ds tr c m1
  refine ⟨?_, by rw [hcid, heid], by omega, by omega⟩
  -- c belongs to the scenario's reverse list: it is a connection of an enabled trip
  simp only [Dataset.connSetOf, mkConnSet, List.mem_filter]
  refine ⟨(mem_isort revLt c _).mpr ?_, ?_⟩
  · simp only [Dataset.conns, List.mem_flatMap]; exact ⟨tr, htr, m1⟩
  · have : ds.tripEnabled sc ec.trip = true := by
      simp only [Dataset.connSetOf, mkConnSet, List.mem_filter] at hec; exact hec.2
    rw [hcid, ← heid]; exact this

theorem timeWF_dataset {ds : Dataset} (h : WFData ds) (p : Params) (hmw : 0 ≤ p.minWait) (hmt : 0 ≤ p.maxTransfer)
    (sc : Scenario) (a e : List NTD) (depT arrT : Int) :
    TimeWF (mkCtx (ds.restrict (ds.connSetOf sc)) p (ds.connSetOf sc) a e depT arrT) (ds.connSetOf sc).rev := by
  have hsub := connSetOf_rev_sub ds sc
  -- two connections of one trip come from one trip record
  have same : ∀ a ∈ (ds.connSetOf sc).rev, ∀ b ∈ (ds.connSetOf sc).rev, a.trip = b.trip →
      ∃ tr ∈ ds.trips, a ∈ ds.tripConns tr ∧ b ∈ ds.tripConns tr := by
    intro a ha b hb ht
    obtain ⟨t1, h1, ha'⟩ := mem_conns (hsub a ha)
    obtain ⟨t2, h2, hb'⟩ := mem_conns (hsub b hb)
    have : t1 = t2 := trip_unique h.nodup h1 h2 (by rw [← tripConns_trip ds t1 a ha', ← tripConns_trip ds t2 b hb', ht])
    subst this
    exact ⟨t1, h1, ha', hb'⟩
  constructor
  · intro ec hec xc hxc ht hs
    obtain ⟨tr, htr, he', hx'⟩ := same ec hec xc hxc ht
    obtain ⟨_, e2, e3, _, _⟩ := tripConns_facts ds tr ec he'
    obtain ⟨_, _, x3, x4, _⟩ := tripConns_facts ds tr xc hx'
    have hd := tripConnsAux_dep tr _ _ _ 0 ec he'
    rw [hd, x4]
    have h1 := h.hop tr htr (ec.seq - 1) (by omega)
    have h2 := h.arrMono tr htr ec.seq xc.seq hs (by omega)
    have : ec.seq - 1 + 1 = ec.seq := by omega
    rw [this] at h1
    omega
  · intro a ha b hb; exact conns_arrMono h.toWFSchedule a (hsub a ha) b (hsub b hb)
  · intro a ha b hb ht hs
    obtain ⟨tr, htr, ha', hb'⟩ := same a ha b hb ht
    obtain ⟨_, a2, _, _, _⟩ := tripConns_facts ds tr a ha'
    obtain ⟨_, _, b3, _, _⟩ := tripConns_facts ds tr b hb'
    rw [tripConnsAux_dep tr _ _ _ 0 a ha', tripConnsAux_dep tr _ _ _ 0 b hb']
    exact h.depMono tr htr _ _ (by omega) (by omega)
  · intro a ha b hb ht
    show a.effWait p.minWait = b.effWait p.minWait
    rw [conns_effWait h.toWFSchedule p a (hsub a ha), conns_effWait h.toWFSchedule p b (hsub b hb), ht]
  · exact hmw
  · intro z n hn
    show 0 ≤ n.time
    have := rfootOf_mem (ds := ds.restrict (ds.connSetOf sc)) hn
    exact h.footNonneg _ this
  · intro c hc
    obtain ⟨d, hd⟩ := h.selfFoot c (hsub c hc)
    refine ⟨d, ?_⟩
    show (⟨c.depStop, 0, d⟩ : NTD) ∈ (ds.restrict (ds.connSetOf sc)).rfootOf c.depStop
    simp only [Dataset.rfootOf, Dataset.restrict, List.mem_filterMap]
    exact ⟨_, hd, by simp⟩
  · exact hmt

end Tr
