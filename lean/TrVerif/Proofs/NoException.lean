/-
  TrVerif.Proofs.NoException — the reconstruction of a journey from the tables of the reverse
  scan terminates and finds the entries it looks up, the clean-up terminates: on well-formed data
  `reverseJourney` never ends in the model's `exception` outcome (which stands for a C++ loop
  that does not end, or an out-of-range `map::at`).

  Reconstruction: the labels of the stops the chain visits strictly increase (a stop's label is at
  most the departure of the boarding kept for it, a vehicle takes time to the alighting stop, and
  the alighting is no later than that stop's label), so no stop is visited twice and the chain is
  shorter than the number of stops.
-/
import TrVerif.Proofs.Terminate
import TrVerif.Proofs.Assembly
namespace Tr

/-! ### counting the stops with a later label -/

theorem countP_lt_of {α : Type} (p q : α → Bool) : ∀ (l : List α), (∀ x ∈ l, p x = true → q x = true) →
    (∃ x ∈ l, q x = true ∧ p x = false) → l.countP p < l.countP q := by
  intro l
  induction l with
  | nil => intro _ ⟨x, hx, _⟩; cases hx
  | cons a rest ih =>
    intro himp ⟨x, hx, hq, hp⟩
    have hle : rest.countP p ≤ rest.countP q := by
      apply List.countP_mono_left
      intro y hy; exact himp y (List.mem_cons_of_mem _ hy)
    rw [List.countP_cons, List.countP_cons]
    rcases List.mem_cons.mp hx with e | e
    · subst e
      simp only [hq, hp, if_true]
      simp; omega
    · have := ih (fun y hy => himp y (List.mem_cons_of_mem _ hy)) ⟨x, e, hq, hp⟩
      by_cases hpa : p a = true
      · have := himp a (List.mem_cons_self ..) hpa
        simp [hpa, this]; omega
      · by_cases hqa : q a = true
        · simp [hpa, hqa]; omega
        · simp [hpa, hqa]; omega

def above (lab : Nat → Int) (n : Nat) (y : Nat) : Nat := (List.range n).countP (fun z => decide (lab z > lab y))

theorem above_le (lab : Nat → Int) (n y : Nat) : above lab n y ≤ n := by
  unfold above
  have := List.countP_le_length (p := fun z => decide (lab z > lab y)) (l := List.range n)
  simpa using this

theorem above_lt {lab : Nat → Int} {n y y' : Nat} (hy : y' < n) (hl : lab y < lab y') : above lab n y' < above lab n y := by
  unfold above
  apply countP_lt_of
  · intro z _ hz
    simp only [decide_eq_true_eq] at hz ⊢
    omega
  · exact ⟨y', List.mem_range.mpr hy, by simpa using hl, by simp⟩

/-- what the chain needs from the timetable: a vehicle takes time, stops are stops of the data -/
structure ChainWF (cx : Ctx) (C : List Conn) : Prop where
  strict : ∀ e ∈ C, ∀ x ∈ C, e.trip = x.trip → e.seq ≤ x.seq → e.dep < x.arr
  range : ∀ c ∈ C, c.arrStop < cx.ds.nStops

/-- the chain of stored steps ends before the fuel does -/
theorem reconLoop_terminates {cx : Ctx} {pre : List Conn} {s : RState} (hI : RInv cx pre s) (w : TimeWF cx pre)
    (hc : ChainWF cx pre) :
    ∀ (fuel : Nat) (y : Nat) (acc : List JStep) (last : Option Nat), above s.lab cx.ds.nStops y < fuel →
      ∃ r, reconLoop s.steps fuel (s.steps y) acc last = some r := by
  intro fuel
  induction fuel with
  | zero => intro y acc last h; omega
  | succ fuel ih =>
    intro y acc last hf
    simp only [reconLoop]
    by_cases hcn : (s.steps y).hasConns = true
    · rw [if_pos hcn]
      obtain ⟨e, x, he, hx⟩ := (hasConns_iff _).mp hcn
      obtain ⟨x', hx', hride, hfoot, _, hlab⟩ := hI.step y e he
      rw [hx] at hx'; cases hx'
      simp only [hx]
      apply ih
      have h1 := hc.strict e hride.1 x hride.2.1 hride.2.2.1 hride.2.2.2.1
      have h2 := w.footNonneg _ _ hfoot
      have h3 := effWait_nonneg e cx.p.minWait w.mw
      have h4 := hride.2.2.2.2.2.2
      simp only at h2
      have := above_lt (lab := s.lab) (n := cx.ds.nStops) (y := y) (y' := x.arrStop) (hc.range x hride.2.1) (by omega)
      omega
    · rw [if_neg hcn]; exact ⟨_, rfl⟩

theorem reconLoop_first_terminates {cx : Ctx} {pre : List Conn} {s : RState} (hI : RInv cx pre s) (w : TimeWF cx pre)
    (hc : ChainWF cx pre) (first : JStep) :
    ∃ r, reconLoop s.steps (cx.ds.nStops + 2) first [] none = some r := by
  show ∃ r, reconLoop s.steps ((cx.ds.nStops + 1) + 1) first [] none = some r
  rw [reconLoop]
  by_cases hcn : first.hasConns = true
  · rw [if_pos hcn]
    apply reconLoop_terminates hI w hc
    exact Nat.lt_succ_of_le (above_le _ _ _)
  · rw [if_neg hcn]; exact ⟨_, rfl⟩

/-- along valid legs the last alighting is no earlier than the first boarding -/
theorem legs_first_last {cx : Ctx} {C : List Conn} (w : TimeWF cx C) : ∀ {legs : List JStep} {l1 ln : JStep} {e1 xn : Conn},
    LegsOK cx C legs → legs.head? = some l1 → legs.getLast? = some ln → l1.enter = some e1 → ln.exit = some xn →
    e1.dep ≤ xn.arr := by
  intro legs l1 ln e1 xn hok hh hl he hx
  cases legs with
  | nil => cases hh
  | cons a rest =>
    simp only [List.head?_cons, Option.some.injEq] at hh
    subst hh
    obtain ⟨ea, xa, hea, hxa, hra⟩ := hok.head
    rw [he] at hea; cases hea
    have h1 := w.depArr _ hra.1 _ hra.2.1 hra.2.2.1 hra.2.2.2.1
    rcases List.eq_nil_or_concat rest with hr | ⟨M, T, hr⟩
    · subst hr
      simp only [List.getLast?_singleton, Option.some.injEq] at hl
      subst hl
      rw [hx] at hxa; cases hxa
      exact h1
    · subst hr
      rw [List.concat_eq_append] at hok hl
      have hl' : (a :: (M ++ [T])).getLast? = some T := by
        rw [show a :: (M ++ [T]) = (a :: M) ++ [T] by simp, List.getLast?_concat]
      rw [hl'] at hl; cases hl
      obtain ⟨eT, xT, heT, hxT, hrT⟩ := hok.isRide ln (by simp)
      rw [hx] at hxT; cases hxT
      have h2 := chain_time w (M := M) (F := a) (T := ln) (Q := []) hok hxa heT
      have h3 := w.depArr _ hrT.1 _ hrT.2.1 hrT.2.2.1 hrT.2.2.2.1
      have h4 := effWait_nonneg eT cx.p.minWait w.mw
      omega

theorem init_lab_untouched (cx : Ctx) (z : Nat) (h : cx.nodesEgress z = none) : (RState.init cx).lab z = -1 := by
  unfold RState.init
  simp only
  rw [foldl_upd_untouched (fun e => cx.arrT - e.time) z cx.egressFoot (fun _ => -1)]
  intro e he hs
  have := List.find?_eq_none.mp h e he
  simp [hs] at this

/-- **no exception from the reconstruction and the clean-up** -/
theorem reverseJourney_no_exception {cx : Ctx} {pre : List Conn} {s : RState} (hI : RInv cx pre s)
    (w : TimeWF cx pre) (hc : ChainWF cx pre) (hs : SliceOK cx pre) (hb : BetweenOK cx pre) (hu : UniqueSeq pre)
    (hacc : ∀ a ∈ cx.accessFoot, 0 ≤ a.time) (what : String) :
    reverseJourney cx s (bestAccess cx s) ≠ .exception what := by
  unfold reverseJourney
  cases hbst : bestAccess cx s with
  | none => simp
  | some b =>
    obtain ⟨bd, node⟩ := b
    simp only
    obtain ⟨js, e1, ac, hsacc, hje, hna, hbd, hbd0, hbdT⟩ := bestAccess_spec hbst
    rw [hsacc]
    simp only
    obtain ⟨res, hrec⟩ := reconLoop_first_terminates hI w hc js
    obtain ⟨legs, lastStop⟩ := res
    rw [hrec]
    simp only [hna]
    -- the reconstructed legs
    obtain ⟨e1', x1, a1, a2, a3, a4, a5⟩ := hI.acc node js hsacc
    rw [hje] at a1; cases a1
    have hconn : js.hasConns = true := (hasConns_iff js).mpr ⟨e1, x1, hje, a2⟩
    have hinit : RecInv cx pre s [] js none := by
      refine ⟨trivial, rfl, ?_, fun h => absurd rfl h⟩
      intro e he; rw [hje] at he; cases he; exact ⟨x1, a2, a3⟩
    have hres := reconLoop_valid hI _ _ _ _ _ _ hinit (fun _ => hconn) hrec
    have hhead := reconLoop_head s.steps _ _ _ _ _ _ (fun _ => hconn) hrec
    simp only [List.nil_append, List.head?_cons, Option.bind_some] at hhead
    obtain ⟨ll, el, xl, hl1, hl2, hl3, hl4, hl5, _, _⟩ := hres.fin
    -- the last stop is one the router offers: its label is not the initial -1
    have hacm := nodes_mem hna
    have hac0 := hacc ac hacm.1
    have hw1 := effWait_nonneg e1 cx.p.minWait w.mw
    obtain ⟨l1, hl1h⟩ : ∃ l1, legs.head? = some l1 := by
      cases hh : legs.head? with
      | none => rw [hh] at hhead; simp [hje] at hhead
      | some l1 => exact ⟨l1, rfl⟩
    have hl1e : l1.enter = some e1 := by rw [hl1h] at hhead; simpa [hje] using hhead
    have hchain := legs_first_last w hres.ok hl1h hl1 hl1e hl3
    cases heg : lastStop.bind cx.nodesEgress with
    | none =>
      exfalso
      rw [hl4] at heg
      simp only [Option.bind_some] at heg
      have := init_lab_untouched cx xl.arrStop heg
      rw [this] at hl5
      omega
    | some eg =>
      simp only
      have hJ : JourneyOK cx pre bd ([{ walk := ac.time, dist := ac.dist }] ++ legs ++ [{ walk := eg.time, dist := eg.dist }]) := by
        refine ⟨_, legs, _, rfl, rfl, rfl, hres.ne, hres.ok, ?_, ?_⟩
        · intro e he
          rw [hl1h] at he
          simp only [Option.bind_some] at he
          rw [hl1e] at he; cases he
          refine ⟨?_, by simp; omega, fun hd => by
            obtain ⟨ac', hna', _, hcap⟩ := a5 hd
            rw [hna] at hna'; cases hna'
            exact hcap⟩
          have : (⟨e1.depStop, ac.time, ac.dist⟩ : NTD) = ac := by
            cases ac; simp at hacm ⊢; rw [a4]; exact hacm.2.symm
          simp only []
          rw [this]; exact hacm.1
        · intro l x hl hx
          rw [hl1] at hl; cases hl
          rw [hl3] at hx; cases hx
          rw [hl4] at heg
          simp only [Option.bind_some] at heg
          have hm := nodes_mem heg
          have : (⟨xl.arrStop, eg.time, eg.dist⟩ : NTD) = eg := by
            cases eg; simp at hm ⊢; exact hm.2.symm
          simp only []
          rw [this]
          refine ⟨hm.1, ?_⟩
          intro hnd
          have hlab := init_lab_egress hnd hm.1
          rw [hm.2] at hlab
          rw [hlab] at hl5
          omega
      obtain ⟨o, ho⟩ := optimizeJourney_terminates w hs hb hu hJ
      rw [ho]
      simp


/-- **no exception from the reconstruction of one stop of an arrival accessibility map** -/
theorem reverseNode_no_exception {cx : Ctx} {pre : List Conn} {s : RState} (hI : RInv cx pre s)
    (w : TimeWF cx pre) (hc : ChainWF cx pre) (hs : SliceOK cx pre) (hb : BetweenOK cx pre) (hu : UniqueSeq pre)
    (hnn : ∀ c ∈ pre, 0 ≤ c.arr) (node : Nat) (what : String) :
    reverseNode cx s node ≠ .exception what := by
  unfold reverseNode
  cases hsacc : s.acc node with
  | none => simp
  | some js =>
    simp only
    obtain ⟨res, hrec⟩ := reconLoop_first_terminates hI w hc js
    obtain ⟨legs, lastStop⟩ := res
    rw [hrec]
    simp only
    obtain ⟨e1, x1, hje, a2, a3, a4, a5⟩ := hI.acc node js hsacc
    have hconn : js.hasConns = true := (hasConns_iff js).mpr ⟨e1, x1, hje, a2⟩
    have hinit : RecInv cx pre s [] js none := by
      refine ⟨trivial, rfl, ?_, fun h => absurd rfl h⟩
      intro e he; rw [hje] at he; cases he; exact ⟨x1, a2, a3⟩
    have hres := reconLoop_valid hI _ _ _ _ _ _ hinit (fun _ => hconn) hrec
    obtain ⟨ll, el, xl, hl1, hl2, hl3, hl4, hl5, _, _⟩ := hres.fin
    obtain ⟨el', xl', hel', hxl', hrl⟩ := hres.ok.isRide ll (List.mem_of_getLast? hl1)
    rw [hl3] at hxl'; cases hxl'
    have hx0 := hnn xl hrl.2.1
    cases heg : lastStop.bind cx.nodesEgress with
    | none =>
      exfalso
      rw [hl4] at heg
      simp only [Option.bind_some] at heg
      have := init_lab_untouched cx xl.arrStop heg
      rw [this] at hl5
      omega
    | some eg =>
      simp only
      have hJ : JShape cx pre (legs ++ [{ walk := eg.time, dist := eg.dist }]) :=
        ⟨[], legs, { walk := eg.time, dist := eg.dist }, by simp, (fun a ha => by cases ha), rfl, hres.ne, hres.ok⟩
      obtain ⟨o, ho⟩ := optimizeJourney_terminates' w hs hb hu hJ
      rw [ho]
      simp only [hje]
      split <;> simp

theorem collectNodes_no_exception (f : Nat → Outcome (Option AccNode)) (hf : ∀ n what, f n ≠ .exception what) :
    ∀ (l : List Nat) (acc : List AccNode) (what : String), collectNodes f l acc ≠ .exception what := by
  intro l
  induction l with
  | nil => intro acc what; simp [collectNodes]
  | cons n ns ih =>
    intro acc what
    simp only [collectNodes]
    cases hfn : f n with
    | ok o =>
      cases o with
      | none => exact ih _ _
      | some a => exact ih _ _
    | noRouting r => simp
    | exception w' => exact absurd hfn (hf n w')

end Tr
