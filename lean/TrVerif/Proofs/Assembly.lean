/-
  TrVerif.Proofs.Assembly — from the reverse-scan invariant to the rendered route:
  best access stop, reconstruction, clean-up (as a named hypothesis `CleanupPreserves`),
  emission.
-/
import TrVerif.Proofs.RenderValid
import TrVerif.Model.Calc
namespace Tr

/-- the walking router lists every stop at most once around the destination (then the entry the
    reconstruction looks up is the one that seeded the label) -/
def Ctx.EgrNodup (cx : Ctx) : Prop := (cx.egressFoot.map (·.stop)).Nodup

/-- the first-waiting test of a departure-time query: counted from the moment the traveller can
    stand at the first stop (requested departure + access walk), the wait for the first vehicle is
    within the cap - unless the cap is smaller than the minimum waiting time in force, which no
    boarding could satisfy (DESIGN 0.5) -/
def FirstWaitOK (cx : Ctx) (e : Conn) (walk : Int) : Prop :=
  cx.depT ≠ -1 → (cx.p.maxFirstWait < e.effWait cx.p.minWait ∨ e.dep - cx.depT - walk ≤ cx.p.maxFirstWait)

/-- a complete journey: access step, at least one leg, egress step, all consistent with the
    tables of the walking router and with the departure time `bd` -/
def JourneyOK (cx : Ctx) (C : List Conn) (bd : Int) (j : List JStep) : Prop :=
  ∃ acc legs egr, j = [acc] ++ legs ++ [egr] ∧ acc.enter = none ∧ egr.enter = none ∧ legs ≠ [] ∧
    LegsOK cx C legs ∧
    (∀ e, legs.head?.bind (·.enter) = some e →
      (⟨e.depStop, acc.walk, acc.dist⟩ : NTD) ∈ cx.accessFoot ∧ bd + acc.walk + e.effWait cx.p.minWait ≤ e.dep ∧
      FirstWaitOK cx e acc.walk) ∧
    (∀ l x, legs.getLast? = some l → l.exit = some x → (⟨x.arrStop, egr.walk, egr.dist⟩ : NTD) ∈ cx.egressFoot ∧
      (cx.EgrNodup → x.arr + egr.walk ≤ cx.arrT))

/-- the journey clean-up (`optimizeJourney`) maps valid journeys to valid journeys -/
def CleanupPreserves (cx : Ctx) (C : List Conn) : Prop :=
  ∀ bd j o, JourneyOK cx C bd j → optimizeJourney cx.ds j = some o → JourneyOK cx C bd o.journey

theorem LegsOK.allLegs {cx : Ctx} {C : List Conn} : ∀ {legs : List JStep}, LegsOK cx C legs → AllLegs legs := by
  intro legs
  induction legs with
  | nil => intro _ l hl; cases hl
  | cons a rest ih =>
    intro h l hl
    cases rest with
    | nil =>
      obtain ⟨e, x, he, hx, _⟩ := h
      rcases List.mem_cons.mp hl with rfl | h'
      · exact ⟨e, x, he, hx⟩
      · cases h'
    | cons b r2 =>
      obtain ⟨⟨e, x, _, he, hx, _⟩, hrest⟩ := h
      rcases List.mem_cons.mp hl with rfl | h'
      · exact ⟨e, x, he, hx⟩
      · exact ih hrest l h'

theorem LegsOK.mem_enter {cx : Ctx} {C : List Conn} : ∀ {legs : List JStep}, LegsOK cx C legs →
    ∀ l ∈ legs, ∀ e, l.enter = some e → e ∈ C := by
  intro legs
  induction legs with
  | nil => intro _ l hl; cases hl
  | cons a rest ih =>
    intro h l hl e he
    cases rest with
    | nil =>
      obtain ⟨e0, x, he0, _, hr⟩ := h
      rcases List.mem_cons.mp hl with rfl | h'
      · rw [he0] at he; cases he; exact hr.1
      · cases h'
    | cons b r2 =>
      obtain ⟨⟨e0, x, _, he0, _, hr, _⟩, hrest⟩ := h
      rcases List.mem_cons.mp hl with rfl | h'
      · rw [he0] at he; cases he; exact hr.1
      · exact ih hrest l h' e he

/-- a valid journey is rendered to a valid itinerary -/
theorem emit_valid {cx : Ctx} {C T : List Conn} (hCT : ∀ c ∈ C, c ∈ T) (mwOf : Nat → Int)
    (hmw : ∀ c ∈ C, c.effWait cx.p.minWait = mwOf c.trip) {bd : Int} {j : List JStep} (h : JourneyOK cx C bd j) :
    ValidItinerary T cx.ds.foot cx.accessFoot cx.egressFoot mwOf (emit cx.ds cx.p.minWait bd j) := by
  obtain ⟨acc, legs, egr, rfl, hacc, hegr, hne, hok, hfirst, hlast⟩ := h
  obtain ⟨hsteps, hdep⟩ := emit_steps cx.ds cx.p.minWait bd acc egr legs hacc hegr hne hok.allLegs
  obtain ⟨l1, rest, rfl⟩ : ∃ l1 rest, legs = l1 :: rest := by
    cases legs with
    | nil => exact absurd rfl hne
    | cons a b => exact ⟨a, b, rfl⟩
  obtain ⟨e1, x1, he1, hx1⟩ := hok.allLegs l1 (List.mem_cons_self ..)
  have hf := hfirst e1 (by simp [he1])
  have hrides := stepsOfLegs_valid cx C T hCT mwOf cx.egressFoot egr (l1 :: rest) (bd + acc.walk) hne hok
    (fun l hl e he => hmw e (hok.mem_enter l hl e he))
    (by intro e h; simp [he1] at h; subst h; exact hf.2.1)
    (fun l x hl hx => ⟨egr.dist, (hlast l x hl hx).1⟩)
  have hhead := stepsOfLegs_head cx.ds cx.p.minWait egr l1 rest (bd + acc.walk) e1 x1 he1 hx1
  obtain ⟨tail, htail⟩ : ∃ tail, stepsOfLegs cx.ds cx.p.minWait (bd + acc.walk) (l1 :: rest) egr
      = boardOf (bd + acc.walk) e1 :: tail := by
    cases hs : stepsOfLegs cx.ds cx.p.minWait (bd + acc.walk) (l1 :: rest) egr with
    | nil => rw [hs] at hhead; simp at hhead
    | cons a b => rw [hs] at hhead; simp at hhead; exact ⟨b, by rw [hhead]⟩
  unfold ValidItinerary
  rw [hsteps, hdep, htail]
  rw [htail] at hrides
  simp only [boardOf, Step.stopOf]
  exact ⟨⟨acc.dist, hf.1⟩, by simpa [boardOf] using hrides⟩

/-! ### initial state, best access stop -/

theorem foldl_upd_enter (l : List NTD) (f : Nat → JStep) (h : ∀ y, (f y).enter = none) :
    ∀ y, ((l.foldl (fun g e => upd g e.stop ({ walk := e.time, dist := e.dist } : JStep)) f) y).enter = none := by
  induction l generalizing f with
  | nil => exact h
  | cons a rest ih =>
    apply ih
    intro y
    by_cases hy : y = a.stop
    · subst hy; simp
    · simp [upd, hy, h y]

theorem init_RInv (cx : Ctx) : RInv cx [] (RState.init cx) := by
  have hen : ∀ y, ((RState.init cx).steps y).enter = none := by
    intro y; exact foldl_upd_enter cx.egressFoot _ (fun _ => rfl) y
  constructor
  · intro T x h; simp [RState.init] at h
  · intro y e he; rw [hen y] at he; cases he
  · intro y _; exact ⟨rfl, rfl⟩
  · intro y a h; simp [RState.init] at h

theorem find_mem {l : List NTD} {s : Nat} {a : NTD} (h : l.find? (·.stop = s) = some a) : a ∈ l ∧ a.stop = s := by
  have := List.find?_some h
  exact ⟨List.mem_of_find?_eq_some h, by simpa using this⟩

/-- what the best-access selection returns -/
theorem bestAccess_spec {cx : Ctx} {s : RState} {t : Int} {node : Nat} (h : bestAccess cx s = some (t, node)) :
    ∃ js e ac, s.acc node = some js ∧ js.enter = some e ∧ cx.nodesAccess node = some ac ∧
      t = e.dep - ac.time - e.effWait cx.p.minWait ∧ 0 ≤ t ∧ cx.arrT - t ≤ cx.p.maxTotal := by
  unfold bestAccess at h
  -- invariant of the fold: the stop held in the accumulator (if any) satisfies the claim
  have key : ∀ (l : List NTD) (acc : Int × Option Nat),
      (∀ n, acc.2 = some n → ∃ js e ac, s.acc n = some js ∧ js.enter = some e ∧ cx.nodesAccess n = some ac ∧
        acc.1 = e.dep - ac.time - e.effWait cx.p.minWait ∧ 0 ≤ acc.1 ∧ cx.arrT - acc.1 ≤ cx.p.maxTotal) →
      ∀ n, (l.foldl (fun (acc : Int × Option Nat) a =>
        match s.acc a.stop with
        | some js => match js.enter, cx.nodesAccess a.stop with
          | some e, some ac =>
            let t := e.dep - ac.time - e.effWait cx.p.minWait
            if t ≥ 0 ∧ cx.arrT - t ≤ cx.p.maxTotal ∧ t > acc.1 ∧ t < MAX_INT then (t, some ac.stop) else acc
          | _, _ => acc
        | none => acc) acc).2 = some n →
        ∃ js e ac, s.acc n = some js ∧ js.enter = some e ∧ cx.nodesAccess n = some ac ∧
          (l.foldl (fun (acc : Int × Option Nat) a =>
        match s.acc a.stop with
        | some js => match js.enter, cx.nodesAccess a.stop with
          | some e, some ac =>
            let t := e.dep - ac.time - e.effWait cx.p.minWait
            if t ≥ 0 ∧ cx.arrT - t ≤ cx.p.maxTotal ∧ t > acc.1 ∧ t < MAX_INT then (t, some ac.stop) else acc
          | _, _ => acc
        | none => acc) acc).1 = e.dep - ac.time - e.effWait cx.p.minWait ∧
          0 ≤ (l.foldl (fun (acc : Int × Option Nat) a =>
        match s.acc a.stop with
        | some js => match js.enter, cx.nodesAccess a.stop with
          | some e, some ac =>
            let t := e.dep - ac.time - e.effWait cx.p.minWait
            if t ≥ 0 ∧ cx.arrT - t ≤ cx.p.maxTotal ∧ t > acc.1 ∧ t < MAX_INT then (t, some ac.stop) else acc
          | _, _ => acc
        | none => acc) acc).1 ∧
          cx.arrT - (l.foldl (fun (acc : Int × Option Nat) a =>
        match s.acc a.stop with
        | some js => match js.enter, cx.nodesAccess a.stop with
          | some e, some ac =>
            let t := e.dep - ac.time - e.effWait cx.p.minWait
            if t ≥ 0 ∧ cx.arrT - t ≤ cx.p.maxTotal ∧ t > acc.1 ∧ t < MAX_INT then (t, some ac.stop) else acc
          | _, _ => acc
        | none => acc) acc).1 ≤ cx.p.maxTotal := by
    intro l
    induction l with
    | nil => intro acc hacc n hn; exact hacc n hn
    | cons a rest ih =>
      intro acc hacc
      simp only [List.foldl]
      apply ih
      intro n hn
      cases hsa : s.acc a.stop with
      | none => simp only [hsa] at hn ⊢; exact hacc n hn
      | some js =>
        simp only [hsa] at hn ⊢
        cases hje : js.enter with
        | none => simp only [hje] at hn ⊢; exact hacc n hn
        | some e =>
          cases hna : cx.nodesAccess a.stop with
          | none => simp only [hje, hna] at hn ⊢; exact hacc n hn
          | some ac =>
            simp only [hje, hna] at hn ⊢
            split at hn
            · simp only [Option.some.injEq] at hn
              have hst : ac.stop = a.stop := (find_mem hna).2
              subst hn
              rename_i hc
              rw [if_pos hc]
              rw [hst]
              exact ⟨js, e, ac, hsa, hje, hna, rfl, hc.1, hc.2.1⟩
            · rename_i hc
              rw [if_neg hc]
              exact hacc n hn
  have := key cx.accessFoot (-1, none) (by intro n hn; cases hn) node
  generalize hr : (cx.accessFoot.foldl _ ((-1 : Int), (none : Option Nat))) = r at h this
  obtain ⟨r1, r2⟩ := r
  cases r2 with
  | none => simp at h
  | some n =>
    simp at h
    obtain ⟨h1, h2⟩ := h
    subst h1; subst h2
    obtain ⟨js, e, ac, a1, a2, a3, a4, a5, a6⟩ := this rfl
    exact ⟨js, e, ac, a1, a2, a3, a4, a5, a6⟩

/-- the first leg of the reconstructed journey boards what the loop started with -/
theorem reconLoop_head (steps : Nat → JStep) : ∀ (fuel : Nat) (cur : JStep) (acc : List JStep) (last : Option Nat)
    (legs : List JStep) (ls : Option Nat), (acc = [] → cur.hasConns = true) →
    reconLoop steps fuel cur acc last = some (legs, ls) →
    legs.head?.bind (·.enter) = (acc ++ [cur]).head?.bind (·.enter) := by
  intro fuel
  induction fuel with
  | zero =>
    intro cur acc last legs ls hne h
    simp only [reconLoop] at h
    split at h
    · cases h
    · rename_i hnc
      cases h
      cases acc with
      | nil => exact absurd (hne rfl) hnc
      | cons a b => simp
  | succ fuel ih =>
    intro cur acc last legs ls hne h
    simp only [reconLoop] at h
    split at h
    · have := ih _ _ _ _ _ (by simp) h
      rw [this]
      cases hg : acc.getLast? with
      | none =>
        have : acc = [] := List.getLast?_eq_none_iff.mp hg
        subst this; simp
      | some l =>
        have haccne : acc ≠ [] := by intro e; rw [e] at hg; simp at hg
        cases acc with
        | nil => exact absurd rfl haccne
        | cons a b =>
          cases b with
          | nil => simp at hg; subst hg; simp
          | cons b1 b2 => simp [List.dropLast]
    · rename_i hnc
      cases h
      cases acc with
      | nil => exact absurd (hne rfl) hnc
      | cons a b => simp

theorem foldl_upd_untouched {α : Type} (g : NTD → α) (s : Nat) :
    ∀ (l : List NTD) (f : Nat → α), (∀ e ∈ l, e.stop ≠ s) → (l.foldl (fun f e => upd f e.stop (g e)) f) s = f s := by
  intro l
  induction l with
  | nil => intro f _; rfl
  | cons a rest ih =>
    intro f h
    rw [List.foldl_cons, ih _ (fun e he => h e (List.mem_cons_of_mem _ he))]
    exact upd_other _ _ _ _ (fun e => h a (List.mem_cons_self ..) e.symm)

theorem foldl_upd_nodup {α : Type} (g : NTD → α) :
    ∀ (l : List NTD) (f : Nat → α), (l.map (·.stop)).Nodup → ∀ a ∈ l, (l.foldl (fun f e => upd f e.stop (g e)) f) a.stop = g a := by
  intro l
  induction l with
  | nil => intro f _ a ha; cases ha
  | cons b rest ih =>
    intro f hnd a ha
    rw [List.map_cons, List.nodup_cons] at hnd
    rw [List.foldl_cons]
    rcases List.mem_cons.mp ha with rfl | h
    · rw [foldl_upd_untouched g a.stop rest _ (fun e he hs => hnd.1 (by rw [← hs]; exact List.mem_map_of_mem he))]
      exact upd_same _ _ _
    · exact ih _ hnd.2 a h

/-- with a duplicate-free egress list, the initial label of an egress stop is the requested
    arrival minus its walk -/
theorem init_lab_egress {cx : Ctx} (hnd : cx.EgrNodup) {eg : NTD} (h : eg ∈ cx.egressFoot) :
    (RState.init cx).lab eg.stop = cx.arrT - eg.time := by
  unfold RState.init
  exact foldl_upd_nodup (fun e => cx.arrT - e.time) cx.egressFoot _ hnd eg h

/-- the arrival chosen by the forward pass lies within max_travel_time of the requested departure -/
theorem bestEgress_spec {cx : Ctx} {s : FState} {t : Int} {n : Nat} (h : bestEgress cx s = some (t, n)) :
    t - cx.depT ≤ cx.p.maxTotal := by
  unfold bestEgress at h
  have key : ∀ (l : List NTD) (acc : Int × Option Nat), (acc.2.isSome = true → acc.1 - cx.depT ≤ cx.p.maxTotal) →
      ((l.foldl (fun (acc : Int × Option Nat) e =>
        match s.egr e.stop with
        | some js => match js.exit, cx.nodesEgress e.stop with
          | some x, some eg =>
            let t := x.arr + eg.time
            if t ≥ 0 ∧ t - cx.depT ≤ cx.p.maxTotal ∧ t < acc.1 ∧ t < MAX_INT then (t, some eg.stop) else acc
          | _, _ => acc
        | none => acc) acc).2.isSome = true →
       (l.foldl (fun (acc : Int × Option Nat) e =>
        match s.egr e.stop with
        | some js => match js.exit, cx.nodesEgress e.stop with
          | some x, some eg =>
            let t := x.arr + eg.time
            if t ≥ 0 ∧ t - cx.depT ≤ cx.p.maxTotal ∧ t < acc.1 ∧ t < MAX_INT then (t, some eg.stop) else acc
          | _, _ => acc
        | none => acc) acc).1 - cx.depT ≤ cx.p.maxTotal) := by
    intro l
    induction l with
    | nil => intro acc h0 h1; exact h0 h1
    | cons e rest ih =>
      intro acc h0
      rw [List.foldl_cons]
      apply ih
      cases hs : s.egr e.stop with
      | none => simpa using h0
      | some js =>
        cases hx : js.exit with
        | none => simpa [hx] using h0
        | some x =>
          cases hg : cx.nodesEgress e.stop with
          | none => simpa [hx, hg] using h0
          | some eg =>
            simp only [hx, hg]
            by_cases hc : x.arr + eg.time ≥ 0 ∧ x.arr + eg.time - cx.depT ≤ cx.p.maxTotal ∧ x.arr + eg.time < acc.1 ∧ x.arr + eg.time < MAX_INT
            · rw [if_pos hc]; intro _; exact hc.2.1
            · rw [if_neg hc]; exact h0
  revert h
  generalize hr : (cx.egressFoot.foldl (fun (acc : Int × Option Nat) e =>
        match s.egr e.stop with
        | some js => match js.exit, cx.nodesEgress e.stop with
          | some x, some eg =>
            let t := x.arr + eg.time
            if t ≥ 0 ∧ t - cx.depT ≤ cx.p.maxTotal ∧ t < acc.1 ∧ t < MAX_INT then (t, some eg.stop) else acc
          | _, _ => acc
        | none => acc) (MAX_INT, none)) = r
  intro h
  have hk := key cx.egressFoot (MAX_INT, none) (by simp)
  rw [hr] at hk
  cases hr2 : r.2 with
  | none => simp [hr2] at h
  | some st =>
    simp [hr2] at h
    rw [← h.1]
    exact hk (by simp [hr2])

theorem nodes_mem {l : List NTD} {s : Nat} {a : NTD} (h : l.find? (·.stop = s) = some a) : a ∈ l ∧ a.stop = s :=
  find_mem h

/-- what `reverseJourneyStep` returns is `emit` of a valid journey -/
theorem reverseJourney_emits {cx : Ctx} {pre : List Conn} {s : RState} (hI : RInv cx pre s)
    (hclean : CleanupPreserves cx pre) {r : Route}
    (h : reverseJourney cx s (bestAccess cx s) = .ok r) :
    ∃ bd j, r = emit cx.ds cx.p.minWait bd j ∧ JourneyOK cx pre bd j ∧
      0 ≤ bd ∧ cx.arrT - bd ≤ cx.p.maxTotal ∧ (cx.depT ≠ -1 → cx.depT ≤ bd) := by
  unfold reverseJourney at h
  cases hb : bestAccess cx s with
  | none => rw [hb] at h; cases h
  | some b =>
    obtain ⟨bd, node⟩ := b
    rw [hb] at h
    simp only at h
    obtain ⟨js, e1, ac, hacc, hje, hna, hbd, hbd0, hbdT⟩ := bestAccess_spec hb
    rw [hacc] at h
    simp only at h
    cases hrec : reconLoop s.steps (cx.ds.nStops + 2) js [] none with
    | none => rw [hrec] at h; cases h
    | some res =>
      obtain ⟨legs, lastStop⟩ := res
      rw [hrec] at h
      simp only [hna] at h
      cases heg : lastStop.bind cx.nodesEgress with
      | none => rw [heg] at h; cases h
      | some eg =>
        rw [heg] at h
        simp only at h
        cases hopt : optimizeJourney cx.ds ([{ walk := ac.time, dist := ac.dist }] ++ legs ++ [{ walk := eg.time, dist := eg.dist }]) with
        | none => rw [hopt] at h; cases h
        | some o =>
          rw [hopt] at h
          simp only [Outcome.ok.injEq] at h
          subst h
          -- the reconstructed journey is valid
          obtain ⟨e1', x1, a1, a2, a3, a4, a5⟩ := hI.acc node js hacc
          rw [hje] at a1; cases a1
          have hconn : js.hasConns = true := (hasConns_iff js).mpr ⟨e1, x1, hje, a2⟩
          have hinit : RecInv cx pre s [] js none := by
            refine ⟨trivial, rfl, ?_, fun h => absurd rfl h⟩
            intro e he; rw [hje] at he; cases he; exact ⟨x1, a2, a3⟩
          have hres := reconLoop_valid hI _ _ _ _ _ _ hinit (fun _ => hconn) hrec
          have hhead := reconLoop_head s.steps _ _ _ _ _ _ (fun _ => hconn) hrec
          simp only [List.nil_append, List.head?_cons, Option.bind_some] at hhead
          obtain ⟨ll, el, xl, hl1, hl2, hl3, hl4, hl5, _, _⟩ := hres.fin
          have hJ : JourneyOK cx pre bd ([{ walk := ac.time, dist := ac.dist }] ++ legs ++ [{ walk := eg.time, dist := eg.dist }]) := by
            refine ⟨_, legs, _, rfl, rfl, rfl, hres.ne, hres.ok, ?_, ?_⟩
            · intro e he
              rw [hhead, hje] at he; cases he
              have hm := nodes_mem hna
              refine ⟨?_, by simp; omega, fun hd => by
                obtain ⟨ac', hna', _, hcap⟩ := a5 hd
                rw [hna] at hna'; cases hna'
                exact hcap⟩
              have : (⟨e1.depStop, ac.time, ac.dist⟩ : NTD) = ac := by
                cases ac; simp at hm ⊢; rw [a4]; exact hm.2.symm
              simp only []
              rw [this]; exact hm.1
            · intro l x hl hx
              rw [hl1] at hl; cases hl
              rw [hl3] at hx; cases hx
              rw [hl4] at heg
              simp only [Option.bind_some] at heg
              have hm := nodes_mem heg
              have : (⟨xl.arrStop, eg.time, eg.dist⟩ : NTD) = eg := by
                cases eg; simp at hm ⊢; exact hm.2.symm
              simp only []
              rw [this]
              refine ⟨hm.1, ?_⟩
              intro hnd
              have hlab := init_lab_egress hnd hm.1
              rw [hm.2] at hlab
              rw [hlab] at hl5
              omega
          refine ⟨bd, o.journey, rfl, hclean bd _ o hJ hopt, hbd0, hbdT, ?_⟩
          intro hd
          obtain ⟨ac', hna', hle, _⟩ := a5 hd
          rw [hna] at hna'; cases hna'
          omega

/-- **`reverseJourneyStep` returns a valid itinerary** whenever the clean-up preserves validity -/
theorem reverseJourney_valid {cx : Ctx} {pre T : List Conn} {s : RState} (hI : RInv cx pre s)
    (hpT : ∀ c ∈ pre, c ∈ T) (mwOf : Nat → Int) (hmw : ∀ c ∈ pre, c.effWait cx.p.minWait = mwOf c.trip)
    (hclean : CleanupPreserves cx pre) {r : Route}
    (h : reverseJourney cx s (bestAccess cx s) = .ok r) :
    ValidItinerary T cx.ds.foot cx.accessFoot cx.egressFoot mwOf r := by
  obtain ⟨bd, j, rfl, hJ, _⟩ := reverseJourney_emits hI hclean h
  exact emit_valid hpT mwOf hmw hJ

end Tr
