/-
  Proofs/LoadMaps — `std::map` lemmas for the loader round trip: inserting a key larger than all
  present ones appends; look-ups in the tables that `encode` produces (`expFrom`).
-/
import TrVerif.Model.Encode
namespace Tr.Load

theorem K_inj {k a b : Nat} : K k a = K k b ↔ a = b := by unfold K; omega
theorem K_lt {k a b : Nat} : K k a < K k b ↔ a < b := by unfold K; omega

theorem emplace_last {α} : ∀ (m : Map α) (k : Nat) (v : α), (∀ p ∈ m, p.1 < k) → m.emplace k v = m ++ [(k, v)] := by
  intro m
  induction m with
  | nil => intro k v _; rfl
  | cons q m ih =>
    intro k v h
    obtain ⟨k', v'⟩ := q
    have hk : k' < k := h (k', v') (by simp)
    rw [Map.emplace, if_neg (by omega), if_neg (by omega), ih k v (fun p hp => h p (List.mem_cons_of_mem _ hp))]
    rfl

theorem set_last {α} : ∀ (m : Map α) (k : Nat) (v : α), (∀ p ∈ m, p.1 < k) → m.set k v = m ++ [(k, v)] := by
  intro m
  induction m with
  | nil => intro k v _; rfl
  | cons q m ih =>
    intro k v h
    obtain ⟨k', v'⟩ := q
    have hk : k' < k := h (k', v') (by simp)
    rw [Map.set, if_neg (by omega), if_neg (by omega), ih k v (fun p hp => h p (List.mem_cons_of_mem _ hp))]
    rfl

/-- the table with keys `K k i, K k (i+1), …` and values computed from the records -/
def expFrom {α β : Type} (k : Nat) (g : Nat → β → α) : Nat → List β → Map α
  | _, [] => []
  | i, x :: xs => (K k i, g i x) :: expFrom k g (i+1) xs

theorem expFrom_keys_lt {α β} (k : Nat) (g : Nat → β → α) : ∀ (l : List β) (i : Nat), ∀ p ∈ expFrom k g i l, p.1 < K k (i + l.length) := by
  intro l
  induction l with
  | nil => intro i p hp; simp [expFrom] at hp
  | cons x xs ih =>
    intro i p hp
    simp only [expFrom, List.mem_cons] at hp
    rcases hp with rfl | hp
    · simp only [List.length_cons]; exact K_lt.2 (by omega)
    · have := ih (i+1) p hp
      simp only [List.length_cons]
      rw [show i + (xs.length + 1) = i + 1 + xs.length by omega]; exact this

theorem expFrom_lookup {α β} (k : Nat) (g : Nat → β → α) : ∀ (l : List β) (i j : Nat),
    (expFrom k g i l).lookup (K k j) = if i ≤ j then (l[j - i]?).map (g j) else none := by
  intro l
  induction l with
  | nil => intro i j; simp [expFrom]
  | cons x xs ih =>
    intro i j
    rw [expFrom, List.lookup_cons]
    by_cases hji : j = i
    · subst hji; simp
    · have hne : (K k j == K k i) = false := by simp [K_inj, hji]
      rw [hne, ih]
      by_cases hle : i ≤ j
      · have h1 : i + 1 ≤ j := by omega
        rw [if_pos hle, if_pos h1]
        have : j - i = (j - (i+1)) + 1 := by omega
        rw [this, List.getElem?_cons_succ]
      · rw [if_neg hle, if_neg (by omega)]

theorem expFrom_append {α β} (k : Nat) (g : Nat → β → α) : ∀ (l : List β) (i : Nat) (x : β),
    expFrom k g i (l ++ [x]) = expFrom k g i l ++ [(K k (i + l.length), g (i + l.length) x)] := by
  intro l
  induction l with
  | nil => intro i x; simp [expFrom]
  | cons y ys ih =>
    intro i x
    simp only [List.cons_append, expFrom, ih, List.length_cons]
    rw [show i + 1 + ys.length = i + (ys.length + 1) by omega]

theorem expFrom_has {α β} (k : Nat) (g : Nat → β → α) (l : List β) (j : Nat) :
    (expFrom k g 0 l).has (K k j) = decide (j < l.length) := by
  unfold Map.has
  rw [expFrom_lookup]
  simp only [Nat.zero_le, if_true, Nat.sub_zero]
  by_cases h : j < l.length
  · simp [h]
  · simp [h, List.getElem?_eq_none (Nat.le_of_not_lt h)]

theorem expFrom_get {α β} (k : Nat) (g : Nat → β → α) (l : List β) (j : Nat) :
    (expFrom k g 0 l).get? (K k j) = (l[j]?).map (g j) := by
  unfold Map.get?
  rw [expFrom_lookup]; simp

theorem expFrom_keys {α β} (k : Nat) (g : Nat → β → α) : ∀ (l : List β) (i : Nat),
    (expFrom k g i l).keys = (List.range' i l.length).map (K k) := by
  intro l
  induction l with
  | nil => intro i; rfl
  | cons x xs ih =>
    intro i
    simp only [expFrom, Map.keys, List.map_cons, List.length_cons, List.range'_succ]
    have := ih (i+1); simp only [Map.keys] at this; rw [this]

theorem expFrom_congr {α β} (k : Nat) (g g' : Nat → β → α) : ∀ (l : List β) (i : Nat),
    (∀ j x, i ≤ j → j < i + l.length → g j x = g' j x) → expFrom k g i l = expFrom k g' i l := by
  intro l
  induction l with
  | nil => intro i _; rfl
  | cons x xs ih =>
    intro i h
    simp only [expFrom]
    rw [h i x (Nat.le_refl _) (by simp), ih (i+1) (fun j y h1 h2 => h j y (by omega) (by simp only [List.length_cons]; omega))]

/-- `modify` on such a table changes the value function at one index -/
theorem expFrom_modify {α β} (k : Nat) (g : Nat → β → α) (f : α → α) (v : Nat) : ∀ (l : List β) (i : Nat),
    (expFrom k g i l).modify (K k v) f = expFrom k (fun j x => if j = v then f (g j x) else g j x) i l := by
  intro l
  induction l with
  | nil => intro i; rfl
  | cons x xs ih =>
    intro i
    have := ih (i+1)
    simp only [Map.modify] at this ⊢
    simp only [expFrom, List.map_cons, this]
    by_cases h : i = v
    · subst h; simp
    · simp [K_inj, h]

end Tr.Load
