/-
  TrVerif.Proofs.DataTerm — the connections built from a well-formed dataset provide what the
  termination proofs need (`BetweenOK`, `UniqueSeq`, `ChainWF`).
-/
import TrVerif.Proofs.NoException
import TrVerif.Proofs.DataWF
import TrVerif.Props.C09Complete
namespace Tr

/-- sorting a list that is already in order leaves it as it is -/
theorem isort_sorted {α : Type} (lt : α → α → Bool) : ∀ (l : List α), l.Pairwise (fun a b => lt b a = false) →
    isort lt l = l := by
  intro l
  induction l with
  | nil => intro _; rfl
  | cons a rest ih =>
    intro h
    have hp := List.pairwise_cons.mp h
    have e : isort lt (a :: rest) = insertBy lt a (isort lt rest) := rfl
    rw [e, ih hp.2, insertBy_of_forall lt a rest (fun c hc => hp.1 c hc)]

theorem tripConns_pairwise_fwd {ds : Dataset} {tr : TripRec}
    (hdep : ∀ i j, i ≤ j → j < tr.arr.length → tr.dep.getD i 0 ≤ tr.dep.getD j 0) :
    (ds.tripConns tr).Pairwise (fun a b => fwdLt b a = false) := by
  rw [List.pairwise_iff_getElem]
  intro i j hi hj hij
  have hmem_i : (ds.tripConns tr)[i] ∈ ds.tripConns tr := List.getElem_mem hi
  have hmem_j : (ds.tripConns tr)[j] ∈ ds.tripConns tr := List.getElem_mem hj
  obtain ⟨a1, _, _, _, _⟩ := tripConns_facts ds tr _ hmem_i
  obtain ⟨b1, _, b3, _, _⟩ := tripConns_facts ds tr _ hmem_j
  have si : ((ds.tripConns tr)[i]).seq = 0 + i + 1 := tripConnsAux_getElem _ _ _ _ 0 i hi
  have sj : ((ds.tripConns tr)[j]).seq = 0 + j + 1 := tripConnsAux_getElem _ _ _ _ 0 j hj
  have di := tripConnsAux_dep tr _ _ _ 0 _ hmem_i
  have dj := tripConnsAux_dep tr _ _ _ 0 _ hmem_j
  have hd : ((ds.tripConns tr)[i]).dep ≤ ((ds.tripConns tr)[j]).dep := by
    rw [di, dj]; exact hdep _ _ (by omega) (by omega)
  simp only [fwdLt, Bool.or_eq_false_iff, Bool.and_eq_false_iff, decide_eq_false_iff_not]
  omega

/-- `Trip::forwardConnections` of a well-formed dataset: the trip's connections in hop order -/
theorem tripFwd_eq {ds : Dataset} (h : WFSchedule ds) {tr : TripRec} (htr : tr ∈ ds.trips)
    (hdep : ∀ i j, i ≤ j → j < tr.arr.length → tr.dep.getD i 0 ≤ tr.dep.getD j 0) :
    ds.tripFwd tr.id = ds.tripConns tr := by
  simp only [Dataset.tripFwd, Dataset.fwdAll]
  rw [filter_isort fwdLt fwdLt_strictWeak, filter_conns_trip h htr, isort_sorted fwdLt _ (tripConns_pairwise_fwd hdep)]

theorem tripConns_getElem_eq (ds : Dataset) (tr : TripRec) (i : Nat) (hi : i < (ds.tripConns tr).length) :
    (ds.tripConns tr)[i] = mkConnOf tr (ds.paths.getD tr.path default).stops (ds.lineMinWait tr) i := by
  have hm : (ds.tripConns tr)[i] ∈ ds.tripConns tr := List.getElem_mem hi
  have e := tripConnsAux_eq tr _ _ _ 0 _ hm
  have s : ((ds.tripConns tr)[i]).seq = 0 + i + 1 := tripConnsAux_getElem _ _ _ _ 0 i hi
  rw [s] at e
  simpa [Dataset.lineMinWait] using e

theorem slice_of_index (L : List Conn) {s0 s1 idx : Nat} (h0 : s0 ≤ idx) (h1 : idx ≤ s1) (hs1 : s1 < L.length) :
    L[idx]'(by omega) ∈ (L.reverse.drop (L.length - 1 - s1)).take (s1 - s0 + 1) := by
  rw [List.mem_iff_getElem]
  refine ⟨s1 - idx, ?_, ?_⟩
  · simp only [List.length_take, List.length_drop, List.length_reverse]; omega
  · simp only [List.getElem_take, List.getElem_drop, List.getElem_reverse]
    congr 1
    omega

/-- an element of the trip's list whose index lies in the slice belongs to the slice -/
theorem revSlice_of_index {ds : Dataset} (h : WFSchedule ds) {tr : TripRec} (htr : tr ∈ ds.trips)
    {s0 s1 idx : Nat} (h0 : s0 ≤ idx) (h1 : idx ≤ s1) (hs1 : s1 < (ds.tripConns tr).length) :
    (ds.tripConns tr)[idx]'(by omega) ∈ revSlice ds tr.id s0 s1 := by
  simp only [revSlice, tripRev_eq h htr, List.length_reverse]
  exact slice_of_index _ h0 h1 hs1


theorem betweenOK_dataset {ds : Dataset} (h : WFData ds) (hr : DepStopsInRange ds) (p : Params) (sc : Scenario)
    (a e : List NTD) (depT arrT : Int) :
    BetweenOK (mkCtx (ds.restrict (ds.connSetOf sc)) p (ds.connSetOf sc) a e depT arrT) (ds.connSetOf sc).rev := by
  intro ec hec xc hxc htrip hseq nd hnd
  obtain ⟨tr, htrR, htr, hect, heid⟩ := conn_trip_in_restrict h.toWFSchedule sc hec
  obtain ⟨tr2, _, htr2, hxct, hxid⟩ := conn_trip_in_restrict h.toWFSchedule sc hxc
  have : tr = tr2 := trip_unique h.nodup htr htr2 (by rw [← heid, ← hxid, htrip])
  subst this
  obtain ⟨_, e2, _, _, _⟩ := tripConns_facts ds tr ec hect
  obtain ⟨_, x2, x3, _, _⟩ := tripConns_facts ds tr xc hxct
  have hlen : (ds.tripConns tr).length = tr.arr.length - 1 := tripConnsAux_length _ _ _ _ _
  have hwfR := restrict_wfSchedule h.toWFSchedule (ds.connSetOf sc)
  have hfwd : (ds.restrict (ds.connSetOf sc)).tripFwd ec.trip = ds.tripConns tr := by
    rw [heid, tripFwd_eq hwfR htrR (h.depMono tr htr)]; rfl
  simp only [legBetween, List.mem_filterMap, List.mem_range] at hnd
  obtain ⟨k, hk, hkk⟩ := hnd
  have hcxds : (mkCtx (ds.restrict (ds.connSetOf sc)) p (ds.connSetOf sc) a e depT arrT).ds = ds.restrict (ds.connSetOf sc) := rfl
  rw [hcxds, hfwd] at hkk
  have hidx : ec.seq - 1 + 1 + k < (ds.tripConns tr).length := by omega
  have hget : (ds.tripConns tr).getD (ec.seq - 1 + 1 + k) default = (ds.tripConns tr)[ec.seq - 1 + 1 + k] := by
    simp [List.getD, List.getElem?_eq_getElem hidx]
  rw [hget] at hkk
  have hndeq : nd = ((ds.tripConns tr)[ec.seq - 1 + 1 + k]).depStop := by
    split at hkk
    · simp only [Option.some.injEq] at hkk; exact hkk.symm
    · cases hkk
  have hmem : (ds.tripConns tr)[ec.seq - 1 + 1 + k] ∈ ds.conns := by
    simp only [Dataset.conns, List.mem_flatMap]; exact ⟨tr, htr, List.getElem_mem hidx⟩
  refine ⟨?_, ?_, ?_⟩
  · rw [hndeq]; exact hr _ hmem
  · refine ⟨(ds.tripConns tr)[ec.seq - 1 + k]'(by omega), ?_, ?_⟩
    · rw [hcxds, heid]
      exact revSlice_of_index hwfR htrR (idx := ec.seq - 1 + k) (by omega) (by omega)
        (by show xc.seq - 1 < (ds.tripConns tr).length; omega)
    · rw [hndeq, tripConns_getElem_eq ds tr _ (by omega), tripConns_getElem_eq ds tr _ hidx]
      simp only [mkConnOf]
      congr 1
      omega
  · refine ⟨(ds.tripConns tr)[ec.seq - 1 + 1 + k], ?_, hndeq.symm⟩
    rw [hcxds, heid]
    exact revSlice_of_index hwfR htrR (idx := ec.seq - 1 + 1 + k) (by omega) (by omega)
      (by show xc.seq - 1 < (ds.tripConns tr).length; omega)

theorem uniqueSeq_dataset {ds : Dataset} (h : WFSchedule ds) (sc : Scenario) : UniqueSeq (ds.connSetOf sc).rev := by
  intro a ha b hb ht hs
  exact conns_unique h a (connSetOf_rev_sub ds sc a ha) b (connSetOf_rev_sub ds sc b hb) ht hs

theorem chainWF_dataset {ds : Dataset} (h : WFData ds) (hpos : PosHops ds) (hr : StopsInRange ds) (p : Params) (sc : Scenario)
    (a e : List NTD) (depT arrT : Int) :
    ChainWF (mkCtx (ds.restrict (ds.connSetOf sc)) p (ds.connSetOf sc) a e depT arrT) (ds.connSetOf sc).rev := by
  have hsub := connSetOf_rev_sub ds sc
  refine ⟨?_, fun c hc => hr c (hsub c hc)⟩
  intro ec hec xc hxc ht hs
  obtain ⟨t1, h1, ha'⟩ := mem_conns (hsub ec hec)
  obtain ⟨t2, h2, hb'⟩ := mem_conns (hsub xc hxc)
  have : t1 = t2 := trip_unique h.nodup h1 h2 (by rw [← tripConns_trip ds t1 ec ha', ← tripConns_trip ds t2 xc hb', ht])
  subst this
  obtain ⟨_, e2, e3, _, _⟩ := tripConns_facts ds t1 ec ha'
  obtain ⟨_, _, x3, _, _⟩ := tripConns_facts ds t1 xc hb'
  have hd := tripConnsAux_dep t1 _ _ _ 0 ec ha'
  have hdx := tripConnsAux_dep t1 _ _ _ 0 xc hb'
  have hm := h.depMono t1 h1 (ec.seq - 1) (xc.seq - 1) (by omega) (by omega)
  have hp := hpos xc (hsub xc hxc)
  rw [hd]; rw [hdx] at hp
  omega

end Tr
