/-
  TrVerif.Proofs.ReverseSingle — completeness of the reverse scan of a SINGLE calculation
  (`single = true`): the extra filter on the shortest egress walk and the extra break once an
  access stop has been reached. The invariant is the one of `ReverseComplete`, relative to a cut
  line `θ`: nothing that arrives before `θ` is claimed. `θ` is chosen from the final state
  (`max_travel_time`, and - once an access stop is reached - its departure minus the longest
  access walk); states along the scan agree with the final one on that (`Frozen`).
-/
import TrVerif.Proofs.ReverseComplete
namespace Tr

/-- nobody needs to stand anywhere after the requested arrival minus the shortest egress walk -/
theorem RReach.time_le_min {cx : Ctx} {L P : List Conn} (w : RW cx L) (hP : ∀ a ∈ P, a ∈ L) {y : Nat} {t : Int}
    (h : RReach cx P y t) : t ≤ cx.arrT - cx.minEgress := by
  induction h with
  | egress g hg =>
    have := minTime_le cx.egressFoot g hg
    show cx.arrT - g.time ≤ cx.arrT - minTime cx.egressFoot
    omega
  | ride z t e x f _ he hx h1 h2 h3 h4 h5 h6 h7 h8 h9 ih =>
    have hw := effWait_nonneg e cx.p.minWait w.mw
    have h10 := w.depMono e (hP e he) x (hP x hx) h3 h4
    have h11 := w.posHop x (hP x hx)
    have h12 := w.footNonneg _ f h8
    omega

structure RCθ (cx : Ctx) (θ : Int) (P : List Conn) (s : RState) : Prop where
  lab : ∀ y t, RReach cx P y t → θ ≤ t → t ≤ s.lab y
  exit : ∀ x ∈ P, UnboardP cx P x → θ ≤ x.arr → (s.exitC x.trip).isSome = true
  acc : ∀ e ∈ P, ∀ x ∈ P, UnboardP cx P x → e.trip = x.trip → e.seq ≤ x.seq → e.canBoard = true → AccOK cx e →
    θ ≤ e.arr → AccGe cx s e.depStop (e.dep - e.effWait cx.p.minWait) ∧ 1 ≤ s.count
  stop : s.stop = true → ∃ c0 ∈ P, c0.arr < θ
  accWF : ∀ y js, s.acc y = some js → ∃ e, js.enter = some e
  /-- once an access stop is reached: by a boarding at a stop the router offers, kept at least as late -/
  reach : s.reached = true → ∃ c1 ∈ P, c1.dep = s.tentAccDep ∧ (∃ a1, cx.nodesAccess c1.depStop = some a1) ∧
    (AccOK cx c1 → AccGe cx s c1.depStop (c1.dep - c1.effWait cx.p.minWait)) ∧ 1 ≤ s.count
  /-- kept boardings are scanned connections -/
  accMem : ∀ y js e, s.acc y = some js → js.enter = some e → e ∈ P

theorem init_RCθ (cx : Ctx) (θ : Int) (hnd : (cx.egressFoot.map (·.stop)).Nodup) : RCθ cx θ [] (RState.init cx) := by
  have h := init_RC cx hnd
  refine ⟨?_, ?_, ?_, ?_, h.accWF, ?_, ?_⟩
  · intro y t hr _
    cases hr with
    | egress g hg =>
      have : (RState.init cx).lab g.stop = cx.arrT - g.time := by
        unfold RState.init
        exact foldl_upd_nodup (fun e => cx.arrT - e.time) cx.egressFoot _ hnd g hg
      omega
    | ride z t e x f _ he => cases he
  · intro x hx; cases hx
  · intro e he; cases he
  · intro h; simp [RState.init] at h
  · intro h; simp [RState.init] at h
  · intro y js e h; simp [RState.init] at h

/-! ### the single-calculation step -/

/-- the first boarding met at a stop the router offers marks the calculation as "reached" -/
def revMark (cx : Ctx) (s : RState) (c : Conn) : RState :=
  if ¬ s.reached = true ∧ ((cx.nodesAccess c.depStop).any fun (a : NTD) => decide (a.time ≠ -1)) = true then
    { s with reached := true, tentAccDep := c.dep }
  else s

theorem revBoard1_eq (cx : Ctx) (s : RState) (c : Conn) :
    revBoard cx true s c =
      if c.canBoard = true ∧ (s.exitC c.trip).isSome = true then
        (cx.ds.rfootOf c.depStop).foldl (revFoot cx c (c.effWait cx.p.minWait)) (revMark cx s c)
      else s := by
  unfold revBoard revMark
  simp only [true_and]

theorem revMark_facts (cx : Ctx) (s : RState) (c : Conn) :
    RBetter cx s (revMark cx s c) ∧ (revMark cx s c).acc = s.acc ∧ (revMark cx s c).stop = s.stop ∧
    (revMark cx s c).exitC = s.exitC ∧ (revMark cx s c).lab = s.lab ∧ (revMark cx s c).count = s.count := by
  unfold revMark
  split
  · exact ⟨⟨fun _ => Int.le_refl _, fun _ h => h, fun _ _ h => h⟩, rfl, rfl, rfl, rfl, rfl⟩
  · exact ⟨RBetter.refl cx s, rfl, rfl, rfl, rfl, rfl⟩

theorem revBoard1_better (cx : Ctx) (s : RState) (c : Conn) (hwf : ∀ y js, s.acc y = some js → ∃ e, js.enter = some e) :
    RBetter cx s (revBoard cx true s c) ∧ (∀ y js, (revBoard cx true s c).acc y = some js → ∃ e, js.enter = some e) ∧
    (revBoard cx true s c).stop = s.stop := by
  rw [revBoard1_eq]
  have hm := revMark_facts cx s c
  split
  · obtain ⟨a, b⟩ := revFoot_fold_better cx c (cx.ds.rfootOf c.depStop) (revMark cx s c) (by rw [hm.2.1]; exact hwf)
    exact ⟨RBetter.trans hm.1 a, b, by rw [revFoot_fold_stop]; exact hm.2.2.1⟩
  · exact ⟨RBetter.refl cx s, hwf, rfl⟩

theorem revStep1_cases (cx : Ctx) (s : RState) (c : Conn) :
    revStep cx (fun _ => true) true s c = s ∨
    (revStep cx (fun _ => true) true s c = { s with stop := true } ∧
      ((s.reached = true ∧ cx.maxAccess ≥ 0 ∧ c.arr < s.tentAccDep - cx.maxAccess - cx.p.minWait) ∨ cx.arrT - c.arr > cx.p.maxTotal)) ∨
    (s.stop = false ∧
      revStep cx (fun _ => true) true s c =
        { revBoard cx true (revUnboard cx s c) c with count := (revBoard cx true (revUnboard cx s c) c).count + 1 }) := by
  unfold revStep
  by_cases h1 : s.stop = true
  · left; rw [if_pos h1]
  · rw [if_neg h1]
    by_cases h2 : ¬ (c.arr ≤ cx.arrT - (if true = true then cx.minEgress else 0))
    · left; rw [if_pos h2]
    · rw [if_neg h2]
      by_cases h3 : ¬ ((fun _ => true) c.trip = true ∧ ¬ cx.disabled c.trip = true)
      · left; rw [if_pos h3]
      · rw [if_neg h3]
        by_cases h4 : revBreak cx true s c = true
        · right; left; rw [if_pos h4]
          refine ⟨rfl, ?_⟩
          unfold revBreak at h4
          simp only [decide_eq_true_eq] at h4
          rcases h4 with ⟨_, h5, h6, h7⟩ | h4
          · exact Or.inl ⟨h5, h6, h7⟩
          · exact Or.inr h4
        · rw [if_neg h4]
          by_cases h5 : ¬ ((s.exitC c.trip).isSome = true ∨ s.lab c.arrStop ≥ c.arr)
          · left; rw [if_pos h5]
          · rw [if_neg h5]
            right; right
            exact ⟨by simpa using h1, rfl⟩

theorem revStep1_main (cx : Ctx) (s : RState) (c : Conn) (h0 : s.stop = false) (h1 : c.arr ≤ cx.arrT - cx.minEgress)
    (h2 : cx.disabled c.trip = false) (h3 : cx.arrT - c.arr ≤ cx.p.maxTotal)
    (h3' : ¬ (s.reached = true ∧ cx.maxAccess ≥ 0 ∧ c.arr < s.tentAccDep - cx.maxAccess - cx.p.minWait))
    (h4 : (s.exitC c.trip).isSome = true ∨ s.lab c.arrStop ≥ c.arr) :
    revStep cx (fun _ => true) true s c =
      { revBoard cx true (revUnboard cx s c) c with count := (revBoard cx true (revUnboard cx s c) c).count + 1 } := by
  unfold revStep
  rw [if_neg (by rw [h0]; simp)]
  rw [if_neg (by simp; omega)]
  rw [if_neg (by rw [h2]; simp)]
  rw [if_neg (by
    unfold revBreak
    simp only [decide_eq_true_eq]
    intro hh
    rcases hh with ⟨_, h5, h6, h7⟩ | hh
    · exact h3' ⟨h5, h6, h7⟩
    · omega)]
  rw [if_neg (by intro hh; exact hh h4)]

/-! ### fields the footpath loop and the alighting part do not touch -/

theorem revFoot_misc (cx : Ctx) (c : Conn) (mw : Int) (s : RState) (f : NTD) :
    (revFoot cx c mw s f).reached = s.reached ∧ (revFoot cx c mw s f).tentAccDep = s.tentAccDep ∧
    (revFoot cx c mw s f).count = s.count := by
  unfold revFoot
  split
  · exact ⟨rfl, rfl, rfl⟩
  · split
    · unfold revFootAcc revFootLabel; split <;> split <;> exact ⟨rfl, rfl, rfl⟩
    · exact ⟨rfl, rfl, rfl⟩

theorem revFoot_fold_misc (cx : Ctx) (c : Conn) (mw : Int) : ∀ (l : List NTD) (s : RState),
    (l.foldl (revFoot cx c mw) s).reached = s.reached ∧ (l.foldl (revFoot cx c mw) s).tentAccDep = s.tentAccDep ∧
    (l.foldl (revFoot cx c mw) s).count = s.count := by
  intro l
  induction l with
  | nil => intro s; exact ⟨rfl, rfl, rfl⟩
  | cons f rest ih =>
    intro s
    rw [List.foldl_cons]
    obtain ⟨a, b, c'⟩ := ih (revFoot cx c mw s f)
    obtain ⟨a', b', c''⟩ := revFoot_misc cx c mw s f
    exact ⟨by rw [a, a'], by rw [b, b'], by rw [c', c'']⟩

theorem revUnboard_misc (cx : Ctx) (s : RState) (c : Conn) :
    (revUnboard cx s c).reached = s.reached ∧ (revUnboard cx s c).tentAccDep = s.tentAccDep ∧
    (revUnboard cx s c).count = s.count := by
  unfold revUnboard; split <;> exact ⟨rfl, rfl, rfl⟩

theorem revBoard1_count (cx : Ctx) (s : RState) (c : Conn) : (revBoard cx true s c).count = s.count := by
  rw [revBoard1_eq]
  split
  · rw [(revFoot_fold_misc cx c _ _ _).2.2]; exact (revMark_facts cx s c).2.2.2.2.2
  · rfl

theorem revStep1_count_mono (cx : Ctx) (s : RState) (c : Conn) : s.count ≤ (revStep cx (fun _ => true) true s c).count := by
  rcases revStep1_cases cx s c with h | ⟨h, _⟩ | ⟨_, h⟩
  · rw [h]; exact Nat.le_refl _
  · rw [h]; exact Nat.le_refl _
  · rw [h]; simp only; rw [revBoard1_count, (revUnboard_misc cx s c).2.2]; omega

/-- a kept boarding after the footpath loop is the connection being scanned or was kept before -/
theorem revFoot_acc_src (cx : Ctx) (c : Conn) (mw : Int) (s : RState) (f : NTD) :
    ∀ y js, (revFoot cx c mw s f).acc y = some js → js.enter = some c ∨ s.acc y = some js := by
  unfold revFoot
  split
  · intro y js h; exact Or.inr h
  · split
    · unfold revFootAcc
      split
      · intro y js hj
        simp only at hj
        by_cases hy : y = f.stop
        · subst hy; simp only [upd_same, Option.some.injEq] at hj; subst hj; exact Or.inl rfl
        · rw [upd_other _ _ _ _ hy, revFootLabel_acc] at hj; exact Or.inr hj
      · intro y js hj; rw [revFootLabel_acc] at hj; exact Or.inr hj
    · intro y js h; exact Or.inr h

theorem revFoot_fold_acc_src (cx : Ctx) (c : Conn) (mw : Int) : ∀ (l : List NTD) (s : RState),
    ∀ y js, (l.foldl (revFoot cx c mw) s).acc y = some js → js.enter = some c ∨ s.acc y = some js := by
  intro l
  induction l with
  | nil => intro s y js h; exact Or.inr h
  | cons f rest ih =>
    intro s y js h
    rw [List.foldl_cons] at h
    rcases ih _ y js h with h1 | h1
    · exact Or.inl h1
    · exact revFoot_acc_src cx c mw s f y js h1

theorem revStep1_acc_src (cx : Ctx) (s : RState) (c : Conn) :
    ∀ y js, (revStep cx (fun _ => true) true s c).acc y = some js → js.enter = some c ∨ s.acc y = some js := by
  intro y js h
  rcases revStep1_cases cx s c with h1 | ⟨h1, _⟩ | ⟨_, h1⟩
  · rw [h1] at h; exact Or.inr h
  · rw [h1] at h; exact Or.inr h
  · rw [h1] at h
    simp only at h
    rw [revBoard1_eq] at h
    split at h
    · rcases revFoot_fold_acc_src cx c _ _ _ y js h with h2 | h2
      · exact Or.inl h2
      · rw [(revMark_facts cx _ c).2.1, revUnboard_acc] at h2; exact Or.inr h2
    · rw [revUnboard_acc] at h; exact Or.inr h

/-! ### the step -/

theorem revStep1_RCθ {cx : Ctx} {L P : List Conn} {s : RState} {c : Conn} {θ : Int} (w : RW cx L)
    (hP : ∀ a ∈ P ++ [c], a ∈ L) (hbefore : ∀ a ∈ P, revLt c a = false)
    (hθ1 : cx.arrT - cx.p.maxTotal ≤ θ)
    (hθ2 : s.reached = true → cx.maxAccess ≥ 0 → s.tentAccDep - cx.maxAccess - cx.p.minWait ≤ θ)
    (h : RCθ cx θ P s) :
    RCθ cx θ (P ++ [c]) (revStep cx (fun _ => true) true s c) := by
  have hcL : c ∈ L := hP c (by simp)
  have hPL : ∀ a ∈ P, a ∈ L := fun a ha => hP a (List.mem_append_left _ ha)
  have hmonoP : ∀ a ∈ P, a ∈ P ++ [c] := fun a ha => List.mem_append_left _ ha
  have harrP : ∀ a ∈ P, c.arr ≤ a.arr := by
    intro a ha
    have := hbefore a ha
    simp only [revLt, Bool.or_eq_false_iff, decide_eq_false_iff_not] at this
    omega
  have hsame : ∀ e ∈ P, e.trip = c.trip → e.seq ≤ c.seq → e = c := by
    intro e he ht hs
    have h1 := w.arrMono e (hPL e he) c hcL ht hs
    have h2 := harrP e he
    have hlt := hbefore e he
    simp only [revLt, Bool.or_eq_false_iff, Bool.and_eq_false_iff, decide_eq_false_iff_not] at hlt
    have heq : c.arr = e.arr := by omega
    have hseq : e.seq = c.seq := by
      rcases hlt.2 with h3 | h3
      · exact absurd heq h3
      · rcases h3.2 with h4 | h4
        · exact absurd ht.symm h4
        · omega
    exact w.unique e (hPL e he) c hcL ht hseq
  have hns : θ ≤ c.arr → s.stop = false := by
    intro hc
    cases hst : s.stop with
    | false => rfl
    | true =>
      obtain ⟨c0, hc0, hlate⟩ := h.stop hst
      have := harrP c0 hc0
      omega
  have haccWFu : ∀ y js, (revUnboard cx s c).acc y = some js → ∃ e, js.enter = some e := by
    rw [revUnboard_acc]; exact h.accWF
  have hmain : ∀ x ∈ P ++ [c], UnboardP cx (P ++ [c]) x → c.trip = x.trip → c.seq ≤ x.seq → θ ≤ c.arr →
      revStep cx (fun _ => true) true s c =
        { revBoard cx true (revUnboard cx s c) c with count := (revBoard cx true (revUnboard cx s c) c).count + 1 } ∧
      ((revUnboard cx s c).exitC c.trip).isSome = true := by
    intro x hx hu ht hs hc
    have hxa : c.arr ≤ x.arr := w.arrMono c hcL x (hP x hx) ht hs
    have huP := hu.strengthen w hP hxa
    obtain ⟨hcu, hdis, t, hr, hrt⟩ := huP
    have hle := hr.time_le_min w hPL
    have hcond : (s.exitC c.trip).isSome = true ∨ s.lab c.arrStop ≥ c.arr := by
      rcases List.mem_append.mp hx with hxP | hxC
      · left; rw [ht]; exact h.exit x hxP ⟨hcu, hdis, t, hr, hrt⟩ (by omega)
      · simp at hxC; subst hxC
        right
        have := h.lab _ _ hr (by omega)
        omega
    refine ⟨revStep1_main cx s c (hns hc) (by omega) (by rw [ht]; exact hdis) (by omega) ?_ hcond, ?_⟩
    · intro ⟨hr1, hr2, hr3⟩
      have := hθ2 hr1 hr2
      omega
    · rcases List.mem_append.mp hx with hxP | hxC
      · exact (revUnboard_better cx s c).exit _ (by rw [ht]; exact h.exit x hxP ⟨hcu, hdis, t, hr, hrt⟩ (by omega))
      · simp at hxC; subst hxC; exact revUnboard_exit cx s x hcu
  have hbet : RBetter cx s (revStep cx (fun _ => true) true s c) := by
    rcases revStep1_cases cx s c with h1 | ⟨h1, _⟩ | ⟨_, h1⟩
    · rw [h1]; exact RBetter.refl cx s
    · rw [h1]; exact ⟨fun _ => Int.le_refl _, fun _ h => h, fun _ _ h => h⟩
    · rw [h1]
      have h2 := (revBoard1_better cx (revUnboard cx s c) c haccWFu).1
      have := RBetter.trans (revUnboard_better cx s c) h2
      exact ⟨this.lab, this.exit, this.acc⟩
  refine ⟨?_, ?_, ?_, ?_, ?_, ?_, ?_⟩
  · -- labels
    intro y t hr ht
    cases hr with
    | egress g hg => exact Int.le_trans (h.lab _ _ (RReach.egress g hg) ht) (hbet.lab _)
    | ride z tz e x f hsub he hx h1 h2 h3 h4 h5 h6 h7 h8 h9 =>
      have hxL := hP x hx
      have heL := hP e he
      have hphe := w.posHop e heL
      have hfn := w.footNonneg _ f h8
      have hw := effWait_nonneg e cx.p.minWait w.mw
      have ham := w.arrMono e heL x hxL h3 h4
      by_cases hec : e = c
      · subst hec
        obtain ⟨hm, hex⟩ := hmain x hx ⟨h6, by rw [← h3]; exact h7, tz, by rw [h1]; exact hsub, h2⟩ h3 h4 (by omega)
        rw [hm]
        simp only
        rw [revBoard1_eq, if_pos ⟨h5, hex⟩]
        exact revFoot_fold_lab cx e f h9 hfn _ _ (by rw [(revMark_facts cx _ e).2.1]; exact haccWFu) h8
      · have heP : e ∈ P := by
          rcases List.mem_append.mp he with h' | h'
          · exact h'
          · simp at h'; exact absurd h' hec
        have hxP : x ∈ P := by
          rcases List.mem_append.mp hx with h' | h'
          · exact h'
          · simp at h'; subst h'
            exact absurd (hsame e heP h3 h4) hec
        have hxa := harrP x hxP
        have hsubP := hsub.strengthen w hP (by omega)
        exact Int.le_trans (h.lab _ _ (RReach.ride z tz e x f hsubP heP hxP h1 h2 h3 h4 h5 h6 h7 h8 h9) ht) (hbet.lab _)
  · -- exit connections
    intro x hx hu hd
    rcases List.mem_append.mp hx with hxP | hxC
    · exact hbet.exit _ (h.exit x hxP (hu.strengthen w hP (harrP x hxP)) hd)
    · simp at hxC; subst hxC
      obtain ⟨hm, hex⟩ := hmain x hx hu rfl (Nat.le_refl _) hd
      rw [hm]
      simp only
      exact (revBoard1_better cx (revUnboard cx s x) x haccWFu).1.exit _ hex
  · -- kept boardings, and the count
    intro e he x hx hu ht hs hcb hok hd
    by_cases hec : e = c
    · subst hec
      obtain ⟨hm, hex⟩ := hmain x hx hu ht hs hd
      rw [hm]
      obtain ⟨f0, hf0, hf0s, hf0t⟩ := w.selfFoot e hcL
      refine ⟨?_, by simp only; omega⟩
      show AccGe cx (revBoard cx true (revUnboard cx s e) e) e.depStop (e.dep - e.effWait cx.p.minWait)
      rw [revBoard1_eq, if_pos ⟨hcb, hex⟩]
      exact revFoot_fold_acc cx e f0 hf0t hf0s hok _ _ (by rw [(revMark_facts cx _ e).2.1]; exact haccWFu) hf0
    · have heP : e ∈ P := by
        rcases List.mem_append.mp he with h' | h'
        · exact h'
        · simp at h'; exact absurd h' hec
      have hxP : x ∈ P := by
        rcases List.mem_append.mp hx with h' | h'
        · exact h'
        · simp at h'; subst h'
          exact absurd (hsame e heP ht hs) hec
      obtain ⟨ha, hcnt⟩ := h.acc e heP x hxP (hu.strengthen w hP (harrP x hxP)) ht hs hcb hok hd
      exact ⟨hbet.acc _ _ ha, Nat.le_trans hcnt (revStep1_count_mono cx s c)⟩
  · -- the stop flag
    intro hst
    rcases revStep1_cases cx s c with h1 | ⟨_, h1⟩ | ⟨h0, h1⟩
    · rw [h1] at hst
      obtain ⟨c0, hc0, hl⟩ := h.stop hst
      exact ⟨c0, hmonoP c0 hc0, hl⟩
    · refine ⟨c, by simp, ?_⟩
      rcases h1 with ⟨hr1, hr2, hr3⟩ | h1
      · have := hθ2 hr1 hr2; omega
      · omega
    · rw [h1] at hst
      simp only at hst
      rw [(revBoard1_better cx (revUnboard cx s c) c haccWFu).2.2, revUnboard_stop, h0] at hst
      cases hst
  · -- kept boardings carry their connection
    rcases revStep1_cases cx s c with h1 | ⟨h1, _⟩ | ⟨_, h1⟩
    · rw [h1]; exact h.accWF
    · rw [h1]; exact h.accWF
    · rw [h1]
      exact (revBoard1_better cx (revUnboard cx s c) c haccWFu).2.1
  · -- the reached mark
    intro hre
    rcases revStep1_cases cx s c with h1 | ⟨h1, _⟩ | ⟨_, h1⟩
    · rw [h1] at hre ⊢
      obtain ⟨c1, hc1, a, b, d⟩ := h.reach hre
      exact ⟨c1, hmonoP c1 hc1, a, b, d⟩
    · rw [h1] at hre ⊢
      obtain ⟨c1, hc1, a, b, d⟩ := h.reach hre
      exact ⟨c1, hmonoP c1 hc1, a, b, d⟩
    · have hbetS := hbet
      rw [h1] at hre hbetS ⊢
      simp only at hre ⊢
      by_cases hsr : s.reached = true
      · -- reached before: nothing changes
        obtain ⟨c1, hc1, a, b, d, dcnt⟩ := h.reach hsr
        refine ⟨c1, hmonoP c1 hc1, ?_, b, fun hok => hbetS.acc _ _ (d hok), by rw [revBoard1_count, (revUnboard_misc cx s c).2.2]; omega⟩
        rw [a, revBoard1_eq]
        have hum := revUnboard_misc cx s c
        have hmk : revMark cx (revUnboard cx s c) c = revUnboard cx s c := by
          unfold revMark
          rw [if_neg (by rw [hum.1, hsr]; simp)]
        split
        · rw [(revFoot_fold_misc cx c _ _ _).2.1, hmk, hum.2.1]
        · rw [hum.2.1]
      · -- reached now: by `c`
        have hum := revUnboard_misc cx s c
        rw [revBoard1_eq] at hre ⊢
        by_cases hcond : c.canBoard = true ∧ ((revUnboard cx s c).exitC c.trip).isSome = true
        · rw [if_pos hcond] at hre ⊢
          rw [(revFoot_fold_misc cx c _ _ _).1] at hre
          rw [(revFoot_fold_misc cx c _ _ _).2.1]
          unfold revMark at hre ⊢
          by_cases hmk : ¬ (revUnboard cx s c).reached = true ∧
              ((cx.nodesAccess c.depStop).any fun (a : NTD) => decide (a.time ≠ -1)) = true
          · rw [if_pos hmk]
            simp only
            obtain ⟨f0, hf0, hf0s, hf0t⟩ := w.selfFoot c hcL
            refine ⟨c, by simp, rfl, ?_, ?_, by omega⟩
            · cases hna : cx.nodesAccess c.depStop with
              | none => rw [hna] at hmk; simp at hmk
              | some a1 => exact ⟨a1, rfl⟩
            · intro hok; exact revFoot_fold_acc cx c f0 hf0t hf0s hok _ _ (by simp only; exact haccWFu) hf0
          · rw [if_neg hmk] at hre
            rw [hum.1] at hre
            exact absurd hre hsr
        · rw [if_neg hcond] at hre
          rw [hum.1] at hre
          exact absurd hre hsr
  · -- kept boardings are scanned connections
    intro y js e hj he
    rcases revStep1_acc_src cx s c y js hj with h1 | h1
    · rw [he] at h1; cases h1; simp
    · exact hmonoP e (h.accMem y js e h1 he)

/-! ### the scan -/

theorem revStep1_frozen (cx : Ctx) (s : RState) (c : Conn) (h : s.reached = true) :
    (revStep cx (fun _ => true) true s c).reached = true ∧ (revStep cx (fun _ => true) true s c).tentAccDep = s.tentAccDep := by
  rcases revStep1_cases cx s c with h1 | ⟨h1, _⟩ | ⟨_, h1⟩
  · rw [h1]; exact ⟨h, rfl⟩
  · rw [h1]; exact ⟨h, rfl⟩
  · rw [h1]
    simp only
    have hum := revUnboard_misc cx s c
    have hmk : revMark cx (revUnboard cx s c) c = revUnboard cx s c := by
      unfold revMark
      rw [if_neg (by rw [hum.1, h]; simp)]
    rw [revBoard1_eq]
    split
    · rw [(revFoot_fold_misc cx c _ _ _).1, (revFoot_fold_misc cx c _ _ _).2.1, hmk, hum.1, hum.2.1]; exact ⟨h, rfl⟩
    · rw [hum.1, hum.2.1]; exact ⟨h, rfl⟩

theorem revFold1_frozen (cx : Ctx) : ∀ (l : List Conn) (s : RState), s.reached = true →
    (l.foldl (revStep cx (fun _ => true) true) s).reached = true ∧
    (l.foldl (revStep cx (fun _ => true) true) s).tentAccDep = s.tentAccDep := by
  intro l
  induction l with
  | nil => intro s h; exact ⟨h, rfl⟩
  | cons c rest ih =>
    intro s h
    rw [List.foldl_cons]
    obtain ⟨a, b⟩ := revStep1_frozen cx s c h
    obtain ⟨a', b'⟩ := ih _ a
    exact ⟨a', by rw [b', b]⟩

theorem revScanList1_RCθ {cx : Ctx} {L : List Conn} (w : RW cx L) (θ : Int) (hθ1 : cx.arrT - cx.p.maxTotal ≤ θ) :
    ∀ (post pre : List Conn) (s : RState), (∀ a ∈ pre ++ post, a ∈ L) → SortedRev (pre ++ post) →
      RCθ cx θ pre s →
      ((post.foldl (revStep cx (fun _ => true) true) s).reached = true → cx.maxAccess ≥ 0 →
        (post.foldl (revStep cx (fun _ => true) true) s).tentAccDep - cx.maxAccess - cx.p.minWait ≤ θ) →
      RCθ cx θ (pre ++ post) (post.foldl (revStep cx (fun _ => true) true) s) := by
  intro post
  induction post with
  | nil => intro pre s _ _ h _; simpa using h
  | cons c rest ih =>
    intro pre s hC hs h hfin
    rw [List.foldl_cons] at hfin ⊢
    have hθ2 : s.reached = true → cx.maxAccess ≥ 0 → s.tentAccDep - cx.maxAccess - cx.p.minWait ≤ θ := by
      intro hr hm
      obtain ⟨a, b⟩ := revFold1_frozen cx (c :: rest) s hr
      rw [List.foldl_cons] at a b
      have := hfin a hm
      rw [b] at this
      exact this
    have hstep := revStep1_RCθ (c := c) w (fun a ha => hC a (by
        rcases List.mem_append.mp ha with h1 | h1
        · exact List.mem_append_left _ h1
        · simp at h1; subst h1; simp))
      (fun a ha => (List.pairwise_append.mp hs).2.2 a ha c (List.mem_cons_self ..)) hθ1 hθ2 h
    have := ih (pre ++ [c]) _ (by simpa using hC) (by simpa [SortedRev] using hs) hstep hfin
    simpa using this

/-! ### the best access stop -/

/-- the access stop `a0` keeps a boarding of value at least `b`, and `b - a0.time` passes the tests:
    the calculation picks a departure at least that late -/
theorem bestAccess_ge {cx : Ctx} {s : RState} (hnd : (cx.accessFoot.map (·.stop)).Nodup) {a0 : NTD} (ha0 : a0 ∈ cx.accessFoot)
    {b : Int} (hacc : AccGe cx s a0.stop b) (h0 : 0 ≤ b - a0.time) (hT : cx.arrT - (b - a0.time) ≤ cx.p.maxTotal)
    (hbound : ∀ y js e, s.acc y = some js → js.enter = some e → e.dep < MAX_INT) (hw : 0 ≤ cx.p.minWait)
    (haccNonneg : ∀ a ∈ cx.accessFoot, 0 ≤ a.time) :
    ∃ bd node, bestAccess cx s = some (bd, node) ∧ b - a0.time ≤ bd := by
  obtain ⟨js0, e0, hj0, he0, hb0⟩ := hacc
  have hna0 : cx.nodesAccess a0.stop = some a0 := by
    unfold Ctx.nodesAccess
    have key : ∀ (l : List NTD), (l.map (·.stop)).Nodup → a0 ∈ l → l.find? (fun x => decide (x.stop = a0.stop)) = some a0 := by
      intro l
      induction l with
      | nil => intro _ h; cases h
      | cons x rest ih =>
        intro hn hm
        rw [List.map_cons, List.nodup_cons] at hn
        rcases List.mem_cons.mp hm with rfl | hm'
        · simp
        · have hx : x.stop ≠ a0.stop := by
            intro hh; exact hn.1 (by rw [hh]; exact List.mem_map_of_mem hm')
          rw [List.find?_cons]
          simp only [hx, decide_false]
          exact ih hn.2 hm'
    exact key cx.accessFoot hnd ha0
  unfold bestAccess
  -- the fold keeps "none with -1" or "some with a non-negative time", never decreases, and passes a0's value
  have key : ∀ (l : List NTD) (acc : Int × Option Nat), (∀ a ∈ l, a ∈ cx.accessFoot) →
      ((acc.2 = none ∧ acc.1 = -1) ∨ (acc.2.isSome = true ∧ 0 ≤ acc.1)) →
      let r := l.foldl (fun (acc : Int × Option Nat) a =>
        match s.acc a.stop with
        | some js => match js.enter, cx.nodesAccess a.stop with
          | some e, some ac =>
            let t := e.dep - ac.time - e.effWait cx.p.minWait
            if t ≥ 0 ∧ cx.arrT - t ≤ cx.p.maxTotal ∧ t > acc.1 ∧ t < MAX_INT then (t, some ac.stop) else acc
          | _, _ => acc
        | none => acc) acc
      ((r.2 = none ∧ r.1 = -1) ∨ (r.2.isSome = true ∧ 0 ≤ r.1)) ∧ acc.1 ≤ r.1 ∧
      (a0 ∈ l → b - a0.time ≤ r.1) := by
    intro l
    induction l with
    | nil => intro acc _ hI; exact ⟨hI, Int.le_refl _, fun h => by cases h⟩
    | cons a rest ih =>
      intro acc hl hI
      simp only [List.foldl_cons]
      -- one step
      have hstep : ∃ acc', (match s.acc a.stop with
          | some js => match js.enter, cx.nodesAccess a.stop with
            | some e, some ac =>
              let t := e.dep - ac.time - e.effWait cx.p.minWait
              if t ≥ 0 ∧ cx.arrT - t ≤ cx.p.maxTotal ∧ t > acc.1 ∧ t < MAX_INT then (t, some ac.stop) else acc
            | _, _ => acc
          | none => acc) = acc' ∧
          ((acc'.2 = none ∧ acc'.1 = -1) ∨ (acc'.2.isSome = true ∧ 0 ≤ acc'.1)) ∧ acc.1 ≤ acc'.1 ∧
          (a = a0 → b - a0.time ≤ acc'.1) := by
        refine ⟨_, rfl, ?_⟩
        cases hsa : s.acc a.stop with
        | none =>
          refine ⟨hI, Int.le_refl _, ?_⟩
          intro haa; subst haa; rw [hj0] at hsa; cases hsa
        | some js =>
          cases hje : js.enter with
          | none =>
            refine ⟨by simpa [hje] using hI, by simp [hje], ?_⟩
            intro haa; subst haa; rw [hj0] at hsa; cases hsa; rw [he0] at hje; cases hje
          | some e =>
            cases hna : cx.nodesAccess a.stop with
            | none =>
              refine ⟨by simpa [hje, hna] using hI, by simp [hje, hna], ?_⟩
              intro haa; subst haa; rw [hna0] at hna; cases hna
            | some ac =>
              simp only [hje, hna]
              by_cases hc : e.dep - ac.time - e.effWait cx.p.minWait ≥ 0 ∧
                  cx.arrT - (e.dep - ac.time - e.effWait cx.p.minWait) ≤ cx.p.maxTotal ∧
                  e.dep - ac.time - e.effWait cx.p.minWait > acc.1 ∧ e.dep - ac.time - e.effWait cx.p.minWait < MAX_INT
              · rw [if_pos hc]
                refine ⟨Or.inr ⟨rfl, hc.1⟩, by simp only; omega, ?_⟩
                intro haa; subst haa
                rw [hj0] at hsa; cases hsa; rw [he0] at hje; cases hje; rw [hna0] at hna; cases hna
                simp only; omega
              · rw [if_neg hc]
                refine ⟨hI, Int.le_refl _, ?_⟩
                intro haa; subst haa
                rw [hj0] at hsa; cases hsa; rw [he0] at hje; cases hje; rw [hna0] at hna; cases hna
                have hlt := hbound _ _ _ hj0 he0
                have hwe := effWait_nonneg e0 cx.p.minWait hw
                have hat := haccNonneg a ha0
                -- every test but "later than the current best" passes
                by_cases hgt : e0.dep - a.time - e0.effWait cx.p.minWait > acc.1
                · exact absurd ⟨by omega, by omega, hgt, by omega⟩ hc
                · omega
      obtain ⟨acc', hacc', hI', hmono, hval⟩ := hstep
      rw [hacc']
      obtain ⟨r1, r2, r3⟩ := ih acc' (fun x hx => hl x (List.mem_cons_of_mem _ hx)) hI'
      refine ⟨r1, Int.le_trans hmono r2, ?_⟩
      intro hm
      rcases List.mem_cons.mp hm with rfl | hm'
      · exact Int.le_trans (hval rfl) r2
      · exact r3 hm'
  obtain ⟨k1, _, k3⟩ := key cx.accessFoot (-1, none) (fun a ha => ha) (Or.inl ⟨rfl, rfl⟩)
  simp only at k1 k3
  have hge := k3 ha0
  generalize cx.accessFoot.foldl (fun (acc : Int × Option Nat) a =>
        match s.acc a.stop with
        | some js => match js.enter, cx.nodesAccess a.stop with
          | some e, some ac =>
            let t := e.dep - ac.time - e.effWait cx.p.minWait
            if t ≥ 0 ∧ cx.arrT - t ≤ cx.p.maxTotal ∧ t > acc.1 ∧ t < MAX_INT then (t, some ac.stop) else acc
          | _, _ => acc
        | none => acc) (-1, none) = r at k1 hge ⊢
  rcases k1 with ⟨_, h1⟩ | ⟨h1, _⟩
  · omega
  · cases hr2 : r.2 with
    | none => rw [hr2] at h1; cases h1
    | some st => exact ⟨r.1, st, by simp [hr2], hge⟩

end Tr
