/-
  TrVerif.Proofs.ForwardSingle — completeness of the forward scan of a SINGLE calculation
  (`single = true`): the extra break once an egress stop has been reached. The invariant is the one
  of `ForwardComplete`, relative to an upper cut line `β`: nothing that leaves after `β` is
  claimed. `β` is chosen from the final state.
-/
import TrVerif.Proofs.ForwardComplete
import TrVerif.Props.C07Scan
namespace Tr

/-- the first alighting met at a stop the router offers around the destination marks "reached" -/
def fwdMark (cx : Ctx) (s : FState) (c : Conn) : FState :=
  if ¬ s.reached = true ∧ ((cx.nodesEgress c.arrStop).any fun (e : NTD) => decide (e.time ≠ -1)) = true then
    { s with reached := true, tentEgrArr := c.arr }
  else s

theorem fwdAlight1_eq (cx : Ctx) (s : FState) (c : Conn) :
    fwdAlight cx true s c =
      if c.canUnboard = true ∧ (s.enterC c.trip).isSome = true then
        (cx.ds.footOf c.arrStop).foldl (fwdFoot cx c) (fwdMark cx s c)
      else s := by
  unfold fwdAlight fwdMark
  simp only [true_and]

theorem fwdMark_facts (cx : Ctx) (s : FState) (c : Conn) :
    Better s (fwdMark cx s c) ∧ (fwdMark cx s c).egr = s.egr ∧ (fwdMark cx s c).stop = s.stop ∧
    (fwdMark cx s c).enterC = s.enterC ∧ (fwdMark cx s c).tent = s.tent ∧ (fwdMark cx s c).count = s.count ∧
    (fwdMark cx s c).usable = s.usable := by
  unfold fwdMark
  split
  · exact ⟨⟨fun _ => Int.le_refl _, fun _ _ h => h, fun _ _ h => h⟩, rfl, rfl, rfl, rfl, rfl, rfl⟩
  · exact ⟨Better.refl s, rfl, rfl, rfl, rfl, rfl, rfl⟩

theorem fwdFoot_misc (cx : Ctx) (c : Conn) (s : FState) (f : NTD) :
    (fwdFoot cx c s f).reached = s.reached ∧ (fwdFoot cx c s f).tentEgrArr = s.tentEgrArr ∧
    (fwdFoot cx c s f).usable = s.usable := by
  unfold fwdFoot
  simp only
  split
  · exact ⟨rfl, rfl, rfl⟩
  · split
    · split <;> split <;> exact ⟨rfl, rfl, rfl⟩
    · exact ⟨rfl, rfl, rfl⟩

theorem fwdFoot_fold_misc (cx : Ctx) (c : Conn) : ∀ (l : List NTD) (s : FState),
    (l.foldl (fwdFoot cx c) s).reached = s.reached ∧ (l.foldl (fwdFoot cx c) s).tentEgrArr = s.tentEgrArr ∧
    (l.foldl (fwdFoot cx c) s).usable = s.usable := by
  intro l
  induction l with
  | nil => intro s; exact ⟨rfl, rfl, rfl⟩
  | cons f rest ih =>
    intro s
    rw [List.foldl_cons]
    obtain ⟨a, b, c'⟩ := ih (fwdFoot cx c s f)
    obtain ⟨a', b', c''⟩ := fwdFoot_misc cx c s f
    exact ⟨by rw [a, a'], by rw [b, b'], by rw [c', c'']⟩

theorem fwdEnter_misc (s : FState) (c : Conn) :
    (fwdEnter s c).reached = s.reached ∧ (fwdEnter s c).tentEgrArr = s.tentEgrArr ∧ (fwdEnter s c).tent = s.tent := by
  unfold fwdEnter; split <;> exact ⟨rfl, rfl, rfl⟩

theorem fwdAlight1_better (cx : Ctx) (s : FState) (c : Conn) : Better s (fwdAlight cx true s c) :=
  fwdAlight_better cx true s c

theorem fwdAlight1_stop (cx : Ctx) (s : FState) (c : Conn) : (fwdAlight cx true s c).stop = s.stop := by
  rw [fwdAlight1_eq]
  split
  · rw [fwdFoot_fold_stop]; exact (fwdMark_facts cx s c).2.2.1
  · rfl

theorem fwdAlight1_count (cx : Ctx) (s : FState) (c : Conn) : (fwdAlight cx true s c).count = s.count :=
  fwdAlight_count cx true s c

theorem fwdAlight1_egrWF (cx : Ctx) (s : FState) (c : Conn) (h : ∀ y js, s.egr y = some js → ∃ x, js.exit = some x) :
    ∀ y js, (fwdAlight cx true s c).egr y = some js → ∃ x, js.exit = some x := by
  rw [fwdAlight1_eq]
  split
  · exact fwdFoot_fold_egrWF cx c _ _ (by rw [(fwdMark_facts cx s c).2.1]; exact h)
  · exact h

/-- the single forward step: unchanged, or stopped for one of the two reasons, or the main branch -/
theorem fwdStep1_cases (cx : Ctx) (s : FState) (c : Conn) :
    fwdStep cx true s c = s ∨
    (fwdStep cx true s c = { s with stop := true } ∧
      ((s.reached = true ∧ cx.maxEgress ≥ 0 ∧ s.tentEgrArr < MAX_INT ∧ c.dep > s.tentEgrArr + cx.maxEgress) ∨
        c.dep - cx.depT > cx.p.maxTotal)) ∨
    (s.stop = false ∧
      fwdStep cx true s c =
        { fwdAlight cx true (fwdEnter s c) c with count := (fwdAlight cx true (fwdEnter s c) c).count + 1 }) := by
  unfold fwdStep
  by_cases h0 : s.stop = true
  · left; rw [if_pos h0]
  · rw [if_neg h0]
    by_cases h1 : ¬ (c.dep ≥ cx.depT + cx.minAccess)
    · left; rw [if_pos h1]
    · rw [if_neg h1]
      by_cases h2 : cx.disabled c.trip = true
      · left; rw [if_pos h2]
      · rw [if_neg h2]
        by_cases h3 : (s.reached = true ∧ cx.maxEgress ≥ 0 ∧ s.tentEgrArr < MAX_INT ∧ c.dep > s.tentEgrArr + cx.maxEgress)
            ∨ c.dep - cx.depT > cx.p.maxTotal
        · right; left
          simp only
          rw [if_pos (by
            rcases h3 with h | h
            · exact Or.inl ⟨trivial, h⟩
            · exact Or.inr h)]
          exact ⟨rfl, h3⟩
        · simp only
          rw [if_neg (by
            intro hh
            rcases hh with ⟨_, h⟩ | h
            · exact h3 (Or.inl h)
            · exact h3 (Or.inr h))]
          split
          · left; rfl
          · right; right
            refine ⟨by simpa using h0, ?_⟩
            unfold fwdEnter fwdAlight
            simp only [true_and]

theorem fwdStep1_main (cx : Ctx) (s : FState) (c : Conn) (h0 : s.stop = false) (h1 : c.dep ≥ cx.depT + cx.minAccess)
    (h2 : cx.disabled c.trip = false) (h3 : c.dep - cx.depT ≤ cx.p.maxTotal)
    (h3' : ¬ (s.reached = true ∧ cx.maxEgress ≥ 0 ∧ s.tentEgrArr < MAX_INT ∧ c.dep > s.tentEgrArr + cx.maxEgress))
    (hcap : cx.p.maxFirstWait ≤ 0)
    (h4 : (s.enterC c.trip).isSome = true ∨ s.tent c.depStop ≤ c.dep - c.effWait cx.p.minWait) :
    fwdStep cx true s c =
      { fwdAlight cx true (fwdEnter s c) c with count := (fwdAlight cx true (fwdEnter s c) c).count + 1 } := by
  unfold fwdStep
  rw [if_neg (by rw [h0]; simp), if_neg (by simpa using h1), if_neg (by rw [h2]; simp)]
  simp only
  rw [if_neg (by
    intro hh
    rcases hh with ⟨_, h5⟩ | hh
    · exact h3' h5
    · omega)]
  have hfo : (decide (cx.p.maxFirstWait > 0) && ((cx.nodesAccess c.depStop).any fun a => decide (a.time ≥ 0)) &&
      (s.steps c.depStop).enter.isNone) = false := by
    have : decide (cx.p.maxFirstWait > 0) = false := by simp; omega
    rw [this]; simp
  rw [if_neg (by
    intro hh
    apply hh
    refine ⟨h4, Or.inl ?_⟩
    rw [hfo]; simp)]
  unfold fwdEnter fwdAlight
  simp only [true_and]

theorem fwdStep1_count_mono (cx : Ctx) (s : FState) (c : Conn) : s.count ≤ (fwdStep cx true s c).count :=
  fwdStep_count_mono cx true s c

/-! ### the invariant relative to the upper cut line -/

structure FCβ (cx : Ctx) (β : Int) (P : List Conn) (s : FState) : Prop where
  tent : ∀ y t, Reach cx P y t → t ≤ β → s.tent y ≤ t
  enter : ∀ e ∈ P, BoardP cx P e → e.dep ≤ β → (s.enterC e.trip).isSome = true
  egr : ∀ e ∈ P, ∀ x ∈ P, BoardP cx P e → e.trip = x.trip → e.seq ≤ x.seq → x.canUnboard = true →
    x.dep ≤ β → EgrLe s x.arrStop x.arr ∧ 1 ≤ s.count
  stop : s.stop = true → ∃ c0 ∈ P, β < c0.dep
  egrWF : ∀ y js, s.egr y = some js → ∃ x, js.exit = some x
  /-- once an egress stop is reached: by an alighting at a stop the router offers, recorded at least as early -/
  reach : s.reached = true → ∃ c1 ∈ P, c1.arr = s.tentEgrArr ∧ (∃ g1, cx.nodesEgress c1.arrStop = some g1) ∧
    EgrLe s c1.arrStop c1.arr ∧ 1 ≤ s.count
  /-- an entered trip is flagged usable for the second pass -/
  usable : ∀ T, (s.enterC T).isSome = true → s.usable T = true

theorem init_FCβ (cx : Ctx) (β : Int) (hnd : (cx.accessFoot.map (·.stop)).Nodup) : FCβ cx β [] (FState.init cx) := by
  have h := init_FC cx hnd
  refine ⟨?_, ?_, ?_, ?_, h.egrWF, ?_, ?_⟩
  · intro y t hr _
    cases hr with
    | access a ha =>
      have : (FState.init cx).tent a.stop = cx.depT + a.time := by
        unfold FState.init
        exact foldl_upd_nodup (fun e => cx.depT + e.time) cx.accessFoot _ hnd a ha
      omega
    | ride y t e x f _ he => cases he
  · intro e he; cases he
  · intro e he; cases he
  · intro h; simp [FState.init] at h
  · intro h; simp [FState.init] at h
  · intro T h; simp [FState.init] at h

/-! ### the step -/

theorem fwdStep1_FCβ {cx : Ctx} {L P : List Conn} {s : FState} {c : Conn} {β : Int} (w : FW cx L)
    (hP : ∀ a ∈ P ++ [c], a ∈ L) (hbefore : ∀ a ∈ P, fwdLt c a = false)
    (hβ1 : β ≤ cx.depT + cx.p.maxTotal)
    (hβ2 : s.reached = true → cx.maxEgress ≥ 0 → s.tentEgrArr < MAX_INT → β ≤ s.tentEgrArr + cx.maxEgress)
    (h : FCβ cx β P s) :
    FCβ cx β (P ++ [c]) (fwdStep cx true s c) := by
  have hcL : c ∈ L := hP c (by simp)
  have hPL : ∀ a ∈ P, a ∈ L := fun a ha => hP a (List.mem_append_left _ ha)
  have hbet := fwdStep_better cx true s c
  have hmonoP : ∀ a ∈ P, a ∈ P ++ [c] := fun a ha => List.mem_append_left _ ha
  have hdepP : ∀ a ∈ P, a.dep ≤ c.dep := by
    intro a ha
    have := hbefore a ha
    simp only [fwdLt, Bool.or_eq_false_iff, decide_eq_false_iff_not] at this
    omega
  have hsame : ∀ x ∈ P, c.trip = x.trip → c.seq ≤ x.seq → x = c := by
    intro x hx ht hs
    have h1 := w.depMono c hcL x (hPL x hx) ht hs
    have h2 := hdepP x hx
    have hlt := hbefore x hx
    simp only [fwdLt, Bool.or_eq_false_iff, Bool.and_eq_false_iff, decide_eq_false_iff_not] at hlt
    have heq : c.dep = x.dep := by omega
    have hseq : c.seq = x.seq := by
      rcases hlt.2 with h3 | h3
      · exact absurd heq h3
      · rcases h3.2 with h4 | h4
        · exact absurd ht h4
        · omega
    exact (w.unique c hcL x (hPL x hx) ht hseq).symm
  have hns : c.dep ≤ β → s.stop = false := by
    intro hc
    cases hst : s.stop with
    | false => rfl
    | true =>
      obtain ⟨c0, hc0, hlate⟩ := h.stop hst
      have := hdepP c0 hc0
      omega
  have hegrWFe : ∀ y js, (fwdEnter s c).egr y = some js → ∃ x, js.exit = some x := by
    rw [fwdEnter_egr]; exact h.egrWF
  -- the main branch, for a ride that ends with `c`
  have hmain : ∀ e ∈ P ++ [c], BoardP cx (P ++ [c]) e → e.trip = c.trip → e.seq ≤ c.seq → c.dep ≤ β →
      fwdStep cx true s c =
        { fwdAlight cx true (fwdEnter s c) c with count := (fwdAlight cx true (fwdEnter s c) c).count + 1 } ∧
      ((fwdEnter s c).enterC c.trip).isSome = true := by
    intro e he hb ht hs hc
    have hed : e.dep ≤ c.dep := w.depMono e (hP e he) c hcL ht hs
    have hbP := hb.strengthen w hP hed
    obtain ⟨hcb, hdis, t, hr, hrt⟩ := hbP
    have hge := hr.time_ge w hPL
    have hw := effWait_nonneg e cx.p.minWait w.mw
    have hwc := effWait_nonneg c cx.p.minWait w.mw
    have hcond : (s.enterC c.trip).isSome = true ∨ s.tent c.depStop ≤ c.dep - c.effWait cx.p.minWait := by
      rcases List.mem_append.mp he with heP | heC
      · left; rw [← ht]; exact h.enter e heP ⟨hcb, hdis, t, hr, hrt⟩ (by omega)
      · simp at heC; subst heC
        right
        have := h.tent _ _ hr (by omega)
        omega
    refine ⟨fwdStep1_main cx s c (hns hc) (by omega) (by rw [← ht]; exact hdis) (by omega) ?_ w.noCap hcond, ?_⟩
    · intro ⟨hr1, hr2, hr3, hr4⟩
      have := hβ2 hr1 hr2 hr3
      omega
    · unfold fwdEnter
      by_cases hx : c.canBoard = true ∧ (s.enterC c.trip).isNone = true
      · rw [if_pos hx]; simp
      · rw [if_neg hx]
        rcases List.mem_append.mp he with heP | heC
        · rw [← ht]; exact h.enter e heP ⟨hcb, hdis, t, hr, hrt⟩ (by omega)
        · simp at heC; subst heC
          cases hen : s.enterC e.trip with
          | some v => rfl
          | none => exact absurd ⟨hcb, by rw [hen]; rfl⟩ hx
  refine ⟨?_, ?_, ?_, ?_, ?_, ?_, ?_⟩
  · -- tentative times
    intro y t hr ht
    cases hr with
    | access a ha => exact Int.le_trans (hbet.tent _) (h.tent _ _ (Reach.access a ha) ht)
    | ride y' t' e x f hsub he hx h1 h2 h3 h4 h5 h6 h7 h8 h9 =>
      have hxL := hP x hx
      have heL := hP e he
      have hph := w.posHop x hxL
      have hfn := w.footNonneg _ f h8
      have hdm := w.depMono e heL x hxL h3 h4
      have hw := effWait_nonneg e cx.p.minWait w.mw
      by_cases hxc : x = c
      · subst hxc
        obtain ⟨hm, hen⟩ := hmain e he ⟨h5, h7, t', by rw [h1]; exact hsub, h2⟩ h3 h4 (by omega)
        rw [hm]
        simp only
        rw [fwdAlight1_eq, if_pos ⟨h6, hen⟩]
        exact fwdFoot_fold_tent cx x f h9 hfn _ _ h8
      · have hxP : x ∈ P := by
          rcases List.mem_append.mp hx with h' | h'
          · exact h'
          · simp at h'; exact absurd h' hxc
        have heP : e ∈ P := by
          rcases List.mem_append.mp he with h' | h'
          · exact h'
          · simp at h'; subst h'
            exact absurd (hsame x hxP h3 h4) hxc
        have hxd := hdepP x hxP
        have hsubP := hsub.strengthen w hP (by omega)
        exact Int.le_trans (hbet.tent _) (h.tent _ _ (Reach.ride y' t' e x f hsubP heP hxP h1 h2 h3 h4 h5 h6 h7 h8 h9) ht)
  · -- entered trips
    intro e he hb hd
    rcases List.mem_append.mp he with heP | heC
    · have hbP := hb.strengthen w hP (hdepP e heP)
      have := h.enter e heP hbP hd
      cases hen : s.enterC e.trip with
      | none => rw [hen] at this; cases this
      | some v => rw [hbet.enter _ _ hen]; rfl
    · simp at heC; subst heC
      obtain ⟨hm, hen⟩ := hmain e he hb rfl (Nat.le_refl _) hd
      rw [hm]
      simp only
      cases hv : (fwdEnter s e).enterC e.trip with
      | none => rw [hv] at hen; cases hen
      | some v => rw [(fwdAlight1_better cx (fwdEnter s e) e).enter _ _ hv]; rfl
  · -- recorded alightings, and the count
    intro e he x hx hb ht hs hcu hxa
    have hxL := hP x hx
    have heL := hP e he
    have hdm := w.depMono e heL x hxL ht hs
    by_cases hxc : x = c
    · subst hxc
      obtain ⟨hm, hen⟩ := hmain e he hb ht hs hxa
      rw [hm]
      obtain ⟨f0, hf0, hf0s, hf0t⟩ := w.selfFoot x hcL
      refine ⟨?_, by simp only; omega⟩
      show EgrLe (fwdAlight cx true (fwdEnter s x) x) x.arrStop x.arr
      rw [fwdAlight1_eq, if_pos ⟨hcu, hen⟩]
      exact fwdFoot_fold_egr cx x f0 hf0t hf0s _ _ (by rw [(fwdMark_facts cx _ x).2.1]; exact hegrWFe) hf0
    · have hxP : x ∈ P := by
        rcases List.mem_append.mp hx with h' | h'
        · exact h'
        · simp at h'; exact absurd h' hxc
      have heP : e ∈ P := by
        rcases List.mem_append.mp he with h' | h'
        · exact h'
        · simp at h'; subst h'
          exact absurd (hsame x hxP ht hs) hxc
      have hbP := hb.strengthen w hP (by have := hdepP x hxP; omega)
      obtain ⟨ha, hcnt⟩ := h.egr e heP x hxP hbP ht hs hcu hxa
      exact ⟨hbet.egr _ _ ha, Nat.le_trans hcnt (fwdStep1_count_mono cx s c)⟩
  · -- the stop flag
    intro hst
    rcases fwdStep1_cases cx s c with h1 | ⟨_, h1⟩ | ⟨h0, h1⟩
    · rw [h1] at hst
      obtain ⟨c0, hc0, hl⟩ := h.stop hst
      exact ⟨c0, hmonoP c0 hc0, hl⟩
    · refine ⟨c, by simp, ?_⟩
      rcases h1 with ⟨hr1, hr2, hr3, hr4⟩ | h1
      · have := hβ2 hr1 hr2 hr3; omega
      · omega
    · rw [h1] at hst
      simp only at hst
      rw [fwdAlight1_stop, fwdEnter_stop, h0] at hst
      cases hst
  · -- recorded alightings carry their connection
    rcases fwdStep1_cases cx s c with h1 | ⟨h1, _⟩ | ⟨_, h1⟩
    · rw [h1]; exact h.egrWF
    · rw [h1]; exact h.egrWF
    · rw [h1]
      exact fwdAlight1_egrWF cx _ c hegrWFe
  · -- the reached mark
    intro hre
    rcases fwdStep1_cases cx s c with h1 | ⟨h1, _⟩ | ⟨_, h1⟩
    · rw [h1] at hre ⊢
      obtain ⟨c1, hc1, a, b, d⟩ := h.reach hre
      exact ⟨c1, hmonoP c1 hc1, a, b, d⟩
    · rw [h1] at hre ⊢
      obtain ⟨c1, hc1, a, b, d⟩ := h.reach hre
      exact ⟨c1, hmonoP c1 hc1, a, b, d⟩
    · have hbetS := hbet
      rw [h1] at hre hbetS ⊢
      simp only at hre ⊢
      have hem := fwdEnter_misc s c
      by_cases hsr : s.reached = true
      · obtain ⟨c1, hc1, a, b, d, dcnt⟩ := h.reach hsr
        refine ⟨c1, hmonoP c1 hc1, ?_, b, hbetS.egr _ _ d, by rw [fwdAlight1_count, fwdEnter_count]; omega⟩
        rw [a, fwdAlight1_eq]
        have hmk : fwdMark cx (fwdEnter s c) c = fwdEnter s c := by
          unfold fwdMark
          rw [if_neg (by rw [hem.1, hsr]; simp)]
        split
        · rw [(fwdFoot_fold_misc cx c _ _).2.1, hmk, hem.2.1]
        · rw [hem.2.1]
      · rw [fwdAlight1_eq] at hre ⊢
        by_cases hcond : c.canUnboard = true ∧ ((fwdEnter s c).enterC c.trip).isSome = true
        · rw [if_pos hcond] at hre ⊢
          rw [(fwdFoot_fold_misc cx c _ _).1] at hre
          rw [(fwdFoot_fold_misc cx c _ _).2.1]
          unfold fwdMark at hre ⊢
          by_cases hmk : ¬ (fwdEnter s c).reached = true ∧
              ((cx.nodesEgress c.arrStop).any fun (e : NTD) => decide (e.time ≠ -1)) = true
          · rw [if_pos hmk]
            simp only
            obtain ⟨f0, hf0, hf0s, hf0t⟩ := w.selfFoot c hcL
            refine ⟨c, by simp, rfl, ?_, ?_, by omega⟩
            · cases hna : cx.nodesEgress c.arrStop with
              | none => rw [hna] at hmk; simp at hmk
              | some g1 => exact ⟨g1, rfl⟩
            · exact fwdFoot_fold_egr cx c f0 hf0t hf0s _ _ (by simp only; exact hegrWFe) hf0
          · rw [if_neg hmk] at hre
            rw [hem.1] at hre
            exact absurd hre hsr
        · rw [if_neg hcond] at hre
          rw [hem.1] at hre
          exact absurd hre hsr
  · -- usable flags
    intro T hT
    rcases fwdStep1_cases cx s c with h1 | ⟨h1, _⟩ | ⟨_, h1⟩
    · rw [h1] at hT ⊢; exact h.usable T hT
    · rw [h1] at hT ⊢; exact h.usable T hT
    · rw [h1] at hT ⊢
      simp only at hT ⊢
      -- the alighting part touches neither table
      have hae : (fwdAlight cx true (fwdEnter s c) c).enterC = (fwdEnter s c).enterC := by
        rw [fwdAlight1_eq]
        split
        · have : ∀ (l : List NTD) (s0 : FState), (l.foldl (fwdFoot cx c) s0).enterC = s0.enterC := by
            intro l
            induction l with
            | nil => intro s0; rfl
            | cons f rest ih => intro s0; rw [List.foldl_cons, ih, fwdFoot_enterC]
          rw [this, (fwdMark_facts cx _ c).2.2.2.1]
        · rfl
      have hau : (fwdAlight cx true (fwdEnter s c) c).usable = (fwdEnter s c).usable := by
        rw [fwdAlight1_eq]
        split
        · rw [(fwdFoot_fold_misc cx c _ _).2.2, (fwdMark_facts cx _ c).2.2.2.2.2.2]
        · rfl
      rw [hae] at hT
      rw [hau]
      unfold fwdEnter at hT ⊢
      by_cases hx : c.canBoard = true ∧ (s.enterC c.trip).isNone = true
      · rw [if_pos hx] at hT ⊢
        simp only at hT ⊢
        by_cases hTc : T = c.trip
        · subst hTc; simp
        · rw [upd_other _ _ _ _ hTc] at hT ⊢; exact h.usable T hT
      · rw [if_neg hx] at hT ⊢; exact h.usable T hT

/-! ### the scan -/

theorem fwdStep1_frozen (cx : Ctx) (s : FState) (c : Conn) (h : s.reached = true) :
    (fwdStep cx true s c).reached = true ∧ (fwdStep cx true s c).tentEgrArr = s.tentEgrArr := by
  rcases fwdStep1_cases cx s c with h1 | ⟨h1, _⟩ | ⟨_, h1⟩
  · rw [h1]; exact ⟨h, rfl⟩
  · rw [h1]; exact ⟨h, rfl⟩
  · rw [h1]
    simp only
    have hem := fwdEnter_misc s c
    have hmk : fwdMark cx (fwdEnter s c) c = fwdEnter s c := by
      unfold fwdMark
      rw [if_neg (by rw [hem.1, h]; simp)]
    rw [fwdAlight1_eq]
    split
    · rw [(fwdFoot_fold_misc cx c _ _).1, (fwdFoot_fold_misc cx c _ _).2.1, hmk, hem.1, hem.2.1]; exact ⟨h, rfl⟩
    · rw [hem.1, hem.2.1]; exact ⟨h, rfl⟩

theorem fwdFold1_frozen (cx : Ctx) : ∀ (l : List Conn) (s : FState), s.reached = true →
    (l.foldl (fwdStep cx true) s).reached = true ∧ (l.foldl (fwdStep cx true) s).tentEgrArr = s.tentEgrArr := by
  intro l
  induction l with
  | nil => intro s h; exact ⟨h, rfl⟩
  | cons c rest ih =>
    intro s h
    rw [List.foldl_cons]
    obtain ⟨a, b⟩ := fwdStep1_frozen cx s c h
    obtain ⟨a', b'⟩ := ih _ a
    exact ⟨a', by rw [b', b]⟩

theorem fwdScanList1_FCβ {cx : Ctx} {L : List Conn} (w : FW cx L) (β : Int) (hβ1 : β ≤ cx.depT + cx.p.maxTotal) :
    ∀ (post pre : List Conn) (s : FState), (∀ a ∈ pre ++ post, a ∈ L) → SortedFwd (pre ++ post) →
      FCβ cx β pre s →
      ((post.foldl (fwdStep cx true) s).reached = true → cx.maxEgress ≥ 0 → (post.foldl (fwdStep cx true) s).tentEgrArr < MAX_INT →
        β ≤ (post.foldl (fwdStep cx true) s).tentEgrArr + cx.maxEgress) →
      FCβ cx β (pre ++ post) (post.foldl (fwdStep cx true) s) := by
  intro post
  induction post with
  | nil => intro pre s _ _ h _; simpa using h
  | cons c rest ih =>
    intro pre s hC hs h hfin
    rw [List.foldl_cons] at hfin ⊢
    have hβ2 : s.reached = true → cx.maxEgress ≥ 0 → s.tentEgrArr < MAX_INT → β ≤ s.tentEgrArr + cx.maxEgress := by
      intro hr hm hlt
      obtain ⟨a, b⟩ := fwdFold1_frozen cx (c :: rest) s hr
      rw [List.foldl_cons] at a b
      have := hfin a hm (by rw [b]; exact hlt)
      rw [b] at this
      exact this
    have hstep := fwdStep1_FCβ (c := c) w (fun a ha => hC a (by
        rcases List.mem_append.mp ha with h1 | h1
        · exact List.mem_append_left _ h1
        · simp at h1; subst h1; simp))
      (fun a ha => (List.pairwise_append.mp hs).2.2 a ha c (List.mem_cons_self ..)) hβ1 hβ2 h
    have := ih (pre ++ [c]) _ (by simpa using hC) (by simpa [SortedFwd] using hs) hstep hfin
    simpa using this

/-! ### the best egress stop -/

theorem nodes_find_nodup {l : List NTD} (hnd : (l.map (·.stop)).Nodup) {g : NTD} (hg : g ∈ l) :
    l.find? (fun x => decide (x.stop = g.stop)) = some g := by
  induction l with
  | nil => cases hg
  | cons x rest ih =>
    rw [List.map_cons, List.nodup_cons] at hnd
    rcases List.mem_cons.mp hg with rfl | hm'
    · simp
    · have hx : x.stop ≠ g.stop := by
        intro hh; exact hnd.1 (by rw [hh]; exact List.mem_map_of_mem hm')
      rw [List.find?_cons]
      simp only [hx, decide_false]
      exact ih hnd.2 hm'

/-- the egress stop `g0` has a recorded alighting no later than `b`, and `b + g0.time` passes the
    tests: the calculation picks an arrival at most that late -/
theorem bestEgress_le {cx : Ctx} {s : FState} (hnd : (cx.egressFoot.map (·.stop)).Nodup) {g0 : NTD} (hg0 : g0 ∈ cx.egressFoot)
    {b : Int} (hegr : EgrLe s g0.stop b) (h0 : 0 ≤ b + g0.time) (hT : b + g0.time - cx.depT ≤ cx.p.maxTotal)
    (hlt : b + g0.time < MAX_INT) (hpos : ∀ y js x, s.egr y = some js → js.exit = some x → 0 ≤ x.arr)
    (hegrNonneg : ∀ g ∈ cx.egressFoot, 0 ≤ g.time) :
    ∃ ba node, bestEgress cx s = some (ba, node) ∧ ba ≤ b + g0.time := by
  obtain ⟨js0, x0, hj0, hx0, hb0⟩ := hegr
  have hng0 : cx.nodesEgress g0.stop = some g0 := nodes_find_nodup hnd hg0
  unfold bestEgress
  have key : ∀ (l : List NTD) (acc : Int × Option Nat), (∀ a ∈ l, a ∈ cx.egressFoot) →
      ((acc.2 = none ∧ acc.1 = MAX_INT) ∨ (acc.2.isSome = true ∧ acc.1 < MAX_INT)) →
      let r := l.foldl (fun (acc : Int × Option Nat) e =>
        match s.egr e.stop with
        | some js => match js.exit, cx.nodesEgress e.stop with
          | some x, some eg =>
            let t := x.arr + eg.time
            if t ≥ 0 ∧ t - cx.depT ≤ cx.p.maxTotal ∧ t < acc.1 ∧ t < MAX_INT then (t, some eg.stop) else acc
          | _, _ => acc
        | none => acc) acc
      ((r.2 = none ∧ r.1 = MAX_INT) ∨ (r.2.isSome = true ∧ r.1 < MAX_INT)) ∧ r.1 ≤ acc.1 ∧
      (g0 ∈ l → r.1 ≤ b + g0.time) := by
    intro l
    induction l with
    | nil => intro acc _ hI; exact ⟨hI, Int.le_refl _, fun h => by cases h⟩
    | cons a rest ih =>
      intro acc hl hI
      simp only [List.foldl_cons]
      have hstep : ∃ acc', (match s.egr a.stop with
          | some js => match js.exit, cx.nodesEgress a.stop with
            | some x, some eg =>
              let t := x.arr + eg.time
              if t ≥ 0 ∧ t - cx.depT ≤ cx.p.maxTotal ∧ t < acc.1 ∧ t < MAX_INT then (t, some eg.stop) else acc
            | _, _ => acc
          | none => acc) = acc' ∧
          ((acc'.2 = none ∧ acc'.1 = MAX_INT) ∨ (acc'.2.isSome = true ∧ acc'.1 < MAX_INT)) ∧ acc'.1 ≤ acc.1 ∧
          (a = g0 → acc'.1 ≤ b + g0.time) := by
        refine ⟨_, rfl, ?_⟩
        cases hsa : s.egr a.stop with
        | none =>
          refine ⟨hI, Int.le_refl _, ?_⟩
          intro haa; subst haa; rw [hj0] at hsa; cases hsa
        | some js =>
          cases hje : js.exit with
          | none =>
            refine ⟨by simpa [hje] using hI, by simp [hje], ?_⟩
            intro haa; subst haa; rw [hj0] at hsa; cases hsa; rw [hx0] at hje; cases hje
          | some x =>
            cases hna : cx.nodesEgress a.stop with
            | none =>
              refine ⟨by simpa [hje, hna] using hI, by simp [hje, hna], ?_⟩
              intro haa; subst haa; rw [hng0] at hna; cases hna
            | some eg =>
              simp only [hje, hna]
              by_cases hc : x.arr + eg.time ≥ 0 ∧ x.arr + eg.time - cx.depT ≤ cx.p.maxTotal ∧
                  x.arr + eg.time < acc.1 ∧ x.arr + eg.time < MAX_INT
              · rw [if_pos hc]
                refine ⟨Or.inr ⟨rfl, hc.2.2.2⟩, by simp only; omega, ?_⟩
                intro haa; subst haa
                rw [hj0] at hsa; cases hsa; rw [hx0] at hje; cases hje; rw [hng0] at hna; cases hna
                simp only; omega
              · rw [if_neg hc]
                refine ⟨hI, Int.le_refl _, ?_⟩
                intro haa; subst haa
                rw [hj0] at hsa; cases hsa; rw [hx0] at hje; cases hje; rw [hng0] at hna; cases hna
                have hxa := hpos _ _ _ hj0 hx0
                have hgt := hegrNonneg a hg0
                by_cases hlt2 : x0.arr + a.time < acc.1
                · exact absurd ⟨by omega, by omega, hlt2, by omega⟩ hc
                · omega
      obtain ⟨acc', hacc', hI', hmono, hval⟩ := hstep
      rw [hacc']
      obtain ⟨r1, r2, r3⟩ := ih acc' (fun x hx => hl x (List.mem_cons_of_mem _ hx)) hI'
      refine ⟨r1, Int.le_trans r2 hmono, ?_⟩
      intro hm
      rcases List.mem_cons.mp hm with rfl | hm'
      · exact Int.le_trans r2 (hval rfl)
      · exact r3 hm'
  obtain ⟨k1, _, k3⟩ := key cx.egressFoot (MAX_INT, none) (fun a ha => ha) (Or.inl ⟨rfl, rfl⟩)
  simp only at k1 k3
  have hge := k3 hg0
  generalize cx.egressFoot.foldl (fun (acc : Int × Option Nat) e =>
        match s.egr e.stop with
        | some js => match js.exit, cx.nodesEgress e.stop with
          | some x, some eg =>
            let t := x.arr + eg.time
            if t ≥ 0 ∧ t - cx.depT ≤ cx.p.maxTotal ∧ t < acc.1 ∧ t < MAX_INT then (t, some eg.stop) else acc
          | _, _ => acc
        | none => acc) (MAX_INT, none) = r at k1 hge ⊢
  rcases k1 with ⟨_, h1⟩ | ⟨h1, _⟩
  · omega
  · cases hr2 : r.2 with
    | none => rw [hr2] at h1; cases h1
    | some st => exact ⟨r.1, st, by simp [hr2], hge⟩

/-- what the chosen arrival is: a recorded alighting at an offered stop plus its egress walk, within
    max_travel_time -/
theorem bestEgress_sound {cx : Ctx} {s : FState} {t : Int} {n : Nat} (h : bestEgress cx s = some (t, n)) :
    ∃ g ∈ cx.egressFoot, ∃ js x eg, s.egr g.stop = some js ∧ js.exit = some x ∧ cx.nodesEgress g.stop = some eg ∧
      t = x.arr + eg.time ∧ t - cx.depT ≤ cx.p.maxTotal ∧ 0 ≤ t := by
  unfold bestEgress at h
  have key : ∀ (l : List NTD) (acc : Int × Option Nat), (∀ a ∈ l, a ∈ cx.egressFoot) →
      (acc.2.isSome = true → ∃ g ∈ cx.egressFoot, ∃ js x eg, s.egr g.stop = some js ∧ js.exit = some x ∧ cx.nodesEgress g.stop = some eg ∧
        acc.1 = x.arr + eg.time ∧ acc.1 - cx.depT ≤ cx.p.maxTotal ∧ 0 ≤ acc.1) →
      let r := l.foldl (fun (acc : Int × Option Nat) e =>
        match s.egr e.stop with
        | some js => match js.exit, cx.nodesEgress e.stop with
          | some x, some eg =>
            let t := x.arr + eg.time
            if t ≥ 0 ∧ t - cx.depT ≤ cx.p.maxTotal ∧ t < acc.1 ∧ t < MAX_INT then (t, some eg.stop) else acc
          | _, _ => acc
        | none => acc) acc
      (r.2.isSome = true → ∃ g ∈ cx.egressFoot, ∃ js x eg, s.egr g.stop = some js ∧ js.exit = some x ∧ cx.nodesEgress g.stop = some eg ∧
        r.1 = x.arr + eg.time ∧ r.1 - cx.depT ≤ cx.p.maxTotal ∧ 0 ≤ r.1) := by
    intro l
    induction l with
    | nil => intro acc _ h0; exact h0
    | cons a rest ih =>
      intro acc hl h0
      simp only [List.foldl_cons]
      apply ih _ (fun x hx => hl x (List.mem_cons_of_mem _ hx))
      cases hsa : s.egr a.stop with
      | none => simpa using h0
      | some js =>
        cases hje : js.exit with
        | none => simpa [hje] using h0
        | some x =>
          cases hna : cx.nodesEgress a.stop with
          | none => simpa [hje, hna] using h0
          | some eg =>
            simp only [hje, hna]
            by_cases hc : x.arr + eg.time ≥ 0 ∧ x.arr + eg.time - cx.depT ≤ cx.p.maxTotal ∧
                x.arr + eg.time < acc.1 ∧ x.arr + eg.time < MAX_INT
            · rw [if_pos hc]
              intro _
              exact ⟨a, hl a (List.mem_cons_self ..), js, x, eg, hsa, hje, hna, rfl, hc.2.1, hc.1⟩
            · rw [if_neg hc]; exact h0
  have hk := key cx.egressFoot (MAX_INT, none) (fun a ha => ha) (by intro h; cases h)
  simp only at hk
  generalize cx.egressFoot.foldl (fun (acc : Int × Option Nat) e =>
        match s.egr e.stop with
        | some js => match js.exit, cx.nodesEgress e.stop with
          | some x, some eg =>
            let t := x.arr + eg.time
            if t ≥ 0 ∧ t - cx.depT ≤ cx.p.maxTotal ∧ t < acc.1 ∧ t < MAX_INT then (t, some eg.stop) else acc
          | _, _ => acc
        | none => acc) (MAX_INT, none) = r at hk h
  cases hr2 : r.2 with
  | none => simp [hr2] at h
  | some st =>
    simp [hr2] at h
    have := hk (by rw [hr2]; rfl)
    rw [h.1] at this
    exact this

end Tr
