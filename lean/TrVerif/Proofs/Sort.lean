/-
  TrVerif.Proofs.Sort — stable insertion sort: sortedness, membership, and commutation with
  `filter` (the mechanism behind property C11: filtering the globally sorted connection lists by
  scenario gives the sorted list of the surviving connections).
-/
import TrVerif.Model.Data
namespace Tr

variable {α : Type} (lt : α → α → Bool)

/-- what `std::stable_sort` needs of its comparator: a strict weak order -/
structure StrictWeak : Prop where
  asymm : ∀ a b, lt a b = true → lt b a = false
  negTrans : ∀ a b c, lt a b = false → lt b c = false → lt a c = false

/-- sorted: no later element is strictly smaller than an earlier one -/
def SortedBy (l : List α) : Prop := l.Pairwise (fun x y => lt y x = false)

theorem insertBy_of_forall (a : α) (l : List α) (h : ∀ c ∈ l, lt c a = false) : insertBy lt a l = a :: l := by
  cases l with
  | nil => rfl
  | cons b l => simp [insertBy, h b (by simp)]

theorem mem_insertBy (a x : α) (l : List α) : x ∈ insertBy lt a l ↔ x = a ∨ x ∈ l := by
  induction l with
  | nil => simp [insertBy]
  | cons b l ih =>
    simp only [insertBy]
    split
    · simp [ih]; constructor
      · rintro (h | h | h) <;> simp [h]
      · rintro (h | h | h) <;> simp [h]
    · simp

theorem mem_isort (x : α) (l : List α) : x ∈ isort lt l ↔ x ∈ l := by
  induction l with
  | nil => simp [isort]
  | cons a l ih => simp [isort, List.foldr] at ih ⊢; rw [mem_insertBy]; simp [ih]

theorem sorted_insertBy (h : StrictWeak lt) (a : α) (l : List α) (hs : SortedBy lt l) : SortedBy lt (insertBy lt a l) := by
  induction l with
  | nil => simp [insertBy, SortedBy]
  | cons b l ih =>
    simp only [insertBy]
    have hb := List.pairwise_cons.mp hs
    split
    · rename_i hba
      refine List.pairwise_cons.mpr ⟨?_, ih hb.2⟩
      intro c hc
      rcases (mem_insertBy lt a c l).mp hc with e | e
      · subst e; exact h.asymm _ _ hba
      · exact hb.1 c e
    · rename_i hba
      have hba' : lt b a = false := by simpa using hba
      refine List.pairwise_cons.mpr ⟨?_, hs⟩
      intro c hc
      rcases List.mem_cons.mp hc with e | e
      · subst e; exact hba'
      · exact h.negTrans _ _ _ (hb.1 c e) hba'

theorem sorted_isort (h : StrictWeak lt) (l : List α) : SortedBy lt (isort lt l) := by
  induction l with
  | nil => simp [isort, SortedBy]
  | cons a l ih => simpa [isort, List.foldr] using sorted_insertBy lt h a _ ih

theorem filter_insertBy (h : StrictWeak lt) (p : α → Bool) (a : α) (l : List α) (hs : SortedBy lt l) :
    (insertBy lt a l).filter p = if p a then insertBy lt a (l.filter p) else l.filter p := by
  induction l with
  | nil => simp only [insertBy, List.filter]; split <;> simp_all [insertBy]
  | cons b l ih =>
    have hb := List.pairwise_cons.mp hs
    simp only [insertBy]
    by_cases hba : lt b a = true
    · rw [if_pos hba]
      have ih' := ih hb.2
      by_cases hpb : p b = true
      · simp only [List.filter, hpb, ih']
        by_cases hpa : p a = true
        · simp [hpa, insertBy, hba]
        · simp [hpa]
      · simp only [List.filter, hpb, ih']
    · rw [if_neg hba]
      have hba' : lt b a = false := by simpa using hba
      have hall : ∀ c ∈ (b :: l).filter p, lt c a = false := by
        intro c hc
        have hc' := (List.mem_filter.mp hc).1
        rcases List.mem_cons.mp hc' with e | e
        · subst e; exact hba'
        · exact h.negTrans _ _ _ (hb.1 c e) hba'
      by_cases hpa : p a = true
      · rw [if_pos hpa, insertBy_of_forall lt a _ hall]
        simp [List.filter, hpa]
      · rw [if_neg hpa]
        simp [List.filter, hpa]

/-- filtering a sorted-by-insertion list = sorting the filtered list -/
theorem filter_isort (h : StrictWeak lt) (p : α → Bool) (l : List α) :
    (isort lt l).filter p = isort lt (l.filter p) := by
  induction l with
  | nil => rfl
  | cons a l ih =>
    have e : isort lt (a :: l) = insertBy lt a (isort lt l) := rfl
    rw [e, filter_insertBy lt h p a _ (sorted_isort lt h l), ih]
    by_cases hpa : p a = true
    · simp [List.filter, hpa, isort]
    · simp [List.filter, hpa]

/-! ### the two comparators of `transit_data.cpp` are strict weak orders -/

theorem fwdLt_strictWeak : StrictWeak fwdLt := by
  constructor
  · intro a b h
    simp only [fwdLt, Bool.or_eq_true, Bool.and_eq_true, decide_eq_true_eq] at h
    simp only [fwdLt, Bool.or_eq_false_iff, Bool.and_eq_false_iff, decide_eq_false_iff_not]
    omega
  · intro a b c h1 h2
    simp only [fwdLt, Bool.or_eq_false_iff, Bool.and_eq_false_iff, decide_eq_false_iff_not] at h1 h2 ⊢
    omega

theorem revLt_strictWeak : StrictWeak revLt := by
  constructor
  · intro a b h
    simp only [revLt, Bool.or_eq_true, Bool.and_eq_true, decide_eq_true_eq] at h
    simp only [revLt, Bool.or_eq_false_iff, Bool.and_eq_false_iff, decide_eq_false_iff_not]
    omega
  · intro a b c h1 h2
    simp only [revLt, Bool.or_eq_false_iff, Bool.and_eq_false_iff, decide_eq_false_iff_not] at h1 h2 ⊢
    omega

end Tr
