/-
  TrVerif.Proofs.ForwardComplete — completeness of the forward scan: whatever a traveller leaving
  the place at the requested time can reach (`Reach`) within max_travel_time, the scan has
  reached no later; every boardable trip is entered; every possible alighting is recorded with an
  arrival no later.
-/
import TrVerif.Proofs.Forward
namespace Tr

/-- what the completeness proof assumes about the scanned list `L` and the query -/
structure FW (cx : Ctx) (L : List Conn) : Prop where
  posHop : ∀ c ∈ L, c.dep < c.arr
  depMono : ∀ a ∈ L, ∀ b ∈ L, a.trip = b.trip → a.seq ≤ b.seq → a.dep ≤ b.dep
  arrMono : ∀ a ∈ L, ∀ b ∈ L, a.trip = b.trip → a.seq ≤ b.seq → a.arr ≤ b.arr
  unique : ∀ a ∈ L, ∀ b ∈ L, a.trip = b.trip → a.seq = b.seq → a = b
  footNonneg : ∀ z, ∀ f ∈ cx.ds.footOf z, 0 ≤ f.time
  selfFoot : ∀ c ∈ L, ∃ f ∈ cx.ds.footOf c.arrStop, f.stop = c.arrStop ∧ f.time ≤ cx.p.maxTransfer
  mw : 0 ≤ cx.p.minWait
  accNonneg : ∀ a ∈ cx.accessFoot, 0 ≤ a.time
  accNodup : (cx.accessFoot.map (·.stop)).Nodup
  noCap : cx.p.maxFirstWait ≤ 0

theorem Reach.mono_set {cx : Ctx} {P P' : List Conn} (hp : ∀ a ∈ P, a ∈ P') {y : Nat} {t : Int} (h : Reach cx P y t) :
    Reach cx P' y t := by
  induction h with
  | access a ha => exact Reach.access a ha
  | ride y t e x f _ he hx h1 h2 h3 h4 h5 h6 h7 h8 h9 ih => exact Reach.ride y t e x f ih (hp e he) (hp x hx) h1 h2 h3 h4 h5 h6 h7 h8 h9

theorem minTime_le (l : List NTD) : ∀ a ∈ l, minTime l ≤ a.time := by
  unfold minTime
  have key : ∀ (l : List NTD) (m : Int),
      (l.foldl (fun m e => if e.time < m then e.time else m) m ≤ m) ∧
      ∀ a ∈ l, l.foldl (fun m e => if e.time < m then e.time else m) m ≤ a.time := by
    intro l
    induction l with
    | nil => intro m; exact ⟨Int.le_refl _, fun a ha => by cases ha⟩
    | cons b rest ih =>
      intro m
      rw [List.foldl_cons]
      by_cases hb : b.time < m
      · rw [if_pos hb]
        obtain ⟨h1, h2⟩ := ih b.time
        refine ⟨by omega, ?_⟩
        intro a ha
        rcases List.mem_cons.mp ha with rfl | h
        · exact h1
        · exact h2 a h
      · rw [if_neg hb]
        obtain ⟨h1, h2⟩ := ih m
        refine ⟨h1, ?_⟩
        intro a ha
        rcases List.mem_cons.mp ha with rfl | h
        · omega
        · exact h2 a h
  exact fun a ha => (key l MAX_INT).2 a ha

/-- nobody stands anywhere before the requested time plus the shortest access walk -/
theorem Reach.time_ge {cx : Ctx} {L P : List Conn} (w : FW cx L) (hP : ∀ a ∈ P, a ∈ L) {y : Nat} {t : Int}
    (h : Reach cx P y t) : cx.depT + cx.minAccess ≤ t := by
  induction h with
  | access a ha =>
    have := minTime_le cx.accessFoot a ha
    show cx.depT + minTime cx.accessFoot ≤ cx.depT + a.time
    omega
  | ride y t e x f _ he hx h1 h2 h3 h4 h5 h6 h7 h8 h9 ih =>
    have hw := effWait_nonneg e cx.p.minWait w.mw
    have h10 := w.depMono e (hP e he) x (hP x hx) h3 h4
    have h11 := w.posHop x (hP x hx)
    have h12 := w.footNonneg _ f h8
    omega

/-- a journey that is over by the time `c` leaves does not use `c` -/
theorem Reach.strengthen {cx : Ctx} {L P : List Conn} {c : Conn} (w : FW cx L) (hP : ∀ a ∈ P ++ [c], a ∈ L)
    {y : Nat} {t : Int} (h : Reach cx (P ++ [c]) y t) (ht : t ≤ c.dep) : Reach cx P y t := by
  induction h with
  | access a ha => exact Reach.access a ha
  | ride y t e x f _ he hx h1 h2 h3 h4 h5 h6 h7 h8 h9 ih =>
    have hcL : c ∈ L := hP c (by simp)
    have hw := effWait_nonneg e cx.p.minWait w.mw
    have hdm := w.depMono e (hP e he) x (hP x hx) h3 h4
    have hph := w.posHop x (hP x hx)
    have hfn := w.footNonneg _ f h8
    have hxc : x ≠ c := by intro hh; subst hh; omega
    have hec : e ≠ c := by
      intro hh; subst hh
      have := w.posHop e hcL
      omega
    have he' : e ∈ P := by
      rcases List.mem_append.mp he with h | h
      · exact h
      · simp at h; exact absurd h hec
    have hx' : x ∈ P := by
      rcases List.mem_append.mp hx with h | h
      · exact h
      · simp at h; exact absurd h hxc
    exact Reach.ride y t e x f (ih (by omega)) he' hx' h1 h2 h3 h4 h5 h6 h7 h8 h9

/-! ### the tables only improve -/

/-- stop `y` has a recorded alighting that arrives no later than `b` -/
def EgrLe (s : FState) (y : Nat) (b : Int) : Prop := ∃ js x, s.egr y = some js ∧ js.exit = some x ∧ x.arr ≤ b

/-- `s'` is at least as good as `s` -/
structure Better (s s' : FState) : Prop where
  tent : ∀ y, s'.tent y ≤ s.tent y
  enter : ∀ T e, s.enterC T = some e → s'.enterC T = some e
  egr : ∀ y b, EgrLe s y b → EgrLe s' y b

theorem Better.refl (s : FState) : Better s s := ⟨fun _ => Int.le_refl _, fun _ _ h => h, fun _ _ h => h⟩

theorem Better.trans {a b c : FState} (h1 : Better a b) (h2 : Better b c) : Better a c :=
  ⟨fun y => Int.le_trans (h2.tent y) (h1.tent y), fun T e h => h2.enter T e (h1.enter T e h), fun y b h => h2.egr y b (h1.egr y b h)⟩

theorem fwdFoot_better (cx : Ctx) (c : Conn) (s : FState) (f : NTD) : Better s (fwdFoot cx c s f) := by
  unfold fwdFoot
  simp only
  by_cases h1 : f.stop ≠ c.arrStop ∧ s.tent f.stop < c.arr
  · rw [if_pos h1]; exact Better.refl s
  · rw [if_neg h1]
    by_cases h2 : f.time ≤ cx.p.maxTransfer
    · rw [if_pos h2]
      have hs1 : Better s (if f.time + c.arr < s.tent f.stop then
          { s with tent := upd s.tent f.stop (f.time + c.arr),
                   steps := upd s.steps f.stop { enter := s.enterC c.trip, exit := some c, walk := f.time, dist := f.dist } }
          else s) := by
        by_cases h3 : f.time + c.arr < s.tent f.stop
        · rw [if_pos h3]
          refine ⟨?_, fun _ _ h => h, fun _ _ h => h⟩
          intro y
          simp only
          by_cases hy : y = f.stop
          · subst hy; simp only [upd_same]; omega
          · rw [upd_other _ _ _ _ hy]; exact Int.le_refl _
        · rw [if_neg h3]; exact Better.refl s
      generalize (if f.time + c.arr < s.tent f.stop then
          { s with tent := upd s.tent f.stop (f.time + c.arr),
                   steps := upd s.steps f.stop { enter := s.enterC c.trip, exit := some c, walk := f.time, dist := f.dist } }
          else s) = s1 at hs1 ⊢
      split
      · rename_i h4
        refine Better.trans hs1 ⟨fun _ => Int.le_refl _, fun _ _ h => h, ?_⟩
        intro y b ⟨js, x, hj, hx, hb⟩
        by_cases hy : y = f.stop
        · subst hy
          have hall := h4.2
          rw [hj] at hall
          simp only [Option.all_some, hx, Option.any_some, decide_eq_true_eq] at hall
          exact ⟨{ enter := s.enterC c.trip, exit := some c, walk := f.time, dist := f.dist }, c, by simp, rfl, by omega⟩
        · exact ⟨js, x, by simp only; rw [upd_other _ _ _ _ hy]; exact hj, hx, hb⟩
      · exact hs1
    · rw [if_neg h2]; exact Better.refl s

theorem fwdFoot_fold_better (cx : Ctx) (c : Conn) : ∀ (l : List NTD) (s : FState), Better s (l.foldl (fwdFoot cx c) s) := by
  intro l
  induction l with
  | nil => intro s; exact Better.refl s
  | cons f rest ih => intro s; rw [List.foldl_cons]; exact Better.trans (fwdFoot_better cx c s f) (ih _)

theorem fwdEnter_better (s : FState) (c : Conn) : Better s (fwdEnter s c) := by
  unfold fwdEnter
  by_cases h : c.canBoard = true ∧ (s.enterC c.trip).isNone = true
  · rw [if_pos h]
    refine ⟨fun _ => Int.le_refl _, ?_, fun _ _ h => h⟩
    intro T e he
    simp only
    by_cases hT : T = c.trip
    · subst hT; rw [he] at h; simp at h
    · rw [upd_other _ _ _ _ hT]; exact he
  · rw [if_neg h]; exact Better.refl s

theorem fwdAlight_better (cx : Ctx) (single : Bool) (s : FState) (c : Conn) : Better s (fwdAlight cx single s c) := by
  unfold fwdAlight
  split
  · simp only
    refine Better.trans ?_ (fwdFoot_fold_better cx c _ _)
    split
    · exact ⟨fun _ => Int.le_refl _, fun _ _ h => h, fun _ _ h => h⟩
    · exact Better.refl s
  · exact Better.refl s

theorem fwdStep_better (cx : Ctx) (single : Bool) (s : FState) (c : Conn) : Better s (fwdStep cx single s c) := by
  rcases fwdStep_cases cx single s c with h | h | ⟨_, _, h⟩
  · rw [h]; exact Better.refl s
  · rw [h]; exact ⟨fun _ => Int.le_refl _, fun _ _ h => h, fun _ _ h => h⟩
  · rw [h]
    have := Better.trans (fwdEnter_better s c) (fwdAlight_better cx single (fwdEnter s c) c)
    exact ⟨this.tent, this.enter, this.egr⟩

/-! ### what the footpath loop achieves -/

theorem fwdFoot_tent (cx : Ctx) (c : Conn) (s : FState) (f : NTD) (hf : f.time ≤ cx.p.maxTransfer) (hn : 0 ≤ f.time) :
    (fwdFoot cx c s f).tent f.stop ≤ c.arr + f.time := by
  unfold fwdFoot
  simp only
  by_cases h1 : f.stop ≠ c.arrStop ∧ s.tent f.stop < c.arr
  · rw [if_pos h1]; omega
  · rw [if_neg h1, if_pos hf]
    have hs1 : (if f.time + c.arr < s.tent f.stop then
          { s with tent := upd s.tent f.stop (f.time + c.arr),
                   steps := upd s.steps f.stop { enter := s.enterC c.trip, exit := some c, walk := f.time, dist := f.dist } }
          else s).tent f.stop ≤ c.arr + f.time := by
      by_cases h3 : f.time + c.arr < s.tent f.stop
      · rw [if_pos h3]; simp only [upd_same]; omega
      · rw [if_neg h3]; omega
    generalize (if f.time + c.arr < s.tent f.stop then
          { s with tent := upd s.tent f.stop (f.time + c.arr),
                   steps := upd s.steps f.stop { enter := s.enterC c.trip, exit := some c, walk := f.time, dist := f.dist } }
          else s) = s1 at hs1 ⊢
    split
    · exact hs1
    · exact hs1

theorem fwdFoot_fold_tent (cx : Ctx) (c : Conn) (f : NTD) (hf : f.time ≤ cx.p.maxTransfer) (hn : 0 ≤ f.time) :
    ∀ (l : List NTD) (s : FState), f ∈ l → (l.foldl (fwdFoot cx c) s).tent f.stop ≤ c.arr + f.time := by
  intro l
  induction l with
  | nil => intro s h; cases h
  | cons g rest ih =>
    intro s h
    rw [List.foldl_cons]
    rcases List.mem_cons.mp h with rfl | h'
    · exact Int.le_trans ((fwdFoot_fold_better cx c rest _).tent _) (fwdFoot_tent cx c s f hf hn)
    · exact ih _ h'

theorem fwdFoot_egr (cx : Ctx) (c : Conn) (s : FState) (f : NTD) (hf : f.time ≤ cx.p.maxTransfer) (hs : f.stop = c.arrStop)
    (hwf : ∀ y js, s.egr y = some js → ∃ x, js.exit = some x) :
    EgrLe (fwdFoot cx c s f) c.arrStop c.arr := by
  unfold fwdFoot
  simp only
  rw [if_neg (by intro h; exact h.1 hs), if_pos hf]
  have hegr : (if f.time + c.arr < s.tent f.stop then
        { s with tent := upd s.tent f.stop (f.time + c.arr),
                 steps := upd s.steps f.stop { enter := s.enterC c.trip, exit := some c, walk := f.time, dist := f.dist } }
        else s).egr = s.egr := by split <;> rfl
  generalize (if f.time + c.arr < s.tent f.stop then
        { s with tent := upd s.tent f.stop (f.time + c.arr),
                 steps := upd s.steps f.stop { enter := s.enterC c.trip, exit := some c, walk := f.time, dist := f.dist } }
        else s) = s1 at hegr ⊢
  by_cases h4 : f.stop = c.arrStop ∧ ((s1.egr f.stop).all fun e => e.exit.any fun x => decide (x.arr > c.arr)) = true
  · rw [if_pos h4]
    exact ⟨{ enter := s.enterC c.trip, exit := some c, walk := f.time, dist := f.dist }, c, by simp only; rw [← hs]; simp, rfl, Int.le_refl _⟩
  · rw [if_neg h4]
    have hnall : ¬ ((s1.egr f.stop).all fun e => e.exit.any fun x => decide (x.arr > c.arr)) = true := fun h => h4 ⟨hs, h⟩
    cases he : s1.egr f.stop with
    | none => rw [he] at hnall; simp at hnall
    | some js =>
      rw [he] at hnall
      simp only [Option.all_some] at hnall
      obtain ⟨x, hx⟩ := hwf f.stop js (by rw [← hegr]; exact he)
      rw [hx] at hnall
      simp only [Option.any_some, decide_eq_true_eq] at hnall
      exact ⟨js, x, by rw [← hs]; exact he, hx, by omega⟩

theorem fwdFoot_egrWF (cx : Ctx) (c : Conn) (s : FState) (f : NTD)
    (hwf : ∀ y js, s.egr y = some js → ∃ x, js.exit = some x) :
    ∀ y js, (fwdFoot cx c s f).egr y = some js → ∃ x, js.exit = some x := by
  unfold fwdFoot
  simp only
  split
  · exact hwf
  · split
    · have hegr : (if f.time + c.arr < s.tent f.stop then
          { s with tent := upd s.tent f.stop (f.time + c.arr),
                   steps := upd s.steps f.stop { enter := s.enterC c.trip, exit := some c, walk := f.time, dist := f.dist } }
          else s).egr = s.egr := by split <;> rfl
      generalize (if f.time + c.arr < s.tent f.stop then
          { s with tent := upd s.tent f.stop (f.time + c.arr),
                   steps := upd s.steps f.stop { enter := s.enterC c.trip, exit := some c, walk := f.time, dist := f.dist } }
          else s) = s1 at hegr ⊢
      split
      · intro y js hj
        simp only at hj
        by_cases hy : y = f.stop
        · subst hy; simp only [upd_same, Option.some.injEq] at hj; subst hj; exact ⟨c, rfl⟩
        · rw [upd_other _ _ _ _ hy, hegr] at hj; exact hwf y js hj
      · intro y js hj; rw [hegr] at hj; exact hwf y js hj
    · exact hwf

theorem fwdFoot_fold_egr (cx : Ctx) (c : Conn) (f : NTD) (hf : f.time ≤ cx.p.maxTransfer) (hs : f.stop = c.arrStop) :
    ∀ (l : List NTD) (s : FState), (∀ y js, s.egr y = some js → ∃ x, js.exit = some x) → f ∈ l →
      EgrLe (l.foldl (fwdFoot cx c) s) c.arrStop c.arr := by
  intro l
  induction l with
  | nil => intro s _ h; cases h
  | cons g rest ih =>
    intro s hwf h
    rw [List.foldl_cons]
    rcases List.mem_cons.mp h with rfl | h'
    · exact (fwdFoot_fold_better cx c rest _).egr _ _ (fwdFoot_egr cx c s f hf hs hwf)
    · exact ih _ (fwdFoot_egrWF cx c s g hwf) h'

/-! ### one connection, refined case analysis (all-nodes variant) -/

theorem fwdFoot_stop (cx : Ctx) (c : Conn) (s : FState) (f : NTD) : (fwdFoot cx c s f).stop = s.stop := by
  unfold fwdFoot
  simp only
  split
  · rfl
  · split
    · split <;> split <;> rfl
    · rfl

theorem fwdFoot_fold_stop (cx : Ctx) (c : Conn) : ∀ (l : List NTD) (s : FState), (l.foldl (fwdFoot cx c) s).stop = s.stop := by
  intro l
  induction l with
  | nil => intro s; rfl
  | cons f rest ih => intro s; rw [List.foldl_cons, ih, fwdFoot_stop]

theorem fwdFoot_fold_egrWF (cx : Ctx) (c : Conn) : ∀ (l : List NTD) (s : FState),
    (∀ y js, s.egr y = some js → ∃ x, js.exit = some x) →
    ∀ y js, (l.foldl (fwdFoot cx c) s).egr y = some js → ∃ x, js.exit = some x := by
  intro l
  induction l with
  | nil => intro s h; exact h
  | cons f rest ih => intro s h; rw [List.foldl_cons]; exact ih _ (fwdFoot_egrWF cx c s f h)

theorem fwdEnter_stop (s : FState) (c : Conn) : (fwdEnter s c).stop = s.stop := by unfold fwdEnter; split <;> rfl
theorem fwdEnter_egr (s : FState) (c : Conn) : (fwdEnter s c).egr = s.egr := by unfold fwdEnter; split <;> rfl

theorem fwdAlight_stop (cx : Ctx) (s : FState) (c : Conn) : (fwdAlight cx false s c).stop = s.stop := by
  unfold fwdAlight
  split
  · simp only [Bool.false_eq_true, false_and, if_false]
    rw [fwdFoot_fold_stop]
  · rfl

theorem fwdAlight_egrWF (cx : Ctx) (s : FState) (c : Conn) (h : ∀ y js, s.egr y = some js → ∃ x, js.exit = some x) :
    ∀ y js, (fwdAlight cx false s c).egr y = some js → ∃ x, js.exit = some x := by
  unfold fwdAlight
  split
  · simp only [Bool.false_eq_true, false_and, if_false]
    exact fwdFoot_fold_egrWF cx c _ s h
  · exact h

/-- the all-nodes forward step: unchanged, or stopped because `c` leaves too late, or the main branch -/
theorem fwdStep_cases2 (cx : Ctx) (s : FState) (c : Conn) :
    fwdStep cx false s c = s ∨
    (fwdStep cx false s c = { s with stop := true } ∧ c.dep - cx.depT > cx.p.maxTotal) ∨
    (s.stop = false ∧
      fwdStep cx false s c =
        { fwdAlight cx false (fwdEnter s c) c with count := (fwdAlight cx false (fwdEnter s c) c).count + 1 }) := by
  unfold fwdStep
  by_cases h0 : s.stop = true
  · left; rw [if_pos h0]
  · rw [if_neg h0]
    by_cases h1 : ¬ (c.dep ≥ cx.depT + cx.minAccess)
    · left; rw [if_pos h1]
    · rw [if_neg h1]
      by_cases h2 : cx.disabled c.trip = true
      · left; rw [if_pos h2]
      · rw [if_neg h2]
        by_cases h3 : (false = true ∧ s.reached = true ∧ cx.maxEgress ≥ 0 ∧ s.tentEgrArr < MAX_INT ∧ c.dep > s.tentEgrArr + cx.maxEgress)
            ∨ c.dep - cx.depT > cx.p.maxTotal
        · right; left
          simp only
          rw [if_pos h3]
          refine ⟨rfl, ?_⟩
          rcases h3 with ⟨hf, _⟩ | h3
          · cases hf
          · exact h3
        · simp only
          rw [if_neg h3]
          split
          · left; rfl
          · right; right
            refine ⟨by simpa using h0, ?_⟩
            unfold fwdEnter fwdAlight; rfl

/-- a usable connection is processed by the main branch -/
theorem fwdStep_main (cx : Ctx) (s : FState) (c : Conn) (h0 : s.stop = false) (h1 : c.dep ≥ cx.depT + cx.minAccess)
    (h2 : cx.disabled c.trip = false) (h3 : c.dep - cx.depT ≤ cx.p.maxTotal) (hcap : cx.p.maxFirstWait ≤ 0)
    (h4 : (s.enterC c.trip).isSome = true ∨ s.tent c.depStop ≤ c.dep - c.effWait cx.p.minWait) :
    fwdStep cx false s c =
      { fwdAlight cx false (fwdEnter s c) c with count := (fwdAlight cx false (fwdEnter s c) c).count + 1 } := by
  unfold fwdStep
  rw [if_neg (by rw [h0]; simp), if_neg (by simpa using h1), if_neg (by rw [h2]; simp)]
  simp only
  rw [if_neg (by
    intro hh
    rcases hh with ⟨hf, _⟩ | hh
    · cases hf
    · omega)]
  have hfo : (decide (cx.p.maxFirstWait > 0) && ((cx.nodesAccess c.depStop).any fun a => decide (a.time ≥ 0)) &&
      (s.steps c.depStop).enter.isNone) = false := by
    have : decide (cx.p.maxFirstWait > 0) = false := by simp; omega
    rw [this]; simp
  rw [if_neg (by
    intro hh
    apply hh
    refine ⟨h4, Or.inl ?_⟩
    rw [hfo]; simp)]
  unfold fwdEnter fwdAlight; rfl

/-! ### the completeness invariant -/

/-- `e` can be boarded by a traveller using connections of `P` only -/
def BoardP (cx : Ctx) (P : List Conn) (e : Conn) : Prop :=
  e.canBoard = true ∧ cx.disabled e.trip = false ∧ ∃ t, Reach cx P e.depStop t ∧ t + e.effWait cx.p.minWait ≤ e.dep

structure FC (cx : Ctx) (P : List Conn) (s : FState) : Prop where
  tent : ∀ y t, Reach cx P y t → t ≤ cx.depT + cx.p.maxTotal → s.tent y ≤ t
  enter : ∀ e ∈ P, BoardP cx P e → e.dep ≤ cx.depT + cx.p.maxTotal → (s.enterC e.trip).isSome = true
  egr : ∀ e ∈ P, ∀ x ∈ P, BoardP cx P e → e.trip = x.trip → e.seq ≤ x.seq → x.canUnboard = true →
    x.arr ≤ cx.depT + cx.p.maxTotal → EgrLe s x.arrStop x.arr
  stop : s.stop = true → ∃ c0 ∈ P, c0.dep - cx.depT > cx.p.maxTotal
  egrWF : ∀ y js, s.egr y = some js → ∃ x, js.exit = some x

theorem BoardP.strengthen {cx : Ctx} {L P : List Conn} {c e : Conn} (w : FW cx L) (hP : ∀ a ∈ P ++ [c], a ∈ L)
    (h : BoardP cx (P ++ [c]) e) (he : e.dep ≤ c.dep) : BoardP cx P e := by
  obtain ⟨h1, h2, t, hr, ht⟩ := h
  have hw := effWait_nonneg e cx.p.minWait w.mw
  exact ⟨h1, h2, t, hr.strengthen w hP (by omega), ht⟩

theorem init_FC (cx : Ctx) (hnd : (cx.accessFoot.map (·.stop)).Nodup) : FC cx [] (FState.init cx) := by
  refine ⟨?_, ?_, ?_, ?_, ?_⟩
  · intro y t h _
    cases h with
    | access a ha =>
      have : (FState.init cx).tent a.stop = cx.depT + a.time := by
        unfold FState.init
        exact foldl_upd_nodup (fun e => cx.depT + e.time) cx.accessFoot _ hnd a ha
      omega
    | ride y t e x f _ he => cases he
  · intro e he; cases he
  · intro e he; cases he
  · intro h; simp [FState.init] at h
  · intro y js h; simp [FState.init] at h

theorem fwdStep_FC {cx : Ctx} {L P : List Conn} {s : FState} {c : Conn} (w : FW cx L)
    (hP : ∀ a ∈ P ++ [c], a ∈ L) (hbefore : ∀ a ∈ P, fwdLt c a = false) (h : FC cx P s) :
    FC cx (P ++ [c]) (fwdStep cx false s c) := by
  have hcL : c ∈ L := hP c (by simp)
  have hPL : ∀ a ∈ P, a ∈ L := fun a ha => hP a (List.mem_append_left _ ha)
  have hbet := fwdStep_better cx false s c
  have hmonoP : ∀ a ∈ P, a ∈ P ++ [c] := fun a ha => List.mem_append_left _ ha
  -- elements of P leave no later than c
  have hdepP : ∀ a ∈ P, a.dep ≤ c.dep := by
    intro a ha
    have := hbefore a ha
    simp only [fwdLt, Bool.or_eq_false_iff, decide_eq_false_iff_not] at this
    omega
  -- a member of P in c's trip with a sequence number not below c's is c itself
  have hsame : ∀ x ∈ P, c.trip = x.trip → c.seq ≤ x.seq → x = c := by
    intro x hx ht hs
    have h1 := w.depMono c hcL x (hPL x hx) ht hs
    have h2 := hdepP x hx
    have hlt := hbefore x hx
    simp only [fwdLt, Bool.or_eq_false_iff, Bool.and_eq_false_iff, decide_eq_false_iff_not] at hlt
    have heq : c.dep = x.dep := by omega
    have hseq : c.seq = x.seq := by
      rcases hlt.2 with h3 | h3
      · exact absurd heq h3
      · rcases h3.2 with h4 | h4
        · exact absurd ht h4
        · omega
    exact (w.unique c hcL x (hPL x hx) ht hseq).symm
  -- not stopped as long as c leaves in time
  have hns : c.dep - cx.depT ≤ cx.p.maxTotal → s.stop = false := by
    intro hc
    cases hst : s.stop with
    | false => rfl
    | true =>
      obtain ⟨c0, hc0, hlate⟩ := h.stop hst
      have := hdepP c0 hc0
      omega
  -- the main branch, for a ride that ends with `c`
  have hmain : ∀ e ∈ P ++ [c], BoardP cx (P ++ [c]) e → e.trip = c.trip → e.seq ≤ c.seq → c.dep - cx.depT ≤ cx.p.maxTotal →
      fwdStep cx false s c =
        { fwdAlight cx false (fwdEnter s c) c with count := (fwdAlight cx false (fwdEnter s c) c).count + 1 } ∧
      ((fwdEnter s c).enterC c.trip).isSome = true := by
    intro e he hb ht hs hc
    have hed : e.dep ≤ c.dep := w.depMono e (hP e he) c hcL ht hs
    have hbP := hb.strengthen w hP hed
    obtain ⟨hcb, hdis, t, hr, hrt⟩ := hbP
    have hge := hr.time_ge w hPL
    have hw := effWait_nonneg e cx.p.minWait w.mw
    have hwc := effWait_nonneg c cx.p.minWait w.mw
    have hcond : (s.enterC c.trip).isSome = true ∨ s.tent c.depStop ≤ c.dep - c.effWait cx.p.minWait := by
      rcases List.mem_append.mp he with heP | heC
      · left; rw [← ht]; exact h.enter e heP ⟨hcb, hdis, t, hr, hrt⟩ (by omega)
      · simp at heC; subst heC
        right
        have := h.tent _ _ hr (by omega)
        omega
    refine ⟨fwdStep_main cx s c (hns hc) (by omega) (by rw [← ht]; exact hdis) hc w.noCap hcond, ?_⟩
    unfold fwdEnter
    by_cases hx : c.canBoard = true ∧ (s.enterC c.trip).isNone = true
    · rw [if_pos hx]; simp
    · rw [if_neg hx]
      rcases List.mem_append.mp he with heP | heC
      · rw [← ht]; exact h.enter e heP ⟨hcb, hdis, t, hr, hrt⟩ (by omega)
      · simp at heC; subst heC
        cases hen : s.enterC e.trip with
        | some v => rfl
        | none => exact absurd ⟨hcb, by rw [hen]; rfl⟩ hx
  refine ⟨?_, ?_, ?_, ?_, ?_⟩
  · -- tentative times
    intro y t hr ht
    cases hr with
    | access a ha => exact Int.le_trans (hbet.tent _) (h.tent _ _ (Reach.access a ha) ht)
    | ride y' t' e x f hsub he hx h1 h2 h3 h4 h5 h6 h7 h8 h9 =>
      have hxL := hP x hx
      have heL := hP e he
      have hph := w.posHop x hxL
      have hfn := w.footNonneg _ f h8
      have hdm := w.depMono e heL x hxL h3 h4
      have hw := effWait_nonneg e cx.p.minWait w.mw
      by_cases hxc : x = c
      · subst hxc
        obtain ⟨hm, hen⟩ := hmain e he ⟨h5, h7, t', by rw [h1]; exact hsub, h2⟩ h3 h4 (by omega)
        rw [hm]
        simp only
        unfold fwdAlight
        rw [if_pos ⟨h6, hen⟩]
        simp only [Bool.false_eq_true, false_and, if_false]
        exact fwdFoot_fold_tent cx x f h9 hfn _ _ h8
      · have hxP : x ∈ P := by
          rcases List.mem_append.mp hx with h' | h'
          · exact h'
          · simp at h'; exact absurd h' hxc
        have heP : e ∈ P := by
          rcases List.mem_append.mp he with h' | h'
          · exact h'
          · simp at h'; subst h'
            exact absurd (hsame x hxP h3 h4) hxc
        have hxd := hdepP x hxP
        have hsubP := hsub.strengthen w hP (by omega)
        exact Int.le_trans (hbet.tent _) (h.tent _ _ (Reach.ride y' t' e x f hsubP heP hxP h1 h2 h3 h4 h5 h6 h7 h8 h9) ht)
  · -- entered trips
    intro e he hb hd
    rcases List.mem_append.mp he with heP | heC
    · have hbP := hb.strengthen w hP (hdepP e heP)
      have := h.enter e heP hbP hd
      cases hen : s.enterC e.trip with
      | none => rw [hen] at this; cases this
      | some v => rw [hbet.enter _ _ hen]; rfl
    · simp at heC; subst heC
      obtain ⟨hm, hen⟩ := hmain e he hb rfl (Nat.le_refl _) (by omega)
      rw [hm]
      simp only
      cases hv : (fwdEnter s e).enterC e.trip with
      | none => rw [hv] at hen; cases hen
      | some v => rw [(fwdAlight_better cx false (fwdEnter s e) e).enter _ _ hv]; rfl
  · -- recorded alightings
    intro e he x hx hb ht hs hcu hxa
    have hxL := hP x hx
    have heL := hP e he
    have hph := w.posHop x hxL
    have hdm := w.depMono e heL x hxL ht hs
    by_cases hxc : x = c
    · subst hxc
      obtain ⟨hm, hen⟩ := hmain e he hb ht hs (by omega)
      rw [hm]
      obtain ⟨f0, hf0, hf0s, hf0t⟩ := w.selfFoot x hcL
      show EgrLe (fwdAlight cx false (fwdEnter s x) x) x.arrStop x.arr
      unfold fwdAlight
      rw [if_pos ⟨hcu, hen⟩]
      simp only [Bool.false_eq_true, false_and, if_false]
      exact fwdFoot_fold_egr cx x f0 hf0t hf0s _ _ (by rw [fwdEnter_egr]; exact h.egrWF) hf0
    · have hxP : x ∈ P := by
        rcases List.mem_append.mp hx with h' | h'
        · exact h'
        · simp at h'; exact absurd h' hxc
      have heP : e ∈ P := by
        rcases List.mem_append.mp he with h' | h'
        · exact h'
        · simp at h'; subst h'
          exact absurd (hsame x hxP ht hs) hxc
      have hbP := hb.strengthen w hP (by have := hdepP x hxP; omega)
      exact hbet.egr _ _ (h.egr e heP x hxP hbP ht hs hcu hxa)
  · -- the stop flag
    intro hst
    rcases fwdStep_cases2 cx s c with h1 | ⟨_, h1⟩ | ⟨h0, h1⟩
    · rw [h1] at hst
      obtain ⟨c0, hc0, hl⟩ := h.stop hst
      exact ⟨c0, hmonoP c0 hc0, hl⟩
    · exact ⟨c, by simp, h1⟩
    · rw [h1] at hst
      simp only at hst
      rw [fwdAlight_stop, fwdEnter_stop, h0] at hst
      cases hst
  · -- recorded alightings carry their connection
    rcases fwdStep_cases2 cx s c with h1 | ⟨h1, _⟩ | ⟨_, h1⟩
    · rw [h1]; exact h.egrWF
    · rw [h1]; exact h.egrWF
    · rw [h1]
      exact fwdAlight_egrWF cx _ c (by rw [fwdEnter_egr]; exact h.egrWF)

end Tr
