/-
  TrVerif.Proofs.Terminate — the journey clean-up (`optimizeJourney`) terminates.

  The `while` of the C++ code has no bound of its own.  The model gives it the fuel
  `Σ hops of the legs + number of stops + 2` and reports `exception` when that runs out.  Here:
  on a valid journey over well-formed data the fuel never runs out.  Measure: every iteration
  that continues either shortens the journey (the sum of the hops of its legs drops) or puts a
  stop that was not there before on the ignore list; a search that finds a case whose
  connection look-up fails - the one way the real loop could spin - does not happen, because a
  stop strictly between the ends of a leg is served by a connection of that leg's slice.
-/
import TrVerif.Proofs.Cleanup
namespace Tr

/-! ### the stops strictly between the two ends of a leg -/

def legBetween (ds : Dataset) (e x : Conn) : List Nat :=
  (List.range ((x.seq - 1) - (e.seq - 1))).filterMap fun k =>
    let nd := ((ds.tripFwd e.trip).getD ((e.seq - 1) + 1 + k) default).depStop
    if nd ≠ e.depStop ∧ nd ≠ x.arrStop then some nd else none

theorem legInfo_between {ds : Dataset} {js : JStep} {li : LegInfo} (h : legInfo ds js = some li) :
    ∃ e x, js.enter = some e ∧ js.exit = some x ∧ li.between = legBetween ds e x := by
  unfold legInfo at h
  cases he : js.enter with
  | none => simp [he] at h
  | some e =>
    cases hx : js.exit with
    | none => simp [he, hx] at h
    | some x =>
      simp only [he, hx, Option.some.injEq] at h
      subst h
      exact ⟨e, x, rfl, rfl, rfl⟩

theorem legBetween_ne {ds : Dataset} {e x : Conn} {nd : Nat} (h : nd ∈ legBetween ds e x) :
    nd ≠ e.depStop ∧ nd ≠ x.arrStop := by
  simp only [legBetween, List.mem_filterMap] at h
  obtain ⟨k, _, hk⟩ := h
  split at hk
  · rename_i hc
    simp only [Option.some.injEq] at hk
    subst hk
    exact hc
  · cases hk

/-- what the timetable must provide for the clean-up to terminate: a stop strictly inside a leg
    is a stop of the data, and the leg's slice holds a connection arriving there and one
    leaving from there -/
def BetweenOK (cx : Ctx) (C : List Conn) : Prop :=
  ∀ e ∈ C, ∀ x ∈ C, e.trip = x.trip → e.seq ≤ x.seq → ∀ nd ∈ legBetween cx.ds e x,
    nd < cx.ds.nStops ∧
    (∃ c ∈ revSlice cx.ds e.trip (e.seq - 1) (x.seq - 1), c.arrStop = nd) ∧
    (∃ c ∈ revSlice cx.ds e.trip (e.seq - 1) (x.seq - 1), c.depStop = nd)

def UniqueSeq (C : List Conn) : Prop := ∀ a ∈ C, ∀ b ∈ C, a.trip = b.trip → a.seq = b.seq → a = b

/-! ### what a found case knows about its stop -/

theorem pairCase_more {ignore : List Nat} {oi : Option LegInfo} {cur : LegInfo} {c nd : Nat}
    (h : pairCase ignore oi cur = some (c, nd)) :
    (c ≠ 2 → ignore.contains nd = false ∧ nd ∈ betweenOf oi) ∧ (c = 4 → nd ∈ cur.between) := by
  unfold pairCase at h
  by_cases h1 : ¬ (betweenOf oi).isEmpty = true ∧ (betweenOf oi).contains cur.last = true ∧ ¬ ignore.contains cur.last = true
  · rw [if_pos h1] at h
    simp only [Option.some.injEq, Prod.mk.injEq] at h
    obtain ⟨rfl, rfl⟩ := h
    refine ⟨fun _ => ⟨by simpa using h1.2.2, by simpa using h1.2.1⟩, by simp⟩
  · rw [if_neg h1] at h
    by_cases h2 : ¬ cur.between.isEmpty = true ∧ ((oi.map (·.last)).any fun l => cur.between.contains l && !ignore.contains l) = true
    · rw [if_pos h2] at h
      simp only [Option.some.injEq, Prod.mk.injEq] at h
      obtain ⟨rfl, rfl⟩ := h
      exact ⟨fun hc => absurd rfl hc, by simp⟩
    · rw [if_neg h2] at h
      by_cases h3 : ¬ (betweenOf oi).isEmpty = true ∧ (betweenOf oi).contains cur.first = true ∧ ¬ ignore.contains cur.first = true
      · rw [if_pos h3] at h
        simp only [Option.some.injEq, Prod.mk.injEq] at h
        obtain ⟨rfl, rfl⟩ := h
        refine ⟨fun _ => ⟨by simpa using h3.2.2, by simpa using h3.2.1⟩, by simp⟩
      · rw [if_neg h3] at h
        by_cases h4 : ¬ (betweenOf oi).isEmpty = true ∧ ¬ cur.between.isEmpty = true
        · rw [if_pos h4] at h
          cases hf : (betweenOf oi).find? (fun nd => cur.between.contains nd && !ignore.contains nd) with
          | none => rw [hf] at h; simp at h
          | some x =>
            rw [hf] at h
            simp only [Option.map_some, Option.some.injEq, Prod.mk.injEq] at h
            obtain ⟨rfl, rfl⟩ := h
            have hm := List.mem_of_find?_eq_some hf
            have hp := List.find?_some hf
            simp only [Bool.and_eq_true, Bool.not_eq_true', List.contains_iff_mem] at hp
            exact ⟨fun _ => ⟨by simpa using hp.2, hm⟩, fun _ => hp.1⟩
        · rw [if_neg h4] at h; cases h

structure PairMore (ignore : List Nat) (infos : List (Option LegInfo)) (cur : LegInfo) (f : Found) : Prop where
  notIgn : f.case ≠ 2 → ignore.contains f.node = false
  inF : f.case ≠ 2 → f.node ∈ betweenOf (infos.getD f.from_ none)
  inT : f.case = 4 → f.node ∈ cur.between

theorem searchPair_more (ignore : List Nat) (infos : List (Option LegInfo)) (idx : Nat) (cur : LegInfo) :
    ∀ (n i : Nat) (f : Found), searchPair ignore infos idx cur i n = some f → PairMore ignore infos cur f := by
  intro n
  induction n with
  | zero => intro i f h; simp [searchPair] at h
  | succ n ih =>
    intro i f h
    simp only [searchPair] at h
    cases hp : pairCase ignore (infos.getD i none) cur with
    | none => rw [hp] at h; exact ih (i + 1) f h
    | some cn =>
      obtain ⟨c, nd⟩ := cn
      rw [hp] at h
      simp only [Option.some.injEq] at h
      subst h
      obtain ⟨h1, h2⟩ := pairCase_more hp
      exact ⟨fun hc => (h1 hc).1, fun hc => (h1 hc).2, h2⟩

/-- the stop of a found case (other than BTS, which ends the loop) is not on the ignore list and
    lies strictly inside the earlier leg; for CSS also strictly inside the later leg -/
structure FoundMore (ds : Dataset) (ignore : List Nat) (j : List JStep) (f : Found) : Prop where
  notIgn : f.case ≠ 2 → f.node ∉ ignore
  inF : f.case ≠ 2 → ∃ li, legInfo ds (j.getD f.from_ {}) = some li ∧ f.node ∈ li.between
  inT : f.case = 4 → ∃ li, legInfo ds (j.getD f.to {}) = some li ∧ f.node ∈ li.between

theorem searchJourney_more (ds : Dataset) (ignore : List Nat) (j : List JStep) :
    ∀ (js pre : List JStep) (f : Found), j = pre ++ js →
      searchJourney ds ignore js pre.length (pre.map (legInfo ds)) = some f → FoundMore ds ignore j f := by
  intro js
  induction js with
  | nil => intro pre f _ h; simp [searchJourney] at h
  | cons s rest ih =>
    intro pre f hj h
    simp only [searchJourney] at h
    have hnext : j = (pre ++ [s]) ++ rest := by simp [hj]
    cases hl : legInfo ds s with
    | none =>
      rw [hl] at h
      simp only at h
      exact ih (pre ++ [s]) f hnext (by simpa [hl] using h)
    | some cur =>
      rw [hl] at h
      simp only at h
      cases hp : searchPair ignore (pre.map (legInfo ds) ++ [some cur]) pre.length cur 0 pre.length with
      | none =>
        rw [hp] at h
        simp only at h
        exact ih (pre ++ [s]) f hnext (by simpa [hl] using h)
      | some f' =>
        rw [hp] at h
        simp only [Option.some.injEq] at h
        subst h
        have sp := searchPair_spec ignore _ pre.length cur pre.length 0 f' hp
        have sm := searchPair_more ignore _ pre.length cur pre.length 0 f' hp
        have hfr : f'.from_ < pre.length := by have := sp.hi; omega
        have hgetF : j.getD f'.from_ {} = pre.getD f'.from_ {} := by
          rw [hj]; simp [List.getD, List.getElem?_append_left hfr]
        have hgetT : j.getD f'.to {} = s := by
          rw [hj, sp.to]; exact getD_decomp_F pre s rest {}
        have hinfo : (pre.map (legInfo ds) ++ [some cur]).getD f'.from_ none = legInfo ds (pre.getD f'.from_ {}) := by
          have hlen : f'.from_ < (pre.map (legInfo ds)).length := by simpa using hfr
          simp only [List.getD, List.getElem?_append_left hlen, List.getElem?_map]
          cases hg : pre[f'.from_]? with
          | none => have := List.getElem?_eq_none_iff.mp hg; omega
          | some a => simp
        refine ⟨?_, ?_, ?_⟩
        · intro hc
          have := sm.notIgn hc
          intro hm
          rw [List.contains_iff_mem.mpr hm] at this
          cases this
        · intro hc
          have hb := sm.inF hc
          rw [hinfo] at hb
          cases hli : legInfo ds (pre.getD f'.from_ {}) with
          | none => rw [hli] at hb; simp [betweenOf] at hb
          | some li =>
            rw [hli] at hb
            exact ⟨li, by rw [hgetF]; exact hli, hb⟩
        · intro hc
          exact ⟨cur, by rw [hgetT]; exact hl, sm.inT hc⟩


/-! ### the measure -/

def hopsSum (j : List JStep) : Nat := (j.map legHops).sum

theorem hopsSum_append (a b : List JStep) : hopsSum (a ++ b) = hopsSum a + hopsSum b := by
  simp [hopsSum, List.sum_append]

theorem hopsSum_cons (a : JStep) (b : List JStep) : hopsSum (a :: b) = legHops a + hopsSum b := by
  simp [hopsSum]

theorem legHops_of {l : JStep} {e x : Conn} (he : l.enter = some e) (hx : l.exit = some x) :
    legHops l = x.seq - e.seq + 1 := by
  simp [legHops, he, hx]

/-- the ignore list holds every stop at most once, and only stops of the data -/
def IgnOK (n : Nat) (ig : List Nat) : Prop := ig.Nodup ∧ ∀ x ∈ ig, x < n

/-- pigeonhole: a duplicate-free list of numbers below `n` has at most `n` members -/
theorem nodup_bounded_length : ∀ (n : Nat) (l : List Nat), l.Nodup → (∀ x ∈ l, x < n) → l.length ≤ n := by
  intro n
  induction n with
  | zero =>
    intro l _ hb
    cases l with
    | nil => simp
    | cons a _ => exact absurd (hb a (List.mem_cons_self ..)) (by omega)
  | succ n ih =>
    intro l hnd hb
    have h1 : (l.erase n).length ≤ n := by
      apply ih
      · exact hnd.erase n
      · intro x hx
        have hxl := List.mem_of_mem_erase hx
        have hne : x ≠ n := by
          intro e; subst e
          exact (List.Nodup.not_mem_erase hnd) hx
        have := hb x hxl
        omega
    have h2 := List.length_erase_le (a := n) (l := l)
    have h3 : l.length ≤ (l.erase n).length + 1 := by
      by_cases hm : n ∈ l
      · rw [List.length_erase_of_mem hm]; omega
      · rw [List.erase_of_not_mem hm]; omega
    omega

theorem IgnOK.length_le {n : Nat} {ig : List Nat} (h : IgnOK n ig) : ig.length ≤ n :=
  nodup_bounded_length n ig h.1 h.2

theorem IgnOK.snoc {n : Nat} {ig : List Nat} (h : IgnOK n ig) {nd : Nat} (hn : nd ∉ ig) (hb : nd < n) : IgnOK n (ig ++ [nd]) := by
  refine ⟨?_, ?_⟩
  · rw [List.nodup_append]
    refine ⟨h.1, by simp, ?_⟩
    intro a ha b hb' e
    simp only [List.mem_singleton] at hb'
    subst hb'; subst e
    exact hn ha
  · intro x hx
    rcases List.mem_append.mp hx with h' | h'
    · exact h.2 x h'
    · simp only [List.mem_singleton] at h'; subst h'; exact hb

def mu (n : Nat) (st : OptState) : Nat := hopsSum st.journey + (n - st.ignore.length)

/-! ### the ignore list of the second CSS loop -/

theorem cssEnter_ign (node from_ to : Nat) (exitC : Option Conn) :
    ∀ (l : List Conn) (j : List JStep) (ig us : List Nat) (ap : Bool),
      ((cssEnter node from_ to exitC l (j, ig, us, ap)).2.1 = ig ∨
       (cssEnter node from_ to exitC l (j, ig, us, ap)).2.1 = ig ++ [node]) ∧
      (ap = true → (cssEnter node from_ to exitC l (j, ig, us, ap)).2.2.2 = true) ∧
      ((∃ c ∈ l, c.depStop = node) → (cssEnter node from_ to exitC l (j, ig, us, ap)).2.2.2 = true ∨
        (cssEnter node from_ to exitC l (j, ig, us, ap)).2.1 = ig ++ [node]) := by
  intro l
  induction l with
  | nil => intro j ig us ap; simp [cssEnter]
  | cons c rest ih =>
    intro j ig us ap
    simp only [cssEnter]
    by_cases hn : c.depStop = node
    · rw [if_pos hn]
      cases exitC with
      | none => simp
      | some x =>
        simp only
        by_cases hcb : c.canBoard = true
        · rw [if_pos hcb]
          obtain ⟨a1, a2, a3⟩ := ih (modifyAt (modifyAt j from_ fun s => { s with exit := some x }) to fun s => { s with enter := some c })
            ig (us ++ [4]) true
          exact ⟨a1, fun _ => a2 rfl, fun _ => Or.inl (a2 rfl)⟩
        · rw [if_neg hcb]; simp
    · rw [if_neg hn]
      obtain ⟨a1, a2, a3⟩ := ih j ig us ap
      refine ⟨a1, a2, ?_⟩
      intro ⟨c', hc', hcn⟩
      rcases List.mem_cons.mp hc' with e | e
      · subst e; exact absurd hcn hn
      · exact a3 ⟨c', e, hcn⟩


theorem mu_lt_of_ignore {n : Nat} {st st' : OptState} {nd : Nat} (hj : hopsSum st'.journey ≤ hopsSum st.journey)
    (hi : st'.ignore = st.ignore ++ [nd]) (hok : IgnOK n st'.ignore) : mu n st' < mu n st := by
  have := hok.length_le
  unfold mu
  rw [hi] at this ⊢
  simp only [List.length_append, List.length_singleton] at this ⊢
  omega

theorem mu_lt_of_hops {n : Nat} {st st' : OptState} {nd : Nat} (hj : hopsSum st'.journey < hopsSum st.journey)
    (hi : st'.ignore = st.ignore ∨ st'.ignore = st.ignore ++ [nd]) : mu n st' < mu n st := by
  unfold mu
  rcases hi with hi | hi
  · rw [hi]; omega
  · rw [hi]; simp only [List.length_append, List.length_singleton]; omega

/-! ### the shape the termination argument needs

  `optimizeJourney` is also run on journeys without an access step (accessibility calculation).
  The termination argument only needs the legs to be valid, whatever non-leg steps precede them. -/

/-- steps without connections, then valid legs, then the egress step -/
def JShape (cx : Ctx) (C : List Conn) (j : List JStep) : Prop :=
  ∃ P legs egr, j = P ++ legs ++ [egr] ∧ (∀ a ∈ P, a.enter = none) ∧ egr.enter = none ∧ legs ≠ [] ∧ LegsOK cx C legs

theorem JourneyOK.shape {cx : Ctx} {C : List Conn} {bd : Int} {j : List JStep} (h : JourneyOK cx C bd j) : JShape cx C j := by
  obtain ⟨acc, legs, egr, hj, ha, he, hne, hok, _⟩ := h
  exact ⟨[acc], legs, egr, hj, by intro a h; simp at h; subst h; exact ha, he, hne, hok⟩

structure Setup' (cx : Ctx) (C : List Conn) (j : List JStep) (f : Found)
    (P : List JStep) (egr : JStep) (A : List JStep) (F : JStep) (M : List JStep) (T : JStep) (B : List JStep)
    (eF xF eT xT : Conn) : Prop where
  hj : j = (P ++ A) ++ F :: (M ++ T :: (B ++ [egr]))
  hfrom : (P ++ A).length = f.from_
  hto : (P ++ A).length + 1 + M.length = f.to
  hP : ∀ a ∈ P, a.enter = none
  hegr : egr.enter = none
  hok : LegsOK cx C (A ++ F :: (M ++ T :: B))
  hFe : F.enter = some eF
  hFx : F.exit = some xF
  hTe : T.enter = some eT
  hTx : T.exit = some xT
  hrF : Ride C eF xF
  hrT : Ride C eT xT
  n1 : f.case = 1 → f.node = xT.arrStop
  n2 : f.case = 2 → f.node = xF.arrStop
  n3 : f.case = 3 → f.node = eT.depStop

theorem setup_of' {cx : Ctx} {C : List Conn} {j : List JStep} {f : Found}
    (hJ : JShape cx C j) (hf : FoundSpec j f) :
    ∃ P egr A F M T B eF xF eT xT, Setup' cx C j f P egr A F M T B eF xF eT xT := by
  obtain ⟨P, legs, egr, hj, hP, he, hne, hok⟩ := hJ
  obtain ⟨eF, xF, eT, xT, h1, h2, h3, h4, n1, n2, n3⟩ := hf.legs
  have hjl : j.length = P.length + legs.length + 1 := by rw [hj]; simp; omega
  have hfromP : P.length ≤ f.from_ := by
    rcases Nat.lt_or_ge f.from_ P.length with hlt | hge
    · exfalso
      have hg : j.getD f.from_ {} = P[f.from_] := by
        rw [hj]
        simp only [List.getD, List.append_assoc, List.getElem?_append_left hlt, List.getElem?_eq_getElem hlt, Option.getD_some]
      rw [hg, hP _ (List.getElem_mem hlt)] at h1
      cases h1
    · exact hge
  have hto1 : f.to < P.length + legs.length := by
    have hlt := hf.len
    rcases Nat.lt_or_ge f.to (P.length + legs.length) with h | h
    · exact h
    · exfalso
      have hto : f.to = (P ++ legs).length := by simp; omega
      have hg : j.getD f.to {} = egr := by
        rw [hj, hto]
        simp [List.getD]
      rw [hg, he] at h3
      cases h3
  have hlt := hf.lt
  obtain ⟨A, F, M, T, B, hl, hA, hM⟩ := decomp2 legs (f.from_ - P.length) (f.to - P.length) (by omega) (by omega)
  have hjd : j = (P ++ A) ++ F :: (M ++ T :: (B ++ [egr])) := by rw [hj, hl]; simp
  have hPl : (P ++ A).length = f.from_ := by simp; omega
  have hPM : (P ++ A).length + 1 + M.length = f.to := by simp; omega
  have hF : j.getD f.from_ {} = F := by rw [hjd, ← hPl]; exact getD_decomp_F _ _ _ _
  have hT : j.getD f.to {} = T := by rw [hjd, ← hPM]; exact getD_decomp_T _ _ _ _ _ _
  rw [hF] at h1 h2; rw [hT] at h3 h4
  rw [hl] at hok
  obtain ⟨e1, x1, a1, a2, a3⟩ := hok.isRide F (by simp)
  obtain ⟨e2, x2, b1, b2, b3⟩ := hok.isRide T (by simp)
  rw [h1] at a1; cases a1; rw [h2] at a2; cases a2
  rw [h3] at b1; cases b1; rw [h4] at b2; cases b2
  exact ⟨P, egr, A, F, M, T, B, eF, xF, eT, xT, ⟨hjd, hPl, hPM, hP, he, hok, h1, h2, h3, h4, a3, b3, n1, n2, n3⟩⟩

theorem Setup'.shape1 {cx : Ctx} {C : List Conn} {j : List JStep} {f : Found} {P : List JStep} {egr : JStep} {A : List JStep}
    {F : JStep} {M : List JStep} {T : JStep} {B : List JStep} {eF xF eT xT : Conn}
    (s : Setup' cx C j f P egr A F M T B eF xF eT xT) {L : List JStep} (hne : L ≠ []) (hok : LegsOK cx C L) :
    JShape cx C (P ++ L ++ [egr]) :=
  ⟨P, L, egr, rfl, s.hP, s.hegr, hne, hok⟩

/-- the four rewrites keep the shape -/
theorem applyFound_shape {cx : Ctx} {C : List Conn} (w : TimeWF cx C) (hs : SliceOK cx C)
    {st : OptState} {f : Found} (hJ : JShape cx C st.journey) (hf : FoundSpec st.journey f) :
    JShape cx C (applyFound cx.ds st f).1.journey := by
  obtain ⟨P, egr, A, F, M, T, B, eF, xF, eT, xT, su⟩ := setup_of' hJ hf
  have hgF : st.journey.getD f.from_ {} = F := by rw [su.hj, ← su.hfrom]; exact getD_decomp_F _ _ _ _
  have hgT : st.journey.getD f.to {} = T := by rw [su.hj, ← su.hto]; exact getD_decomp_T _ _ _ _ _ _
  have sliceF := hs eF su.hrF.1 xF su.hrF.2.1 su.hrF.2.2.1 su.hrF.2.2.2.1
  have sliceT := hs eT su.hrT.1 xT su.hrT.2.1 su.hrT.2.2.1 su.hrT.2.2.2.1
  have newExit : ∀ c ∈ revSlice cx.ds eF.trip (eF.seq - 1) (xF.seq - 1), c.canUnboard = true →
      Ride C eF c ∧ c.arr ≤ xF.arr := by
    intro c hc hcu
    obtain ⟨a, b, c1, d⟩ := sliceF c hc
    exact ⟨⟨su.hrF.1, a, b.symm, c1, su.hrF.2.2.2.2.1, hcu⟩,
      w.arrMono c a xF su.hrF.2.1 (by rw [b, su.hrF.2.2.1]) d⟩
  have newEnter : ∀ c ∈ revSlice cx.ds eT.trip (eT.seq - 1) (xT.seq - 1), c.canBoard = true →
      Ride C c xT ∧ eT.dep ≤ c.dep ∧ c.effWait cx.p.minWait = eT.effWait cx.p.minWait := by
    intro c hc hcb
    obtain ⟨a, b, c1, d⟩ := sliceT c hc
    exact ⟨⟨a, su.hrT.2.1, by rw [b, su.hrT.2.2.1], d, hcb, su.hrT.2.2.2.2.2⟩,
      w.depMono eT su.hrT.1 c a b.symm c1, w.waitTrip c a eT su.hrT.1 b⟩
  have fin2 : ∀ (F' T' : JStep), LegsOK cx C (A ++ F' :: T' :: B) →
      JShape cx C ((P ++ A) ++ F' :: T' :: (B ++ [egr])) := by
    intro F' T' hok
    have := su.shape1 (L := A ++ F' :: T' :: B) (by simp) hok
    simpa using this
  have fin1 : ∀ (F' : JStep), LegsOK cx C (A ++ F' :: B) → JShape cx C ((P ++ A) ++ F' :: (B ++ [egr])) := by
    intro F' hok
    have := su.shape1 (L := A ++ F' :: B) (by simp) hok
    simpa using this
  unfold applyFound
  rcases hf.cases with h1 | h2 | h3 | h4
  · -- CSL
    simp only [h1, hgF, hgT, su.hFe, su.hFx]
    cases hfind : (revSlice cx.ds eF.trip (eF.seq - 1) (xF.seq - 1)).find? (fun c => decide (c.arrStop = f.node)) with
    | none => exact hJ
    | some c =>
      simp only
      obtain ⟨hcm, hcp⟩ := find_some_mem hfind
      have hcn : c.arrStop = f.node := by simpa using hcp
      split
      · exact hJ
      · rename_i hcu
        have hcu' : c.canUnboard = true := by simpa using hcu
        obtain ⟨hr, ha⟩ := newExit c hcm hcu'
        have hl : (modifyAt (eraseRange (modifyAt st.journey f.from_ fun s => { s with walk := T.walk, dist := T.dist })
            (f.from_ + 1) (f.to + 1)) f.from_ fun s => { s with exit := some c })
            = (P ++ A) ++ ({ F with walk := T.walk, dist := T.dist, exit := some c } : JStep) :: (B ++ [egr]) := by
          rw [su.hj, ← su.hfrom, ← su.hto]
          exact csl_lists _ _ _ _ _ _ _
        simp only [hl]
        have hok := splice1 w su.hok su.hFe su.hFx su.hTe su.hTx su.hrT
          (F' := { F with walk := T.walk, dist := T.dist, exit := some c }) su.hFe rfl rfl hr ha (by rw [hcn, su.n1 h1])
        exact fin1 _ hok
  · -- BTS
    simp only [h2, hgF, hgT, su.hTe, su.hTx]
    cases hfind : (revSlice cx.ds eT.trip (eT.seq - 1) (xT.seq - 1)).find? (fun c => decide (c.depStop = f.node)) with
    | none => exact hJ
    | some c =>
      simp only
      obtain ⟨hcm, hcp⟩ := find_some_mem hfind
      have hcn : c.depStop = f.node := by simpa using hcp
      split
      · exact hJ
      · rename_i hcb
        have hcb' : c.canBoard = true := by simpa using hcb
        obtain ⟨hr, hd, hw⟩ := newEnter c hcm hcb'
        have hl : eraseRange (modifyAt (modifyAt st.journey f.to fun s => { s with enter := some c }) f.from_
              fun s => { s with walk := 0, dist := 0 }) (f.from_ + 1) f.to
            = (P ++ A) ++ ({ F with walk := 0, dist := 0 } : JStep) :: ({ T with enter := some c } : JStep) :: (B ++ [egr]) := by
          rw [su.hj, ← su.hfrom, ← su.hto]
          exact bts_lists _ _ _ _ _ _ _
        simp only [hl]
        have hok := splice2 w su.hok su.hFe su.hFx su.hTe su.hTx
          (F' := { F with walk := 0, dist := 0 }) (T' := { T with enter := some c })
          su.hFe su.hFx rfl su.hrF (Int.le_refl _) rfl su.hTx rfl hr hd hw (by rw [hcn, su.n2 h2])
        exact fin2 _ _ hok
  · -- GTF
    simp only [h3, hgF, hgT, su.hFe, su.hFx]
    cases hfind : (revSlice cx.ds eF.trip (eF.seq - 1) (xF.seq - 1)).find? (fun c => decide (c.arrStop = f.node)) with
    | none => exact hJ
    | some c =>
      simp only
      obtain ⟨hcm, hcp⟩ := find_some_mem hfind
      have hcn : c.arrStop = f.node := by simpa using hcp
      split
      · exact hJ
      · rename_i hcu
        have hcu' : c.canUnboard = true := by simpa using hcu
        obtain ⟨hr, ha⟩ := newExit c hcm hcu'
        have hl : eraseRange (modifyAt st.journey f.from_ fun s => { s with exit := some c, walk := 0, dist := 0 })
              (f.from_ + 1) f.to
            = (P ++ A) ++ ({ F with exit := some c, walk := 0, dist := 0 } : JStep) :: T :: (B ++ [egr]) := by
          rw [su.hj, ← su.hfrom, ← su.hto]
          exact gtf_lists _ _ _ _ _ _
        simp only [hl]
        have hok := splice2 w su.hok su.hFe su.hFx su.hTe su.hTx
          (F' := { F with exit := some c, walk := 0, dist := 0 }) (T' := T)
          su.hFe rfl rfl hr ha su.hTe su.hTx rfl su.hrT (Int.le_refl _) rfl (by rw [hcn, su.n3 h3])
        exact fin2 _ _ hok
  · -- CSS
    simp only [h4, hgF, hgT, su.hFe, su.hFx, su.hTe, su.hTx]
    cases hex : cssExit f.node (revSlice cx.ds eF.trip (eF.seq - 1) (xF.seq - 1)) none with
    | none =>
      obtain ⟨ig', heq⟩ := cssEnter_none f.node f.from_ f.to (revSlice cx.ds eT.trip (eT.seq - 1) (xT.seq - 1))
        st.journey st.ignore st.used false
      simp only [heq]
      exact hJ
    | some x =>
      obtain ⟨hxm, hxn, hxu⟩ := cssExit_spec f.node _ none x (by intro y hy; cases hy) hex
      have hxm' : x ∈ revSlice cx.ds eF.trip (eF.seq - 1) (xF.seq - 1) := by
        rcases hxm with h | h
        · exact h
        · cases h
      obtain ⟨F1, T1, ig', us', ap', heq, r0, r1⟩ := cssEnter_some f.node (P ++ A) F M T (B ++ [egr]) x
        (revSlice cx.ds eT.trip (eT.seq - 1) (xT.seq - 1)) (revSlice cx.ds eT.trip (eT.seq - 1) (xT.seq - 1))
        F T st.ignore st.used false (fun c hc => hc) (fun _ => ⟨rfl, rfl⟩) (by intro h; cases h)
      rw [su.hto, su.hfrom, ← su.hj] at heq
      simp only [heq]
      cases ap' with
      | false =>
        obtain ⟨rF, rT⟩ := r0 rfl
        subst rF; subst rT
        simp only [Bool.false_eq_true, if_false]
        rw [← su.hj]; exact hJ
      | true =>
        obtain ⟨c, rF, hcS, hcn, hcb, rT⟩ := r1 rfl
        subst rF; subst rT
        simp only [if_true]
        obtain ⟨hrx, hax⟩ := newExit x hxm' hxu
        obtain ⟨hrc, hd, hw⟩ := newEnter c hcS hcb
        have hl : eraseRange (modifyAt ((P ++ A) ++ ({ F with exit := some x } : JStep) :: (M ++ ({ T with enter := some c } : JStep) :: (B ++ [egr])))
              f.from_ fun s => { s with walk := 0, dist := 0 }) (f.from_ + 1) f.to
            = (P ++ A) ++ ({ F with exit := some x, walk := 0, dist := 0 } : JStep) :: ({ T with enter := some c } : JStep) :: (B ++ [egr]) := by
          rw [← su.hfrom, ← su.hto]
          exact gtf_lists _ _ _ _ _ _
        simp only [hl]
        have hok := splice2 w su.hok su.hFe su.hFx su.hTe su.hTx
          (F' := { F with exit := some x, walk := 0, dist := 0 }) (T' := { T with enter := some c })
          su.hFe rfl rfl hrx hax rfl su.hTx rfl hrc hd hw (by rw [hxn, hcn])
        exact fin2 _ _ hok

/-- **one iteration of the clean-up that continues makes progress** -/
theorem applyFound_measure {cx : Ctx} {C : List Conn} (w : TimeWF cx C) (hs : SliceOK cx C) (hb : BetweenOK cx C)
    (hu : UniqueSeq C) {st : OptState} {f : Found} (hJ : JShape cx C st.journey)
    (hf : FoundSpec st.journey f) (hm : FoundMore cx.ds st.ignore st.journey f) (hig : IgnOK cx.ds.nStops st.ignore)
    (hcont : (applyFound cx.ds st f).2 = true) :
    IgnOK cx.ds.nStops (applyFound cx.ds st f).1.ignore ∧
      mu cx.ds.nStops (applyFound cx.ds st f).1 < mu cx.ds.nStops st := by
  obtain ⟨P, egr, A, F, M, T, B, eF, xF, eT, xT, su⟩ := setup_of' hJ hf
  have hgF : st.journey.getD f.from_ {} = F := by rw [su.hj, ← su.hfrom]; exact getD_decomp_F _ _ _ _
  have hgT : st.journey.getD f.to {} = T := by rw [su.hj, ← su.hto]; exact getD_decomp_T _ _ _ _ _ _
  have sliceF := hs eF su.hrF.1 xF su.hrF.2.1 su.hrF.2.2.1 su.hrF.2.2.2.1
  have sliceT := hs eT su.hrT.1 xT su.hrT.2.1 su.hrT.2.2.1 su.hrT.2.2.2.1
  have hF : legHops F = xF.seq - eF.seq + 1 := legHops_of su.hFe su.hFx
  have hT : legHops T = xT.seq - eT.seq + 1 := legHops_of su.hTe su.hTx
  -- the stop lies strictly inside the earlier leg (all cases but BTS)
  have inF : f.case ≠ 2 → f.node ∉ st.ignore ∧ f.node < cx.ds.nStops ∧ f.node ≠ xF.arrStop ∧
      (∃ c ∈ revSlice cx.ds eF.trip (eF.seq - 1) (xF.seq - 1), c.arrStop = f.node) := by
    intro hc
    obtain ⟨li, hli, hnd⟩ := hm.inF hc
    rw [hgF] at hli
    obtain ⟨e, x, he, hx, hbt⟩ := legInfo_between hli
    rw [su.hFe] at he; cases he; rw [su.hFx] at hx; cases hx
    rw [hbt] at hnd
    obtain ⟨b1, b2, _⟩ := hb eF su.hrF.1 xF su.hrF.2.1 su.hrF.2.2.1 su.hrF.2.2.2.1 f.node hnd
    exact ⟨hm.notIgn hc, b1, (legBetween_ne hnd).2, b2⟩
  -- a connection of F's slice that does not arrive at F's last stop comes strictly before F's exit
  have before : ∀ c ∈ revSlice cx.ds eF.trip (eF.seq - 1) (xF.seq - 1), c.arrStop ≠ xF.arrStop →
      eF.seq ≤ c.seq ∧ c.seq < xF.seq := by
    intro c hc hne
    obtain ⟨a, b, c1, d⟩ := sliceF c hc
    refine ⟨c1, ?_⟩
    rcases Nat.lt_or_ge c.seq xF.seq with h | h
    · exact h
    · have : c = xF := hu c a xF su.hrF.2.1 (by rw [b, su.hrF.2.2.1]) (by omega)
      rw [this] at hne; exact absurd rfl hne
  unfold applyFound at hcont ⊢
  rcases hf.cases with h1 | h2 | h3 | h4
  · -- CSL
    obtain ⟨hni, hlt, hne, c0, hc0, hc0n⟩ := inF (by omega)
    simp only [h1, hgF, hgT, su.hFe, su.hFx] at hcont ⊢
    cases hfind : (revSlice cx.ds eF.trip (eF.seq - 1) (xF.seq - 1)).find? (fun c => decide (c.arrStop = f.node)) with
    | none =>
      have := List.find?_eq_none.mp hfind c0 hc0
      simp [hc0n] at this
    | some c =>
      simp only
      obtain ⟨hcm, hcp⟩ := find_some_mem hfind
      have hcn : c.arrStop = f.node := by simpa using hcp
      by_cases hcu : c.canUnboard = true
      · simp only [hcu, not_true_eq_false, if_false]
        have hl : (modifyAt (eraseRange (modifyAt st.journey f.from_ fun s => { s with walk := T.walk, dist := T.dist })
            (f.from_ + 1) (f.to + 1)) f.from_ fun s => { s with exit := some c })
            = (P ++ A) ++ ({ F with walk := T.walk, dist := T.dist, exit := some c } : JStep) :: (B ++ [egr]) := by
          rw [su.hj, ← su.hfrom, ← su.hto]
          exact csl_lists _ _ _ _ _ _ _
        simp only [hl]
        refine ⟨hig, mu_lt_of_hops (nd := 0) ?_ (Or.inl rfl)⟩
        show hopsSum ((P ++ A) ++ ({ F with walk := T.walk, dist := T.dist, exit := some c } : JStep) :: (B ++ [egr])) < hopsSum st.journey
        have hF' := legHops_of (l := { F with walk := T.walk, dist := T.dist, exit := some c }) (e := eF) (x := c) su.hFe rfl
        have := before c hcm (by rw [hcn]; exact hne)
        rw [su.hj]
        simp only [hopsSum_append, hopsSum_cons, hF', hF, hT]
        clear inF before sliceF sliceT
        omega
      · simp only [hcu, not_false_eq_true, if_true]
        have hok := hig.snoc hni hlt
        exact ⟨hok, mu_lt_of_ignore (nd := f.node) (Nat.le_refl _) rfl hok⟩
  · -- BTS ends the loop
    exfalso
    simp only [h2, hgF, hgT, su.hTe, su.hTx] at hcont
    cases hfind : (revSlice cx.ds eT.trip (eT.seq - 1) (xT.seq - 1)).find? (fun c => decide (c.depStop = f.node)) with
    | none => rw [hfind] at hcont; simp at hcont
    | some c =>
      rw [hfind] at hcont
      simp only at hcont
      split at hcont <;> simp at hcont
  · -- GTF
    obtain ⟨hni, hlt, hne, c0, hc0, hc0n⟩ := inF (by omega)
    simp only [h3, hgF, hgT, su.hFe, su.hFx] at hcont ⊢
    cases hfind : (revSlice cx.ds eF.trip (eF.seq - 1) (xF.seq - 1)).find? (fun c => decide (c.arrStop = f.node)) with
    | none =>
      have := List.find?_eq_none.mp hfind c0 hc0
      simp [hc0n] at this
    | some c =>
      simp only
      obtain ⟨hcm, hcp⟩ := find_some_mem hfind
      have hcn : c.arrStop = f.node := by simpa using hcp
      by_cases hcu : c.canUnboard = true
      · simp only [hcu, not_true_eq_false, if_false]
        have hl : eraseRange (modifyAt st.journey f.from_ fun s => { s with exit := some c, walk := 0, dist := 0 })
              (f.from_ + 1) f.to
            = (P ++ A) ++ ({ F with exit := some c, walk := 0, dist := 0 } : JStep) :: T :: (B ++ [egr]) := by
          rw [su.hj, ← su.hfrom, ← su.hto]
          exact gtf_lists _ _ _ _ _ _
        simp only [hl]
        refine ⟨hig, mu_lt_of_hops (nd := 0) ?_ (Or.inl rfl)⟩
        show hopsSum ((P ++ A) ++ ({ F with exit := some c, walk := 0, dist := 0 } : JStep) :: T :: (B ++ [egr])) < hopsSum st.journey
        have hF' := legHops_of (l := { F with exit := some c, walk := 0, dist := 0 }) (e := eF) (x := c) su.hFe rfl
        have := before c hcm (by rw [hcn]; exact hne)
        rw [su.hj]
        simp only [hopsSum_append, hopsSum_cons, hF', hF, hT]
        clear inF before sliceF sliceT
        omega
      · simp only [hcu, not_false_eq_true, if_true]
        have hok := hig.snoc hni hlt
        exact ⟨hok, mu_lt_of_ignore (nd := f.node) (Nat.le_refl _) rfl hok⟩
  · -- CSS
    obtain ⟨hni, hlt, hne, c0, hc0, hc0n⟩ := inF (by omega)
    -- the stop is also strictly inside the later leg: a connection of T's slice leaves from it
    have inT : ∃ c ∈ revSlice cx.ds eT.trip (eT.seq - 1) (xT.seq - 1), c.depStop = f.node := by
      obtain ⟨li, hli, hnd⟩ := hm.inT h4
      rw [hgT] at hli
      obtain ⟨e, x, he, hx, hbt⟩ := legInfo_between hli
      rw [su.hTe] at he; cases he; rw [su.hTx] at hx; cases hx
      rw [hbt] at hnd
      exact (hb eT su.hrT.1 xT su.hrT.2.1 su.hrT.2.2.1 su.hrT.2.2.2.1 f.node hnd).2.2
    have hok1 := hig.snoc hni hlt
    simp only [h4, hgF, hgT, su.hFe, su.hFx, su.hTe, su.hTx] at hcont ⊢
    cases hex : cssExit f.node (revSlice cx.ds eF.trip (eF.seq - 1) (xF.seq - 1)) none with
    | none =>
      obtain ⟨ig', heq⟩ := cssEnter_none f.node f.from_ f.to (revSlice cx.ds eT.trip (eT.seq - 1) (xT.seq - 1))
        st.journey st.ignore st.used false
      have hign := cssEnter_ign f.node f.from_ f.to none (revSlice cx.ds eT.trip (eT.seq - 1) (xT.seq - 1))
        st.journey st.ignore st.used false
      rw [heq] at hign
      have hig' : ig' = st.ignore ++ [f.node] := by
        rcases hign.2.2 inT with h | h
        · cases h
        · exact h
      subst hig'
      simp only [heq]
      refine ⟨hok1, ?_⟩
      exact mu_lt_of_ignore (nd := f.node) (st' := { journey := st.journey, ignore := st.ignore ++ [f.node], used := st.used })
        (Nat.le_refl _) rfl hok1
    | some x =>
      obtain ⟨hxm, hxn, hxu⟩ := cssExit_spec f.node _ none x (by intro y hy; cases hy) hex
      have hxm' : x ∈ revSlice cx.ds eF.trip (eF.seq - 1) (xF.seq - 1) := by
        rcases hxm with h | h
        · exact h
        · cases h
      obtain ⟨F1, T1, ig', us', ap', heq, r0, r1⟩ := cssEnter_some f.node (P ++ A) F M T (B ++ [egr]) x
        (revSlice cx.ds eT.trip (eT.seq - 1) (xT.seq - 1)) (revSlice cx.ds eT.trip (eT.seq - 1) (xT.seq - 1))
        F T st.ignore st.used false (fun c hc => hc) (fun _ => ⟨rfl, rfl⟩) (by intro h; cases h)
      rw [su.hto, su.hfrom, ← su.hj] at heq
      have hign := cssEnter_ign f.node f.from_ f.to (some x) (revSlice cx.ds eT.trip (eT.seq - 1) (xT.seq - 1))
        st.journey st.ignore st.used false
      rw [heq] at hign
      simp only at hign
      simp only [heq]
      cases ap' with
      | false =>
        obtain ⟨rF, rT⟩ := r0 rfl
        subst rF; subst rT
        have hig' : ig' = st.ignore ++ [f.node] := by
          rcases hign.2.2 inT with h | h
          · cases h
          · exact h
        subst hig'
        simp only [Bool.false_eq_true, if_false]
        refine ⟨hok1, ?_⟩
        rw [← su.hj]
        exact mu_lt_of_ignore (nd := f.node) (st' := { journey := st.journey, ignore := st.ignore ++ [f.node], used := us' })
          (Nat.le_refl _) rfl hok1
      | true =>
        obtain ⟨c, rF, hcS, hcn, hcb, rT⟩ := r1 rfl
        subst rF; subst rT
        simp only [if_true]
        have hl : eraseRange (modifyAt ((P ++ A) ++ ({ F with exit := some x } : JStep) :: (M ++ ({ T with enter := some c } : JStep) :: (B ++ [egr])))
              f.from_ fun s => { s with walk := 0, dist := 0 }) (f.from_ + 1) f.to
            = (P ++ A) ++ ({ F with exit := some x, walk := 0, dist := 0 } : JStep) :: ({ T with enter := some c } : JStep) :: (B ++ [egr]) := by
          rw [← su.hfrom, ← su.hto]
          exact gtf_lists _ _ _ _ _ _
        simp only [hl]
        have hig2 : IgnOK cx.ds.nStops ig' := by
          rcases hign.1 with h | h
          · rw [h]; exact hig
          · rw [h]; exact hok1
        refine ⟨hig2, mu_lt_of_hops (nd := f.node) ?_ hign.1⟩
        show hopsSum ((P ++ A) ++ ({ F with exit := some x, walk := 0, dist := 0 } : JStep) :: ({ T with enter := some c } : JStep) :: (B ++ [egr])) < hopsSum st.journey
        have hF' := legHops_of (l := { F with exit := some x, walk := 0, dist := 0 }) (e := eF) (x := x) su.hFe rfl
        have hT' := legHops_of (l := { T with enter := some c }) (e := c) (x := xT) rfl su.hTx
        have h1 := before x hxm' (by rw [hxn]; exact hne)
        have h2 := (sliceT c hcS).2.2
        rw [su.hj]
        simp only [hopsSum_append, hopsSum_cons, hF', hT', hF, hT]
        clear inF before sliceF sliceT hign r0 r1
        omega


/-- the `while` of `optimizeJourney` ends before the fuel does -/
theorem optimizeLoop_terminates {cx : Ctx} {C : List Conn} (w : TimeWF cx C) (hs : SliceOK cx C) (hb : BetweenOK cx C)
    (hu : UniqueSeq C) :
    ∀ (fuel : Nat) (st : OptState), JShape cx C st.journey → IgnOK cx.ds.nStops st.ignore →
      mu cx.ds.nStops st < fuel → ∃ o, optimizeLoop cx.ds fuel st = some o := by
  intro fuel
  induction fuel with
  | zero => intro st _ _ h; omega
  | succ fuel ih =>
    intro st hJ hig hmu
    simp only [optimizeLoop]
    cases hsj : searchJourney cx.ds st.ignore st.journey 0 [] with
    | none => exact ⟨st, rfl⟩
    | some f =>
      simp only
      have hf : FoundSpec st.journey f := searchJourney_spec cx.ds st.ignore st.journey st.journey [] f rfl hsj
      have hm : FoundMore cx.ds st.ignore st.journey f := searchJourney_more cx.ds st.ignore st.journey st.journey [] f rfl hsj
      have hnext := applyFound_shape w hs hJ hf
      by_cases hc : (applyFound cx.ds st f).2 = true
      · rw [if_pos hc]
        obtain ⟨h1, h2⟩ := applyFound_measure w hs hb hu hJ hf hm hig hc
        exact ih _ hnext h1 (by omega)
      · rw [if_neg hc]; exact ⟨_, rfl⟩

/-- **the journey clean-up terminates**: on a valid journey over well-formed data `optimizeJourney`
    never runs out of the model's fuel -/
theorem optimizeJourney_terminates' {cx : Ctx} {C : List Conn} (w : TimeWF cx C) (hs : SliceOK cx C) (hb : BetweenOK cx C)
    (hu : UniqueSeq C) {j : List JStep} (hJ : JShape cx C j) :
    ∃ o, optimizeJourney cx.ds j = some o := by
  unfold optimizeJourney
  apply optimizeLoop_terminates w hs hb hu _ { journey := j } hJ ⟨List.nodup_nil, fun x hx => by cases hx⟩
  unfold mu optimizeFuel
  show hopsSum j + (cx.ds.nStops - 0) < (j.map legHops).sum + cx.ds.nStops + 2
  unfold hopsSum
  omega

theorem optimizeJourney_terminates {cx : Ctx} {C : List Conn} (w : TimeWF cx C) (hs : SliceOK cx C) (hb : BetweenOK cx C)
    (hu : UniqueSeq C) {bd : Int} {j : List JStep} (hJ : JourneyOK cx C bd j) :
    ∃ o, optimizeJourney cx.ds j = some o :=
  optimizeJourney_terminates' w hs hb hu hJ.shape

end Tr
