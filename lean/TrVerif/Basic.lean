def hello := "world"
