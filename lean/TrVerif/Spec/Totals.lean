/-
  TrVerif.Spec.Totals — the identities of property C06, stated on the *rendered* route
  (step list and reported totals), independently of how the route was produced.
-/
import TrVerif.Model.Basic
namespace Tr

def Step.walkTime : Step → Int
  | .walk _ tt _ _ _ _ => tt
  | _ => 0
def Step.transferWalkTime : Step → Int
  | .walk 1 tt _ _ _ _ => tt
  | _ => 0
def Step.rideTime : Step → Int
  | .unboard _ _ _ _ ivt _ => ivt
  | _ => 0
def Step.waitTime : Step → Int
  | .board _ _ _ _ w => w
  | _ => 0
def Step.isBoard : Step → Bool
  | .board .. => true
  | _ => false

def sumWalk (l : List Step) : Int := (l.map Step.walkTime).sum
def sumTransferWalk (l : List Step) : Int := (l.map Step.transferWalkTime).sum
def sumRide (l : List Step) : Int := (l.map Step.rideTime).sum
def sumWait (l : List Step) : Int := (l.map Step.waitTime).sum
def countBoard (l : List Step) : Nat := (l.filter Step.isBoard).length

/-- waiting times of the boardings after the first one -/
def sumWaitAfterFirst (l : List Step) : Int := (((l.filter Step.isBoard).drop 1).map Step.waitTime).sum
def firstWait (l : List Step) : Int := ((l.filter Step.isBoard).head?.map Step.waitTime).getD (-1)

/-- Clock chaining of a step list starting at clock `t` and ending at `fin`:
    every walk starts when the previous step ends (`t`), lasts its travel time, and - unless it
    is the egress walk - reports `readyToBoardAt` = its arrival + the minimum waiting time in
    force for the boarding that follows (`mwOf trip`);
    a boarding's waiting time is its departure minus the arrival of the preceding walk;
    an alighting's in-vehicle time is its arrival minus the boarding departure. -/
def chainFrom (mwOf : Nat → Int) : Int → List Step → Int → Prop
  | t, [], fin => fin = t
  | t, .walk kind tt _ dep arr ready :: rest, fin =>
      dep = t ∧ arr = dep + tt ∧
      (kind ≠ 2 → ∀ trip seq stop bd w, rest.head? = some (.board trip seq stop bd w) → ready = arr + mwOf trip) ∧
      chainFrom mwOf arr rest fin
  | t, .board _ _ _ dep wait :: rest, fin => wait = dep - t ∧ chainFrom mwOf dep rest fin
  | t, .unboard _ _ _ arr ivt _ :: rest, fin => ivt = arr - t ∧ chainFrom mwOf arr rest fin

/-- the shape every route has: after the access walk, rides separated by transfer walks, then the egress walk -/
def ridesShape : List Step → Prop
  | [.board .., .unboard .., .walk 2 ..] => True
  | .board .. :: .unboard .. :: .walk 1 .. :: rest => ridesShape rest
  | _ => False

def routeShape : List Step → Prop
  | .walk 0 .. :: rest => ridesShape rest
  | _ => False

/-- Property C06 for one route. `mwOf trip` is the minimum waiting time in force for boarding
    `trip` (0 for lines of the `transferable` mode, the query's value otherwise);
    `noXfer` says the route rides no `transferable` line (the counts and walking totals are only
    claimed for such routes). -/
structure Totals (mwOf : Nat → Int) (noXfer : Prop) (r : Route) : Prop where
  shape : routeShape r.steps
  chain : chainFrom mwOf r.departureTime r.steps r.arrivalTime
  travel : r.totalTravelTime = r.arrivalTime - r.departureTime
  travelSum : r.totalTravelTime = sumWalk r.steps + sumRide r.steps + sumWait r.steps
  waiting : r.totalWaitingTime = r.firstWaitingTime + r.transferWaitingTime
  waitSum : r.totalWaitingTime = sumWait r.steps
  firstW : r.firstWaitingTime = firstWait r.steps
  inVehicle : r.totalInVehicleTime = sumRide r.steps
  access : r.steps.head?.map Step.walkTime = some r.accessTravelTime
  egress : r.steps.getLast?.map Step.walkTime = some r.egressTravelTime
  boardings : noXfer → r.numberOfBoardings = countBoard r.steps
  transfers : noXfer → r.numberOfTransfers = (countBoard r.steps : Int) - 1
  walking : noXfer → r.totalNonTransitTravelTime = sumWalk r.steps
  transferWalking : noXfer → r.transferWalkingTime = sumTransferWalk r.steps

end Tr
