/-
  TrVerif.Spec.Itinerary — property C01: what it means for a rendered route to be an executable
  itinerary.  Stated on the *rendered* step list, against the timetable seen as the list of
  scheduled hops `T` (for a dataset: `ds.conns`, one hop per pair of consecutive stops of each
  trip, built by `Dataset.tripConns`), the footpath records, and the two walking-router tables.
-/
import TrVerif.Model.Data
namespace Tr

/-- boarding step `b` and alighting step `u` are one ride on the timetable `T`: one scheduled
    trip, boarded at a hop `e` and left at a hop `x` not earlier in the trip, at exactly the
    scheduled times and stops, where boarding resp. alighting is permitted -/
def RideOK (T : List Conn) (b u : Step) : Prop :=
  ∃ e ∈ T, ∃ x ∈ T, e.trip = x.trip ∧ e.seq ≤ x.seq ∧ e.canBoard = true ∧ x.canUnboard = true ∧
    b = .board e.trip e.seq e.depStop e.dep (match b with | .board _ _ _ _ w => w | _ => 0) ∧
    (∃ ivt ivd, u = .unboard x.trip x.seq x.arrStop x.arr ivt ivd)

def Step.stopOf : Step → Nat
  | .board _ _ s _ _ => s
  | .unboard _ _ s _ _ _ => s
  | .walk .. => 0
def Step.tripOf : Step → Nat
  | .board t _ _ _ _ => t
  | .unboard t _ _ _ _ _ => t
  | .walk .. => 0
def Step.clock : Step → Int
  | .board _ _ _ d _ => d
  | .unboard _ _ _ a _ _ => a
  | .walk _ _ _ _ a _ => a

/-- rides and transfer walks after the traveller is ready at the first boarding stop at `t`:
    every boarding happens no earlier than `t` + the minimum waiting time in force for that trip;
    a transfer walk joins the alighting stop to the next boarding stop with the duration some
    footpath record gives for that pair; the egress walk has the duration the walking router
    gives for the last alighting stop -/
def ridesValid (T : List Conn) (foot : List Foot) (egress : List NTD) (mwOf : Nat → Int) : Int → List Step → Prop
  | t, [b, u, .walk 2 tt _ _ _ _] =>
      RideOK T b u ∧ t + mwOf b.tripOf ≤ b.clock ∧ ∃ d, (⟨u.stopOf, tt, d⟩ : NTD) ∈ egress
  | t, b :: u :: .walk 1 tt dd dep arr rdy :: b' :: rest =>
      RideOK T b u ∧ t + mwOf b.tripOf ≤ b.clock ∧
      (∃ d, (⟨u.stopOf, b'.stopOf, tt, d⟩ : Foot) ∈ foot) ∧
      ridesValid T foot egress mwOf (u.clock + tt) (b' :: rest)
  | _, _ => False

/-- **the executable-itinerary predicate of C01** -/
def ValidItinerary (T : List Conn) (foot : List Foot) (access egress : List NTD) (mwOf : Nat → Int) (r : Route) : Prop :=
  match r.steps with
  | .walk 0 tt _ _ _ _ :: b :: rest =>
      (∃ d, (⟨b.stopOf, tt, d⟩ : NTD) ∈ access) ∧
      ridesValid T foot egress mwOf (r.departureTime + tt) (b :: rest)
  | _ => False

end Tr
