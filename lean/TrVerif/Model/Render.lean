/-
  TrVerif.Model.Render — canonical text of a response (what the correspondence check compares;
  `check/canon.py` produces the same text from the JSON of the implementation).
  Code modelled: `result_to_v2.cpp`, `result_to_v2_accessibility.cpp`, `result_to_v2_summary.cpp`
  (the reason -> string switches come from the generated tables).
-/
import TrVerif.Model.Calc
import TrVerif.Generated.Tables
namespace Tr

def reasonIndex : Reason → Nat
  | .noRoutingFound => 0 | .noAccessAtOrigin => 1 | .noAccessAtDestination => 2
  | .noServiceFromOrigin => 3 | .noServiceToDestination => 4 | .noAccessAtOriginAndDestination => 5

def routeReasonString (r : Reason) : String := (Gen.routeReasonTable.getD (reasonIndex r) Gen.routeReasonDefault)
def accReasonString (r : Reason) : String := (Gen.accReasonTable.getD (reasonIndex r) Gen.accReasonDefault)

def renderStep (ds : Dataset) : Step → String
  | .walk kind tt dist dep arr ready =>
    if kind = 2 then s!"W2 {tt} {dist} {dep} {arr}" else s!"W{kind} {tt} {dist} {dep} {arr} {ready}"
  | .board trip seq stop dep wait =>
    s!"B t{trip} l{ds.lineOfTrip trip} p{(ds.tripRec? trip).map (·.path) |>.getD 0} a{ds.agencyOfTrip trip} m{ds.modeOfTrip trip} {seq} {seq} n{stop} {dep} {wait}"
  | .unboard trip seq stop arr ivt ivd =>
    s!"U t{trip} l{ds.lineOfTrip trip} p{(ds.tripRec? trip).map (·.path) |>.getD 0} a{ds.agencyOfTrip trip} m{ds.modeOfTrip trip} {seq} {seq+1} n{stop} {arr} {ivt} {ivd}"

def renderRoute (ds : Dataset) (r : Route) : String :=
  s!"{r.departureTime} {r.arrivalTime} {r.totalTravelTime} {r.totalDistance} {r.totalInVehicleTime} {r.totalInVehicleDistance} {r.totalNonTransitTravelTime} {r.totalNonTransitDistance} {r.numberOfBoardings} {r.numberOfTransfers} {r.transferWalkingTime} {r.transferWalkingDistance} {r.accessTravelTime} {r.accessDistance} {r.egressTravelTime} {r.egressDistance} {r.transferWaitingTime} {r.firstWaitingTime} {r.totalWaitingTime} ; "
    ++ ", ".intercalate (r.steps.map (renderStep ds))

/-- the calculation both `/v2/route` and `/v2/summary` run: routes and `totalRoutesCalculated` -/
def routeAnswerCS (ds : Dataset) (cs : ConnSet) (p : Params) : Outcome (List Route × Nat) :=
  if p.alternatives then alternativesRoutingCS ds cs p
  else match calculateSingleCS ds cs p with
    | .ok r => .ok ([r], 1)
    | .noRouting r => .noRouting r
    | .exception w => .exception w

def routeAnswer (ds : Dataset) (p : Params) : Outcome (List Route × Nat) :=
  routeAnswerCS ds (ds.connSetOf (ds.scenarioOf p)) p

/-- `/v2/route` -/
def renderRouteAnswerCS (ds : Dataset) (cs : ConnSet) (p : Params) : String :=
  match routeAnswerCS ds cs p with
  | .ok (rs, n) => s!"route success n={n} ## " ++ " ## ".intercalate (rs.map (renderRoute ds))
  | .noRouting r => s!"route no_routing_found {routeReasonString r}"
  | .exception w => s!"route exception {w}"

/-- `lineSummaries` of `SummaryResultAccumulator`: a `std::map` keyed by line uuid (kept in key
    order); a boarding of a line not yet present inserts count 1, otherwise increments -/
def summaryIncr (l : Nat) : List (Nat × Nat) → List (Nat × Nat)
  | [] => [(l, 1)]
  | (k, c) :: rest =>
    if l < k then (l, 1) :: (k, c) :: rest
    else if l = k then (k, c + 1) :: rest
    else (k, c) :: summaryIncr l rest

def summaryCounts (lines : List Nat) : List (Nat × Nat) := lines.foldl (fun m l => summaryIncr l m) []

/-- what `/v2/summary` reports for a list of routes: `nbRoutes` and (line, count) in line order -/
def summaryOf (ds : Dataset) (rs : List Route) : Nat × List (Nat × Nat) :=
  (rs.length, summaryCounts (rs.flatMap (routeLines ds)))

/-- `/v2/summary`: same calculation, aggregated; "no routing" is a success with 0 routes -/
def summaryAnswerCS (ds : Dataset) (cs : ConnSet) (p : Params) : Outcome (Nat × List (Nat × Nat)) :=
  match routeAnswerCS ds cs p with
  | .ok (rs, _) => .ok (summaryOf ds rs)
  | .noRouting _ => .ok (summaryOf ds [])
  | .exception w => .exception w

def summaryAnswer (ds : Dataset) (p : Params) : Outcome (Nat × List (Nat × Nat)) :=
  summaryAnswerCS ds (ds.connSetOf (ds.scenarioOf p)) p

def renderSummaryAnswerCS (ds : Dataset) (cs : ConnSet) (p : Params) : String :=
  match summaryAnswerCS ds cs p with
  | .ok (nb, counts) =>
    s!"summary success nb={nb} ## " ++ ", ".intercalate (counts.map fun (l, n) => s!"l{l} a{(ds.lineRec l).agency} {n}")
  | .noRouting _ => "summary exception unreachable"
  | .exception w => s!"summary exception {w}"

/-- `/v2/accessibility` -/
def renderAccessibilityAnswerCS (ds : Dataset) (cs : ConnSet) (p : Params) : String :=
  match calculateAllNodesCS ds cs p with
  | .ok (nodes, total) => s!"accessibility success total={total} ## " ++
      ", ".intercalate (nodes.map fun n => s!"n{n.stop} {n.nodeTime} {n.totalTravelTime} {n.numberOfTransfers}")
  | .noRouting r => s!"accessibility no_routing_found {accReasonString r}"
  | .exception w => s!"accessibility exception {w}"

def renderRouteAnswer (ds : Dataset) (p : Params) : String := renderRouteAnswerCS ds (ds.connSetOf (ds.scenarioOf p)) p
def renderSummaryAnswer (ds : Dataset) (p : Params) : String := renderSummaryAnswerCS ds (ds.connSetOf (ds.scenarioOf p)) p
def renderAccessibilityAnswer (ds : Dataset) (p : Params) : String := renderAccessibilityAnswerCS ds (ds.connSetOf (ds.scenarioOf p)) p

end Tr
