/-
  TrVerif.Model.Loader — the decision logic of start-up: `TransitData::loadAllData`
  (`transit_data.cpp:276-356`) calls the update functions in a fixed order and gives up at the
  first hard failure; `main()` then asks `getDataStatus()` (emptiness tests in a fixed order) and
  the three endpoints answer `data_error` on anything but READY before they look at the request.

  What a fetcher does with the bytes of a file (Cap'n Proto decoding, exceptions, memory) is NOT
  modelled: a fetch is abstracted to its outcome. That every outcome is one of these three - that
  no fetch aborts the process - is exactly the part of C17 that only the fault enumeration against
  the real binary observes.

  `Gen.loadOrder`, `Gen.dataStatusOrder`, `Gen.dataStatusCodes` are regenerated from the source.
-/
import TrVerif.Model.Refresh
namespace Tr

inductive Fetch where
  | ok (n : Nat)          -- file read; the collection now has `n` items
  | missing               -- -ENOENT; the collection is empty
  | failed (n : Nat)      -- any other negative return; `n` items were stored before the failure
deriving Repr, DecidableEq

def Fetch.count : Fetch → Nat
  | .ok n => n
  | .missing => 0
  | .failed n => n

/-- does `loadAllData` return DATA_READ_ERROR after this outcome? -/
def Fetch.hard (tolerant : Bool) : Fetch → Bool
  | .ok _ => false
  | .missing => !tolerant
  | .failed _ => true

/-- sizes of the collections after `loadAllData`: calls in order, nothing after the first hard failure -/
def loadFrom : List (String × Bool) → (String → Fetch) → List (String × Nat)
  | [], _ => []
  | (fn, tol) :: rest, f => (fn, (f fn).count) :: (if (f fn).hard tol then [] else loadFrom rest f)

/-- the update call that fills the collection `getDataStatus` tests under that name -/
def fillerOf (coll : String) : String :=
  if coll = "agencies" then "updateAgencies"
  else if coll = "services" then "updateServices"
  else if coll = "nodes" then "updateNodes"
  else if coll = "lines" then "updateLines"
  else if coll = "paths" then "updatePaths"
  else if coll = "scenarios" then "updateScenarios"
  else "updateSchedules"

def countAfterLoad (f : String → Fetch) (coll : String) : Nat :=
  ((loadFrom Gen.loadOrder f).lookup (fillerOf coll)).getD 0

/-- `getDataStatus` over collection sizes -/
def statusOfCounts (order : List (String × String)) (count : String → Nat) : String :=
  match order.find? (fun p => count p.1 = 0) with
  | some p => p.2
  | none => "READY"

/-- the data status `main()` hands to the endpoints after start-up on files with outcomes `f` -/
def startupStatus (f : String → Fetch) : String := statusOfCounts Gen.dataStatusOrder (countAfterLoad f)

end Tr
