/-
  TrVerif.Model.Load — the cache loaders at RECORD level.

  Input  (`Disk`):  what the Cap'n Proto files of a cache directory contain, record by record, exactly
                    as `harness/decode.cpp` prints it (`notes/loader-protocol.md`, RECORDS): uuid texts
                    (parsable / not), parallel arrays of any lengths, references to identifiers that
                    other files may or may not define, missing files.
  Output (`TD`):    what `TransitData` holds after its constructor ran `loadAllData`
                    (`transit_data.cpp:276-356`): the seven `std::map`s, the footpath vectors of every
                    node, the `connections` vector in creation order.

  Code modelled, statement by statement:
    `agencies_cache_fetcher.cpp`, `services_cache_fetcher.cpp`  (getIds)
    `nodes_cache_fetcher.cpp`        (getNodesColl, nodeLoop, footLoop; the "sort" that copies is the identity)
    `lines_cache_fetcher.cpp`        (getLines)
    `paths_cache_fetcher.cpp`        (getPaths, distances from the JSON data field)
    `scenarios_cache_fetcher.cpp`    (getScenarios: `ts[uuid]` creates the entry, lists are assigned one by one)
    `trips_and_connections_cache_fetcher.cpp`  (getSchedules: per-line files, validation of a trip, connections)
    `transit_data.cpp` loadAllData / getDataStatus  (order and tolerance: `Gen.loadOrder`, `Gen.dataStatusOrder`)

  Exceptions: a throwing statement ends the enclosing `try` with the state reached so far (entries
  stored before the throw stay). Two kinds of indexing are distinguished because the C++ differs:
  a Cap'n Proto list index is bounds-checked (kj::Exception, caught per file), `path.nodesRef[i]`
  is an unchecked `std::vector` access — out of range it is undefined behaviour, the model's `ub`.

  NOT modelled: bytes (packing, pointers, traversal limits): a file is `ok` with its records,
  `missing`, or `bad` (unreadable; the model then loads nothing from it, the real loader may have
  kept a prefix — byte-level faults are decided on the real binary only); date strings of services,
  simulation uuids of agencies / services, persons / odTrips / dataSources.
-/
import TrVerif.Model.Data
import TrVerif.Generated.Tables
namespace Tr.Load

/-! ### records -/

/-- a uuid text of a file: not parsable, empty, or the 128-bit value -/
inductive UTok
  | bad | empty | id (n : Nat)
deriving DecidableEq, Repr, Inhabited

/-- `boost::uuids::string_generator()(text)`: `none` = throws std::runtime_error -/
def UTok.parse : UTok → Option Nat
  | .id n => some n
  | _ => none

inductive FSt | ok | missing | bad
deriving DecidableEq, Repr, Inhabited

structure NodeFile where
  uuids : List UTok
  times : List Int
  dists : List Int
deriving Repr, Inhabited

structure LineR where
  uuid : UTok
  agency : UTok
  mode : String
deriving Repr, Inhabited

/-- `data.segments[i].<field>`: a number, absent / null, or present with another type -/
inductive SegV | num (n : Int) | absent | wrong
deriving DecidableEq, Repr, Inhabited

structure PathR where
  uuid : UTok
  line : UTok
  nodes : List UTok
  segs : Option (List (SegV × SegV))      -- (distanceMeters, travelTimeSeconds) per index; none = data is not usable JSON
deriving Repr, Inhabited

inductive Tok | u (t : UTok) | s (m : String)
deriving DecidableEq, Repr, Inhabited

structure ScenR where
  uuid : UTok
  sim : UTok
  /-- the nine lists in the order the CODE assigns them: services, onlyLines, onlyAgencies, onlyNodes,
      onlyModes, exceptLines, exceptAgencies, exceptNodes, exceptModes -/
  lists : List (List Tok)
deriving Repr, Inhabited

structure TripR where
  uuid : UTok
  path : UTok
  arr : List Int
  dep : List Int
  cb : List Int
  cu : List Int
deriving Repr, Inhabited

inductive LItem
  | sched (svc : UTok)
  | period
  | trip (t : TripR)
deriving Repr, Inhabited

structure Disk where
  agencies : FSt × List UTok := (.missing, [])
  services : FSt × List UTok := (.missing, [])
  nodes : FSt × List UTok := (.missing, [])
  nodeFiles : List (Nat × Option NodeFile) := []         -- none = unreadable
  lines : FSt × List LineR := (.missing, [])
  paths : FSt × List PathR := (.missing, [])
  scenarios : FSt × List ScenR := (.missing, [])
  lineFiles : List (Nat × Option (List LItem)) := []
deriving Repr, Inhabited

/-! ### `std::map<uuid, T>` as a list sorted by key -/

abbrev Map (α : Type) := List (Nat × α)

def Map.get? {α} (m : Map α) (k : Nat) : Option α := m.lookup k
def Map.has {α} (m : Map α) (k : Nat) : Bool := (m.lookup k).isSome
def Map.keys {α} (m : Map α) : List Nat := m.map (·.1)

/-- `m.emplace(k, v)`: nothing happens when the key exists -/
def Map.emplace {α} : Map α → Nat → α → Map α
  | [], k, v => [(k, v)]
  | (k', v') :: m, k, v =>
    if k < k' then (k, v) :: (k', v') :: m
    else if k = k' then (k', v') :: m
    else (k', v') :: Map.emplace m k v

/-- `m[k] = v` -/
def Map.set {α} : Map α → Nat → α → Map α
  | [], k, v => [(k, v)]
  | (k', v') :: m, k, v =>
    if k < k' then (k, v) :: (k', v') :: m
    else if k = k' then (k', v) :: m
    else (k', v') :: Map.set m k v

/-- `f(m.at(k))` for an existing key -/
def Map.modify {α} (m : Map α) (k : Nat) (f : α → α) : Map α :=
  m.map fun p => if p.1 = k then (p.1, f p.2) else p

/-! ### loaded data -/

def ENOENT : Int := 2
def EINVAL : Int := 22
def EBADMSG : Int := 74

structure NTDu where
  node : Nat
  time : Int
  dist : Int
deriving DecidableEq, Repr, Inhabited

structure LNode where
  foot : List NTDu := []
  rfoot : List NTDu := []
deriving Repr, Inhabited, DecidableEq

structure LLine where
  agency : Nat
  mode : String
deriving Repr, Inhabited, DecidableEq

structure LPath where
  line : Nat
  nodes : List Nat
  dist : List Int
deriving Repr, Inhabited, DecidableEq

inductive Val | id (n : Nat) | mode (m : String)
deriving DecidableEq, Repr, Inhabited

structure LScen where
  lists : List (List Val) := List.replicate 9 []
deriving Repr, Inhabited, DecidableEq

structure LTrip where
  path : Nat
  line : Nat
  agency : Nat
  mode : String
  service : Nat
deriving Repr, Inhabited, DecidableEq

structure LConn where
  depNode : Nat
  arrNode : Nat
  dep : Int
  arr : Int
  trip : Nat
  seq : Nat
  cb : Bool
  cu : Bool
  mw : Int
deriving Repr, Inhabited, DecidableEq

structure TD where
  agencies : Map Unit := []
  services : Map Unit := []
  nodes : Map LNode := []
  lines : Map LLine := []
  paths : Map LPath := []
  scenarios : Map LScen := []
  trips : Map LTrip := []
  conns : List LConn := []
  /-- an unchecked vector access was out of range while loading (undefined behaviour in C++) -/
  ub : Bool := false
deriving Repr, Inhabited

/-! ### agencies, services -/

def idsLoop : List UTok → Map Unit → Int × Map Unit
  | [], m => (0, m)
  | u :: us, m =>
    match u.parse with
    | none => (-EINVAL, m)
    | some k => idsLoop us (m.set k ())

/-- `getAgencies` / `getServices`: `ts.clear()`, open, `ts[uuid] = t` per record -/
def getIds (f : FSt × List UTok) : Int × Map Unit :=
  match f.1 with
  | .missing => (-ENOENT, [])
  | .bad => (-EBADMSG, [])
  | .ok => idsLoop f.2 []

/-! ### nodes -/

def nodesCollLoop : List UTok → Map LNode → Int × Map LNode
  | [], m => (0, m)
  | u :: us, m =>
    match u.parse with
    | none => (-EINVAL, m)
    | some k => nodesCollLoop us (m.emplace k {})

/-- the loop over `transferableNodesUuids` of the file of node `k`; `acc` = the local vector
    `transferableNodes`; result `true` = left by an exception -/
def footLoop (k : Nat) : List UTok → List Int → List Int → List NTDu → Map LNode → Bool × List NTDu × Map LNode
  | [], _, _, acc, ts => (false, acc, ts)
  | u :: us, t :: tts, d :: dds, acc, ts =>
    match u.parse with
    | none => (true, acc, ts)                                  -- malformed uuid text: std::exception
    | some v =>
      if !ts.has v then footLoop k us tts dds acc ts             -- unknown stop: skipped
      else if t < 0 then footLoop k us tts dds acc ts            -- negative walk: skipped
      else footLoop k us tts dds (acc ++ [⟨v, t, d⟩])
             (ts.modify v fun n => { n with rfoot := n.rfoot ++ [⟨k, t, d⟩] })
  | _ :: _, _, _, acc, ts => (true, acc, ts)                   -- capnp index out of range: kj::Exception

def lookupFile {α} (files : List (Nat × α)) (k : Nat) : Option α := files.lookup k

/-- the second loop of `getNodes`, over the keys of `ts` in map order -/
def nodeLoop (files : List (Nat × Option NodeFile)) : List Nat → Map LNode → Int × Map LNode
  | [], ts => (0, ts)
  | k :: ks, ts =>
    match lookupFile files k with
    | none => nodeLoop files ks ts                               -- no file: `continue`
    | some none => (-EBADMSG, ts)                                -- unreadable file
    | some (some f) =>
      if f.times.length < f.uuids.length ∨ f.dists.length < f.uuids.length then (-EBADMSG, ts)
      else
        match footLoop k f.uuids f.times f.dists [] ts with
        | (true, _, ts') => (-EBADMSG, ts')
        | (false, acc, ts') =>
          nodeLoop files ks (ts'.modify k fun n => { n with foot := acc, rfoot := n.rfoot ++ [⟨k, 0, 0⟩] })

def getNodes (d : Disk) : Int × Map LNode :=
  match d.nodes.1 with
  | .missing => (-ENOENT, [])
  | .bad => (-EBADMSG, [])
  | .ok =>
    match nodesCollLoop d.nodes.2 [] with
    | (0, ts) => nodeLoop d.nodeFiles ts.keys ts
    | (r, ts) => (r, ts)

/-! ### lines -/

def linesLoop (agencies : Map Unit) : List LineR → Map LLine → Int × Map LLine
  | [], m => (0, m)
  | r :: rs, m =>
    match r.uuid.parse, r.agency.parse with
    | some k, some a =>
      if agencies.has a ∧ Gen.modeNames.contains r.mode then linesLoop agencies rs (m.emplace k ⟨a, r.mode⟩)
      else (-EINVAL, m)
    | _, _ => (-EINVAL, m)

def getLines (d : Disk) (agencies : Map Unit) : Int × Map LLine :=
  match d.lines.1 with
  | .missing => (-ENOENT, [])
  | .bad => (-EBADMSG, [])
  | .ok => linesLoop agencies d.lines.2 []

/-! ### paths -/

/-- `nodes.at(uuidGenerator(text))` for every stop of the path; `none` = some statement throws -/
def resolveNodes (nodes : Map LNode) : List UTok → Option (List Nat)
  | [] => some []
  | u :: us =>
    match u.parse with
    | none => none
    | some k => if nodes.has k then (resolveNodes nodes us).map (k :: ·) else none

/-- the loop `for i < nodesRef.size()` over `segments[i]`; an index past the JSON array reads null -/
def segLoop : Nat → List (SegV × SegV) → Option (List Int)
  | 0, _ => some []
  | n+1, [] => segLoop n []
  | n+1, (d, t) :: rest =>
    if t = .wrong then none else
    match d with
    | .wrong => none
    | .absent => segLoop n rest
    | .num x => (segLoop n rest).map (x :: ·)

def pathsLoop (lines : Map LLine) (nodes : Map LNode) : List PathR → Map LPath → Int × Map LPath
  | [], m => (0, m)
  | r :: rs, m =>
    match r.uuid.parse, resolveNodes nodes r.nodes, r.segs, r.line.parse with
    | some k, some ns, some segs, some l =>
      match segLoop ns.length segs with
      | none => (-EINVAL, m)
      | some dist => if lines.has l then pathsLoop lines nodes rs (m.emplace k ⟨l, ns, dist⟩) else (-EINVAL, m)
    | _, _, _, _ => (-EINVAL, m)

def getPaths (d : Disk) (lines : Map LLine) (nodes : Map LNode) : Int × Map LPath :=
  match d.paths.1 with
  | .missing => (-ENOENT, [])
  | .bad => (-EBADMSG, [])
  | .ok => pathsLoop lines nodes d.paths.2 []

/-! ### scenarios -/

inductive R | throw | skip | keep (v : Val)

/-- one list of a scenario: `none` = a uuid text does not parse (the list is then not assigned) -/
def resolveList (f : Tok → R) : List Tok → Option (List Val)
  | [] => some []
  | t :: ts =>
    match f t with
    | .throw => none
    | .skip => resolveList f ts
    | .keep v => (resolveList f ts).map (v :: ·)

def byId (known : Nat → Bool) : Tok → R
  | .u t => match t.parse with
    | none => .throw
    | some k => if known k then .keep (.id k) else .skip
  | .s _ => .throw

def byMode : Tok → R
  | .s m => if Gen.modeNames.contains m then .keep (.mode m) else .skip
  | .u _ => .skip

structure Known where
  services : Nat → Bool
  lines : Nat → Bool
  agencies : Nat → Bool
  nodes : Nat → Bool

/-- resolver of the i-th list in code order -/
def Known.resolver (kn : Known) (i : Nat) : Tok → R :=
  match i with
  | 0 => byId kn.services
  | 1 => byId kn.lines
  | 2 => byId kn.agencies
  | 3 => byId kn.nodes
  | 4 => byMode
  | 5 => byId kn.lines
  | 6 => byId kn.agencies
  | 7 => byId kn.nodes
  | _ => byMode

/-- assign the lists `i, i+1, …` of the entry `s`; `true` = a throw ended the record -/
def assignLists (kn : Known) : Nat → List (List Tok) → LScen → Bool × LScen
  | _, [], s => (false, s)
  | i, l :: ls, s =>
    match resolveList (kn.resolver i) l with
    | none => (true, s)
    | some vs => assignLists kn (i + 1) ls { s with lists := s.lists.set i vs }

def scenLoop (kn : Known) : List ScenR → Map LScen → Int × Map LScen
  | [], m => (0, m)
  | r :: rs, m =>
    match r.uuid.parse with
    | none => (-EINVAL, m)
    | some k =>
      let cur : LScen := (m.get? k).getD {}            -- `ts[uuid]` default-constructs a missing entry
      if r.sim = .bad then (-EINVAL, m.set k cur)
      else
        match assignLists kn 0 r.lists cur with
        | (true, s) => (-EINVAL, m.set k s)
        | (false, s) => scenLoop kn rs (m.set k s)

def getScenarios (d : Disk) (kn : Known) : Int × Map LScen :=
  match d.scenarios.1 with
  | .missing => (-ENOENT, [])
  | .bad => (-EBADMSG, [])
  | .ok => scenLoop kn d.scenarios.2 []

/-! ### schedules -/

/-- the validation of a trip record against its path (`trips_and_connections_cache_fetcher.cpp`) -/
def tripCountsOk (t : TripR) (p : LPath) : Bool :=
  !(t.arr.length < 2 || t.arr.length > p.nodes.length || t.dep.length < t.arr.length
    || t.cb.length < t.arr.length || t.cu.length < t.arr.length)

/-- `for i+1 < n: if arr[i+1] < dep[i]` (after the count validation both reads are in range) -/
def goesBack : List Int → List Int → Bool
  | _ :: a1 :: as, d0 :: ds => a1 < d0 || goesBack (a1 :: as) ds
  | _, _ => false

inductive Idx (α : Type) | val (a : α) | kj | ub

/-- connections of hops `i, i+1, …` (at most `n` of them): checked capnp reads, unchecked `nodesRef` reads -/
def connLoop (trip : Nat) (mw : Int) (nodes : List Nat) (t : TripR) : Nat → Nat → Idx (List LConn)
  | _, 0 => .val []
  | i, n+1 =>
    match nodes[i]?, nodes[i+1]? with
    | some a, some b =>
      match t.dep[i]?, t.arr[i+1]?, t.cb[i]?, t.cu[i+1]? with
      | some dp, some ar, some cb, some cu =>
        match connLoop trip mw nodes t (i+1) n with
        | .val cs => .val (⟨a, b, dp, ar, trip, i+1, cb == 1, cu == 1, mw⟩ :: cs)
        | e => e
      | _, _, _, _ => .kj
    | _, _ => .ub

structure Sch where
  trips : Map LTrip := []
  conns : List LConn := []
  ub : Bool := false
deriving Repr, Inhabited

/-- the records of one line file, in order; `svc` = the service of the enclosing schedule.
    Result `true` = the file was left by an exception (what was stored before stays). -/
def fileLoop (line : Nat) (ll : LLine) (services : Map Unit) (paths : Map LPath) :
    List LItem → Option Nat → Sch → Bool × Sch
  | [], _, s => (false, s)
  | .period :: is, svc, s => fileLoop line ll services paths is svc s
  | .sched u :: is, _, s =>
    match u.parse with
    | none => (true, s)
    | some k => if services.has k then fileLoop line ll services paths is (some k) s else (true, s)
  | .trip t :: is, svc, s =>
    match svc, t.uuid.parse, t.path.parse with
    | some sv, some k, some pk =>
      match paths.get? pk with
      | none => (true, s)
      | some p =>
        if !tripCountsOk t p then fileLoop line ll services paths is svc s
        else if goesBack t.arr t.dep then fileLoop line ll services paths is svc s
        else
          let trips := s.trips.emplace k ⟨pk, line, ll.agency, ll.mode, sv⟩
          let mw : Int := if ll.mode = "transferable" then 0 else -1
          match connLoop k mw p.nodes t 0 (t.arr.length - 1) with
          | .val cs => fileLoop line ll services paths is svc { s with trips, conns := s.conns ++ cs }
          | .kj => (true, { s with trips })
          | .ub => (true, { s with trips, ub := true })
    | _, _, _ => (true, s)

/-- `getSchedules`: one file per loaded line, in map order; a missing file is skipped, a throwing file
    is abandoned and the next line is read -/
def schedLoop (files : List (Nat × Option (List LItem))) (services : Map Unit) (paths : Map LPath) :
    Map LLine → Sch → Sch
  | [], s => s
  | (l, ll) :: ls, s =>
    match lookupFile files l with
    | none => schedLoop files services paths ls s
    | some none => schedLoop files services paths ls s
    | some (some items) => schedLoop files services paths ls (fileLoop l ll services paths items none s).2

/-! ### loadAllData -/

/-- one update call on the current state; returns the fetcher's return value -/
def applyCall (d : Disk) (fn : String) (td : TD) : Int × TD :=
  if fn = "updateNodes" then let r := getNodes d; (r.1, { td with nodes := r.2 })
  else if fn = "updateAgencies" then let r := getIds d.agencies; (r.1, { td with agencies := r.2 })
  else if fn = "updateServices" then let r := getIds d.services; (r.1, { td with services := r.2 })
  else if fn = "updateLines" then let r := getLines d td.agencies; (r.1, { td with lines := r.2 })
  else if fn = "updatePaths" then let r := getPaths d td.lines td.nodes; (r.1, { td with paths := r.2 })
  else if fn = "updateScenarios" then
    let r := getScenarios d ⟨td.services.has, td.lines.has, td.agencies.has, td.nodes.has⟩
    (r.1, { td with scenarios := r.2 })
  else if fn = "updateSchedules" then
    let s := schedLoop d.lineFiles td.services td.paths td.lines {}
    (0, { td with trips := s.trips, conns := s.conns, ub := td.ub || s.ub })
  else (0, td)          -- data sources, persons, OD trips: not read by any calculation

/-- `loadAllData`: calls in source order; a failure other than a tolerated missing file returns early -/
def loadFrom (d : Disk) : List (String × Bool) → TD → TD
  | [], td => td
  | (fn, tol) :: rest, td =>
    let r := applyCall d fn td
    if r.1 < 0 ∧ ¬ (tol ∧ r.1 = -ENOENT) then r.2 else loadFrom d rest r.2

def loadAll (d : Disk) : TD := loadFrom d Gen.loadOrder {}

/-- the update calls `GET /updateCache?names=<names>` makes (`transit_routing_http_server.cpp`): per name, in handler
    order (`Gen.updateCacheNames`), on the tables now in memory, reading the files `d`; return values are ignored -/
def updateNames (d : Disk) (names : List String) (td : TD) : TD :=
  names.foldl (fun td name =>
    Gen.updateCacheNames.foldl (fun td p => if name = p.1 ∨ name = "all" then (applyCall d p.2 td).2 else td) td) td

def TD.count (td : TD) (coll : String) : Nat :=
  if coll = "agencies" then td.agencies.length
  else if coll = "services" then td.services.length
  else if coll = "nodes" then td.nodes.length
  else if coll = "lines" then td.lines.length
  else if coll = "paths" then td.paths.length
  else if coll = "scenarios" then td.scenarios.length
  else if coll = "trips" then td.trips.length
  else 1

/-- `getDataStatus` -/
def TD.status (td : TD) : String :=
  match Gen.dataStatusOrder.find? (fun p => td.count p.1 = 0) with
  | some p => p.2
  | none => "READY"

/-! ### the two sorted lists -/

def lFwdLt (a b : LConn) : Bool :=
  decide (a.dep < b.dep) || (decide (a.dep = b.dep) &&
    (decide (a.trip < b.trip) || (decide (a.trip = b.trip) && decide (a.seq < b.seq))))

def lRevLt (a b : LConn) : Bool :=
  decide (a.arr > b.arr) || (decide (a.arr = b.arr) &&
    (decide (a.trip > b.trip) || (decide (a.trip = b.trip) && decide (a.seq > b.seq))))

def TD.fwd (td : TD) : List LConn := isort lFwdLt td.conns
def TD.rev (td : TD) : List LConn := isort lRevLt td.conns

end Tr.Load
