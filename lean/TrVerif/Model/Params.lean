/-
  TrVerif.Model.Params — the request parameters at STRING level: what `/v2/route`, `/v2/summary` and
  `/v2/accessibility` do with the list of (name, value) pairs of the query string.

  Code modelled: `common_parameters.cpp` (`getIntegerValue`, `createCommonParameter`),
  `route_parameters.cpp` (`createRouteODParameter`), `accessibility_parameters.cpp`
  (`createAccessibilityParameter`), the exception -> status / errorCode mapping of the three handlers
  (`transit_routing_http_server.cpp`, `getResponseCode`, `getFastErrorResponse`).

  The pairs are processed in the order of the list; the server iterates a hash multimap, so the
  order of a real request is not known — every theorem of Props/C18Params.lean holds for EVERY order.

  Abstracted (parameters of the model, `Env`): the reading of a coordinate value (`coord`: two
  comma-separated texts that `std::stod` consumes in full; the driver's instance is `coordOfStod`) and the look-up of a scenario id text
  (`scen`: none = not a uuid or no such scenario, some e = found, e = its service list is empty).
  `std::stoi` IS modelled (`stoiFull`).
-/
import TrVerif.Generated.Tables
import TrVerif.Model.Basic
namespace Tr.Par

/-- `isspace` of the C locale -/
def isSpace (c : Char) : Bool := c = ' ' || c = '\t' || c = '\n' || c = Char.ofNat 11 || c = Char.ofNat 12 || c = '\r'

def digitsVal (ds : List Char) : Nat := ds.foldl (fun a c => a * 10 + (c.toNat - 48)) 0

/-- `std::stoi(s, &pos)` with `pos == s.size()` demanded: leading white space, an optional sign, at least
    one decimal digit, nothing else, value in the range of `int`; `none` = an exception
    (`invalid_argument` / `out_of_range`), which `getIntegerValue` turns into INVALID_NUMERICAL_DATA -/
def stoiFull (s : String) : Option Int :=
  let cs := s.toList.dropWhile isSpace
  let neg := cs.head? = some '-'
  let ds := if cs.head? = some '-' ∨ cs.head? = some '+' then cs.tail else cs
  if ds.isEmpty || !ds.all Char.isDigit then none else
  let v : Int := if neg then -(digitsVal ds : Int) else (digitsVal ds : Int)
  if v < -2147483648 ∨ v > 2147483647 then none else some v

structure Env where
  /-- a coordinate value: `boost::split` at ',' gives exactly two texts and `std::stod` reads both in full -/
  coord : String → Bool
  scen : String → Option Bool

inductive PErr
  | emptyScenario | missingScenario | missingOrigin | missingDestination | missingTime
  | invalidOrigin | invalidDestination | missingPlace | invalidPlace | invalidNumerical
deriving DecidableEq, Repr, Inhabited

/-- the enumerator of `ParameterException::Type` -/
def PErr.typeName : PErr → String
  | .emptyScenario => "EMPTY_SCENARIO" | .missingScenario => "MISSING_SCENARIO" | .missingOrigin => "MISSING_ORIGIN"
  | .missingDestination => "MISSING_DESTINATION" | .missingTime => "MISSING_TIME_OF_TRIP" | .invalidOrigin => "INVALID_ORIGIN"
  | .invalidDestination => "INVALID_DESTINATION" | .missingPlace => "MISSING_PLACE" | .invalidPlace => "INVALID_PLACE"
  | .invalidNumerical => "INVALID_NUMERICAL_DATA"

/-- `getResponseCode` (the switch is regenerated: `Gen.paramErrorCodes`) -/
def PErr.code (e : PErr) : String := (Gen.paramErrorCodes.lookup e.typeName).getD "PARAM_ERROR_UNKNOWN"

structure Common where
  time : Int := -1
  minWait : Int := Gen.DEFAULT_MIN_WAITING_TIME
  maxTotal : Int := MAX_INT
  maxAccess : Int := Gen.DEFAULT_MAX_ACCESS_TRAVEL_TIME
  maxEgress : Int := Gen.DEFAULT_MAX_EGRESS_TRAVEL_TIME
  maxTransfer : Int := Gen.DEFAULT_MAX_TRANSFER_TRAVEL_TIME
  maxFirstWait : Int := Gen.DEFAULT_FIRST_WAITING_TIME
  forward : Bool := true
  /-- the scenario found last: `some e`, e = its service list is empty -/
  scenario : Option Bool := none
deriving Repr, Inhabited, DecidableEq

def numericKeys : List String := ["time_of_trip", "min_waiting_time", "max_travel_time", "max_access_travel_time",
  "max_egress_travel_time", "max_transfer_travel_time", "max_first_waiting_time"]

/-- one iteration of the loop of `createCommonParameter` -/
def commonStep (env : Env) (c : Common) (kv : String × String) : Except PErr Common :=
  let k := kv.1; let v := kv.2
  if k = "time_of_trip" then
    match stoiFull v with | none => .error .invalidNumerical | some n => .ok { c with time := if n < 0 then -1 else n }
  else if k = "time_type" then .ok (if v = "1" then { c with forward := false } else c)
  else if k = "scenario_id" then
    .ok (match env.scen v with | some e => { c with scenario := some e } | none => c)
  else if k = "min_waiting_time" then
    match stoiFull v with | none => .error .invalidNumerical | some n => .ok { c with minWait := if n < 0 then 0 else n }
  else if k = "max_travel_time" then
    match stoiFull v with | none => .error .invalidNumerical | some n => .ok { c with maxTotal := if n ≤ 0 then MAX_INT else n }
  else if k = "max_access_travel_time" then
    match stoiFull v with | none => .error .invalidNumerical | some n => .ok { c with maxAccess := if n ≤ 0 then MAX_INT else n }
  else if k = "max_egress_travel_time" then
    match stoiFull v with | none => .error .invalidNumerical | some n => .ok { c with maxEgress := if n ≤ 0 then MAX_INT else n }
  else if k = "max_transfer_travel_time" then
    match stoiFull v with | none => .error .invalidNumerical | some n => .ok { c with maxTransfer := if n ≤ 0 then MAX_INT else n }
  else if k = "max_first_waiting_time" then
    match stoiFull v with | none => .error .invalidNumerical | some n => .ok { c with maxFirstWait := if n ≤ 0 then -1 else n }
  else .ok c

def commonLoop (env : Env) : List (String × String) → Common → Except PErr Common
  | [], c => .ok c
  | kv :: rest, c => match commonStep env c kv with
    | .error e => .error e
    | .ok c' => commonLoop env rest c'

/-- `createCommonParameter` -/
def createCommon (env : Env) (ps : List (String × String)) : Except PErr Common :=
  match commonLoop env ps {} with
  | .error e => .error e
  | .ok c =>
    match c.scenario with
    | none => .error .missingScenario
    | some true => .error .emptyScenario
    | some false => if c.time < 0 then .error .missingTime else .ok c

/-- `boost::split(v, value, is_any_of(","))`, two parts demanded, both read by `std::stod` in full -/
def coordPair (env : Env) (v : String) : Bool := env.coord v

/-- the concrete `Env.coord` of the driver, given a recogniser of what `std::stod` reads in full -/
def coordOfStod (stodOk : String → Bool) (v : String) : Bool :=
  match v.splitOn "," with
  | [a, b] => stodOk b && stodOk a
  | _ => false

structure RouteSt where
  origin : Option String := none
  destination : Option String := none
  alternatives : Bool := false
deriving Repr, Inhabited, DecidableEq

def routeStep (env : Env) (s : RouteSt) (kv : String × String) : Except PErr RouteSt :=
  if kv.1 = "origin" then (if coordPair env kv.2 then .ok { s with origin := some kv.2 } else .error .invalidOrigin)
  else if kv.1 = "destination" then (if coordPair env kv.2 then .ok { s with destination := some kv.2 } else .error .invalidDestination)
  else if kv.1 = "alternatives" then .ok (if kv.2 = "true" ∨ kv.2 = "1" then { s with alternatives := true } else s)
  else .ok s

def routeLoop (env : Env) : List (String × String) → RouteSt → Except PErr RouteSt
  | [], s => .ok s
  | kv :: rest, s => match routeStep env s kv with
    | .error e => .error e
    | .ok s' => routeLoop env rest s'

/-- `createRouteODParameter` -/
def createRoute (env : Env) (ps : List (String × String)) : Except PErr (RouteSt × Common) :=
  match routeLoop env ps {} with
  | .error e => .error e
  | .ok s =>
    if s.origin.isNone then .error .missingOrigin
    else if s.destination.isNone then .error .missingDestination
    else match createCommon env ps with
      | .error e => .error e
      | .ok c => .ok (s, c)

def placeLoop (env : Env) : List (String × String) → Option String → Except PErr (Option String)
  | [], p => .ok p
  | kv :: rest, p =>
    if kv.1 = "place" then (if coordPair env kv.2 then placeLoop env rest (some kv.2) else .error .invalidPlace)
    else placeLoop env rest p

/-- `createAccessibilityParameter` -/
def createAccess (env : Env) (ps : List (String × String)) : Except PErr (String × Common) :=
  match placeLoop env ps none with
  | .error e => .error e
  | .ok none => .error .missingPlace
  | .ok (some p) => match createCommon env ps with
    | .error e => .error e
    | .ok c => .ok (p, c)

inductive Resp
  | dataError (code : String)             -- HTTP 200, status data_error
  | queryError (code : String)            -- HTTP 400, status query_error
  | calc (c : Common) (alternatives : Bool)   -- HTTP 200: the calculation runs with these parameters
deriving Repr, DecidableEq

/-- one GET; `status` is the data status the handler consults, `acc` = the accessibility endpoint -/
def handle (env : Env) (status : String) (acc : Bool) (ps : List (String × String)) : Resp :=
  let fast := (Gen.dataStatusCodes.lookup status).getD "PARAM_ERROR_UNKNOWN"
  if fast ≠ "" then .dataError fast
  else if acc then
    match createAccess env ps with
    | .error e => .queryError e.code
    | .ok (_, c) => .calc c false
  else
    match createRoute env ps with
    | .error e => .queryError e.code
    | .ok (s, c) => .calc c s.alternatives

end Tr.Par
