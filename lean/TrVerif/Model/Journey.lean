/-
  TrVerif.Model.Journey — journey reconstruction, clean-up (`optimizeJourney`) and emission.
  Code modelled: `reverse_journey.cpp` (single and all-nodes), `optimize_journey.cpp` (after the
  `fix:` commit that keeps legs and walks consistent), `forward_journey.cpp:267-322`.
-/
import TrVerif.Model.Scan
namespace Tr

/-! ### reconstruction (`reverse_journey.cpp:42-58`) -/

/-- follows the chain of reverse steps; `fuel` bounds the `while`; `none` = fuel exhausted
    (the C++ loop would not terminate). Result: legs (walk already moved *behind* each leg) and
    the stop at which the last leg alights. -/
def reconLoop (steps : Nat → JStep) : Nat → JStep → List JStep → Option Nat → Option (List JStep × Option Nat)
  | 0, cur, acc, last => if cur.hasConns then none else some (acc, last)
  | fuel+1, cur, acc, last =>
    if cur.hasConns then
      let acc' := match acc.getLast? with
        | some l => acc.dropLast ++ [{ l with walk := cur.walk, dist := cur.dist }]
        | none => acc
      let nxt := match cur.exit with
        | some x => x.arrStop
        | none => 0
      reconLoop steps fuel (steps nxt) (acc' ++ [cur]) (some nxt)
    else some (acc, last)

/-! ### clean-up (`optimizeJourney`) -/

structure LegInfo where
  trip : Nat
  s0 : Nat          -- sequenceStartIdx  (enter.seq - 1)
  s1 : Nat          -- sequenceEndIdx    (exit.seq - 1)
  first : Nat
  last : Nat
  between : List Nat

def legInfo (ds : Dataset) (j : JStep) : Option LegInfo :=
  match j.enter, j.exit with
  | some e, some x =>
    let s0 := e.seq - 1
    let s1 := x.seq - 1
    let tf := ds.tripFwd e.trip
    let between := (List.range (s1 - s0)).filterMap fun k =>
      let nd := (tf.getD (s0 + 1 + k) default).depStop
      if nd ≠ e.depStop ∧ nd ≠ x.arrStop then some nd else none
    some { trip := e.trip, s0, s1, first := e.depStop, last := x.arrStop, between }
  | _, _ => none

/-- `trip.reverseConnections[size-1-s1 .. size-1-s0]` -/
def revSlice (ds : Dataset) (trip s0 s1 : Nat) : List Conn :=
  let tr := ds.tripRev trip
  (tr.drop (tr.length - 1 - s1)).take (s1 - s0 + 1)

structure Found where
  case : Nat         -- 1 CSL, 2 BTS, 3 GTF, 4 CSS
  node : Nat
  from_ : Nat
  to : Nat
deriving Repr, DecidableEq

/-- the inner `for (i = 0; i < journeyStepIdx; i++)` search for step `idx` -/
def searchPair (ignore : List Nat) (infos : List (Option LegInfo)) (idx : Nat) (cur : LegInfo) : Nat → Nat → Option Found
  | _, 0 => none
  | i, n+1 =>
    let bi : List Nat := match infos.getD i none with
      | some li => li.between
      | none => []
    let lasti : Option Nat := (infos.getD i none).map (·.last)
    if ¬ bi.isEmpty ∧ bi.contains cur.last ∧ ¬ ignore.contains cur.last then
      some ⟨1, cur.last, i, idx⟩
    else if ¬ cur.between.isEmpty ∧ (lasti.any fun l => cur.between.contains l && !ignore.contains l) then
      some ⟨2, lasti.getD 0, i, idx⟩
    else if ¬ bi.isEmpty ∧ bi.contains cur.first ∧ ¬ ignore.contains cur.first then
      some ⟨3, cur.first, i, idx⟩
    else
      match (if ¬ bi.isEmpty ∧ ¬ cur.between.isEmpty then
               bi.find? (fun nd => cur.between.contains nd && !ignore.contains nd) else none) with
      | some nd => some ⟨4, nd, i, idx⟩
      | none => searchPair ignore infos idx cur (i+1) n

/-- the outer `for (auto & journeyStep : journey)` search -/
def searchJourney (ds : Dataset) (ignore : List Nat) : List JStep → Nat → List (Option LegInfo) → Option Found
  | [], _, _ => none
  | j :: js, idx, infos =>
    match legInfo ds j with
    | some cur =>
      match searchPair ignore (infos ++ [some cur]) idx cur 0 idx with
      | some f => some f
      | none => searchJourney ds ignore js (idx+1) (infos ++ [some cur])
    | none => searchJourney ds ignore js (idx+1) (infos ++ [none])

def eraseRange {α : Type} (l : List α) (a b : Nat) : List α := l.take a ++ l.drop b   -- erase [a, b)

def modifyAt {α : Type} (l : List α) (i : Nat) (f : α → α) : List α :=
  match l[i]? with
  | some x => l.set i (f x)
  | none => l

structure OptState where
  journey : List JStep
  ignore : List Nat := []
  used : List Nat := []

/-- CSS: first loop (choose the exit connection), `optimize_journey.cpp:298-312` -/
def cssExit (node : Nat) : List Conn → Option Conn → Option Conn
  | [], acc => acc
  | c :: cs, acc => if c.arrStop = node then (if c.canUnboard then cssExit node cs (some c) else acc) else cssExit node cs acc

/-- CSS: second loop; returns (journey, ignore, used, applied) -/
def cssEnter (node from_ to : Nat) (exitC : Option Conn) : List Conn → List JStep × List Nat × List Nat × Bool → List JStep × List Nat × List Nat × Bool
  | [], st => st
  | c :: cs, (j, ig, us, ap) =>
    if c.depStop = node then
      match exitC with
      | some x =>
        if c.canBoard then
          cssEnter node from_ to exitC cs
            (modifyAt (modifyAt j from_ fun s => { s with exit := some x }) to fun s => { s with enter := some c },
             ig, us ++ [4], true)
        else (j, ig ++ [node], us, ap)
      | none => (j, ig ++ [node], us, ap)
    else cssEnter node from_ to exitC cs (j, ig, us, ap)

/-- apply a found case; returns the new state and whether the `while` continues -/
def applyFound (ds : Dataset) (st : OptState) (f : Found) : OptState × Bool :=
  let j := st.journey
  match f.case with
  | 1 =>
    match (j.getD f.from_ {}).enter, (j.getD f.from_ {}).exit with
    | some e, some x =>
      match (revSlice ds e.trip (e.seq - 1) (x.seq - 1)).find? (·.arrStop = f.node) with
      | some c =>
        if ¬ c.canUnboard then ({ st with ignore := st.ignore ++ [f.node] }, true)
        else
          let tow := j.getD f.to {}
          let j1 := modifyAt j f.from_ fun s => { s with walk := tow.walk, dist := tow.dist }
          let j2 := eraseRange j1 (f.from_ + 1) (f.to + 1)
          let j3 := modifyAt j2 f.from_ fun s => { s with exit := some c }
          ({ st with journey := j3, used := st.used ++ [1] }, true)
      | none => (st, true)
    | _, _ => (st, true)
  | 2 =>
    match (j.getD f.to {}).enter, (j.getD f.to {}).exit with
    | some e, some x =>
      match (revSlice ds e.trip (e.seq - 1) (x.seq - 1)).find? (·.depStop = f.node) with
      | some c =>
        if ¬ c.canBoard then ({ st with ignore := st.ignore ++ [f.node] }, false)
        else
          let j1 := modifyAt j f.to fun s => { s with enter := some c }
          let j2 := modifyAt j1 f.from_ fun s => { s with walk := 0, dist := 0 }
          let j3 := eraseRange j2 (f.from_ + 1) f.to
          ({ st with journey := j3, used := st.used ++ [2] }, false)
      | none => (st, false)
    | _, _ => (st, false)
  | 3 =>
    match (j.getD f.from_ {}).enter, (j.getD f.from_ {}).exit with
    | some e, some x =>
      match (revSlice ds e.trip (e.seq - 1) (x.seq - 1)).find? (·.arrStop = f.node) with
      | some c =>
        if ¬ c.canUnboard then ({ st with ignore := st.ignore ++ [f.node] }, true)
        else
          let j1 := modifyAt j f.from_ fun s => { s with exit := some c, walk := 0, dist := 0 }
          let j2 := eraseRange j1 (f.from_ + 1) f.to
          ({ st with journey := j2, used := st.used ++ [3] }, true)
      | none => (st, true)
    | _, _ => (st, true)
  | _ =>
    match (j.getD f.from_ {}).enter, (j.getD f.from_ {}).exit, (j.getD f.to {}).enter, (j.getD f.to {}).exit with
    | some e1, some x1, some e2, some x2 =>
      let exitC := cssExit f.node (revSlice ds e1.trip (e1.seq - 1) (x1.seq - 1)) none
      let (j1, ig, us, ap) := cssEnter f.node f.from_ f.to exitC (revSlice ds e2.trip (e2.seq - 1) (x2.seq - 1)) (j, st.ignore, st.used, false)
      let j2 := if ap then eraseRange (modifyAt j1 f.from_ fun s => { s with walk := 0, dist := 0 }) (f.from_ + 1) f.to else j1
      ({ journey := j2, ignore := ig, used := us }, true)
    | _, _, _, _ => (st, true)

/-- the `while` of `optimizeJourney` with fuel; `none` = fuel exhausted -/
def optimizeLoop (ds : Dataset) : Nat → OptState → Option OptState
  | 0, _ => none
  | fuel+1, st =>
    match searchJourney ds st.ignore st.journey 0 [] with
    | none => some st
    | some f =>
      let (st', cont) := applyFound ds st f
      if cont then optimizeLoop ds fuel st' else some st'

def legHops (j : JStep) : Nat :=
  match j.enter, j.exit with
  | some e, some x => x.seq - e.seq + 1
  | _, _ => 0

def optimizeFuel (ds : Dataset) (j : List JStep) : Nat := (j.map legHops).sum + ds.nStops + 2

def optimizeJourney (ds : Dataset) (j : List JStep) : Option OptState :=
  optimizeLoop ds (optimizeFuel ds j) { journey := j }

/-! ### emission (`reverse_journey.cpp:78-262`) -/

structure EAcc where
  totalIVT : Int := 0
  totalWalk : Int := 0
  totalWait : Int := 0
  totalTransferWalk : Int := 0
  totalTransferWait : Int := 0
  totalDist : Int := 0
  totalIVD : Int := 0
  totalWalkDist : Int := 0
  totalTransferDist : Int := -1
  accessDist : Int := 0
  egressDist : Int := 0
  transferArr : Int := -1
  arrival : Int := -1
  numTransfers : Int := -1
  accessWalk : Int := -1
  egressWalk : Int := -1
  accessWait : Int := -1
  steps : List Step := []

def sumRange (l : List Int) (a b : Nat) : Int := ((l.drop a).take (b + 1 - a)).sum   -- Σ l[a..b]

/-- one journey step at index `i` of `n`; `next` is `journey[i+1]` -/
def emitStep (ds : Dataset) (mwDflt bestDep : Int) (n : Nat) (a : EAcc) (i : Nat) (js : JStep) (next : Option JStep) : EAcc :=
  let nextWait : Int := match next with
    | some nx => match nx.enter with
      | some e => e.effWait mwDflt
      | none => 0
    | none => 0
  match js.enter, js.exit with
  | some e, some x =>
    let trip := e.trip
    let ivt := x.arr - e.dep
    let wait := e.dep - a.transferArr
    let tArr := x.arr + js.walk
    let ready := tArr + nextWait
    let transferable := ds.transferable trip
    let dists := (ds.pathOfTrip trip).dist
    let hasDist := decide (x.seq - 1 < dists.length)
    let ivd : Int := if hasDist then sumRange dists (e.seq - 1) (x.seq - 1) else -1
    let a1 : EAcc := { a with
      totalIVT := a.totalIVT + ivt, totalWait := a.totalWait + wait,
      numTransfers := if transferable then a.numTransfers else a.numTransfers + 1,
      transferArr := tArr, arrival := x.arr }
    let a2 : EAcc := if hasDist then
        if transferable then
          { a1 with totalDist := a1.totalDist + ivd, totalWalkDist := a1.totalWalkDist + ivd,
                    totalWalk := a1.totalWalk + ivt, totalTransferDist := a1.totalTransferDist + ivd,
                    totalTransferWalk := a1.totalTransferWalk + ivt }
        else { a1 with totalDist := a1.totalDist + ivd, totalIVD := a1.totalIVD + ivd }
      else { a1 with totalDist := -1, totalIVD := -1 }
    let a3 : EAcc := if i = 1 then { a2 with accessWait := wait } else { a2 with totalTransferWait := a2.totalTransferWait + wait }
    let a4 : EAcc := { a3 with steps := a3.steps ++ [Step.board trip e.seq e.depStop e.dep wait,
                                                      Step.unboard trip x.seq x.arrStop x.arr ivt ivd] }
    if i + 2 < n then
      { a4 with totalTransferWalk := a4.totalTransferWalk + js.walk, totalWalk := a4.totalWalk + js.walk,
                totalDist := if a4.totalDist ≠ -1 then a4.totalDist + js.dist else a4.totalDist,
                totalWalkDist := a4.totalWalkDist + js.dist, totalTransferDist := a4.totalTransferDist + js.dist,
                steps := a4.steps ++ [Step.walk 1 js.walk js.dist x.arr tArr ready] }
    else a4
  | _, _ =>
    let a1 : EAcc := { a with totalDist := if a.totalDist ≠ -1 then a.totalDist + js.dist else a.totalDist,
                              totalWalkDist := a.totalWalkDist + js.dist }
    if i = 0 then
      let tArr := bestDep + js.walk
      { a1 with transferArr := tArr, totalWalk := a1.totalWalk + js.walk, accessWalk := js.walk, accessDist := js.dist,
                steps := a1.steps ++ [Step.walk 0 js.walk js.dist bestDep tArr (tArr + nextWait)] }
    else
      { a1 with totalWalk := a1.totalWalk + js.walk, egressWalk := js.walk, transferArr := a1.arrival + js.walk,
                egressDist := js.dist, arrival := a1.arrival + js.walk,
                steps := a1.steps ++ [Step.walk 2 js.walk js.dist a1.arrival (a1.arrival + js.walk) 0] }

def emitLoop (ds : Dataset) (mwDflt bestDep : Int) (n : Nat) : List JStep → Nat → EAcc → EAcc
  | [], _, a => a
  | js :: rest, i, a => emitLoop ds mwDflt bestDep n rest (i+1) (emitStep ds mwDflt bestDep n a i js rest.head?)

def emit (ds : Dataset) (mwDflt bestDep : Int) (journey : List JStep) : Route :=
  let a := emitLoop ds mwDflt bestDep journey.length journey 0 {}
  { departureTime := bestDep, arrivalTime := a.arrival, totalTravelTime := a.arrival - bestDep,
    totalDistance := a.totalDist, totalInVehicleTime := a.totalIVT, totalInVehicleDistance := a.totalIVD,
    totalNonTransitTravelTime := a.totalWalk, totalNonTransitDistance := a.totalWalkDist,
    numberOfBoardings := a.numTransfers + 1,
    numberOfTransfers := if a.numTransfers = -1 then 0 else a.numTransfers,
    transferWalkingTime := a.totalTransferWalk, transferWalkingDistance := a.totalTransferDist,
    accessTravelTime := a.accessWalk, accessDistance := a.accessDist,
    egressTravelTime := a.egressWalk, egressDistance := a.egressDist,
    transferWaitingTime := a.totalTransferWait, firstWaitingTime := a.accessWait,
    totalWaitingTime := a.totalWait, steps := a.steps }

end Tr
